"""C10, round 12: streams tied to the regenerated write-set facts (coq/Gen/InstWrites.v, coq/Inst/Writes.v, LazyCell.v).

1. held_class_tie        - the hypothesis `typed` of C10_parse_paths_write_only_per_call_objects evaluated on the implementation:
                           every lark class with an instance in the object graph of a Lark instance is in Writes.held_classes.
2. shaping_history_stream - systematic family of grammars whose tree-shaping callbacks (ChildFilter*, ExpandSingleChild,
                           PropagatePositions, AmbiguousExpander ...) do something for every reduction: inlined `_rules` made of
                           optionals / repetitions / plain tokens at the first, middle and last position of their parent, once or
                           repeated, x maybe_placeholders x parser x keep_all_tokens x propagate_positions; histories of
                           parse / interactive session / scan; every result is compared with a fresh instance AND every earlier
                           result is re-read after every later call (a tree handed out must never change); the callback objects are
                           in the object-graph snapshots.
3. lazy_cell_stream      - every lazily initialised attribute the translator finds in lark is run by 2-3 threads under all
                           interleavings of its lines on the implementation and compared with Inst/LazyCell.v by vm_compute
                           (values for the value cells, object identities for Tree.meta: the refuted identity race is replayed).
4. shared_store_stream   - the lines of every function that stores into an object the instance may hold (regenerated list; the
                           lexer cells have their own model and stream) become scheduling points of the baton scheduler: all
                           engines, two threads with different texts of the same shape, pre-emption bounded enumeration.
"""
import ast
import functools
import inspect
import json
import os
import re
import sys
import threading
import time

from lib import coq_list as L, VERIF, REPO

import props.C10 as base

IMPORTS = 'From LV Require Import Inst.LazyCell.'


def N(n):
    return '%d%%nat' % n


# =====================================================================================================
# 1. held classes
# =====================================================================================================
def held_classes():
    src = open(os.path.join(VERIF, 'coq', 'Inst', 'Writes.v')).read()
    m = re.search(r'Definition held_classes : list string :=\s*\[(.*?)\]\.', src, re.S)
    return set(re.findall(r'"([^"]+)"', m.group(1))) if m else set()


def lark_class_name(t):
    """nearest ancestor defined in lark.* (user subclasses count as their lark base)"""
    for c in t.__mro__:
        if getattr(c, '__module__', '').startswith('lark'):
            return c.__name__
    return None


def graph_children(o):
    out = list(base.children(o))
    if isinstance(o, functools.partial):
        out += [(('attr', 'func'), o.func), (('attr', 'args'), o.args), (('attr', 'keywords'), o.keywords)]
    if inspect.ismethod(o):
        out.append((('attr', '__self__'), o.__self__))
    if inspect.isfunction(o) and o.__closure__:
        for i, c in enumerate(o.__closure__):
            try:
                out.append((('cell', i), c.cell_contents))
            except ValueError:
                pass
    return out


def reachable_lark_classes(inst, cap=80000):
    seen, out, stack = set(), {}, [inst]
    while stack and len(seen) < cap:
        o = stack.pop()
        if id(o) in seen or isinstance(o, base.ATOMS) or isinstance(o, type) or inspect.ismodule(o):
            continue
        seen.add(id(o))
        t = type(o)
        if t.__module__ in ('re', '_sre'):
            continue
        n = lark_class_name(t)
        if n is not None:
            out[n] = out.get(n, 0) + 1
        for _, v in graph_children(o):
            stack.append(v)
    return out


def held_class_tie(ctx, instances):
    held = held_classes()
    if not held:
        ctx.violation('correspondence:held-classes', {'no_longer_checks': 'Writes.held_classes not found'}, False,
                      'coq/Inst/Writes.v: Definition held_classes not found')
        return
    for label, inst in instances:
        cl = reachable_lark_classes(inst)
        ctx.count('held-classes', key=(label, tuple(sorted(cl))), nontrivial=True)
        extra = sorted(set(cl) - held)
        if extra:
            ctx.violation('correspondence:held-classes',
                          {'no_longer_checks': 'hypothesis `typed` of C10_parse_paths_write_only_per_call_objects', 'instance': label,
                           'classes': extra}, False,
                          '%s: objects of class %s are reachable from the instance but Writes.held_classes does not list them '
                          '(stores in their methods were judged per-call)' % (label, ', '.join(extra)))
            return


# =====================================================================================================
# 2. tree-shaping callbacks under histories
# =====================================================================================================
BODIES = {
    'allopt': '[P] [S]',          # an empty alternative that yields placeholders only
    'mixed': '[P] S',
    'star': 'P*',
    'plain': 'P S',
    'optgroup': '[P S]',
}
POSITIONS = {
    'first': '_inl NAME',
    'middle': 'NAME _inl NAME',
    'last': 'NAME _inl',
    'only': '_inl',
}
SHAPE_TMPL = '''
start: %(top)s
stmt: %(items)s
_inl: %(body)s
?wrap: NAME | "(" NAME NAME ")"
P: "P"
S: "S"
NAME: /[a-z]+/
%%ignore " "
'''


def shape_grammar(body, pos, multi, q):
    items = POSITIONS[pos]
    if q:
        items = items.replace('NAME', 'wrap', 1)
    if multi:
        return SHAPE_TMPL % dict(top='(stmt ";")+', items=items, body=BODIES[body])
    return SHAPE_TMPL % dict(top='stmt', items=items, body=BODIES[body])


def shape_texts(body, pos, multi, q):
    """statements with every subset of the optional tokens"""
    inl = {'allopt': ['', 'P', 'S', 'P S'], 'mixed': ['S', 'P S'], 'star': ['', 'P', 'P P P'], 'plain': ['P S'],
           'optgroup': ['', 'P S']}[body]
    names = ['x', 'yy', 'zed', 'q']
    stmts = []
    for k, i in enumerate(inl):
        a, b = names[k % 4], names[(k + 1) % 4]
        if q and k % 2:
            a = '( %s %s )' % (a, b)
        st = {'first': '%s %s' % (i, b) if not q else '%s %s' % (i, a), 'middle': '%s %s %s' % (a, i, b), 'last': '%s %s' % (a, i),
              'only': i}[pos]
        stmts.append(' '.join(st.split()))
    if multi:
        out = [s + ' ;' for s in stmts]
        out.append(' ; '.join(stmts) + ' ;')
        out.append(' ; '.join(reversed(stmts)) + ' ;')
        return [t for t in out]
    return stmts


def shape_cases():
    """(id, grammar, options, texts, ops) - the whole family, every run"""
    out = []
    for body in sorted(BODIES):
        for pos in sorted(POSITIONS):
            if pos == 'only' and body in ('allopt', 'star', 'optgroup'):
                pass                                         # an empty statement: still a sentence of `stmt`
            for multi in (False, True):
                if pos == 'only' and body in ('allopt', 'star', 'optgroup') and multi:
                    continue                                 # (stmt ";")+ with an empty stmt is fine, but keep the family small
                for parser, lexer in (('lalr', 'contextual'), ('lalr', 'basic'), ('earley', 'dynamic'), ('earley', 'basic')):
                    for mp in (True, False):
                        opts = dict(parser=parser, lexer=lexer, maybe_placeholders=mp)
                        q = (len(out) % 3 == 1) and pos != 'only'
                        k = len(out)
                        if k % 4 == 2:
                            opts['keep_all_tokens'] = True
                        if k % 5 == 3:
                            opts['propagate_positions'] = True
                        if parser == 'earley' and k % 6 == 4:
                            opts['ambiguity'] = 'explicit'
                        out.append(('%s/%s/%s/%s-%s/mp%d/%d' % (body, pos, 'multi' if multi else 'one', parser, lexer, mp, k),
                                    shape_grammar(body, pos, multi, q), opts, shape_texts(body, pos, multi, q)))
    return out


def shape_op(inst, kind, text):
    try:
        if kind == 'parse':
            return inst.parse(text)
        if kind == 'inter':
            ip = inst.parse_interactive(text)
            ip.exhaust_lexer()
            return ip.feed_eof()
        if kind == 'scan':
            return [(m.range, m.value) for m in inst.scan(text)]
        if kind == 'inter-abandon':
            ip = inst.parse_interactive(text)
            for i, _ in enumerate(ip.iter_parse()):
                if i >= 1:
                    break
            return None
    except Exception as e:  # noqa
        return e
    raise ValueError(kind)


def canon_result(r):
    if isinstance(r, Exception):
        return ['err', base.cerr(r)]
    if isinstance(r, list):
        return ['scan', [[list(rg), base.ctree(v)] for rg, v in r]]
    if r is None:
        return None
    return ['tree', ctree_meta(r)]


def ctree_meta(x):
    """trees with the positions PropagatePositions stored (they are written through res.meta)"""
    from lark import Tree
    if isinstance(x, Tree):
        m = x.__dict__.get('_meta')
        pos = None if m is None else [getattr(m, a, None) for a in ('line', 'column', 'end_line', 'end_column', 'start_pos', 'end_pos')]
        return ['T', str(x.data), pos, [ctree_meta(c) for c in x.children]]
    return base.ctree(x)


_SHAPE_FRESH = {}


def shape_fresh(cid, g, opts, kind, text):
    key = (cid, kind, text)
    if key not in _SHAPE_FRESH:
        import lark
        _SHAPE_FRESH[key] = canon_result(shape_op(lark.Lark(g, **opts), kind, text))
    return _SHAPE_FRESH[key]


def run_shape_history(cid, g, opts, calls, frames=False):
    """-> (problem or None, number of calls run); a problem is a dict (replayable witness)"""
    import lark
    inst = lark.Lark(g, **opts)
    kept = []                     # (index, kind, text, live result, canonical result when it was returned)
    for i, (kind, text) in enumerate(calls):
        snap = base.snapshot(inst) if frames else None
        r = shape_op(inst, kind, text)
        c = canon_result(r)
        exp = shape_fresh(cid, g, opts, kind, text)
        w = {'kind': 'shaping', 'case': cid, 'grammar': g, 'options': opts, 'calls': calls[:i + 1]}
        if c != exp:
            return dict(w, what='result', result_after_history=c, result_on_fresh_instance=exp,
                        detail='call %d %s(%r) after the history differs from the same call on a fresh instance' % (i, kind, text)), i + 1
        kept.append((i, kind, text, r, c))
        for j, k2, t2, live, c0 in kept[:-1]:
            if canon_result(live) != c0:
                return dict(w, what='earlier-result', earlier_call=j, result_when_returned=c0, result_now=canon_result(live),
                            detail='the result returned by call %d %s(%r) changed after call %d %s(%r)' % (j, k2, t2, i, kind, text)), i + 1
        if snap is not None:
            m = base.frame_violation(snap, base.snapshot(inst))
            if m:
                return dict(w, what='frame', detail='call %d %s(%r): %s' % (i, kind, text, m)), i + 1
    return None, len(calls)


def shaping_history_stream(ctx):
    rng = ctx.rng
    cases = shape_cases()
    ncalls = 0
    reported = 0
    for ci, (cid, g, opts, texts) in enumerate(cases):
        kinds = ['parse', 'parse', 'parse', 'inter'] + (['scan', 'inter-abandon'] if opts['parser'] == 'lalr' else [])
        # systematic part: every text twice in a row and once more at the end (a second reduction of the same alternative on
        # the same instance), then a seeded shuffle with the other kinds of call
        calls = []
        for t in texts:
            calls += [('parse', t), ('parse', t)]
        calls += [(rng.choice(kinds), rng.choice(texts)) for _ in range(ctx.scale(3, 12))]
        calls += [('parse', t) for t in texts]
        frames = ci % 7 == 0 or ctx.thorough()
        try:
            problem, n = run_shape_history(cid, g, opts, calls, frames)
        except Exception as e:  # noqa  (a grammar of the family that lark rejects is a harness bug, not a finding)
            ctx.violation('correspondence:shaping-family', {'no_longer_checks': 'shaping family case ' + cid, 'error': repr(e)[:300]},
                          False, '%s: %r' % (cid, e))
            continue
        ncalls += n
        ctx.count('shaping-histories', key=(cid, json.dumps(calls)), nontrivial=True, shaping_parser=opts['parser'],
                  shaping_placeholders=opts['maybe_placeholders'])
        if problem and reported < 3:
            reported += 1
            det = problem.pop('detail')
            if problem['what'] == 'frame':
                # state changed outside the modelled cells: look for a call that shows it
                found = None
                for t in texts:
                    p2, _ = run_shape_history(cid, g, opts, calls[:n] + [('parse', t)] * 2)
                    if p2 and p2['what'] != 'frame':
                        found = p2
                        break
                if found:
                    d2 = found.pop('detail')
                    ctx.violation('history-frame+oracle', found, True, det + '; ' + d2)
                else:
                    ctx.violation('correspondence:frame', dict(problem, no_longer_checks='frame condition (callback objects)'), False, det)
            else:
                ctx.violation('history-oracle', problem, True, '%s: %s' % (cid, det))
    ctx.extra['shaping_calls'] = ncalls


def replay_shaping(w):
    problem, _ = run_shape_history(w['case'], w['grammar'], w['options'], [tuple(c) for c in w['calls']])
    if problem:
        print(problem.get('detail'))
        for k in ('result_after_history', 'result_on_fresh_instance', 'result_when_returned', 'result_now'):
            if k in problem:
                print('%-26s %s' % (k, json.dumps(problem[k])[:300]))
    return problem is not None and problem['what'] != 'frame'


# =====================================================================================================
# generic baton scheduler (the machinery of C10.Sched with an observation callback)
# =====================================================================================================
def _stmt_table(fn, want):
    """{line: (first line of the statement, kind)} for the simple statements / compound-statement headers of fn for which
    want(text, head) returns a kind (not None)"""
    src, first = inspect.getsourcelines(fn)
    tree = ast.parse(base._dedent(src))
    table = {}
    for node in ast.walk(tree):
        if not isinstance(node, ast.stmt) or isinstance(node, (ast.FunctionDef, ast.ClassDef)):
            continue
        body = getattr(node, 'body', None)
        if isinstance(body, list) and body and isinstance(body[0], ast.stmt):
            lo, hi = node.lineno, body[0].lineno - 1
            head = ast.unparse(node).split('\n')[0]
        else:
            lo, hi = node.lineno, node.end_lineno
            head = ast.unparse(node).replace('\n', ' ')
        text = ' '.join(l.split('#')[0] for l in src[lo - 1:hi])
        kind = want(text, head)
        if kind is None:
            continue
        for ln in range(lo, hi + 1):
            table[first + ln - 1] = (first + lo - 1, kind)
    return table


class GSched(base.Sched):
    def __init__(self, points, observer):
        super().__init__(points)
        self.build_code = None
        self.observer = observer

    def observe(self, tid, frame, kind):
        return (tid, kind, self.observer(frame, kind)), None


def g_run(make_jobs, points, observer, prefix, policy='stay'):
    ctxobj, fns = make_jobs()
    s = GSched(points, observer)
    cur = [None]

    def choose(live, i):
        if i < len(prefix) and prefix[i] in live:
            t = prefix[i]
        elif policy == 'stay' and cur[0] in live:
            t = cur[0]
        else:
            t = live[0]
        cur[0] = t
        return t
    results = s.run(fns, choose)
    return ctxobj, s, results


def g_enumerate(make_jobs, points, observer, max_preempt=None, limit=None):
    stack = [[]]
    n = 0
    while stack:
        prefix = stack.pop()
        ctxobj, s, results = g_run(make_jobs, points, observer, prefix)
        sched = list(s.sched)
        n += 1
        yield ctxobj, s, results, sched
        if s.hung or (limit is not None and n >= limit):
            return
        for i in range(len(sched) - 1, len(prefix) - 1, -1):
            for alt in s.live_sets[i]:
                if alt != sched[i]:
                    cand = sched[:i] + [alt]
                    if max_preempt is not None and base.preemptions(cand, s.live_sets[:i + 1]) > max_preempt:
                        continue
                    stack.append(cand)


# =====================================================================================================
# 3. lazily initialised attributes
# =====================================================================================================
def _lazy_factories():
    """(class, attribute) -> (make object, getter, compare identities?)"""
    import lark
    from lark.lexer import PatternRE, Token
    from lark.exceptions import UnexpectedToken

    def lexer():
        return base.basic_lexers(base.make_instance('flat_lexonly'))[0][1]
    return {
        ('BasicLexer', '_scanner'): (lexer, lambda o: o.scanner, False),
        ('BasicLexer', '_search_scanner'): (lexer, lambda o: o.search_scanner, False),
        ('PatternRE', '_width'): (lambda: PatternRE('ab?c+'), lambda o: o._get_width(), False),
        ('Tree', '_meta'): (lambda: lark.Tree('x', []), lambda o: o.meta, True),
        ('UnexpectedToken', '_accepts'): (lambda: UnexpectedToken(Token('A', 'a'), {'B'}), lambda o: o.accepts, False),
    }


def lazy_cells_of_source():
    sys.path.insert(0, os.path.join(VERIF, 'translator'))
    import gen_instwrites
    uni = gen_instwrites.Universe(REPO)
    return gen_instwrites.lazy_cells(uni)


def _resolve_function(fid):
    """'lark/lexer.py:BasicLexer.scanner' -> the function object"""
    rel, qual = fid.split('#')[0].split(':')
    mod = __import__(rel[:-3].replace('/', '.'), fromlist=['x'])
    o = mod
    for part in qual.split('.'):
        o = inspect.getattr_static(o, part) if inspect.isclass(o) else getattr(o, part)
    if isinstance(o, property):
        o = o.fget
    if isinstance(o, (staticmethod, classmethod)):
        o = o.__func__
    return o


def lazy_points(fn, attr):
    pat = re.compile(r'\bself\.%s\b' % re.escape(attr))

    def want(text, head):
        if not pat.search(text):
            return None
        if re.match(r'^if self\.%s is ' % re.escape(attr), head):
            return 0
        if re.match(r'^self\.%s = ' % re.escape(attr), head):
            return 1
        if re.match(r'^return self\.%s$' % re.escape(attr), head):
            return 2
        return 9
    return {fn.__code__: _stmt_table(fn, want)}


def lazy_cell_stream(ctx):
    rng = ctx.rng
    facts = lazy_cells_of_source()
    factories = _lazy_factories()
    cases, meta = [], []
    races = 0
    for fid, cls, attr, builder, reread, only in facts:
        if (cls, attr) not in factories:
            ctx.violation('correspondence:lazy-cells', {'no_longer_checks': 'interleavings of a lazily initialised attribute',
                                                        'function': fid, 'attribute': attr}, False,
                          '%s lazily initialises self.%s: no interleaving run for it (and Writes.lazy_table must list it)' % (fid, attr))
            continue
        make, getter, ids = factories[(cls, attr)]
        fn = _resolve_function(fid)
        points = lazy_points(fn, attr)
        unknown = [ln for ln, (_, k) in list(points.values())[0].items() if k == 9]
        if unknown or not reread:
            ctx.violation('correspondence:lazy-cells', {'no_longer_checks': 'shape of the lazy initialisation', 'function': fid,
                                                        'lines': unknown}, False,
                          '%s: lines %s access self.%s in a way Inst/LazyCell.v does not model' % (fid, unknown, attr))
            continue
        sentinel_none = [True]

        def observer(frame, kind, attr=attr):
            v = frame.f_locals['self'].__dict__.get(attr, None)
            return v

        plans = [([1, 1], None, None), ([2, 1], 2, ctx.scale(6, 400)), ([1, 1, 1], 2, ctx.scale(6, 300))]
        for calls, bound, limit in plans:
            def make_jobs(calls=calls):
                o = make()
                keep = []

                def job(n):
                    def run():
                        out = []
                        for _ in range(n):
                            v = getter(o)
                            keep.append(v)
                            out.append(v)
                        return out
                    return run
                return (o, keep), [job(n) for n in calls]
            for (o, keep), s, results, sched in g_enumerate(make_jobs, points, observer, bound, limit):
                if s.hung or any(r[0] != 'ok' for r in results):
                    ctx.violation('schedule-oracle', {'kind': 'lazy-schedule', 'function': fid, 'calls': calls, 'schedule': sched,
                                                      'results': [r[:2] if r[0] != 'ok' else 'ok' for r in results]}, True,
                                  '%s under schedule %s: a getter call raised / hung: %s' % (fid, sched, [r for r in results if r[0] != 'ok'][:1]))
                    break
                # identities in order of first appearance in the cell = index of the build
                order = []
                sentinel = None

                def is_set(v):
                    return v is not None and type(v).__name__ != '_NoValue' and v is not sentinel
                first_obs = s.log[0][2] if s.log else None
                sentinel = first_obs                      # the cell's initial content (None or a sentinel object)
                for _, _, v in s.log:
                    if v is not sentinel and not any(v is x for x in order):
                        order.append(v)
                final = o.__dict__.get(attr, None)
                if final is not sentinel and not any(final is x for x in order):
                    order.append(final)

                def ident(v):
                    for k, x in enumerate(order):
                        if v is x:
                            return k + 1
                    return 0 if v is sentinel else len(order) + 1
                log = [(t, k, v is not sentinel) for t, k, v in s.log]
                res = [[ident(v) for v in r[1]] for r in results]
                # value oracle (C10_lazy_cells_value_safe on the implementation): every call returns what a lone call returns
                alone = getter(make())
                for t, r in enumerate(results):
                    for v in r[1]:
                        same = (v is not None and type(v) is type(alone)) if ids else (base.scanner_sig(v) == base.scanner_sig(alone)
                                                                                     if cls == 'BasicLexer' else v == alone)
                        if not same:
                            ctx.violation('schedule-oracle', {'kind': 'lazy-schedule', 'function': fid, 'calls': calls,
                                                              'schedule': sched, 'thread': t}, True,
                                          '%s under schedule %s: thread %d got %r, a lone call gets %r' % (fid, sched, t, v, alone))
                if ids and len(order) > 1:
                    races += 1
                ctx.count('lazy-cell-schedules', key=(fid, tuple(calls), tuple(sched)), nontrivial=True, lazy_cell='%s.%s' % (cls, attr))
                cases.append('(mkLC %s %s %s %s %s %s)' % (
                    L([N(c) for c in calls]), L([N(t) for t in sched]),
                    L(['(%s, %s, %s)' % (N(t), N(k), 'true' if b else 'false') for t, k, b in log]),
                    L([L([N(i) for i in r]) for r in res]),
                    'None' if final is sentinel else '(Some %s)' % N(ident(final) - 1), 'true' if ids else 'false'))
                meta.append((fid, calls, sched))
    if ('Tree', '_meta') in factories and not races and any(f[1] == 'Tree' for f in facts):
        ctx.violation('correspondence:lazy-identity-race', {'no_longer_checks': 'replay of C10_lazy_identity_race_refuted on Tree.meta'},
                      False, 'no interleaving of two threads on Tree.meta produced two Meta objects: the refuted model no longer '
                             'describes the code')
    bad, errs = ctx.coq_bad_indices('c10lz', IMPORTS, 'check_lazy', cases, chunk=400)
    for e in errs:
        ctx.violation('correspondence:coq-eval', {'no_longer_checks': 'model evaluation (lazy cells)', 'error': e}, False, e[:300])
    for i in bad[:3]:
        fid, calls, sched = meta[i]
        ctx.violation('correspondence:Inst/LazyCell.lrun vs lark under the line scheduler',
                      {'no_longer_checks': 'model/implementation agreement on a lazily initialised attribute', 'function': fid,
                       'calls': calls, 'schedule': sched}, False,
                      '%s, calls %s, schedule %s: the observed cell states / returned objects differ from the model' % (fid, calls, sched))
    ctx.extra['lazy_cells'] = ['%s.%s' % (c, a) for _, c, a, _, _, _ in facts]
    ctx.extra['lazy_identity_races_observed'] = races


# =====================================================================================================
# 4. stores into objects the instance may hold, as scheduling points
# =====================================================================================================
COVERED_ELSEWHERE = {('BasicLexer', '_scanner'), ('BasicLexer', 'callback'),         # Inst/Threads.v + schedule_stream
                     ('BasicLexer', '_search_scanner'),                            # lazy_cell_stream + scan threads below
                     ('Indenter', 'paren_level'), ('Indenter', 'indent_level'),      # stateful post-lexer: excluded by the property
                     ('Tree', 'children'), ('Tree', '_meta')}                        # value objects of one call

G_TEXTS = {
    # two texts of the same shape: the same terminals at the same positions, different characters
    'flat': [('ab 12 ( x )', 'cd 34 ( y )'), ('if ab', 'if cd'), ('ab 1', 'x ( 2 )')],
}
G_CONFIGS = {
    'earley_dyn': ('flat_earley_dyn', 'parse'), 'earley_basic': ('flat_earley_basic', 'parse'), 'cyk': ('flat_cyk', 'parse'),
    'lalr_ctx': ('flat_ctx', 'parse'), 'lalr_basic_lex': ('flat_basic', 'lex'), 'lalr_scan': ('flat_basic_nocb', 'scan'),
}


def g_job(inst, how, text):
    if how == 'scan':
        return lambda: [[list(m.range), base.ctree(m.value)] for m in inst.scan(text)]
    return base.thread_job(inst, how, text)


_GSEQ = {}


def g_sequential(gid, text):
    if (gid, text) not in _GSEQ:
        cid, how = G_CONFIGS[gid]
        try:
            _GSEQ[(gid, text)] = ['ok', g_job(base.make_instance(cid), how, text)()]
        except BaseException as e:  # noqa
            _GSEQ[(gid, text)] = ['exc', type(e).__name__, str(e)[:100]]
    return _GSEQ[(gid, text)]


def shared_store_sites():
    sys.path.insert(0, os.path.join(VERIF, 'translator'))
    import gen_instwrites
    held = held_classes()
    out = []
    for rel, cls, fn, attr, fam in gen_instwrites.shared_store_sites(REPO):
        if (cls, attr) in COVERED_ELSEWHERE or not (set(fam) & held):
            continue
        out.append((rel, cls, fn, attr))
    return sorted(set(out))


def store_points(sites):
    points = {}
    byfn = {}
    for rel, cls, fn, attr in sites:
        byfn.setdefault((rel, cls, fn), set()).add(attr)
    for (rel, cls, fn), attrs in byfn.items():
        try:
            f = _resolve_function('%s:%s.%s' % (rel, cls, fn))
        except Exception:  # noqa
            continue
        pat = re.compile(r'\bself\.(%s)\b' % '|'.join(re.escape(a) for a in sorted(attrs)))
        tab = _stmt_table(f, lambda text, head: 0 if pat.search(text) else None)
        if tab:
            points[f.__code__] = tab
    return points


def shared_store_stream(ctx):
    sites = shared_store_sites()
    points = store_points(sites)
    ctx.extra['shared_store_sites'] = ['%s:%s.%s self.%s' % s for s in sites]
    total = 0
    for gid in sorted(G_CONFIGS):
        cid, how = G_CONFIGS[gid]
        for texts in G_TEXTS['flat']:
            texts = list(texts)
            seq = [g_sequential(gid, t) for t in texts]

            def make_jobs(texts=texts):
                inst = base.make_instance(cid)
                return inst, [g_job(inst, how, t) for t in texts]
            n = 0
            for inst, s, results, sched in g_enumerate(make_jobs, points, lambda frame, kind: None, 2,
                                                       ctx.scale(12, 250) * (6 if ctx.widen else 1)):
                n += 1
                total += 1
                ctx.count('shared-store-schedules', key=(gid, tuple(texts), tuple(sched)), nontrivial=len(sched) > 0, engine=gid)
                bad = None
                for t, (r, sq) in enumerate(zip(results, seq)):
                    if r != sq:
                        bad = (t, r, sq)
                        break
                if bad:
                    t, r, sq = bad
                    ctx.violation('schedule-oracle', {'kind': 'gschedule', 'config': gid, 'texts': texts, 'schedule': sched, 'thread': t,
                                                      'result': r, 'sequential_result': sq, 'sites': ctx.extra['shared_store_sites']}, True,
                                  '%s: thread %d under schedule %s (switches at the lines that store into %s) returns %s, alone on a fresh '
                                  'instance %s' % (gid, t, ''.join(map(str, sched)), ', '.join('self.' + s[3] for s in sites)[:80],
                                                   str(r)[:120], str(sq)[:120]))
                    return
                if s.hung:
                    return
    ctx.extra['shared_store_schedules'] = total


def replay_gschedule(w):
    sites = shared_store_sites()
    points = store_points(sites)
    gid, texts, sched = w['config'], w['texts'], w['schedule']
    cid, how = G_CONFIGS[gid]

    def make_jobs():
        inst = base.make_instance(cid)
        return inst, [g_job(inst, how, t) for t in texts]
    inst, s, results = g_run(make_jobs, points, lambda frame, kind: None, sched)
    seq = [g_sequential(gid, t) for t in texts]
    print('scheduled :', json.dumps(results)[:400])
    print('sequential:', json.dumps(seq)[:400])
    return json.loads(json.dumps(results)) != json.loads(json.dumps(seq))
