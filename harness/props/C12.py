"""C12 - the grammar cache is only an optimisation, whatever the state of the cache file."""
import hashlib
import json
import logging
import os
import pickle
import pickletools
import pkgutil
import re
import shutil
import sys

from lib import coq_term_str as S, coq_list as L, coq_nat as N

THEOREMS = ['C12_trunc_safe', 'C12_key_mismatch_miss', 'C12_key_injective', 'C12_stale_config_miss',
            'C12_used_files_changed_miss', 'C12_body_integrity', 'C12_byte_edit_miss', 'C12_read_after_write',
            'C12_construct_spec', 'C12_history_inv', 'C12_cut_pickle_miss', 'C12_concat_framing_refuted', 'C12_unhashable_are_objects',
            'C12_unhashable_reapplied_refuted', 'C12_instance_ideal', 'C12_instance_rest', 'C12_instance_prefix_fails', 'C12_example_history',
            'C12_example_history_inv', 'C12_write_calls_file', 'C12_crash_anywhere_miss_or_correct', 'C12_crash_plain_prefix',
            'C12_crash_atomic_old', 'C12_history_crashpoints_inv', 'C12_example_history_crashpoints', 'C12_example_history_crashpoints_inv']
GEN_DEPS = ['CacheKey', 'Printable']
RULE = ('real cache files of a pool of LALR grammars (imports of local files and of the bundled common.lark, hashed and '
        'run-time options): (1) bytes written vs the model write (header = sha256 hex of the repr-framed key, space, sha256 '
        'hex of the body, newline, two pickles located with pickletools); (2) every/sampled truncation offset; (3) single-byte '
        'changes at every header offset and sampled body offsets; (4) random histories of <= 6 constructions over <= 4 '
        '(grammar, options, imported text, lark/python version) tuples on ONE path with crashes (file cut after a write); '
        'plus fixed histories: A,B,B,A for every option that reaches the key (incl. list-valued start / import_paths, source_path), '
        'edits of files imported through import_paths, relative to Lark.open, nested, and through a user FromPackageLoader '
        '(PackageResource entries of the used-files table), version / python-version / white-space changes; '
        'each construction is compared with the uncached build on probe inputs and with the model (hit/miss, file bytes); '
        'non-trivial = distinct damaged-file case, or distinct history containing both a hit and a rebuild')
TRUSTED_BASE = ['cache section of Lark.__init__, _bytes_digest, sha256_digest, verify_used_files, FS.open, Lark.save pinned by exact '
                'AST templates in translator/gen_cache.py; key framing, unhashable and _LOAD_ALLOWED_OPTIONS regenerated',
                'Python repr() of str modelled for every str (UTF-8 representation, Cache/PyRepr.v); str.isprintable is a table regenerated from the running interpreter (Gen/Printable.v)',
                'crash points replayed in-process: FS.open runs with lark.utils.open shadowed by an unbuffered file that raises a BaseException at the crash point; the atomicwrites branch runs against a stand-in package (temporary file + os.replace)',
                'executable SHA-256 of Cache/Sha256.v uses primitive 63-bit integers under vm_compute (correspondence only; '
                'the theorems are about an abstract digest)',
                'hit/miss observed by wrapping Lark._load; used files observed by wrapping lark.lark.load_grammar']
ASSUMPTIONS = ['sha256 is idealised as a collision-free fixed-length digest (prefix code) without newline',
               'pickle is a self-delimiting codec with non-empty output; for C12_cut_pickle_miss: unpickling fails on every strict prefix of a pickle',
               'okenv / resolution_stable: inside the class of file-system states considered, a construction depends on the file '
               'system only through the text of the files it records (violated on the implementation by F11, F16, F17)',
               'runtime_reapplied: options left out of the key are re-applied on load (violated by F15: edit_terminals, postlex.always_accept)',
               'operating-system model of one regular file: open(wb) truncates, write(2) lands at the writer\'s own offset (a crash leaves a prefix: now a theorem, C12_crash_plain_prefix); atomicwrites = rename on close']

IMPORTS = 'From Coq Require Import Uint63.\nFrom LV Require Import Cache.Bytes Cache.PyRepr Gen.CacheKey Cache.Cache Cache.Sha256 Cache.WritePath Cache.CacheCheck.'
UNHASHABLE = ('transformer', 'postlex', 'lexer_callbacks', 'edit_terminals', '_plugins')   # the property's own reading


# ------------------------------------------------------------------------------------------------------------
# observation of the implementation
class Probe:
    """wraps Lark._load (hit detection) and lark.lark.load_grammar (used files of a build)"""
    def __init__(self):
        import lark
        import lark.lark as LL
        lark.logger.setLevel(logging.CRITICAL + 10)
        self.lark, self.LL = lark, LL
        self.loads = []
        self.used = []
        self.orig_load = LL.Lark._load
        self.orig_lg = LL.load_grammar
        probe = self

        def _load(inst, f, **kw):
            r = probe.orig_load(inst, f, **kw)
            probe.loads.append(1)
            return r

        def load_grammar(*a, **kw):
            g, used = probe.orig_lg(*a, **kw)
            probe.used.append(dict(used))
            return g, used
        LL.Lark._load = _load
        LL.load_grammar = load_grammar
        self.version0 = lark.__version__
        self.vi0 = sys.version_info
        self.paths = []

    def close(self):
        self.LL.Lark._load = self.orig_load
        self.LL.load_grammar = self.orig_lg
        self.lark.__version__ = self.version0
        sys.version_info = self.vi0
        for p in self.paths:
            if p in sys.path:
                sys.path.remove(p)


class _VI(tuple):
    major = property(lambda s: s[0])
    minor = property(lambda s: s[1])
    micro = property(lambda s: s[2])
    releaselevel = property(lambda s: s[3])
    serial = property(lambda s: s[4])


def _mk_transformer(name):
    from lark import Transformer, Token

    class Up(Transformer):
        def __default_token__(self, t):
            return Token(t.type, t.upper())

    class Cnt(Transformer):
        def __default__(self, data, children, meta):
            return (str(data), len(children))
    return {'up': Up, 'cnt': Cnt}[name]()


def _mk_callbacks(name):
    from lark import Token
    return {'A': (lambda t: Token(t.type, t + '!'))} if name == 'bangA' else {'X': (lambda t: Token('X', '<' + t + '>'))}


def _edit_z(t):
    # module level: the option value ends up in the pickled data, a local function could not be pickled
    if t.name in ('A', 'X') and hasattr(t.pattern, 'value'):
        t.pattern.value = 'z'


def _mk_edit(name):
    return _edit_z


def _mk_postlex(name):
    class PL:
        always_accept = ('NL',)

        def process(self, stream):
            return stream
    return PL()


def _mk_tree_class(name):
    from lark import Tree

    class MyTree(Tree):
        pass
    return MyTree


def realise(spec, root, pkg='c12pkg'):
    if isinstance(spec, dict):
        if 'path' in spec:
            return os.path.join(root, spec['path'])
        if 'paths' in spec:
            return [os.path.join(root, p) for p in spec['paths']]
        if 'pkgloaders' in spec:     # import_paths=[FromPackageLoader(<scratch package>, search_paths), ...]
            from lark.load_grammar import FromPackageLoader
            return [FromPackageLoader(pkg, tuple(sp)) for sp in spec['pkgloaders']]
        if 'treeclass' in spec:
            return _mk_tree_class(spec['treeclass'])
        if 'T' in spec:
            return _mk_transformer(spec['T'])
        if 'cb' in spec:
            return _mk_callbacks(spec['cb'])
        if 'edit' in spec:
            return _mk_edit(spec['edit'])
        if 'postlex' in spec:
            return _mk_postlex(spec['postlex'])
        if 'reflag' in spec:
            return getattr(re, spec['reflag'])
        raise ValueError(spec)
    return spec


def canon(x):
    from lark import Tree, Token
    if isinstance(x, Tree):
        tag = 'tree' if type(x) is Tree else 'tree:' + type(x).__name__
        m = getattr(x, '_meta', None)
        pos = [m.line, m.column, m.end_line, m.end_column] if m is not None and not getattr(m, 'empty', True) else None
        return [tag, str(x.data), [canon(c) for c in x.children]] + ([pos] if pos else [])
    if isinstance(x, Token):
        return ['tok', str(x.type), str(x)]
    if x is None:
        return None
    if isinstance(x, (list, tuple)):
        return ['seq'] + [canon(c) for c in x]
    return ['val', repr(x)]


def behaviour(parser, probes):
    out = []
    for s in probes:
        try:
            out.append(canon(parser.parse(s)))
        except Exception as e:   # noqa
            out.append(['err', type(e).__name__, getattr(e, 'line', None), getattr(e, 'column', None)])
    return out


class World:
    """one scratch directory: imported files, the cache path, the probe"""
    def __init__(self, ctx, probe, tag):
        self.root = os.path.join(ctx.scratch, 'w_%s' % tag)
        shutil.rmtree(self.root, ignore_errors=True)
        os.makedirs(self.root)
        self.probe = probe
        self.memo = {}
        # a scratch package for imports through FromPackageLoader: `@PKG` in file names stands for it
        self.pkg = 'c12pkg_%s_%d' % (re.sub(r'\W', '_', tag), os.getpid())
        sys.modules.pop(self.pkg, None)
        self.on_path = False

    def rel(self, rel):
        return rel.replace('@PKG', self.pkg)

    def need_pkg(self):
        if not self.on_path:
            import importlib
            sys.path.insert(0, self.root)
            self.probe.paths.append(self.root)
            importlib.invalidate_caches()
            self.on_path = True

    def path(self, rel):
        if '@PKG' in rel:
            self.need_pkg()
        return os.path.join(self.root, self.rel(rel))

    def set_files(self, files):
        for rel, text in (files or {}).items():
            p = self.path(rel)
            if text is None:
                if os.path.exists(p):
                    os.remove(p)
            else:
                os.makedirs(os.path.dirname(p), exist_ok=True)
                with open(p, 'w', encoding='utf8') as f:
                    f.write(text)

    def read(self, rel):
        p = self.path(rel)
        if not os.path.exists(p):
            return None
        with open(p, 'rb') as f:
            return f.read()

    def write(self, rel, data):
        if data is None:
            if os.path.exists(self.path(rel)):
                os.remove(self.path(rel))
            return
        with open(self.path(rel), 'wb') as f:
            f.write(data)

    def snapshot(self):
        out = []
        for d, _, fs in os.walk(self.root):
            for f in sorted(fs):
                if f != 'cache.bin':
                    p = os.path.join(d, f)
                    with open(p, 'rb') as fh:
                        out.append((os.path.relpath(p, self.root), fh.read()))
        return tuple(sorted(out))

    def uncached(self, ev):
        k = (json.dumps({x: ev.get(x) for x in ('g', 'opts', 'version', 'pyver', 'open')}, sort_keys=True), self.snapshot())
        if k not in self.memo:
            if len(self.memo) > 50:
                self.memo.clear()
            u = self.construct(ev, cached=False)
            u['beh'] = behaviour(u['parser'], ev.get('probes', [])) if u['exc'] is None else None
            self.memo[k] = u
        return dict(self.memo[k])

    def construct(self, ev, cached=True):
        """returns dict(parser, exc, hit, used, items)"""
        from lark import Lark
        lark = self.probe.lark
        kw = {}
        if 'pkgloaders' in json.dumps(ev['opts']):
            self.need_pkg()
        for k, spec in ev['opts']:
            if k in ('cache', 'cache_grammar') and not cached:
                continue
            kw[k] = realise(spec, self.root, self.pkg)
        lark.__version__ = ev.get('version') or self.probe.version0
        if ev.get('pyver'):
            sys.version_info = _VI(tuple(ev['pyver']) + (0, 'final', 0))
        del self.probe.loads[:]
        del self.probe.used[:]
        res = dict(parser=None, exc=None, hit=False, used=None)
        try:
            if ev.get('open'):
                res['parser'] = Lark.open(self.path(ev['open']), **kw)
            else:
                res['parser'] = Lark(ev['g'], **kw)
        except Exception as e:   # noqa
            res['exc'] = type(e).__name__
        finally:
            lark.__version__ = self.probe.version0
            sys.version_info = self.probe.vi0
        res['hit'] = bool(self.probe.loads) and res['exc'] is None
        res['used'] = self.probe.used[-1] if self.probe.used else None
        res['items'] = [(k, str(v)) for k, v in kw.items()]
        return res


def grammar_text(world, ev):
    if ev.get('open'):
        return world.read(ev['open']).decode('utf8')
    return ev['g']


def hashed_items(items):
    return tuple((k, v) for k, v in items if k not in UNHASHABLE)


def used_key(used):
    return tuple(sorted((str(p), h) for p, h in (used or {}).items()))


def identity(world, ev, unc):
    """what the property regards as 'the same grammar and option set': text, hashed options, versions, and the text
    of the files an uncached build reads now"""
    return (grammar_text(world, ev), hashed_items(unc['items_cached']), ev.get('version') or world.probe.version0,
            tuple(ev.get('pyver') or world.probe.vi0[:2]), used_key(unc['used']), ev.get('open'))


def split_file(data):
    """header line, used-files pickle, data pickle (located with pickletools); None if not a complete file"""
    if data is None or b'\n' not in data:
        return None
    hdr, body = data.split(b'\n', 1)
    try:
        pos = None
        for op, arg, p in pickletools.genops(body):
            if op.name == 'STOP':
                pos = p + 1
                break
        if pos is None:
            return None
        pu, pd = body[:pos], body[pos:]
        end = None
        for op, arg, p in pickletools.genops(pd):
            if op.name == 'STOP':
                end = p + 1
                break
        if end != len(pd):
            return None
        return hdr, pu, pd
    except Exception:   # noqa
        return None


def path_str(p):
    if isinstance(p, str):
        return p
    return 'pkg:%s:%s' % (p.pkg_name, p.path)


def current_text(p):
    """what verify_used_files would read now (None: skipped)"""
    if isinstance(p, str):
        if os.path.exists(p):
            with open(p, encoding='utf8') as f:
                return f.read()
        return None
    try:
        return pkgutil.get_data(*p).decode('utf-8')
    except IOError:
        return None


# ------------------------------------------------------------------------------------------------------------
# running one history against the implementation, with the property's own oracle
def run_history(world, hist, cache_rel='cache.bin', owner=None):
    """hist = {'f0': hex|None, 'events': [ev...]}; ev['post'] = {'trunc': n} cuts the file after a write (crash).
    Returns (observations, problems); problems = list of (stage, detail, index).
    owner[0] = identity of the construction whose complete file is on the path (None: absent or damaged)."""
    world.write(cache_rel, bytes.fromhex(hist['f0']) if hist.get('f0') is not None else None)
    owner = owner if owner is not None else [None]
    obs, problems = [], []
    for i, ev in enumerate(hist['events']):
        world.set_files(ev.get('files'))
        before = world.read(cache_rel)
        c = world.construct(ev, cached=True)
        after = world.read(cache_rel)
        u = world.uncached(ev)
        u['items_cached'] = c['items']
        ident = identity(world, ev, u)
        if i == 0 and hist.get('f0_is_cache_of_first'):
            owner[0] = ident
        probes = ev.get('probes', [])
        o = dict(hit=c['hit'], exc=c['exc'], before=before, after=after, wrote=(after != before), crash=None,
                 items=c['items'], ident=ident, gtext=grammar_text(world, ev))
        if c['exc'] != u['exc']:
            problems.append(('exception', 'cached construction raised %s, uncached %s' % (c['exc'], u['exc']), i))
        elif c['exc'] is None:
            bc, bu = behaviour(c['parser'], probes), u['beh']
            if bc != bu:
                k = next(j for j in range(len(probes)) if bc[j] != bu[j])
                problems.append(('behaviour', 'on %r cached gives %s, uncached %s (served from cache: %s)'
                                 % (probes[k], json.dumps(bc[k])[:120], json.dumps(bu[k])[:120], c['hit']), i))
            if c['hit'] and owner[0] != ident:
                problems.append(('stale-hit', 'a file not written for this grammar/options/version/imports was loaded', i))
            if c['hit'] and after != before:
                problems.append(('hit-rewrote', 'file changed although the parser was loaded from it', i))
            if not c['hit']:
                # a stale or damaged file is replaced by a valid one
                sp = split_file(after)
                if sp is None:
                    problems.append(('not-replaced', 'after a rebuild the file is not a complete cache file', i))
                else:
                    owner[0] = ident
        post = ev.get('post')
        if post and 'trunc' in post and o['wrote'] and after is not None:
            n = min(post['trunc'], len(after))
            world.write(cache_rel, after[:n])
            o['crash'] = n
            o['complete'] = after
            if n < len(after):
                owner[0] = None
        o['final'] = world.read(cache_rel)
        obs.append(o)
    return obs, problems


def check_valid_after(world, ev, cache_rel='cache.bin'):
    """the file on the path is a valid cache for ev: the same construction again is served from it, correctly"""
    c = world.construct(ev, cached=True)
    u = world.uncached(ev)
    if c['exc'] or u['exc']:
        return c['exc'] == u['exc']
    return c['hit'] and behaviour(c['parser'], ev.get('probes', [])) == u['beh']


# ------------------------------------------------------------------------------------------------------------
# Coq literals
def LT(items, ty):
    """list literal with an explicit type when empty (the cases list is type-checked before the check function is applied)"""
    return L(items) if items else '(@nil %s)' % ty


SS = '(string * string)'


def BL(b):
    """bytes -> Coq blob literal (length, 7-byte big-endian groups as primitive integers)"""
    return '(%s, %s)' % (N(len(b)), LT(['0x' + b[i:i + 7].hex() for i in range(0, len(b), 7)], 'int') + ('%uint63' if b else ''))


def coq_cfg(world, ev, items, text=None):
    ver = ev.get('version') or world.probe.version0
    pv = repr(tuple(ev.get('pyver') or world.probe.vi0[:2]))
    return '(mk %s %s %s %s)' % (U8(text if text is not None else grammar_text(world, ev)), LT(['(%s, %s)' % (U8(k), U8(v)) for k, v in items], SS), U8(ver), S(pv))


def U8(s):
    """a Python str as the model sees it: its UTF-8 encoding (a lone surrogate as the three bytes of its code point)"""
    return S(s.encode('utf8', 'surrogatepass').decode('latin1'))


def ascii_ok(world, ev, items, text=None):
    """since round 12 the model's repr() covers every str: nothing is left out of the byte-level tie"""
    return True


class Tables:
    def __init__(self):
        self.pu, self.pd, self.paths = [], [], {}

    def add(self, data):
        sp = split_file(data)
        if sp is None:
            return None
        _, pu, pd = sp
        if pu not in self.pu:
            self.pu.append(pu)
            for p in pickle.loads(pu):
                self.paths[path_str(p)] = p
        if pd not in self.pd:
            self.pd.append(pd)
        return self.pu.index(pu), self.pd.index(pd)

    def coq_tu(self):
        out = []
        for pu in self.pu:
            u = pickle.loads(pu)
            out.append('(%s, %s)' % (BL(pu), LT(['(%s, %s)' % (U8(path_str(p)), S(h)) for p, h in u.items()], SS)))
        return LT(out, '(blob * list (string * string))')

    def coq_td(self):
        return LT([BL(pd) for pd in self.pd], 'blob')

    def fileref(self, data, complete=None):
        """Coq fileref for file content `data` (possibly a prefix of the complete file `complete`)"""
        full = complete if complete is not None else data
        sp = split_file(full)
        if sp is None or not sp[0].isascii() or not all(32 <= c < 127 for c in sp[0]):
            return '(FRaw %s)' % BL(data)
        idx = self.add(full)
        cut = 'None' if len(data) == len(full) else '(Some %s)' % N(len(data))
        return '(FParts %s %s %s %s)' % (S(sp[0].decode('ascii')), N(idx[0]), N(idx[1]), cut)

    def coq_env(self):
        out = []
        for s, p in self.paths.items():
            t = current_text(p)
            if t is not None:
                out.append('(%s, %s)' % (U8(s), U8(t)))
        return LT(out, SS)


# ------------------------------------------------------------------------------------------------------------
# case pool
IMP = {'x': 'X: "x"\n', 'y': 'X: "y"\n', 'xy': 'X: /[xy]/\n', 'X2': 'X: "x" "x"\n'}
BASE = [['parser', 'lalr'], ['cache', {'path': 'cache.bin'}]]


def pool():
    """(name, grammar, extra options, files, probes)"""
    P = []
    P.append(('ab', 'start: "a" "b"\n', [], {}, ['ab', 'a', 'abb', '']))
    P.append(('ab-keep', 'start: "a" "b"\n', [['keep_all_tokens', True]], {}, ['ab', 'a']))
    P.append(('f3a', 'start: "a" "b" //', [['keep_all_tokens', True]], {}, ['ab']))
    P.append(('f3b', 'start: "a" "b" //keep_all_tokensTrue', [], {}, ['ab']))
    P.append(('words', 'start: WORD+\nWORD: /[a-z]+/\n%ignore " "\n', [], {}, ['ab cd', 'AB', 'a  b', '']))
    P.append(('words-i', 'start: WORD+\nWORD: /[a-z]+/\n%ignore " "\n', [['g_regex_flags', {'reflag': 'I'}]], {}, ['ab cd', 'AB']))
    P.append(('imp-x', '%import x.X\nstart: X+\n', [['import_paths', {'paths': ['imp']}]], {'imp/x.lark': IMP['x']}, ['x', 'xx', 'y', 'xy']))
    P.append(('imp-y', '%import x.X\nstart: X+\n', [['import_paths', {'paths': ['imp']}]], {'imp/x.lark': IMP['y']}, ['x', 'xx', 'y', 'xy']))
    P.append(('common', '%import common.INT\n%import common.WS\n%ignore WS\nstart: INT ("," INT)*\n', [], {}, ['1,2', '1 , 22', '1,', 'a']))
    P.append(('opt', 'start: a [b] a\na: "a"\nb: "b"\n', [['maybe_placeholders', True]], {}, ['aa', 'aba', 'ab']))
    P.append(('opt-np', 'start: a [b] a\na: "a"\nb: "b"\n', [['maybe_placeholders', False]], {}, ['aa', 'aba', 'ab']))
    P.append(('two-start', 'a: "a" b\nb: "b"+\n', [['start', ['a', 'b']]], {}, []))
    P.append(('basic', 'start: A B\nA: "a"\nB: "b" | "ab"\n', [['lexer', 'basic']], {}, ['ab', 'aab', 'b']))
    P.append(('ctx', 'start: A B\nA: "a"\nB: "b" | "ab"\n', [['lexer', 'contextual']], {}, ['ab', 'aab', 'b']))
    P.append(('quote', 'start: "it\'s" | "q\\"q" | /\\t/ // \'"\n', [], {}, ["it's", 'q"q', '\t']))
    P.append(('tr', 'start: A+\nA: "a"\n', [['transformer', {'T': 'up'}]], {}, ['aa', 'b']))
    P.append(('cb', 'start: A+\nA: "a"\n', [['lexer_callbacks', {'cb': 'bangA'}]], {}, ['aa', 'b']))
    P.append(('pos', 'start: A+\nA: "a"\n', [['propagate_positions', True]], {}, ['aa', 'b']))
    # the same text resolved through different import_paths
    ab = {'impA/x.lark': IMP['x'], 'impB/x.lark': IMP['y']}
    P.append(('ip-A', '%import x.X\nstart: X+\n', [['import_paths', {'paths': ['impA']}]], ab, ['x', 'xx', 'y', 'xy']))
    P.append(('ip-B', '%import x.X\nstart: X+\n', [['import_paths', {'paths': ['impB']}]], ab, ['x', 'xx', 'y', 'xy']))
    P.append(('ip-AB', '%import x.X\nstart: X+\n', [['import_paths', {'paths': ['impB', 'impA']}]], ab, ['x', 'xx', 'y', 'xy']))
    # imports through a user FromPackageLoader (used-files entries are PackageResource, not paths), one of them nested
    pk = {'@PKG/__init__.py': '', '@PKG/grammars/base.lark': 'B: "b"\n',
          '@PKG/grammars/words.lark': '%import .base.B\nHELLO: "hello" B?\n', '@PKG/g2/words.lark': 'HELLO: "hi"\n'}
    gpk = '%import words.HELLO\n%import common.WS\n%ignore WS\nstart: HELLO+\n'
    prob = ['hello', 'hello hello', 'howdy', 'hellob', 'helloc', 'hi']
    alts = {'@PKG/grammars/words.lark': ['%import .base.B\nHELLO: "howdy" B?\n', 'HELLO: "hello"\n'],
            '@PKG/grammars/base.lark': ['B: "c"\n']}
    P.append(('pkg', gpk, [['import_paths', {'pkgloaders': [['grammars']]}]], pk, prob, alts))
    P.append(('pkg-2', gpk, [['import_paths', {'pkgloaders': [['g2']]}]], pk, prob, alts))
    return P


def option_pairs():
    """every option that reaches the cache key, with two values (where possible giving observably different parsers) on
    ONE grammar text: (option, grammar, files, probes, extra options A, extra options B)"""
    ab = {'impA/x.lark': IMP['x'], 'impB/x.lark': IMP['y']}
    pk = {'@PKG/__init__.py': '', '@PKG/grammars/words.lark': 'HELLO: "hello"\n', '@PKG/g2/words.lark': 'HELLO: "hi"\n'}
    rel = {'d1/x.lark': IMP['x'], 'd2/x.lark': IMP['y']}
    O = []
    O.append(('keep_all_tokens', 'start: "a" "b"\n', {}, ['ab'], [['keep_all_tokens', False]], [['keep_all_tokens', True]]))
    O.append(('maybe_placeholders', 'start: a [b] a\na: "a"\nb: "b"\n', {}, ['aa', 'aba'], [['maybe_placeholders', True]], [['maybe_placeholders', False]]))
    O.append(('start', 'a: "a" b\nb: "b"+\n', {}, ['ab', 'b', 'bb'], [['start', 'a']], [['start', 'b']]))
    O.append(('start', 'a: "a" b\nb: "b"+\n', {}, ['ab', 'b', 'bb'], [['start', ['a']]], [['start', ['b']]]))
    O.append(('lexer', 'start: "a" NAME\nNAME: /[a-z]+/\n', {}, ['ab', 'aab', 'a'], [['lexer', 'basic']], [['lexer', 'contextual']]))
    O.append(('g_regex_flags', 'start: WORD+\nWORD: /[a-z]+/\n%ignore " "\n', {}, ['ab', 'AB'], [['g_regex_flags', 0]], [['g_regex_flags', {'reflag': 'I'}]]))
    O.append(('import_paths', '%import x.X\nstart: X+\n', ab, ['x', 'y', 'xy'], [['import_paths', {'paths': ['impA']}]], [['import_paths', {'paths': ['impB']}]]))
    O.append(('import_paths', '%import x.X\nstart: X+\n', ab, ['x', 'y', 'xy'], [['import_paths', {'paths': ['impA', 'impB']}]], [['import_paths', {'paths': ['impB', 'impA']}]]))
    O.append(('import_paths', '%import words.HELLO\nstart: HELLO+\n', pk, ['hello', 'hi'], [['import_paths', {'pkgloaders': [['grammars']]}]], [['import_paths', {'pkgloaders': [['g2']]}]]))
    O.append(('source_path', '%import .x.X\nstart: X+\n', rel, ['x', 'y'], [['source_path', {'path': 'd1/g.lark'}]], [['source_path', {'path': 'd2/g.lark'}]]))
    O.append(('propagate_positions', 'start: a+\na: "a"\n', {}, ['aa'], [['propagate_positions', False]], [['propagate_positions', True]]))
    O.append(('priority', 'start: A | B\nA.2: "a"\nB.1: "a"\n', {}, ['a'], [['priority', 'normal']], [['priority', 'invert']]))
    O.append(('use_bytes', 'start: "a" "b"\n', {}, ['ab'], [['use_bytes', False]], [['use_bytes', True]]))
    O.append(('tree_class', 'start: "a"\n', {}, ['a'], [], [['tree_class', {'treeclass': 'MyTree'}]]))
    O.append(('strict', 'start: A | B\nA: "a"\nB: /a/\n', {}, ['a'], [['strict', False]], [['strict', True]]))
    O.append(('debug', 'start: "a"\n', {}, ['a'], [['debug', False]], [['debug', True]]))
    O.append(('ordered_sets', 'start: "a" | "b"\n', {}, ['a', 'b'], [['ordered_sets', True]], [['ordered_sets', False]]))
    O.append(('cache_grammar', 'start: "a"\n', {}, ['a'], [['cache_grammar', False]], [['cache_grammar', True]]))
    return O


# options of LarkOptions._defaults that cannot be varied under parser='lalr', cache=path (or are the call itself)
NOT_VARIED = {'parser': 'fixed: the cache needs lalr', 'cache': 'the path under test', 'ambiguity': 'earley/cyk only',
              'regex': 'needs the optional regex module'}


def mk_event(entry, order_rng=None, **kw):
    name, g, extra, files, probes = entry[:5]
    opts = [list(x) for x in BASE] + [list(x) for x in extra]
    if order_rng is not None and order_rng.random() < 0.3:
        opts = [opts[0]] + opts[2:] + [opts[1]]      # kwargs order is part of the hashed string
    ev = dict(g=g, opts=opts, files=dict(files), probes=list(probes), name=name)
    ev.update(kw)
    return ev


# ------------------------------------------------------------------------------------------------------------
def stream_write_and_damage(ctx, probe):
    rng = ctx.rng
    P = pool()
    n_files = ctx.scale(6, 8)
    chosen = P[:4] + rng.sample(P[4:], max(0, n_files - 4)) if n_files < len(P) else P
    if ctx.widen:
        chosen = P[:4] + rng.sample(P[4:], 6)
    write_cases, write_meta, read_cases, read_meta = [], [], [], []
    for fi, entry in enumerate(P):
        world = World(ctx, probe, 'wd%d' % fi)
        ev = mk_event(entry)
        obs, problems = run_history(world, {'f0': None, 'events': [ev]})
        for stage, det, i in problems:
            ctx.violation('write:' + stage, {'kind': 'history', 'hist': {'f0': None, 'events': [ev]}}, True, det)
        F = obs[0]['final']
        sp = split_file(F)
        if obs[0]['exc'] or sp is None:
            ctx.violation('write:no-file', {'kind': 'history', 'hist': {'f0': None, 'events': [ev]}}, True,
                          'construction with cache= left no complete cache file (%s)' % obs[0]['exc'])
            continue
        hdr, pu, pd = sp
        items = obs[0]['items']
        # the used-files table is what the property expects: sha256 of the text of every file the build read
        used_now = world.uncached(ev)['used']
        if pickle.loads(pu) != used_now or any(hashlib.sha256(current_text(p).encode('utf8')).hexdigest() != h
                                                for p, h in used_now.items()):
            ctx.violation('write:used-files', {'kind': 'history', 'hist': {'f0': None, 'events': [ev]}}, True,
                          'pickled used_files differ from the hashes of the imported files')
        ctx.count('write-bytes', key=(entry[0],), nontrivial=True, file_len=len(F) // 200 * 200)
        if ascii_ok(world, ev, items):
            assert F == hdr + b'\n' + pu + pd
            write_cases.append('(%s, %s, %s, %s)' % (coq_cfg(world, ev, items), S(hdr.decode('latin1')), BL(pu), BL(pd)))
            write_meta.append((entry[0], ev))
        if entry not in chosen:
            continue
        # ---- damage: truncations and single-byte changes of this file ----------------------------------
        H = len(hdr)
        edits = []
        full = ctx.thorough() or chosen.index(entry) < (2 if ctx.widen else 1)     # every small offset / header byte
        bounds = [0, 1, H - 1, H, H + 1, H + 2, H + 1 + len(pu) - 1, H + 1 + len(pu), H + 1 + len(pu) + 1, len(F) - 2, len(F) - 1]
        if ctx.thorough():
            offs = list(range(len(F)))
        else:
            small = list(range(0, H + 12)) if full else rng.sample(range(0, H + 12), 16)
            offs = sorted(set(small + bounds + rng.sample(range(H + 12, len(F)), 30 if full else 16)))
        edits += [('trunc', n, None) for n in offs if n < len(F)]
        hdr_offs = list(range(H + 1)) if full else rng.sample(range(H + 1), 16) + [H]
        flips = [(i, rng.randrange(256)) for i in hdr_offs]
        flips += [(i, 10) for i in rng.sample(range(H), 4)] + [(H, 32), (H, 48)]
        body_offs = rng.sample(range(H + 1, len(F)), min(len(F) - H - 1, ctx.scale(30 if full else 12, 400)))
        flips += [(i, rng.randrange(256)) for i in body_offs]
        flips += [(i, F[i] ^ (1 << rng.randrange(8))) for i in rng.sample(range(H + 1, len(F)), ctx.scale(8, 100))]
        edits += [('flip', i, b) for i, b in flips if F[i] != b]
        # a truncated body under a header recomputed for it: the pickles are cut, the digests agree
        body = pu + pd
        cuts = sorted(set([0, 1, len(pu) - 1, len(pu), len(pu) + 1, len(body) // 2, len(body) - 1]
                          + rng.sample(range(len(body)), ctx.scale(6, 80))))
        edits += [('rehash', n, None) for n in cuts]
        tabs = Tables()
        tabs.add(F)
        coq_obs = []
        n_coq = ctx.scale(36, 260)
        coq_pick = set(rng.sample(range(len(edits)), min(len(edits), n_coq)))
        for ei, (kind, a, b) in enumerate(edits):
            if kind == 'rehash':
                damaged = hdr[:64] + b' ' + hashlib.sha256(body[:a]).hexdigest().encode() + b'\n' + body[:a]
            else:
                damaged = F[:a] if kind == 'trunc' else F[:a] + bytes([b]) + F[a + 1:]
            hist = {'f0': damaged.hex(), 'events': [ev]}
            o, problems = run_history(world, hist)
            for stage, det, i in problems:
                ctx.violation('damage:%s:%s' % (kind, stage), {'kind': 'history', 'hist': hist}, True,
                              '%s at offset %d of the cache file of %r: %s' % (kind, a, entry[0], det))
            if not problems and o[0]['final'] != F and not check_valid_after(world, ev):
                ctx.violation('damage:%s:not-replaced' % kind, {'kind': 'history', 'hist': hist, 'then_valid': True}, True,
                              'the damaged file was not replaced by a valid cache')
            if kind == 'rehash':
                region = 'used' if a < len(pu) else 'data'
            else:
                region = 'header' if a < H else ('newline' if a == H else ('used' if a < H + 1 + len(pu) else 'data'))
            ctx.count({'trunc': 'truncation', 'flip': 'byte-change', 'rehash': 'cut-pickle-consistent-header'}[kind],
                      key=(entry[0], kind, a, b), nontrivial=True, damage_region=kind + ':' + region)
            if ei in coq_pick or kind == 'rehash':
                lit = {'trunc': '(Trunc %s)' % N(a), 'rehash': '(Rehash %s)' % N(a)}.get(kind) or '(Flip %s "%03d"%%char)' % (N(a), b)
                coq_obs.append((lit, o[0]['hit']))
        # the undamaged file, and the same file read under a configuration that differs in one hashed component
        whole = {'f0': F.hex(), 'events': [ev], 'f0_is_cache_of_first': True}
        o, problems = run_history(world, whole)
        for stage, det, i in problems:
            ctx.violation('reread:' + stage, {'kind': 'history', 'hist': whole}, True, det)
        coq_obs.append(('Whole', o[0]['hit']))
        if not o[0]['hit']:
            ctx.violation('reread:unused', {'kind': 'history', 'hist': whole, 'expect_hit': True}, True,
                          'a complete, current cache file was not used')
        if ascii_ok(world, ev, items):
            read_cases.append('(%s, %s, %s, %s, %s, %s)' % (
                coq_cfg(world, ev, items), tabs.coq_tu(), tabs.coq_td(), tabs.coq_env(), tabs.fileref(F),
                L(['(%s, %s)' % (e, 'true' if h else 'false') for e, h in coq_obs])))
            read_meta.append((entry[0], ev, F))
    ctx.sample({'stream': 'write-bytes', 'grammar': write_meta[0][1]['g'], 'options': write_meta[0][1]['opts']} if write_meta else {})
    bad, errs = ctx.coq_bad_indices('c12w', IMPORTS, 'check_write', write_cases, chunk=9)
    for e in errs:
        ctx.violation('correspondence:coq-eval', {'error': e}, False, e[:300])
    for i in bad:
        name, ev = write_meta[i]
        ctx.violation('correspondence:Cache.write vs bytes written by Lark.__init__',
                      {'no_longer_checks': 'file bytes = model write (header/key framing/digests)', 'kind': 'history',
                       'hist': {'f0': None, 'events': [ev]}}, False,
                      'the cache file of %r is not header(sha256(repr-framed key), sha256(body)) + newline + body' % name)
    bad, errs = ctx.coq_bad_indices('c12r', IMPORTS, 'check_reads', read_cases, chunk=ctx.scale(3, 2))
    for e in errs:
        ctx.violation('correspondence:coq-eval', {'error': e}, False, e[:300])
    for i in bad:
        name, ev, F = read_meta[i]
        ctx.violation('correspondence:Cache.read vs Lark.__init__ on damaged files',
                      {'no_longer_checks': 'hit/miss of the model on truncated / changed files', 'grammar': name}, False,
                      'model and implementation disagree on hit/miss for a damaged file of %r; the property oracle held' % name)


def gen_history(rng, P, wild):
    """a family of <= 4 tuples sharing grammar text or differing in one component, then <= 6 events"""
    base = rng.choice(P)
    fam = [dict(entry=base)]
    others = [e for e in P if e[1] == base[1] and e is not base]        # same text, other options
    for _ in range(rng.randint(1, 3)):
        r = rng.random()
        if r < 0.3 and others:
            fam.append(dict(entry=rng.choice(others)))
        elif r < 0.5 and base[3]:
            if len(base) > 5:
                rel = rng.choice(sorted(base[5]))
                txt = rng.choice(base[5][rel])
            else:
                rel = rng.choice(sorted(base[3]))
                txt = rng.choice(list(IMP.values()))
            fam.append(dict(entry=(base[0], base[1], base[2], dict(base[3], **{rel: txt}), base[4])))
        elif r < 0.65:
            fam.append(dict(entry=base, version=rng.choice(['1.3.0', '1.3.1.post1', '2.0'])))
        elif r < 0.75:
            fam.append(dict(entry=base, pyver=rng.choice([[3, 11], [3, 1], [31, 2]])))
        elif r < 0.9:
            fam.append(dict(entry=rng.choice(P)))
        else:
            e = base
            extra = [x for x in e[2] if x[0] not in ('transformer', 'lexer_callbacks')]
            extra.append(rng.choice([['transformer', {'T': 'up'}], ['transformer', {'T': 'cnt'}], ['lexer_callbacks', {'cb': 'bangA'}],
                                     ['debug', True], ['propagate_positions', True]]))
            fam.append(dict(entry=(e[0], e[1], extra, e[3], e[4])))
    events = []
    for _ in range(rng.randint(2, 6)):
        m = rng.choice(fam)
        kw = {k: v for k, v in m.items() if k != 'entry'}
        ev = mk_event(m['entry'], order_rng=rng, **kw)
        # every event states the text of every imported file of the family (a shared directory)
        if rng.random() < 0.3:
            ev['post'] = {'trunc': rng.choice([0, 1, 64, 65, 129, 130, 131, 140, rng.randrange(2000), rng.randrange(2000)])}
        events.append(ev)
    return {'f0': None, 'events': events}


def coq_history(world, hist, obs):
    tabs = Tables()
    for o in obs:
        for d in (o['before'], o['after'], o.get('complete')):
            if d is not None:
                tabs.add(d)
    evs = []
    for ev, o in zip(hist['events'], obs):
        if not ascii_ok(world, ev, o['items'], o['gtext']):
            return None
        built = 'None'
        if o['wrote']:
            idx = tabs.add(o.get('complete') or o['after'])
            if idx is None:
                return None
            built = '(Some (%s, %s))' % (N(idx[0]), N(idx[1]))
        elif not o['hit'] and o['exc'] is None:
            return None     # rebuilt without writing: reported by the oracle already
        crash = 'None' if o['crash'] is None else '(Some %s)' % N(o['crash'])
        after = 'None' if o['final'] is None else '(Some %s)' % tabs.fileref(o['final'], o.get('complete'))
        # the environment at the time of this event: recorded while the history ran
        evs.append('(mkHev %s %s %s %s %s %s)' % (coq_cfg(world, ev, o['items'], o['gtext']), o['env'], crash, built,
                                                 'true' if o['hit'] else 'false', after))
    f0 = '(@None fileref)' if hist.get('f0') is None else '(Some %s)' % tabs.fileref(bytes.fromhex(hist['f0']))
    return '(%s, %s, %s, %s)' % (tabs.coq_tu(), tabs.coq_td(), f0, LT(evs, 'hev'))


def stream_histories(ctx, probe):
    rng = ctx.rng
    P = pool()
    n = ctx.scale(24, 400) * (2 if ctx.widen and not ctx.thorough() else 1)
    fixed = []
    # the witnesses of F3 (repaired): option text moved into the grammar / between options
    fixed.append({'f0': None, 'events': [mk_event(P[2]), mk_event(P[3]), mk_event(P[2])]})
    e1 = mk_event(('s1', 'a: "a"\nalexerbasic: "b"\n', [['start', 'alexerbasic']], {}, ['a', 'b']))
    e2 = mk_event(('s2', 'a: "a"\nalexerbasic: "b"\n', [['start', 'a'], ['lexer', 'basic']], {}, ['a', 'b']))
    fixed.append({'f0': None, 'events': [e1, e2, e1]})
    # imported file edited between constructions; crash while rewriting; recovery
    ex, ey = mk_event(P[6]), mk_event(P[7])
    fixed.append({'f0': None, 'events': [ex, ex, dict(ey, post={'trunc': 200}), ey, ey, ex]})
    # a grammar imported through a user FromPackageLoader: the package's files are edited between constructions
    pkg = next(e for e in P if e[0] == 'pkg')
    w, b = '@PKG/grammars/words.lark', '@PKG/grammars/base.lark'
    v1 = mk_event(pkg)
    v2 = mk_event(pkg[:3] + (dict(pkg[3], **{w: pkg[5][w][0]}),) + pkg[4:])
    v3 = mk_event(pkg[:3] + (dict(pkg[3], **{b: pkg[5][b][0]}),) + pkg[4:])
    fixed.append({'f0': None, 'events': [v1, v1, v2, v2, v3, v3, v1]})
    # relative import next to a grammar file opened with Lark.open, and a nested plain-file import: edits of each
    top = '%import .x.X\nstart: X+\n'
    o1 = dict(mk_event(('open', '', [], {'d1/g.lark': top, 'd1/x.lark': IMP['x']}, ['x', 'y'])), open='d1/g.lark')
    o2 = dict(mk_event(('open', '', [], {'d1/g.lark': top, 'd1/x.lark': IMP['y']}, ['x', 'y'])), open='d1/g.lark')
    o3 = dict(mk_event(('open', '', [], {'d1/g.lark': top + '// edited\n', 'd1/x.lark': IMP['y']}, ['x', 'y'])), open='d1/g.lark')
    fixed.append({'f0': None, 'events': [o1, o1, o2, o2, o3, o1]})
    nest = ('nest', '%import x.X\nstart: X+\n', [['import_paths', {'paths': ['imp']}]],
            {'imp/x.lark': '%import .y.Y\nX: "x" Y\n', 'imp/y.lark': 'Y: "1"\n'}, ['x1', 'x2', 'x'])
    n1 = mk_event(nest)
    n2 = mk_event(nest[:3] + (dict(nest[3], **{'imp/y.lark': 'Y: "2"\n'}),) + nest[4:])
    fixed.append({'f0': None, 'events': [n1, n1, n2, n2, n1]})
    # another lark version / interpreter version / grammar text differing only in white space or a comment
    base = mk_event(P[4])
    fixed.append({'f0': None, 'events': [base, dict(base, version='1.3.0'), dict(base, version='1.3.0'), base]})
    fixed.append({'f0': None, 'events': [base, dict(base, pyver=[3, 11]), dict(base, pyver=[31, 1]), dict(base, pyver=[3, 11]), base]})
    sp = mk_event((P[4][0], P[4][1] + ' ', P[4][2], P[4][3], P[4][4]))
    cm = mk_event((P[4][0], P[4][1] + '// c\n', P[4][2], P[4][3], P[4][4]))
    fixed.append({'f0': None, 'events': [base, sp, cm, base, cm]})
    n_fixed_hist = len(fixed)
    # every option that reaches the key: A, B, B, A on one path with one grammar text
    covered = set()
    for name, g, files, probes, oa, ob in option_pairs():
        covered.add(name)
        a = mk_event((name + '-A', g, oa, files, probes))
        bb = mk_event((name + '-B', g, ob, files, probes))
        fixed.append({'f0': None, 'events': [a, bb, bb, a]})
    try:
        from lark.lark import LarkOptions
        missing = set(LarkOptions._defaults) - covered - set(UNHASHABLE) - set(NOT_VARIED)
        if missing:
            ctx.note('options of LarkOptions._defaults without an option-pair history: %s' % sorted(missing))
    except Exception:   # noqa
        pass
    cases, meta = [], []
    for hi in range(n + len(fixed)):
        wild = rng.random() < 0.2
        hist = fixed[hi] if hi < len(fixed) else gen_history(rng, P, wild)
        stream = 'histories' if hi < n_fixed_hist or hi >= len(fixed) else 'option-pairs'
        world = World(ctx, probe, 'h%d' % hi)
        obs, problems = run_history_env(world, hist)
        for stage, det, i in problems:
            ctx.violation('history:' + stage, {'kind': 'history', 'hist': {'f0': hist['f0'], 'events': hist['events'][:i + 1]}}, True,
                          'event %d of %d: %s' % (i, len(hist['events']), det))
        last = hist['events'][-1]
        if not problems and obs[-1]['crash'] is None and obs[-1]['exc'] is None and not check_valid_after(world, last):
            ctx.violation('history:not-valid-after', {'kind': 'history', 'hist': hist, 'then_valid': True}, True,
                          'after the history the file is not a valid cache for the last construction')
        hits = sum(1 for o in obs if o['hit'])
        ctx.count(stream, key=json.dumps(hist, sort_keys=True), nontrivial=(0 < hits < len(obs)),
                  history_len=len(obs), hits=hits, crashes=sum(1 for o in obs if o['crash'] is not None))
        c = coq_history(world, hist, obs)
        if c is not None:
            cases.append(c)
            meta.append(hist)
        if hi == len(fixed):
            ctx.sample({'stream': 'histories', 'events': [{'grammar': e['g'], 'options': e['opts'], 'files': e.get('files'),
                                                          'version': e.get('version'), 'post': e.get('post'),
                                                          'served_from_cache': o['hit']} for e, o in zip(hist['events'], obs)]})
    bad, errs = ctx.coq_bad_indices('c12h', IMPORTS, 'check_hist', cases, chunk=ctx.scale(11, 12))
    for e in errs:
        ctx.violation('correspondence:coq-eval', {'error': e}, False, e[:300])
    for i in bad:
        ctx.violation('correspondence:Cache.run vs histories of Lark(..., cache=path)',
                      {'no_longer_checks': 'hit/miss and file bytes after every event', 'kind': 'history', 'hist': meta[i]}, False,
                      'model and implementation disagree on a history (hit/miss or file bytes); the property oracle held on it')


def run_history_env(world, hist):
    """run the history one event at a time, sampling the environment (text of every file mentioned by a cache file seen so
    far, or read by the uncached build) as verify_used_files would see it during that event"""
    obs_all, problems_all = [], []
    f0 = hist.get('f0')
    world.write('cache.bin', bytes.fromhex(f0) if f0 is not None else None)
    owner = [None]
    seen_paths = {}
    for i, ev in enumerate(hist['events']):
        cur = world.read('cache.bin')
        sub = {'f0': cur.hex() if cur is not None else None, 'events': [ev],
               'f0_is_cache_of_first': bool(i == 0 and hist.get('f0_is_cache_of_first'))}
        world.set_files(ev.get('files'))
        sp = split_file(cur)
        if sp is not None:
            try:
                for p in pickle.loads(sp[1]):
                    seen_paths[path_str(p)] = p
            except Exception:   # noqa
                pass
        env = []
        for s, p in seen_paths.items():
            t = current_text(p)
            if t is not None:
                env.append('(%s, %s)' % (U8(s), U8(t)))
        obs, problems = run_history(world, sub, owner=owner)
        obs[0]['env'] = LT(env, SS)
        obs_all.append(obs[0])
        problems_all += [(st, det, i) for st, det, _ in problems]
    return obs_all, problems_all



# ------------------------------------------------------------------------------------------------------------
# crash points of the write block, replayed on the real code (round 12)
class Crash(BaseException):
    """stands for the death of the process: not an Exception, so neither `except IOError` in the write block nor
    `except Exception` in the read block sees it"""


class Plan:
    """where the writer dies: None (it does not), 'before' (before FS.open), or (i, j): after the open, i write calls
    finished, j bytes of call number i written (i = number of calls: after the last write, before the file is closed)"""
    def __init__(self, cp):
        self.cp = cp
        self.calls = 0          # write calls finished
        self.opened = 0         # files opened for writing
        self.modes = []
        self.intended = []      # the byte strings handed to write(), including the one that was cut
        self.bodies = []        # what body_f.getvalue() returned (internal observation point of the write block)

    def before_open(self):
        if self.cp == 'before':
            raise Crash()

    def at_end(self):
        if isinstance(self.cp, tuple) and self.calls == self.cp[0]:
            raise Crash()


class CrashFile:
    """the file object handed to the write block: a real file opened WITH THE MODE THE CODE ASKED FOR, unbuffered, so
    that the path shows at every moment exactly the bytes that reached the operating system"""
    def __init__(self, real, plan, own_exit=True):
        self.real, self.plan, self.own_exit = real, plan, own_exit

    def write(self, b):
        cp = self.plan.cp
        self.plan.intended.append(bytes(b))
        if isinstance(cp, tuple) and self.plan.calls == cp[0]:
            if cp[1]:
                self.real.write(bytes(b)[:cp[1]])
            raise Crash()
        n = self.real.write(b)
        self.plan.calls += 1
        return n

    def __enter__(self):
        return self

    def __exit__(self, et, ev, tb):
        self.real.close()
        if et is None:
            self.plan.at_end()
        return False

    def __getattr__(self, name):
        return getattr(self.real, name)


def _shim_open(plan):
    import builtins

    def shim(name, mode='r', *a, **kw):
        if any(c in mode for c in 'wax+'):
            plan.before_open()
            plan.opened += 1
            plan.modes.append(mode)
            kw = dict(kw, buffering=0)
            return CrashFile(builtins.open(name, mode, *a, **kw), plan)
        return builtins.open(name, mode, *a, **kw)
    return shim


def _fake_atomicwrites(plan):
    """the `atomicwrites` package (1.4) as far as FS.open uses it: AtomicWriter.open() writes to a temporary file in the
    directory of the target, fsyncs, and os.replace()s it over the target when the block is left normally; on an
    exception the temporary file is removed.  A dying process (Crash) neither renames nor removes."""
    import contextlib
    import tempfile
    import types

    class AtomicWriter:
        def __init__(self, path, mode='w', overwrite=False, **open_kwargs):
            if 'a' in mode:
                raise ValueError('Appending to an existing file is not supported')
            if 'x' in mode:
                raise ValueError('Use the `overwrite`-parameter instead.')
            if 'w' not in mode:
                raise ValueError('AtomicWriters can only be written to.')
            self._path, self._mode, self._overwrite, self._open_kwargs = os.fspath(path), mode, overwrite, open_kwargs

        def open(self):
            return self._open()

        @contextlib.contextmanager
        def _open(self):
            plan.before_open()
            plan.opened += 1
            plan.modes.append(self._mode)
            fd, name = tempfile.mkstemp(prefix='tmp', dir=os.path.normpath(os.path.dirname(self._path)))
            os.close(fd)
            import builtins
            real = builtins.open(name, self._mode, buffering=0, **self._open_kwargs)
            f = CrashFile(real, plan, own_exit=False)
            ok = False
            try:
                yield f
                plan.at_end()
                real.flush()
                os.fsync(real.fileno())
                real.close()
                if self._overwrite:
                    os.replace(name, self._path)
                else:
                    os.link(name, self._path)
                    os.unlink(name)
                ok = True
            except Crash:
                ok = True            # the process is dead: no rollback
                real.close()
                raise
            finally:
                if not ok:
                    real.close()
                    try:
                        os.unlink(name)
                    except OSError:
                        pass

    def atomic_write(path, writer_cls=AtomicWriter, **cls_kwargs):
        return writer_cls(path, **cls_kwargs).open()
    m = types.ModuleType('atomicwrites')
    m.AtomicWriter, m.atomic_write = AtomicWriter, atomic_write
    return m


_MISSING = object()


def construct_with(world, ev, sem, cp):
    """Lark(..., cache=path) with FS.open taking its plain branch (sem='plain') or its atomicwrites branch (sem='atomic',
    a stand-in package), the writer dying at crash point cp.  Returns (died, result of World.construct or None, plan)."""
    import io
    import lark.utils as U
    import lark.lark as LL
    plan = Plan(cp)
    saved = {k: U.__dict__.get(k, _MISSING) for k in ('open', '_has_atomicwrites', 'atomicwrites')}
    saved_io = LL.io

    class RecBytesIO(io.BytesIO):
        def getvalue(self):
            v = io.BytesIO.getvalue(self)
            plan.bodies.append(v)
            return v

    class IOProxy:
        BytesIO = RecBytesIO

        def __getattr__(self, name):
            return getattr(io, name)
    LL.io = IOProxy()
    U.open = _shim_open(plan)
    U._has_atomicwrites = (sem == 'atomic')
    if sem == 'atomic':
        U.atomicwrites = _fake_atomicwrites(plan)
    try:
        try:
            return False, world.construct(ev, cached=True), plan
        except Crash:
            return True, None, plan
    finally:
        LL.io = saved_io
        for k, v in saved.items():
            if v is _MISSING:
                U.__dict__.pop(k, None)
            else:
                setattr(U, k, v)
        # temporary files a dead atomic writer left behind
        d = world.root
        for fn in os.listdir(d):
            if fn.startswith('tmp') and os.path.isfile(os.path.join(d, fn)):
                os.remove(os.path.join(d, fn))


def coq_cp(cp):
    if cp is None:
        return '(@None cpoint)'
    if cp == 'before':
        return '(Some CBeforeOpen)'
    return '(Some (CInWrite %s %s))' % (N(cp[0]), N(cp[1]))


def stream_crashpoints(ctx, probe):
    """every boundary and sampled interior points of the write block, under both branches of FS.open, from several
    initial states of the path; then a later reader.  Property oracle: the later reader gets the uncached parser and leaves
    a valid file; correspondence: file bytes after the crash and after the reader, hit/miss = WritePath.step2."""
    rng = ctx.rng
    P = {e[0]: e for e in pool()}
    subjects = [(P['imp-y'], P['imp-x']), (P['ab'], P['words']), (P['common'], P['ab-keep'])]
    if not ctx.thorough() and not ctx.widen:
        subjects = subjects[:1]
    cases, meta = [], []
    for si, (entry, other) in enumerate(subjects):
        world = World(ctx, probe, 'cp%d' % si)
        ev, ev_other = mk_event(entry), mk_event(other)
        # the complete files of both configurations (files of `entry` last: they are the ones on disk afterwards)
        obs_o, _ = run_history(world, {'f0': None, 'events': [ev_other]})
        F_other = obs_o[0]['final']
        obs, problems = run_history(world, {'f0': None, 'events': [ev]})
        F = obs[0]['final']
        sp = split_file(F)
        if sp is None or split_file(F_other) is None or problems:
            ctx.violation('crashpoint:no-file', {'kind': 'history', 'hist': {'f0': None, 'events': [ev]}}, True,
                          'construction with cache= left no complete cache file')
            continue
        hdr, pu, pd = sp
        calls = [hdr + b'\n', pu + pd]
        H, Bn = len(calls[0]), len(calls[1])
        inits = [('absent', None), ('stale-other', F_other), ('stale-longer', F_other + F), ('stale-short', F_other[:H + 3]),
                 ('own-prefix', F[:H + 1 + len(pu)])]
        cps = ['before', (0, 0), (0, 1), (0, 64), (0, 65), (0, H - 1), (1, 0), (1, 1), (1, len(pu)), (1, Bn - 1), (2, 0)]
        interior = [rng.choice([(0, rng.randrange(2, H - 1)), (1, rng.randrange(2, Bn - 1))])]
        if ctx.thorough() or ctx.widen:
            interior += [(0, rng.randrange(2, H - 1)) for _ in range(3)] + [(1, rng.randrange(2, Bn - 1)) for _ in range(6)]
        for sem in ('plain', 'atomic'):
            todo = []
            if ctx.thorough() or ctx.widen:
                todo = [(ini, cp) for ini in inits for cp in cps + interior]
            else:      # every boundary under each branch of FS.open, the initial states taken in turn
                allc = cps + interior
                r0 = rng.randrange(len(inits))
                todo = [(inits[(k + r0) % len(inits)], cp) for k, cp in enumerate(allc)]
            for (iname, f0), cp in todo:
                world.write('cache.bin', f0)
                world.set_files(ev.get('files'))
                died, c, plan = construct_with(world, ev, sem, cp)
                after = world.read('cache.bin')
                wit = {'kind': 'crashpoint', 'ev': ev, 'sem': sem, 'cp': list(cp) if isinstance(cp, tuple) else cp,
                       'f0': f0.hex() if f0 is not None else None}
                ctx.count('crash-points', key=(entry[0], sem, iname, cp), nontrivial=True, fs_open=sem, initial=iname,
                          crash_at=('before-open' if cp == 'before' else 'call%d%s' % (cp[0], '' if cp[1] else '-start')))
                if not died:
                    ctx.violation('correspondence:crash point not reached',
                                  {'no_longer_checks': 'the write block performs open + %d write calls' % len(calls), **wit}, False,
                                  'the writer was to die at %r but the construction finished (%d write calls seen, modes %r)'
                                  % (cp, plan.calls, plan.modes))
                    continue
                tabs = Tables()
                for d in (F, F_other, f0, after):
                    if d is not None:
                        tabs.add(d)
                if plan.bodies and plan.intended:
                    tabs.add(plan.intended[0] + plan.bodies[-1])
                env_crash = tabs.coq_env()
                # ---- the property: a later reader (same configuration, then the other one) -----------------
                # the stream this very writer was producing (the pickles differ from build to build: LALR state numbers)
                if plan.bodies and plan.intended:
                    F_int = plan.intended[0] + plan.bodies[-1]
                    if len(plan.bodies) != 1 or b''.join(plan.intended) != F_int[:sum(map(len, plan.intended))]:
                        ctx.violation('correspondence:write block', {'no_longer_checks': 'write calls = header line, then body_f.getvalue()', **wit},
                                      False, 'the byte strings handed to f.write are not a prefix of header line + assembled body')
                else:
                    F_int = F
                complete = after == F_int
                sub = {'f0': after.hex() if after is not None else None, 'events': [ev], 'f0_is_cache_of_first': complete}
                if f0 is not None and after == f0 and f0 == F_other:
                    sub = {'f0': after.hex(), 'events': [ev_other, ev], 'f0_is_cache_of_first': True}
                o2, problems = run_history_env(world, sub)
                for stage, det, i in problems:
                    ctx.violation('crashpoint:' + stage, wit, True,
                                  'writer of %r died at %r under %s open (path was %s); later reader: %s' % (entry[0], cp, sem, iname, det))
                if not problems and not check_valid_after(world, ev):
                    ctx.violation('crashpoint:not-replaced', wit, True,
                                  'after a writer died at %r (%s) the next construction did not leave a valid cache' % (cp, sem))
                # ---- the model ----------------------------------------------------------------------------------
                for o in o2:
                    if o['after'] is not None:
                        tabs.add(o['after'])
                idx = tabs.add(F_int)
                items = obs[0]['items']
                if idx is None:
                    continue
                if not ascii_ok(world, ev, items) or not ascii_ok(world, ev_other, obs_o[0]['items']):
                    continue
                sem_c = 'Plain' if sem == 'plain' else 'Atomic'
                comp = F_int if (after is not None and len(after) <= len(F_int) and F_int.startswith(after) and after != f0) else None
                evs = ['(mkHev2 %s %s %s %s (Some (%s, %s)) false %s)' % (
                    coq_cfg(world, ev, items), env_crash, sem_c, coq_cp(cp), N(idx[0]), N(idx[1]),
                    'None' if after is None else '(Some %s)' % tabs.fileref(after, comp))]
                for e2, o in zip(sub['events'], o2):
                    built = 'None'
                    if o['wrote']:
                        j = tabs.add(o['after'])
                        if j is None:       # not a well-formed file: already reported by the oracle
                            evs = None
                            break
                        built = '(Some (%s, %s))' % (N(j[0]), N(j[1]))
                    evs.append('(mkHev2 %s %s %s (@None cpoint) %s %s %s)' % (
                        coq_cfg(world, e2, o['items'], o['gtext']), o['env'], sem_c, built, 'true' if o['hit'] else 'false',
                        'None' if o['final'] is None else '(Some %s)' % tabs.fileref(o['final'])))
                if evs is None:
                    continue
                f0c = '(@None fileref)' if f0 is None else '(Some %s)' % tabs.fileref(f0)
                cases.append('(%s, %s, %s, %s)' % (tabs.coq_tu(), tabs.coq_td(), f0c, LT(evs, 'hev2')))
                meta.append(wit)
    ctx.sample({'stream': 'crash-points', 'example': meta[0] if meta else None})
    bad, errs = ctx.coq_bad_indices('c12cp', IMPORTS, 'check_hist2', cases, chunk=ctx.scale(6, 12))
    for e in errs:
        ctx.violation('correspondence:coq-eval', {'error': e}, False, e[:300])
    for i in bad:
        w = meta[i]
        ctx.violation('correspondence:WritePath.step2 vs the write block of Lark.__init__ dying at a crash point',
                      {'no_longer_checks': 'file bytes after the crash and after the next construction, hit/miss', **w}, False,
                      'writer died at %r under %s open: model and implementation disagree on the bytes left on the path or on hit/miss '
                      'of the later reader; the property oracle held' % (w['cp'], w['sem']))


# ------------------------------------------------------------------------------------------------------------
# repr() of the strings that reach the cache key, byte for byte (round 12)
REPR_ALPHABET = ("ab Z09_'\"\\" + "\x00\x01\x07\x08\t\n\x0b\r\x1b\x1f\x7f" + "\x80\x85\x9f\xa0\xa1\xad\xe9\xff" +
                 "Ā́͸͹​  ‮　日퟿﻿�￾￿" +
                 "\U00010000\U0001d11e\U0001f600\U0002fa1d\U000e0001\U000e01ef\U000f0000\U0010ffff")
REPR_FIXED = ["", "'", '"', "'\"", "\\", "\\'", "it's", 'say "hi"', "both ' and \"", "\\x80", "\x80", "\\u200b", "​",
              "\\n", "\n", "é", "\xe9", "\x7f", "\x7e", "\x1f", " ", "\xa0", "\xad", "\xac", "ͷ͸", "￿\U00010000",
              "\ud800", "\udfff", "a\udc80b", "\U0010ffff", "\U000e0000\U000e0001", "tab\there", "'" * 3 + '"', "(', ')", "[('k', 'v')]"]


def unicode_configs():
    """(name, grammar, extra options, probes): the same small language, the key differs in characters that repr() must keep apart"""
    base = 'start: "a" "b"'
    C = []
    for i, tail in enumerate([" // it's", ' // say "hi"', " // ' and \"", " // back\\slash \\x80 \\u200b \\n", " // ctl \x00\x01\x1f\x7f\t\r",
                              " // latin \x80\x9f\xa0\xad\xe9\xff", " // bmp ͸​ 日﻿￿ é",
                              " // astral \U0001f600\U000e0001\U0010ffff\U0001d11e"]):
        C.append(('u-g%d' % i, base + tail + '\n', [], ['ab', 'a']))
    for i, sp in enumerate(["it's.lark", 'q"q.lark', "d\xe9j\xe0/日本.lark", "z​w\x80.lark", "back\\slash\t.lark", "\U0001f600\U000e0001.lark"]):
        C.append(('u-sp%d' % i, base + '\n', [['source_path', sp]], ['ab', 'a']))
    C.append(('u-ip', base + '\n', [['import_paths', ["it's", 'q"q', "\xe9\x80​\U0001f600", "b\\s"]]], ['ab', 'a']))
    C.append(('u-term', 'start: "\xe9" "日" "\U0001f600"\n', [], ['\xe9日\U0001f600', 'e']))
    return C


def stream_repr(ctx, probe):
    rng = ctx.rng
    # ---- 1. the function itself ---------------------------------------------------------------------------------
    strs = list(REPR_FIXED) + [c for c in REPR_ALPHABET]
    for _ in range(ctx.scale(120, 1500)):
        strs.append(''.join(rng.choice(REPR_ALPHABET) for _ in range(rng.randint(1, 10))))
    for _ in range(ctx.scale(20, 300)):       # code points taken anywhere, surrogates included
        strs.append(''.join(chr(rng.choice([rng.randrange(0x80, 0x100), rng.randrange(0x100, 0x3000), rng.randrange(0xd7f0, 0xe010),
                                            rng.randrange(0xfff0, 0x10010), rng.randrange(0x10000, 0x110000)])) for _ in range(rng.randint(1, 4))))
    strs = list(dict.fromkeys(strs))
    cases = []
    for t in strs:
        r = repr(t)
        cases.append('(%s, %s)' % (U8(t), U8(r)))
        kinds = set()
        for ch in t:
            o = ord(ch)
            kinds.add('quote' if ch in '\'"' else 'backslash' if ch == '\\' else 'tnr' if ch in '\t\n\r' else
                      'ascii-ctl' if o < 32 or o == 127 else 'ascii' if o < 127 else
                      ('printable' if ch.isprintable() else 'escaped') + ('-latin1' if o < 256 else '-bmp' if o < 65536 else '-astral'))
        ctx.count('repr', key=t, nontrivial=bool(kinds - {'ascii'}), **{'repr_' + k.replace('-', '_'): True for k in kinds})
    bad, errs = ctx.coq_bad_indices('c12rp', IMPORTS, 'check_repr', cases, chunk=400)
    for e in errs:
        ctx.violation('correspondence:coq-eval', {'error': e}, False, e[:300])
    for i in bad:
        ctx.violation('correspondence:PyRepr.srepr vs repr()', {'no_longer_checks': 'byte-for-byte repr of str', 'string': ascii(strs[i])}, False,
                      'the model of repr() differs from Python on %s' % ascii(strs[i]))
    ctx.sample({'stream': 'repr', 'string': ascii(strs[len(REPR_FIXED) + len(REPR_ALPHABET)]), 'repr': ascii(repr(strs[len(REPR_FIXED) + len(REPR_ALPHABET)]))})
    # ---- 2. the real cache key of configurations with such characters, and A,B,B,A histories on pairs of them --------
    U = unicode_configs()
    kcases, kmeta = [], []
    for name, g, extra, probes in (U if ctx.thorough() or ctx.widen else rng.sample(U, 6)):
        world = World(ctx, probe, 'uk')
        ev = mk_event((name, g, extra, {}, probes))
        obs, problems = run_history_env(world, {'f0': None, 'events': [ev, ev]})
        for stage, det, i in problems:
            ctx.violation('unicode-key:' + stage, {'kind': 'history', 'hist': {'f0': None, 'events': [ev, ev]}}, True, det)
        F = obs[0]['final']
        ctx.count('unicode-keys', key=name, nontrivial=True)
        if F is None or len(F) < 64 or problems:
            continue
        if not obs[1]['hit']:
            ctx.violation('unicode-key:unused', {'kind': 'history', 'hist': {'f0': None, 'events': [ev, ev]}, 'expect_hit': True}, True,
                          'a complete, current cache file was not used')
        kcases.append('(%s, %s)' % (coq_cfg(world, ev, obs[0]['items']), S(F[:64].decode('latin1'))))
        kmeta.append(ev)
    bad, errs = ctx.coq_bad_indices('c12uk', IMPORTS, 'check_keyd', kcases, chunk=8)
    for e in errs:
        ctx.violation('correspondence:coq-eval', {'error': e}, False, e[:300])
    for i in bad:
        ctx.violation('correspondence:Cache.key vs cache_sha256 of Lark.__init__',
                      {'no_longer_checks': 'sha256 of the repr-framed key = digest in the header', 'kind': 'history',
                       'hist': {'f0': None, 'events': [kmeta[i]]}}, False,
                      'the digest at the start of the header is not sha256 of the model key for %r' % kmeta[i]['name'])
    pairs = [(0, 1), (3, 5), (9, 11), (8, 13)]
    if not ctx.thorough() and not ctx.widen:
        pairs = [pairs[rng.randrange(len(pairs))]]
    hcases, hmeta = [], []
    for a, b in dict.fromkeys(pairs):
        ea, eb = (mk_event((U[i][0], U[i][1], U[i][2], {}, U[i][3])) for i in (a, b))
        hist = {'f0': None, 'events': [ea, eb, eb, ea]}
        world = World(ctx, probe, 'uh')
        obs, problems = run_history_env(world, hist)
        for stage, det, i in problems:
            ctx.violation('unicode-history:' + stage, {'kind': 'history', 'hist': {'f0': None, 'events': hist['events'][:i + 1]}}, True, det)
        hits = sum(1 for o in obs if o['hit'])
        ctx.count('unicode-histories', key=(U[a][0], U[b][0]), nontrivial=(0 < hits < len(obs)), hits=hits)
        c = coq_history(world, hist, obs)
        if c is not None:
            hcases.append(c)
            hmeta.append(hist)
    bad, errs = ctx.coq_bad_indices('c12uh', IMPORTS, 'check_hist', hcases, chunk=1)
    for e in errs:
        ctx.violation('correspondence:coq-eval', {'error': e}, False, e[:300])
    for i in bad:
        ctx.violation('correspondence:Cache.run vs histories of Lark(..., cache=path)',
                      {'no_longer_checks': 'hit/miss and file bytes after every event', 'kind': 'history', 'hist': hmeta[i]}, False,
                      'model and implementation disagree on a history over keys with non-ASCII / escaped characters')

# ------------------------------------------------------------------------------------------------------------
# known findings: fixed histories outside the class where the theorems' hypotheses hold
def exotic():
    E = {}
    g = '%import x.X\nstart: X\n'
    ip = [['import_paths', {'paths': ['i1', 'i2']}]]
    E['F11:import-path-shadowing'] = {'f0': None, 'events': [
        mk_event(('f11', g, ip, {'i2/x.lark': IMP['x'], 'i1/keep': ''}, ['x', 'y'])),
        mk_event(('f11', g, ip, {'i2/x.lark': IMP['x'], 'i1/x.lark': IMP['y']}, ['x', 'y']))]}
    ga = 'start: A\nA: "a"\n'
    E['F16:cache-unhashable-option-not-in-key'] = {'f0': None, 'events': [
        mk_event(('f15', ga, [['edit_terminals', {'edit': 'z'}]], {}, ['a', 'z'])),
        mk_event(('f15', ga, [], {}, ['a', 'z']))]}
    gp = 'start: A\nA: "a"\nNL: "\\n"\n'
    E['F16:cache-unhashable-option-not-in-key/postlex'] = {'f0': None, 'events': [
        mk_event(('f15b', gp, [['lexer', 'basic'], ['postlex', {'postlex': 'nl'}]], {}, ['a', 'a\n'])),
        mk_event(('f15b', gp, [['lexer', 'basic']], {}, ['a', 'a\n']))]}
    top = '%import .x.X\nstart: X\n'
    E['F17:cache-source-path-not-in-key'] = {'f0': None, 'events': [
        dict(mk_event(('f16', '', [], {'d1/g.lark': top, 'd1/x.lark': IMP['x'], 'd2/g.lark': top, 'd2/x.lark': IMP['y']}, ['x', 'y'])), open='d1/g.lark'),
        dict(mk_event(('f16', '', [], {}, ['x', 'y'])), open='d2/g.lark')]}
    E['F33:cache-deleted-import-served'] = {'f0': None, 'events': [
        mk_event(('f17', g, [['import_paths', {'paths': ['i2']}]], {'i2/x.lark': IMP['x']}, ['x'])),
        mk_event(('f17', g, [['import_paths', {'paths': ['i2']}]], {'i2/x.lark': None}, ['x']))]}
    return E


def stream_exotic(ctx, probe):
    for key, hist in exotic().items():
        world = World(ctx, probe, 'ex' + key[:3])
        obs, problems = run_history_env(world, hist)
        ctx.count('exotic', key=key, nontrivial=True, exotic=key.split(':')[0])
        if problems:
            stage, det, i = problems[0]
            ctx.violation('exotic:' + stage, {'kind': 'history', 'hist': hist}, True, '%s: %s' % (key, det), key=key)
        else:
            ctx.note('exotic stream %s: no violation on this tree' % key)


def correspond(ctx):
    probe = Probe()
    try:
        stream_exotic(ctx, probe)
        stream_crashpoints(ctx, probe)
        stream_repr(ctx, probe)
        stream_histories(ctx, probe)
        stream_write_and_damage(ctx, probe)
    finally:
        probe.close()


def replay_crashpoint(ctx, w):
    """the writer dies at the recorded crash point; true iff a later reader is then served wrongly / the file is not repaired"""
    probe = Probe()
    try:
        world = World(ctx, probe, 'replaycp')
        ev = w['ev']
        world.write('cache.bin', bytes.fromhex(w['f0']) if w.get('f0') is not None else None)
        world.set_files(ev.get('files'))
        cp = tuple(w['cp']) if isinstance(w['cp'], list) else w['cp']
        died, c, plan = construct_with(world, ev, w['sem'], cp)
        after = world.read('cache.bin')
        complete = bool(plan.bodies and plan.intended and after == plan.intended[0] + plan.bodies[-1])
        sub = {'f0': after.hex() if after is not None else None, 'events': [ev], 'f0_is_cache_of_first': complete}
        obs, problems = run_history_env(world, sub)
        return bool(problems) or not check_valid_after(world, ev)
    finally:
        probe.close()


def replay(ctx, case):
    w = case['witness']
    if w.get('kind') == 'crashpoint':
        return replay_crashpoint(ctx, w)
    if w.get('kind') != 'history':
        return False
    probe = Probe()
    try:
        world = World(ctx, probe, 'replay')
        hist = w['hist']
        obs, problems = run_history_env(world, hist)
        if problems:
            return True
        if w.get('then_valid'):
            return not check_valid_after(world, hist['events'][-1])
        if w.get('expect_hit'):
            return not obs[-1]['hit']
        return False
    finally:
        probe.close()
