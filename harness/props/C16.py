"""C16 - Embedded transformer equals transforming afterwards; variants agree."""
import copy
import os

import shapelib as sl
import shapehist as shh
from lib import coq_list as L, coq_term_str as S, coq_nat as N

THEOREMS = ['C16_embedded_eq_posthoc', 'C16_embedded_driver', 'C16_variants_equal', 'C16_calls_once_children_first',
            'C16_example', 'C16_conditions_are_source', 'C16_lookup_is_current_state', 'C16_embedded_is_current_state',
            'C16_memo_lookup_refuted', 'C16_merge_embedded_eq_posthoc', 'C16_vargs_call_agree',
            'C16_vargs_embedded_eq_posthoc', 'C16_embedded_meta_refused_inplace_refuted', 'C16_inplace_dag_refuted']
GEN_DEPS = ['ShapeHoles', 'ForestSortKey']
RULE = ('(a) random trees (depth <= 4, 0-4 children, rule names incl. `_x`, three token types, None leaves, childless '
        'trees) x generated pure transformer classes (callbacks on a random subset of rule names and token types building '
        'tagged tuples; plain / function-level v_args(inline=True) / v_args(tree=True) / mixed / class-level v_args / '
        'v_args(wrapper=custom) / callbacks inherited from a user base class) x how a callback is attached (def '
        '<name>, one generic function assigned to several names, lambda, functools.partial, staticmethod; every '
        'callback builds a tag "<its own id>|<node name it was handed: tree.data / wrapper data / token type>" so a '
        'callback called under the wrong name is visible) x how the instance is made (T(), '
        'T(visit_tokens=True|False), T(False), own __init__ without super with the class attribute __visit_tokens__ '
        'True|False): Transformer, Transformer_NonRecursive, '
        'Transformer_InPlace, Transformer_InPlaceRecursive each on a fresh copy, with _call_userfunc/_call_userfunc_token '
        'wrapped to log the node (as its path): the four values must be equal, every log must contain every tree/token '
        'node once with children before parents, and value and log (as a list) must equal the Coq traversal models '
        'under the symbolic transformer with the same visit_tokens, and the value must equal an independent python '
        'reference (callbacks bottom-up, tokens untouched when visit_tokens is off); (b) random EBNF grammars of C03 x keep_all_tokens x maybe_placeholders x '
        'transformer classes on rule names / aliases / template names / terminals: Lark(g, parser=lalr, transformer=T()) '
        '.parse(x) == T().transform(Lark(g, parser=lalr).parse(x)), and the Coq embedded model on the derivation lark '
        'followed gives the same value - over lexer in {contextual, basic}, propagate_positions on/off, the same '
        'class variants and constructor modes (incl. visit_tokens=False with terminal callbacks: F42 regression); '
        '(d) TransformerChain T1*T2 over the four classes against the composed reference; (c) python-only: the four classes on DAG-shaped inputs (shared sub-objects). '
        'Round 12 (harness/shapehist.py): (h) transformer OBJECTS WITH A HISTORY - 16 histories (used on the very tree / text; copy.copy / '
        'deepcopy then re-configured; setattr of a bound method of a differently configured donor object over / beside a class-level '
        'callback; delattr; merge_transformers after use; class-level assignment after use; visit_tokens toggled after use; compositions) '
        'x every sampled tree x four classes (value == documented value for the attributes the object has NOW == Coq models under the '
        'symbolic transformer of that state; merge also through Shape/GenTie.merge_T) and x fixed + random grammars (embedded on the SAME '
        'object, in both orders, == afterwards == documented); (v) v_args adapters: lark\'s _call_userfunc, apply_visit_wrapper and '
        'inplace_transformer on recording functions for plain / inline / tree / meta / meta+inline / custom wrappers against Shape/VArgs.v; '
        '(g) DAG-shaped inputs as heaps of objects (4 fixed sharing shapes incl. F31, random DAGs of 2-6 objects, tree-shaped controls): '
        'iter_subtrees order, final value of Transformer_InPlace and Transformer_InPlaceRecursive against Shape/InPlaceDag.v in Coq; '
        'Transformer / _NonRecursive / _InPlaceRecursive must give the documented value of the DAG read as a tree. '
        'non-trivial = distinct (tree, transformer) with >= 3 nodes / distinct (grammar, config, text, transformer)')
TRUSTED_BASE = ['hand model Shape/Transform.v of visitors.py (tied by value and call log on every case); in-place variants '
                'are modelled on a functional heap (a tree with replaced slots); object identity / DAG inputs are not '
                'modelled (python-only stream)',
                'Discard, meta arguments, __default__/__default_token__ overrides are outside the model and the streams',
                'generated transformer classes build tagged tuples (symbolic callbacks); the theorems quantify over '
                'arbitrary callback functions']
ASSUMPTIONS = ['callbacks are pure and defined only on non-underscore rule names, aliases, template names and terminals',
               'embedded transformers derive from Transformer, Transformer_NonRecursive or Transformer_InPlaceRecursive '
               '(a Transformer_InPlace subclass is handled differently by create_callback: exotic stream)']
IMPORTS = ('From LV Require Import Base.Prelude Shape.Chain Shape.Spec Shape.Transform Shape.ChainCheck Shape.VArgs '
           'Shape.InPlaceDag Shape.Round12Check.')

RULE_POOL = ['a', 'b', 'c', '_x', 'start']
TOK_POOL = ['A', 'B', 'N']
BASES = ['Transformer', 'Transformer_NonRecursive', 'Transformer_InPlace', 'Transformer_InPlaceRecursive']


def base_class(name):
    import lark.visitors as v
    return getattr(v, name)


VARIANTS = ['plain', 'inline', 'tree', 'mixed', 'cls_inline', 'cls_tree', 'custom', 'inherit', 'cls_inline_inherit']
# how the instance is created -> effective visit_tokens
MODES = {'default': True, 'kw_true': True, 'kw_false': False, 'pos_false': False,
         'own_init': True,            # subclass __init__ without super().__init__(): class attribute __visit_tokens__
         'own_init_cls_false': False}  # ... and the class attribute set to False


ATTACH = ['def', 'def', 'shared', 'lambda', 'partial', 'static']
TREE_LIKE = ('tree', 'cls_tree', 'custom')      # modes in which the callback is handed the node name


def var_of(variant, choices, i):
    return variant if variant != 'mixed' else ['plain', 'inline', 'tree'][(choices or [0] * 99)[i % 99] % 3]


def plan(rules, toks, variant, choices, attach):
    """-> (rule name -> (callback id, mode), token type -> callback id): which callback OBJECT serves which name.
    'shared': one generic callback assigned to several names (`add = sub = binop`), so __name__ != lookup name;
    'lambda' / 'partial' / 'static': a lambda, a functools.partial of a helper, a staticmethod assigned to the name"""
    if variant.startswith('cls_') or variant.endswith('inherit'):
        attach = attach if attach in ('def', 'shared', 'lambda') else 'def'
    rp = {}
    for i, n in enumerate(rules):
        var = var_of(variant, choices, i)
        if attach == 'def':
            cid = n
        elif attach == 'shared':
            # callbacks of one class-level mode can be shared by every rule; in 'mixed' one object per mode
            cid = 'g_' + var
        else:
            cid = attach[0].upper() + '_' + n
        rp[n] = (cid, var)
    tp = {k: (k if attach == 'def' else 'tk') for k in toks}
    return rp, tp, attach


def tags_of(rules, toks, variant='plain', choices=None, attach='def'):
    """expected tag of the value built for each name: '<callback id>|<node name the callback is handed>'"""
    rp, tp, _ = plan(rules, toks, variant, choices, attach)
    rt = {n: '%s|%s' % (cid, n if var in TREE_LIKE else '') for n, (cid, var) in rp.items()}
    tt = {k: '%s|%s' % (cid, k) for k, cid in tp.items()}
    return rt, tt


def make_T(base, rules, toks, variant, rng_choices=None, mode='default', attach='def'):
    """a pure transformer class.  Every callback builds ('<its own id>|<node name it was given>', children): the
    id says WHICH callback object ran, the node name is tree.data (v_args(tree=True)) / the wrapper's data
    (v_args(wrapper=...)) / the token's type, and empty where lark hands the callback no name."""
    import functools
    from lark import v_args
    rp, tp, attach = plan(rules, toks, variant, rng_choices, attach)
    noself = attach in ('partial', 'static')
    made = {}

    def body(cid, var):
        if var in ('plain', 'inherit'):
            fn = (lambda ch: (cid + '|', tuple(ch))) if noself else (lambda self, ch: (cid + '|', tuple(ch)))
        elif var == 'custom':
            fn = ((lambda data, ch: ('%s|%s' % (cid, data), tuple(ch))) if noself
                  else (lambda self, data, ch: ('%s|%s' % (cid, data), tuple(ch))))
        elif var in ('inline', 'cls_inline', 'cls_inline_inherit'):
            fn = (lambda *ch: (cid + '|', tuple(ch))) if noself else (lambda self, *ch: (cid + '|', tuple(ch)))
        else:
            fn = ((lambda t: ('%s|%s' % (cid, t.data), tuple(t.children))) if noself
                  else (lambda self, t: ('%s|%s' % (cid, t.data), tuple(t.children))))
        return fn

    def decorate(fn, var):
        if var == 'custom':
            return v_args(wrapper=lambda f, data, children, meta: f(data, children))(fn)
        if var == 'inline':
            return v_args(inline=True)(fn)
        if var == 'tree':
            return v_args(tree=True)(fn)
        return fn          # plain, or class-level decoration below

    ns = {}
    for n in rules:
        cid, var = rp[n]
        if (cid, var) not in made:
            fn = body(cid, var)
            if attach == 'def':
                fn.__name__ = fn.__qualname__ = n
            elif attach == 'shared':
                fn.__name__ = fn.__qualname__ = 'generic_' + var
            elif attach == 'static':
                fn.__name__ = fn.__qualname__ = 'helper'
            if attach == 'partial':
                inner = fn
                fn = functools.partial(lambda f, *a: f(*a), inner)      # no __name__, not a descriptor
            fn = decorate(fn, var)
            if attach == 'static':
                fn = staticmethod(fn)
            made[(cid, var)] = fn
        ns[n] = made[(cid, var)]
    tmade = {}
    for k in toks:
        cid = tp[k]
        if cid not in tmade:
            def h(self, tok, cid=cid):
                return ('%s|%s' % (cid, tok.type), (tok,))
            h.__name__ = k if attach == 'def' else 'generic_token'
            tmade[cid] = h
        ns[k] = tmade[cid]
    if mode.startswith('own_init'):
        def init(self):
            pass
        ns['__init__'] = init
        if mode == 'own_init_cls_false':
            ns['__visit_tokens__'] = False
    parent = base_class(base)
    if variant in ('inherit', 'cls_inline_inherit'):
        # half of the callbacks live in a user base class and are inherited
        names = [k for k in ns if not k.startswith('__')]
        inherited = {k: ns.pop(k) for k in names[::2]}
        parent = type('TB', (parent,), inherited)
        if variant == 'cls_inline_inherit':
            parent = v_args(inline=True)(parent)
    cls = type('T', (parent,), ns)
    if variant in ('cls_inline', 'cls_inline_inherit'):
        cls = v_args(inline=True)(cls)         # class-level decorator: wraps every public callable
    elif variant == 'cls_tree':
        cls = v_args(tree=True)(cls)
    return cls


def instantiate(cls, mode):
    if mode == 'kw_true':
        return cls(visit_tokens=True)
    if mode == 'kw_false':
        return cls(visit_tokens=False)
    if mode == 'pos_false':
        return cls(False)
    return cls()


def random_tree(rng, depth=0):
    x = rng.random()
    if depth >= 4 or x < 0.3 + 0.1 * depth:
        if rng.random() < 0.12:
            return None
        return ('t', rng.choice(TOK_POOL), rng.choice(['1', '2', 'x']))
    return ('T', rng.choice(RULE_POOL[:4]), tuple(random_tree(rng, depth + 1) for _ in range(rng.choice([0, 1, 2, 2, 3, 4]))))


def paths_of(obj, p=(), out=None):
    """id(node) -> path, for Tree and Token objects of a lark tree"""
    from lark import Tree
    out = {} if out is None else out
    if obj is None:
        return out
    out[id(obj)] = p
    if isinstance(obj, Tree):
        for i, c in enumerate(obj.children):
            paths_of(c, p + (i,), out)
    return out


def node_paths(t, p=(), vt=True):
    """nodes whose callback must be called: trees, and tokens when visit_tokens is on"""
    if t is None:
        return []
    if t[0] == 't':
        return [p] if vt else []
    out = [p]
    for i, c in enumerate(t[2]):
        out += node_paths(c, p + (i,), vt)
    return out


def run_variant(base, rules, toks, variant, choices, t, mode='default', attach='def'):
    """-> (value, log) or ('exc', repr)"""
    obj = sl.to_lark(t)
    paths = paths_of(obj)
    T = instantiate(make_T(base, rules, toks, variant, choices, mode, attach), mode)
    log = []
    ou, ot = T._call_userfunc, T._call_userfunc_token

    def cu(tree, new_children=None):
        log.append(paths.get(id(tree), ('?',)))
        return ou(tree, new_children)

    def ct(tok):
        log.append(paths.get(id(tok), ('?',)))
        return ot(tok)
    T._call_userfunc, T._call_userfunc_token = cu, ct
    try:
        res = T.transform(obj)
        return (sl.value_of(res), log)
    except Exception as ex:      # any exception is an observation
        return ('exc', repr(ex)[:200])


def ref_value(t, rtags, ttags, vt):
    """the documented result: callbacks bottom-up, default = rebuild the tree / keep the token.
    rtags / ttags: name -> tag of the value the callback attached under that name builds (tags_of)"""
    if isinstance(rtags, (list, tuple)):
        rtags, ttags = tags_of(list(rtags), list(ttags))
    if t is None:
        return None
    if t[0] == 't':
        return ('U', ttags[t[1]], (t,)) if (vt and t[1] in ttags) else t
    ch = tuple(ref_value(c, rtags, ttags, vt) for c in t[2])
    return ('U', rtags[t[1]], ch) if t[1] in rtags else ('T', t[1], ch)


def log_ok(t, log, vt=True):
    want = node_paths(t, (), vt)
    if sorted(log) != sorted(want):
        return 'log is not one entry per node'
    pos = {p: i for i, p in enumerate(log)}
    for p in want:
        if p and pos[p] > pos[p[:-1]]:
            return 'parent %s called before child %s' % (p[:-1], p)
    return None


def tag_lit(d):
    return '(%s : list (string * string))' % L(['(%s, %s)' % (S(k), S(v)) for k, v in d.items()])


def path_lit(p):
    return L([N(i) for i in p])


def correspond(ctx):
    rng = ctx.rng
    wide = 3 if ctx.widen else 1

    # (a) the four traversals on random trees ----------------------------------------------------------------
    cases, meta = [], []
    for _ in range(ctx.scale(450, 3500) * wide):
        t = ('T', rng.choice(RULE_POOL), tuple(random_tree(rng, 1) for _ in range(rng.choice([0, 1, 2, 3, 4]))))
        rules = [n for n in RULE_POOL if n != '_x' and rng.random() < 0.55]
        toks = [k for k in TOK_POOL if rng.random() < 0.5]
        variant = rng.choice(VARIANTS)
        mode = rng.choice(['default', 'default', 'kw_true', 'kw_false', 'kw_false', 'pos_false', 'own_init',
                           'own_init_cls_false'])
        vt = MODES[mode]
        choices = [rng.randrange(3) for _ in range(99)]
        attach = rng.choice(ATTACH)
        obs = [run_variant(b, rules, toks, variant, choices, t, mode, attach) for b in BASES]
        wit = {'tree': t, 'rules': rules, 'toks': toks, 'variant': variant, 'choices': choices[:len(rules)], 'mode': mode,
               'attach': attach}
        ctx.count('variants', key=(repr(t), tuple(rules), tuple(toks), variant, mode, attach), nontrivial=sl.stree_size(t) >= 3,
                  variant=variant, size=min(sl.stree_size(t) // 5 * 5, 40), construct=mode, attach=attach)
        rtags, ttags = tags_of(rules, toks, variant, choices, attach)
        want = ref_value(t, rtags, ttags, vt)
        bad = None
        if any(o[0] == 'exc' for o in obs):
            bad = 'a traversal raised: %s' % [o[1] for o in obs if o[0] == 'exc'][0]
        elif any(o[0] != want for o in obs):
            k = [o[0] != want for o in obs].index(True)
            bad = '%s (%s, visit_tokens=%s) returns %s; the documented result is %s' % (
                BASES[k], mode, vt, sl.show_v(obs[k][0]), sl.show_v(want))
        else:
            for b, o in zip(BASES, obs):
                m = log_ok(t, [tuple(p) for p in o[1]], vt)
                if m:
                    bad = '%s (%s, visit_tokens=%s): %s' % (b, mode, vt, m)
                    break
        if bad:
            ctx.violation('variants', wit, True, bad)
            continue
        if not (obs[0][1] == obs[1][1] == obs[3][1]):
            ctx.violation('correspondence:post-order logs', dict(wit, no_longer_checks='Transformer, _NonRecursive and '
                          '_InPlaceRecursive call in the same (post-)order', tree=sl.show(t)), False,
                          'the three post-order traversals log different orders (each is children-first)')
            continue
        # the four values are equal and three logs are equal (checked above): emitted once
        cases.append('((%s, %s, %s, %s, %s, %s, %s) : tr_case)' % (tag_lit(rtags), tag_lit(ttags), sl.B(vt), sl.stree_lit(t),
                                                   sl.value_lit(obs[0][0]), L([path_lit(p) for p in obs[0][1]]),
                                                   L([path_lit(p) for p in obs[2][1]])))
        meta.append(wit)
    if meta:
        ctx.sample({'variants': dict(meta[0], tree=sl.show(meta[0]['tree']))})
    deferred = [('(CaseTR %s)' % c, ('tr', m)) for c, m in zip(cases, meta)]
    # (c) DAG-shaped inputs (python only) ------------------------------------------------------------------------
    from lark import Tree
    for _ in range(ctx.scale(60, 600)):
        sub = ('T', rng.choice(RULE_POOL[:3]), tuple(random_tree(rng, 3) for _ in range(rng.randint(0, 3))))
        other = random_tree(rng, 3)
        rules = [n for n in RULE_POOL if n != '_x' and rng.random() < 0.55]
        toks = [k for k in TOK_POOL if rng.random() < 0.5]
        vals = []
        for b in BASES:
            sh = sl.to_lark(sub)
            root = Tree('start', [sh, Tree('a', [sh, sl.to_lark(other)]), sh])
            try:
                vals.append(sl.value_of(make_T(b, rules, toks, 'plain')().transform(root)))
            except Exception as ex:
                vals.append(('exc', repr(ex)[:100]))
        # Transformer_InPlace relies on Tree.iter_subtrees, which is not children-first on DAGs (finding F31,
        # fixed exotic witness below): only counted here; the other three classes must agree
        ctx.count('dag', key=(repr(sub), repr(other), tuple(rules), tuple(toks)), nontrivial=True,
                  inplace_differs_on_dag=vals[2] != vals[0])
        rest = [vals[0], vals[1], vals[3]]
        if any(v != rest[0] for v in rest):
            k = [v != rest[0] for v in rest].index(True)
            ctx.violation('variants-dag', {'shared': sub, 'other': other, 'rules': rules, 'toks': toks}, True,
                          '%s differs from Transformer on a tree with a shared sub-object' % [BASES[0], BASES[1], BASES[3]][k])
    # fixed exotic witness: parent before shared child in iter_subtrees
    w = {'shared': ('T', 'b', (('t', 'A', '1'),)), 'dag_witness': True, 'rules': ['a', 'b'], 'toks': ['A']}
    ctx.count('exotic-dag-iter_subtrees', key='F31')
    if dag_witness_bad(w):
        ctx.violation('variants-dag', w, True, 'Transformer_InPlace differs from Transformer on start[a[sh], sh] with a shared '
                      'sub-object sh: iter_subtrees yields a before sh', key='F31:iter_subtrees-parent-before-shared-child')

    # (b) embedded vs post-hoc ------------------------------------------------------------------------------------
    from lark import Lark
    from lark.exceptions import LarkError
    cases, meta = [], []
    ngram = ctx.scale(70, 600) * wide
    done = tried = 0
    while done < ngram and tried < 4 * ngram:
        tried += 1
        G = sl.gen_grammar(rng)
        ka, mp = rng.random() < 0.3, rng.random() < 0.6
        lexer, pp = rng.choice(['contextual', 'contextual', 'basic']), rng.random() < 0.3
        try:
            plain = Lark(G.text, parser='lalr', keep_all_tokens=ka, maybe_placeholders=mp, lexer=lexer, propagate_positions=pp)
        except LarkError:
            continue
        except Exception as ex:
            ctx.violation('embedded-construct', {'grammar': G.text, 'text': '', 'keep_all_tokens': ka, 'maybe_placeholders': mp,
                                                 'base': 'Transformer', 'variant': 'plain', 'rules': [], 'toks': [], 'choices': [],
                                                 'construct_error': repr(ex)[:200]}, True, 'constructing the LALR parser raised %r' % (ex,))
            continue
        names = set()
        for r in G.rules:
            base = r.get('tsrc') or r['name']
            if not base.startswith('_'):
                names.add(base)
            for _, al in r['alts']:
                if al:
                    names.add(al)
        termnames = sorted({str(t.name) for t in plain.terminals})
        texts = []
        for _ in range(10):
            try:
                x = sl.gen_text(rng, G)
            except sl.TooDeep:
                continue
            if len(x) <= 14 and x not in texts:
                texts.append(x)
        got_one = False
        for text in texts[:4]:
            try:
                tree = plain.parse(text)
            except LarkError:
                continue
            except Exception as ex:
                ctx.violation('embedded-parse', {'grammar': G.text, 'text': text, 'keep_all_tokens': ka, 'maybe_placeholders': mp,
                                                 'base': 'Transformer', 'variant': 'plain', 'rules': [], 'toks': [], 'choices': [],
                                                 'construct_error': repr(ex)[:200]}, True, 'parsing raised %r' % (ex,))
                continue
            rules = sorted(n for n in names if rng.random() < 0.6)
            toks = [k for k in termnames if rng.random() < 0.4 and not k.startswith('__')]
            base = rng.choice(['Transformer', 'Transformer', 'Transformer_NonRecursive', 'Transformer_InPlaceRecursive'])
            variant = rng.choice(VARIANTS)
            choices = [rng.randrange(3) for _ in range(99)]
            mode = rng.choice(['default', 'default', 'kw_true', 'own_init', 'kw_false', 'own_init_cls_false'])
            attach = rng.choice(ATTACH)
            wit = {'grammar': G.text, 'text': text, 'keep_all_tokens': ka, 'maybe_placeholders': mp, 'base': base,
                   'variant': variant, 'rules': rules, 'toks': toks, 'choices': choices[:len(rules)], 'mode': mode,
                   'lexer': lexer, 'propagate_positions': pp, 'attach': attach}
            bad, emb, post = embedded_vs_posthoc(wit, plain, tree)
            ctx.count('embedded', key=(G.text, text, ka, mp, base, variant, tuple(rules), tuple(toks), mode, lexer, pp), base=base,
                      emb_variant=variant, nontrivial=True, emb_construct=mode, lexer=lexer, propagate_positions=pp,
                      emb_attach=attach)
            got_one = True
            if bad:
                ctx.violation('embedded-vs-posthoc', wit, True, bad)
                continue
            d = sl.lalr_derivation(plain, text)
            if sl.dtree_size(d) <= 70:
                cache = {}
                lit = sl.dtree_lit(d, cache)
                byid = {id(r): r for r in plain.rules}
                lets = ''.join('let %s := %s in ' % (nm, sl.rrec_lit(sl.rrec_of_rule(byid[k]))) for k, nm in cache.items())
                rtags, ttags = tags_of(rules, toks, variant, choices, attach)
                cases.append('((%s(%s, %s, %s, %s, %s, %s, %s)) : emb_case)' % (lets, tag_lit(rtags), tag_lit(ttags),
                                                              sl.B(MODES[mode]), sl.B(mp), lit, sl.value_lit(emb), sl.stree_lit(sl.stree_of(tree))))
                meta.append(wit)
        if got_one:
            done += 1
    if meta:
        ctx.sample({'embedded': meta[0]})
    deferred += [('(CaseEMB %s)' % c, ('emb', m)) for c, m in zip(cases, meta)]
    deferred = [('(CaseOld %s)' % c, h) for c, h in deferred]
    # round 12: objects with a history, v_args adapters, DAG-shaped inputs (harness/shapehist.py)
    for stream in (shh.history_stream, shh.vargs_stream, shh.dag_stream):
        try:
            stream(ctx, deferred)
        except Exception:
            import traceback
            ctx.violation('harness:%s' % stream.__name__, {'traceback': traceback.format_exc()[-1500:]}, False,
                          'the stream itself raised')
    chunk = max(50, -(-len(deferred) // 3))
    bad, errs = ctx.coq_bad_indices('c16', IMPORTS, 'c16r_check', [d[0] for d in deferred], chunk=chunk)
    for e in errs:
        ctx.violation('correspondence:coq-eval', {'error': e}, False, e[:300])
    chain_stream(ctx)
    namespaced_stream(ctx)
    g0 = 'start: a B\na: A\nA: "a"\nB: "b"\n'
    seen = {'tr': 0, 'emb': 0, 'hist': 0, 'merge': 0, 'vargs': 0, 'dag': 0}
    for i in bad:
        kind, m = deferred[i][1]
        seen[kind] += 1
        if seen[kind] > 3:
            continue
        if kind in R12_KINDS:
            ctx.violation('correspondence:%s' % R12_KINDS[kind][0], dict(m, no_longer_checks=R12_KINDS[kind][1]), False,
                          R12_KINDS[kind][1] + ': the Coq model disagrees with what lark did')
        elif kind == 'tr':
            ctx.violation('correspondence:Shape/Transform.v vs visitors.py traversals',
                          dict(m, no_longer_checks='value / call log of the four traversals == Coq models',
                               tree=sl.show(m['tree'])), False,
                          'value or call log of a traversal differs from the Coq model (the four classes agree with each other)')
        else:
            ctx.violation('correspondence:Shape/Transform.embedded vs Lark(transformer=T)',
                          dict(m, no_longer_checks='Coq embedded model on the LALR derivation == value lark returned'), False,
                          'Coq embedded model differs from the value lark returned (embedded == post-hoc still holds on this case)')
    # (x2) regression F42 (fixed): the embedded parser must not install terminal callbacks for T(visit_tokens=False)
    wit = {'grammar': g0, 'text': 'ab', 'keep_all_tokens': False, 'maybe_placeholders': True, 'base': 'Transformer',
           'variant': 'plain', 'rules': ['a'], 'toks': ['A'], 'choices': [0], 'mode': 'kw_false'}
    bad, emb, post = embedded_vs_posthoc(wit)
    ctx.count('regress-F42', key='F42')
    if bad:       # F42 was fixed in /repo: an ordinary violation if it comes back
        ctx.violation('embedded-vs-posthoc', wit, True, bad)
    # (x3) regression F46 (fixed): PropagatePositions on an inlined ?rule whose result is a child with empty meta
    wit = {'grammar': '?start: _E t1{A}\nt1{p}: p | p p*\nA: "a"\n_E: "e"\n', 'text': 'eaaaa', 'keep_all_tokens': False,
           'maybe_placeholders': True, 'base': 'Transformer', 'variant': 'plain', 'rules': [], 'toks': ['A'], 'choices': [],
           'mode': 'default', 'propagate_positions': True}
    ctx.count('regress-F46', key='F46')
    try:
        bad = embedded_vs_posthoc(wit)[0]
    except Exception as ex:
        bad = 'raised %r' % (ex,)
    if bad:
        ctx.violation('embedded-vs-posthoc', wit, True, bad)
    # (x) exotic: a Transformer_InPlace subclass as embedded transformer (create_callback passes a Tree) ------------
    g = 'start: a B\na: A\nA: "a"\nB: "b"\n'
    wit = {'grammar': g, 'text': 'ab', 'keep_all_tokens': False, 'maybe_placeholders': True, 'base': 'Transformer_InPlace',
           'variant': 'plain', 'rules': ['a'], 'toks': [], 'choices': [0]}
    plain = Lark(g, parser='lalr')
    bad, emb, post = embedded_vs_posthoc(wit, plain, plain.parse('ab'))
    ctx.count('exotic-embedded-inplace', key='F27')
    if bad:
        ctx.violation('embedded-vs-posthoc', wit, True, bad, key='F27:embedded-Transformer_InPlace-callback-gets-Tree')


R12_KINDS = {
    'hist': ('Shape/Transform.v on an object with a history', 'value of the four traversals == Coq models under the attribute state the object has now'),
    'merge': ('Shape/GenTie.merge_T vs merge_transformers', 'merge_transformers(base, prefix=sub) == merged lookup of the model'),
    'vargs': ('Shape/VArgs.v vs v_args wrappers / apply_visit_wrapper / inplace_transformer', 'call shape of a decorated callback (post-hoc, embedded, embedded in-place)'),
    'dag': ('Shape/InPlaceDag.v vs Transformer_InPlace / _InPlaceRecursive on a DAG', 'iter_subtrees order and final values on a heap with shared objects'),
}
_MODDIRS = {}


def _module_dir(modules):
    """writes the imported grammar modules ({name: text}) to a scratch directory once per process"""
    import atexit
    import shutil
    import tempfile
    key = tuple(sorted(modules.items()))
    if key not in _MODDIRS:
        d = tempfile.mkdtemp(prefix='lv_C16_mod_', dir=os.environ.get('VERIF_SCRATCH', '/var/tmp'))
        atexit.register(shutil.rmtree, d, True)
        for name, text in modules.items():
            with open(os.path.join(d, name + '.lark'), 'w') as f:
                f.write(text)
        _MODDIRS[key] = d
    return _MODDIRS[key]


NS_MODULES = {
    'arith': 'expr: term (PLUS term)*\nterm: NUMBER | NAME | "(" expr ")" | neg\nneg: "-" term\nPLUS: "+"\nNUMBER: /[0-9]+/\nNAME: /[a-z]+/\n',
    'lists': 'list: "[" [item ("," item)*] "]"\n?item: WORD | list | pair\npair: WORD ":" WORD\nWORD: /[a-z]+/\n',
}
NS_GRAMMARS = [
    # (grammar, texts): rules imported from a module bring their terminals along under the module's (lower-case) prefix
    ('start: stmt+\nstmt: TARGET "=" expr ";"\n%import arith.expr\nTARGET: /[A-Z]+/\n%ignore " "\n',
     ['X=1;', 'X = a + 2 ; Y = (b+3)+c ;', 'Z=-4+-(q);']),
    ('start: expr | list\n%import arith.expr\n%import lists.list\n%ignore " "\n',
     ['1+2', '[a,b:c,[d]]', '[]', '(x)+y']),
    ('start: (list ";")+\n%import lists (list, WORD)\n%ignore " "\n',
     ['[a];', '[a:b,c];[[d]];']),
]


def namespaced_stream(ctx):
    """Embedded vs post-hoc on grammars whose rule and terminal names carry a module prefix (`arith__NUMBER`,
    `lists__pair`): callbacks attached to such names - written by hand or produced by merge_transformers - must be applied
    by the embedded transformer exactly as Transformer.transform applies them. Fixed grammars, every callback subset drawn
    from the names the loaded grammar really has."""
    from lark import Lark, Transformer
    from lark.visitors import merge_transformers
    rng = ctx.rng
    for gtext, texts in NS_GRAMMARS:
        for lexer in ('contextual', 'basic'):
            kw = dict(parser='lalr', lexer=lexer, import_paths=[_module_dir(NS_MODULES)])
            plain = Lark(gtext, **kw)
            names = sorted({r.origin.name for r in plain.rules if not r.origin.name.startswith('_') and '{' not in r.origin.name})
            termnames = sorted(t.name for t in plain.terminals if not t.name.startswith('__') and t.name not in plain.ignore_tokens)
            ns_terms = [k for k in termnames if '__' in k]
            from lark.exceptions import LarkError
            usable = []
            for text in texts:
                try:
                    plain.parse(text)
                    usable.append(text)
                except LarkError:      # e.g. two modules' word terminals collide under the basic lexer
                    pass
            texts = usable
            for text in texts:
                tree = plain.parse(text)
                for rep in range(ctx.scale(3, 10)):
                    # every namespaced terminal gets a callback in the first round, random subsets afterwards
                    toks = ns_terms if rep == 0 else [k for k in termnames if rng.random() < 0.5]
                    rules = [n for n in names if rng.random() < 0.5]
                    variant = rng.choice(['plain', 'inline', 'tree', 'mixed'])
                    choices = [rng.randrange(3) for _ in range(99)]
                    mode = rng.choice(['default', 'default', 'kw_true', 'kw_false'])
                    wit = {'grammar': gtext, 'text': text, 'keep_all_tokens': rng.random() < 0.3, 'maybe_placeholders': True,
                           'base': rng.choice(['Transformer', 'Transformer', 'Transformer_NonRecursive']), 'variant': variant,
                           'rules': rules, 'toks': toks, 'choices': choices[:len(rules)], 'mode': mode, 'lexer': lexer,
                           'modules': NS_MODULES, 'kind': 'namespaced'}
                    try:
                        bad = embedded_vs_posthoc(wit)[0]
                    except Exception as ex:
                        bad = 'raised %r' % (ex,)
                    ctx.count('embedded-namespaced', key=(gtext, text, lexer, tuple(rules), tuple(toks), variant, mode),
                              nontrivial=bool(set(toks) & set(ns_terms)), ns_lexer=lexer, ns_token_callbacks=min(len(toks), 4))
                    if bad:
                        ctx.violation('embedded-vs-posthoc', wit, True, bad)
            # merge_transformers: the library transformer's callbacks are re-exported under the prefix
            if 'arith__NUMBER' in termnames:
                class LibT(Transformer):
                    def NUMBER(self, t):
                        return ('num', int(t))

                    def NAME(self, t):
                        return ('name', str(t))

                    def neg(self, ch):
                        return ('neg', tuple(ch))

                class BaseT(Transformer):
                    def TARGET(self, t):
                        return ('target', str(t))
                for text in texts:
                    try:
                        tree = plain.parse(text)
                        post = merge_transformers(BaseT(), arith=LibT()).transform(tree)
                        emb = Lark(gtext, transformer=merge_transformers(BaseT(), arith=LibT()), **kw).parse(text)
                        bad = None if emb == post else 'merge_transformers: embedded gives %r, transforming afterwards gives %r' % (emb, post)
                    except Exception as ex:
                        bad = 'merge_transformers: raised %r' % (ex,)
                    ctx.count('embedded-namespaced', key=(gtext, text, lexer, 'merge_transformers'), nontrivial=True,
                              ns_lexer=lexer, ns_token_callbacks='merge')
                    if bad:
                        ctx.violation('embedded-vs-posthoc', {'grammar': gtext, 'text': text, 'lexer': lexer, 'modules': NS_MODULES,
                                                              'kind': 'namespaced-merge'}, True, bad)


def chain_stream(ctx):
    """TransformerChain (T1 * T2) over the four classes: the second transformer meets the user values
    the first one produced (neither Tree nor Token: passed through untouched)"""
    rng = ctx.rng
    for _ in range(ctx.scale(80, 800)):
        t = ('T', 'start', tuple(random_tree(rng, 1) for _ in range(rng.choice([1, 2, 3, 4]))))
        r1 = [n for n in ('a', 'b') if rng.random() < 0.7]
        r2 = [n for n in ('c', 'start') if rng.random() < 0.7]
        k1 = [k for k in TOK_POOL if rng.random() < 0.4]
        k2 = [k for k in TOK_POOL if k not in k1 and rng.random() < 0.4]
        mode = rng.choice(['default', 'kw_false'])
        vt = MODES[mode]
        want = ref_chain(ref_value(t, r1, k1, vt), r2, k2, vt)
        for b in BASES:
            try:
                T1, T2 = make_T(b, r1, k1, 'plain', None, mode), make_T(b, r2, k2, 'plain', None, mode)
                got = sl.value_of((instantiate(T1, mode) * instantiate(T2, mode)).transform(sl.to_lark(t)))
            except Exception as ex:
                got = ('exc', repr(ex)[:200])
            ctx.count('chain', key=(repr(t), tuple(r1), tuple(r2), tuple(k1), tuple(k2), mode, b), nontrivial=True)
            if got != want:
                ctx.violation('variants-chain', {'chain_tree': t, 'r1': r1, 'r2': r2, 'k1': k1, 'k2': k2, 'mode': mode, 'base': b},
                              True, '(%s * %s) returns %s, composing the documented results gives %s' % (b, b, sl.show_v(got), sl.show_v(want)))
                break


def ref_chain(v, rules, toks, vt):
    """documented result of a second transformer applied to a VALUE (trees/tokens inside user values are not visited)"""
    if v is None or v[0] == 'U':
        return v
    rt, tt = tags_of(list(rules), list(toks))
    if v[0] == 't':
        return ('U', tt[v[1]], (v,)) if (vt and v[1] in tt) else v
    ch = tuple(ref_chain(c, rules, toks, vt) for c in v[2])
    return ('U', rt[v[1]], ch) if v[1] in rt else ('T', v[1], ch)


def chain_bad(w):
    t = _tup(w['chain_tree'])
    vt = MODES[w['mode']]
    want = ref_chain(ref_value(t, w['r1'], w['k1'], vt), w['r2'], w['k2'], vt)
    try:
        T1, T2 = make_T(w['base'], w['r1'], w['k1'], 'plain', None, w['mode']), make_T(w['base'], w['r2'], w['k2'], 'plain', None, w['mode'])
        got = sl.value_of((instantiate(T1, w['mode']) * instantiate(T2, w['mode'])).transform(sl.to_lark(t)))
    except Exception:
        return True
    return got != want


def dag_witness_bad(w):
    from lark import Tree
    vals = []
    for b in BASES:
        sh = sl.to_lark(_tup(w['shared']))
        root = Tree('start', [Tree('a', [sh]), sh])
        vals.append(sl.value_of(make_T(b, w['rules'], w['toks'], 'plain')().transform(root)))
    return any(v != vals[0] for v in vals)


def embedded_vs_posthoc(w, plain=None, tree=None):
    from lark import Lark
    mode = w.get('mode', 'default')
    T = make_T(w['base'], w['rules'], w['toks'], w['variant'], w['choices'] + [0] * 99, mode, w.get('attach', 'def'))
    kw = dict(parser='lalr', keep_all_tokens=w['keep_all_tokens'], maybe_placeholders=w['maybe_placeholders'],
              lexer=w.get('lexer', 'contextual'), propagate_positions=w.get('propagate_positions', False))
    if w.get('modules'):
        kw['import_paths'] = [_module_dir(w['modules'])]
    if plain is None:
        plain = Lark(w['grammar'], **kw)
        tree = plain.parse(w['text'])
    try:
        emb = sl.value_of(Lark(w['grammar'], transformer=instantiate(T, mode), **kw).parse(w['text']))
    except Exception as ex:
        emb = ('exc', repr(ex)[:200])
    try:
        post = sl.value_of(instantiate(T, mode).transform(copy.deepcopy(tree)))     # in-place classes rewrite their input
    except Exception as ex:
        post = ('exc', repr(ex)[:200])
    if emb != post:
        return ('embedded gives %s, transforming afterwards gives %s' % (sl.show_v(emb), sl.show_v(post))), emb, post
    return None, emb, post


def replay(ctx, case):
    w = case['witness']
    if 'construct_error' in w:
        from lark import Lark
        from lark.exceptions import LarkError
        try:
            Lark(w['grammar'], parser='lalr', keep_all_tokens=w['keep_all_tokens'],
                 maybe_placeholders=w['maybe_placeholders']).parse(w['text'])
        except LarkError:
            return False
        except Exception:
            return True
        return False
    if w.get('hist_kind') == 'variants':
        return shh.variants_hist_bad(w) is not None
    if w.get('hist_kind') == 'embedded':
        try:
            return shh.embedded_hist_bad(w) is not None
        except Exception:
            return True
    if 'dag' in w and 'base' in w:
        return shh.dag_bad(w)
    if w.get('kind') == 'namespaced-merge':
        c2 = type(ctx)(ctx.prop, ctx.tier, ctx.seed)
        try:
            namespaced_stream(c2)
            return any(v['witness'].get('kind') == 'namespaced-merge' for v in c2.violations)
        finally:
            c2.cleanup()
    if 'grammar' in w:
        try:
            return embedded_vs_posthoc(w)[0] is not None
        except Exception:
            return True
    if 'tree' in w:
        t = _tup(w['tree'])
        mode = w.get('mode', 'default')
        obs = [run_variant(b, w['rules'], w['toks'], w['variant'], w['choices'] + [0] * 99, t, mode, w.get('attach', 'def')) for b in BASES]
        want = ref_value(t, *tags_of(w['rules'], w['toks'], w['variant'], w['choices'] + [0] * 99, w.get('attach', 'def')), MODES[mode])
        if any(o[0] == 'exc' for o in obs) or any(o[0] != want for o in obs):
            return True
        return any(log_ok(t, [tuple(p) for p in o[1]], MODES[mode]) for o in obs)
    if 'chain_tree' in w:
        return chain_bad(w)
    if 'dag_witness' in w:
        return dag_witness_bad(w)
    if 'shared' in w:
        from lark import Tree
        sub, other = _tup(w['shared']), _tup(w['other'])
        vals = []
        for b in BASES:
            sh = sl.to_lark(sub)
            root = Tree('start', [sh, Tree('a', [sh, sl.to_lark(other)]), sh])
            try:
                vals.append(sl.value_of(make_T(b, w['rules'], w['toks'], 'plain')().transform(root)))
            except Exception as ex:
                vals.append(('exc', repr(ex)[:100]))
        return any(v != vals[0] for v in [vals[1], vals[3]])
    return False


def _tup(t):
    if t is None:
        return None
    if t[0] == 't':
        return ('t', t[1], t[2])
    return ('T', t[1], tuple(_tup(c) for c in t[2]))
