"""Shared helpers of the forest block (C05, C20): random ambiguous grammars with priorities, export of
lark's SPPF (graph form and unfolded Coq literal), brute-force enumeration of the derivations of the compiled
BNF (the Python oracle of the failing-input search), reconstruction of derivations from unshaped trees."""
import json
import os
import subprocess
import sys

from lib import coq_term_str as S, coq_list as L, coq_Z as Z, coq_nat as N, REPO

NEG_INF = float('-inf')
MODES = ['normal', 'invert', None]
MODE_COQ = {'normal': 'PNormal', 'invert': 'PInvert', None: 'PNone'}
LEXERS = ['basic', 'dynamic', 'dynamic_complete']


# --------------------------------------------------------------------------- grammars
def gen_alternative(rng, nt, nts, terms, cyclic, empties, ebnf):
    """one alternative: 1-3 items, each a symbol, `x?`, a maybe-placeholder `[x]` / `[x y]` or a group `(x | y)`
    - everything that makes Grammar.compile produce several Rule (and RuleOptions) objects for one definition.
    Without `empties` at least one item is mandatory (no directly empty rule arises)."""
    idx = nts.index(nt)

    def sym():
        return rng.choice(terms) if rng.random() < 0.45 else ('NT', rng.choice(nts))
    items = []
    for _ in range(rng.choice([1, 1, 2, 2, 3])):
        r = rng.random()
        if ebnf and r < 0.12:
            items.append(('group', [sym(), sym()]))
        elif ebnf and r < 0.30:
            items.append(('maybe', [sym()] if rng.random() < 0.8 else [sym(), sym()]))
        elif (ebnf and r < 0.38) or (empties and r < 0.08):
            items.append(('opt', [sym()]))
        else:
            items.append(('plain', [sym()]))
    if not empties and not any(k in ('plain', 'group') for k, _ in items):
        items[0] = ('plain', items[0][1][:1])
    has_term = any(k == 'plain' and not isinstance(ss[0], tuple) for k, ss in items)

    def name(s_):
        if not isinstance(s_, tuple):
            return s_
        nm = s_[1]
        # without a mandatory terminal beside it a reference may only go "down" (no derivation cycles)
        if not cyclic and not has_term and nts.index(nm) <= idx:
            later = nts[idx + 1:]
            nm = rng.choice(later) if later else rng.choice(terms)
        return nm
    out = []
    for k, ss in items:
        names = [name(x) for x in ss]
        if k == 'plain':
            out.append(names[0])
        elif k == 'opt':
            out.append(names[0] + '?')
        elif k == 'maybe':
            out.append('[' + ' '.join(names) + ']')
        else:
            if names[0] == names[1]:
                out.append(names[0])
            else:
                out.append('(' + ' | '.join(names) + ')')
    return ' '.join(out)


def gen_grammar(rng, cyclic=False, empties=True, prios=True, tprios=True, ebnf=None):
    """Random grammar over terminals A:"a" B:"b" (+ AB:"ab", AA:"aa", A2:"a"), 2-4 non-terminals, signed
    rule priorities (rule.2:), terminal priorities (A.3:), nullable alternatives, optionally unit cycles;
    with `ebnf` (default: 60% of the grammars) also `x?`, `[x]` placeholders and groups inside the rules.
    Rule names are plain lower-case and terminals are named, so no tree shaping applies (no inlining, no
    filtered tokens): the tree returned by lark determines the derivation."""
    if ebnf is None:
        ebnf = rng.random() < 0.6
    nts = ['start', 'a', 'b', 'c'][:rng.randint(2, 4)]
    terms = ['A', 'B']
    extra = [('AB', 'ab'), ('AA', 'aa'), ('A2', 'a'), ('BB', 'bb')]
    rng.shuffle(extra)
    tdefs = {'A': 'a', 'B': 'b'}
    for nm, v in extra[:rng.randint(0, 2)]:
        terms.append(nm)
        tdefs[nm] = v
    lines = []
    for nt in nts:
        nalt = rng.randint(1, 3) if nt != 'start' else rng.randint(2, 3)
        alts = []
        for _ in range(nalt):
            r = rng.random()
            if empties and r < 0.12 and nt != 'start':
                alts.append('')
                continue
            alts.append(gen_alternative(rng, nt, nts, terms, cyclic, empties, ebnf))
        if cyclic and rng.random() < 0.5:
            alts.append(rng.choice(nts))      # unit alternative, possibly "a: a"
        # drop duplicate alternatives (lark rejects them)
        seen, alts2 = set(), []
        for a in alts:
            if a not in seen:
                seen.add(a)
                alts2.append(a)
        pr = ''
        if prios and rng.random() < 0.6:
            pr = '.%d' % rng.choice([-3, -2, -1, 1, 2, 3, 0])
        lines.append('%s%s: %s' % (nt, pr, ' | '.join(alts2)))
    for t in terms:
        pr = ''
        if tprios and rng.random() < 0.5:
            pr = '.%d' % rng.choice([-2, -1, 1, 2, 3])
        lines.append('%s%s: "%s"' % (t, pr, tdefs[t]))
    return '\n'.join(lines) + '\n'


def strip_priorities(g):
    import re
    return re.sub(r'(?m)^(\w+)\.-?\d+:', r'\1:', g)


def gen_input(rng, maxlen=5):
    n = rng.randint(0, maxlen)
    return ''.join(rng.choice('ab') for _ in range(n))


def mk(g, lexer, ambiguity, priority, **kw):
    from lark import Lark
    return Lark(g, parser='earley', ambiguity=ambiguity, lexer=lexer, priority=priority, **kw)


def tables(p):
    """rule and terminal tables of a Lark instance: what the engines run on"""
    rules = []
    for i, r in enumerate(p.rules):
        rules.append(dict(id=i, origin=r.origin.name, exp=[(s.is_term, s.name) for s in r.expansion], order=r.order,
                          prio=r.options.priority, name=str(r.alias or r.options.template_source or r.origin.name)))
    terms = {t.name: dict(prio=t.priority, value=t.pattern.value, regexp=t.pattern.to_regexp(),
                          is_re=type(t.pattern).__name__ == 'PatternRE') for t in p.terminals}
    return rules, terms


def declared_priorities(g):
    """priorities as WRITTEN in the grammar text: {name: N} for every definition `name.N: ...` (rules and terminals);
    independent of lark's loader"""
    import re
    out = {}
    for m in re.finditer(r'(?m)^[ \t]*[?!]*(\w+)\.(-?\d+)[ \t]*:', g):
        out[m.group(1)] = int(m.group(2))
    return out


def declared_tables(g, p):
    """tables(p) with the priorities replaced by the DECLARED ones: every compiled alternative of a rule written
    `name.N:` has priority N (None without a declaration; helper rules of EBNF operators have none), a terminal written
    `T.N:` has priority N (0 without).  This is what the optimum is measured with and what the loaded tables are
    compared against - the priorities on lark's own Rule objects are an observation, not the reference."""
    rules, terms = tables(p)
    decl = declared_priorities(g)
    rules = [dict(r, prio=decl.get(r['origin'])) for r in rules]
    terms = {n: dict(t, prio=decl.get(n, 0)) for n, t in terms.items()}
    return rules, terms


def gen_ignore_grammar(rng, regexps=None):
    """Grammar for the dynamic lexers whose %ignore terminals overlap its own terminals: string literals over
    {a,b} as terminals, one to three %ignore'd literals of different lengths chosen among strings that are a
    prefix of / a suffix of / equal to terminals of the grammar, alternatives that can consume the ignorable
    text inside a symbol (A | AB with "b" ignored).  Returns (grammar text, [ignored strings])."""
    pool = [('A', 'a'), ('B', 'b'), ('AB', 'ab'), ('BA', 'ba'), ('AA', 'aa'), ('BB', 'bb'), ('ABA', 'aba'),
            ('BAB', 'bab')]
    if regexps is None:
        regexps = rng.random() < 0.55
    k = rng.randint(2, 3) if regexps else rng.randint(3, 5)
    chosen = [pool[0], pool[1]] + rng.sample(pool[2:], k - 2)
    # regexp terminals (small fragment: repeated groups, alternations of different lengths, optional suffixes,
    # character classes; none matches the empty string, several are not prefix-closed): (name, regexp, samples)
    repool = [('RAB', '(ab)+', ['ab', 'abab']), ('ROB', 'a?b', ['b', 'ab']), ('RALT', 'ab|a', ['a', 'ab']),
              ('RALT2', 'a|ab', ['a', 'ab']), ('RAP', 'a+', ['a', 'aa']), ('RCB', '[ab]b?', ['a', 'bb']),
              ('RBA', 'a(ba)*', ['a', 'aba']), ('RBP', 'b+a?', ['b', 'bba']), ('RGB', '(a|b)b', ['ab', 'bb']),
              ('RNUM', 'a+(ba+)?', ['a', 'aba']), ('RQ', 'a{1,2}b?', ['a', 'aab']), ('RABC', 'aba|a', ['a', 'aba'])]
    regex = {}
    if regexps:
        for nm, rx, samples in rng.sample(repool, rng.randint(2, 3)):
            regex[nm] = (rx, samples)
            chosen.append((nm, samples[-1]))
    terms = [n for n, _ in chosen]
    nts = ['start', 'a', 'b'][:rng.randint(2, 3)]
    lines = []
    for nt in nts:
        idx = nts.index(nt)
        alts = []
        for _ in range(rng.randint(2, 3) if nt == 'start' else rng.randint(1, 3)):
            if nt != 'start' and rng.random() < 0.1:
                alts.append('')
                continue
            n = rng.choice([1, 2, 2, 3])
            syms, has_term = [], False
            for _ in range(n):
                if rng.random() < 0.5:
                    syms.append(rng.choice(terms))
                    has_term = True
                else:
                    syms.append(('NT', rng.choice(nts)))
            out = []
            for s_ in syms:
                if isinstance(s_, tuple):
                    name = s_[1]
                    if name in nts and not has_term and nts.index(name) <= idx:
                        later = nts[idx + 1:]
                        name = rng.choice(later) if later else rng.choice(terms)
                    out.append(name)
                else:
                    out.append(s_)
            alts.append(' '.join(out))
        seen, alts2 = set(), []
        for a in alts:
            if a not in seen:
                seen.add(a)
                alts2.append(a)
        pr = '.%d' % rng.choice([-1, 1, 2]) if rng.random() < 0.3 else ''
        lines.append('%s%s: %s' % (nt, pr, ' | '.join(alts2)))
    for n, v in chosen:
        if n in regex:
            lines.append('%s: /%s/' % (n, regex[n][0]))
        else:
            lines.append('%s: "%s"' % (n, v))
    # ignored literals: overlap the terminals (prefix / suffix / whole), different lengths
    cands = set()
    for _, v in chosen:
        for l in range(1, len(v) + 1):
            cands.add(v[:l])
            cands.add(v[-l:])
    for rx, samples in regex.values():
        for v in samples:
            cands.add(v[:1])
            cands.add(v[-1:])
    cands = sorted(cands)
    ign = rng.sample(cands, min(len(cands), rng.choice([0, 1, 1, 2, 2, 3] if regex else [1, 1, 2, 2, 3])))
    for v in ign:
        lines.append('%%ignore "%s"' % v)
    return '\n'.join(lines) + '\n', ign


def gap_closure(text, ignores):
    """reach[i] = positions reachable from i by skipping zero or more ignored matches"""
    n = len(text)
    reach = []
    for i in range(n + 1):
        seen = {i}
        todo = [i]
        while todo:
            p = todo.pop()
            for v in ignores:
                if v and text.startswith(v, p) and p + len(v) not in seen:
                    seen.add(p + len(v))
                    todo.append(p + len(v))
        reach.append(sorted(seen))
    return reach


def token_ends(terms, name, text, p, scanner='ideal'):
    """end positions of the tokens of terminal `name` starting at p.
    'ideal': every span the terminal's regexp matches fully (re.fullmatch on every candidate span);
    'dynamic': what xearley's scanner considers - the regexp engine's match at p only;
    'dynamic_complete': that match and, for every proper truncation of it, the engine's match of the truncation."""
    import re
    rx = terms[name].get('_rx')
    if rx is None:
        rx = terms[name]['_rx'] = re.compile(terms[name].get('regexp') or re.escape(terms[name]['value']))
    if scanner == 'ideal':
        return [e for e in range(p + 1, len(text) + 1) if rx.fullmatch(text, p, e)]
    m = rx.match(text, p)
    if not m or m.end() == p:
        return []
    ends = {m.end()}
    if scanner == 'dynamic_complete':
        s_ = m.group(0)
        for j in range(1, len(s_)):
            m2 = rx.match(s_[:-j])
            if m2 and m2.end() > 0:
                ends.add(p + m2.end())
    return sorted(ends)


def gap_closure_terms(text, terms, ign_names, scanner):
    """like gap_closure for %ignore terminals given by name (string or regexp): under the scanner reading an ignored
    match is the regexp engine's (greedy) match at the position, under 'ideal' any full match"""
    n = len(text)
    reach = []
    for i in range(n + 1):
        seen = {i}
        todo = [i]
        while todo:
            p = todo.pop()
            for nm in ign_names:
                for e in token_ends(terms, nm, text, p, 'ideal' if scanner == 'ideal' else 'dynamic'):
                    if e not in seen:
                        seen.add(e)
                        todo.append(e)
        reach.append(sorted(seen))
    return reach


def enumerate_derivations_ignore(rules, terms, start, text, ignores, cap=400, scanner='ideal', ign_terms=None):
    """Character-level derivations of `start` over text for the dynamic lexers with %ignore: the tokens tile the
    text in order, ignored matches may only lie between tokens (before the first, after the last); every token
    span is matched by its terminal (string literal or regexp; see token_ends for `scanner`).
    Tree = ('N', rule_id, children) | ('T', term, text, pos).
    Canonical spans: a symbol ends where its last token ends.  Returns (list, cyclic)."""
    n = len(text)
    reach = gap_closure(text, ignores) if ign_terms is None else gap_closure_terms(text, terms, ign_terms, scanner)
    by_origin = {}
    for r in rules:
        by_origin.setdefault(r['origin'], []).append(r)
    names = sorted(by_origin)

    def term_from(name, i):
        """tokens of terminal `name` after an optional gap starting at i: [(tree, end)]"""
        out = []
        for p in reach[i]:
            for e in token_ends(terms, name, text, p, scanner):
                out.append((('T', name, text[p:e], p), e))
        return out
    der = set()

    def seq_ok(exp, k, i, j):
        if k == len(exp):
            return i == j
        is_term, name = exp[k]
        if is_term:
            return any(e <= j and seq_ok(exp, k + 1, e, j) for _, e in term_from(name, i))
        return any((name, i, m) in der and seq_ok(exp, k + 1, m, j) for m in range(i, j + 1))
    changed = True
    while changed:
        changed = False
        for name in names:
            for i in range(n + 1):
                for j in range(i, n + 1):
                    if (name, i, j) not in der and any(seq_ok(r['exp'], 0, i, j) for r in by_origin[name]):
                        der.add((name, i, j))
                        changed = True
    memo, active, flags = {}, set(), {'cyclic': False}

    def sym(name, i, j):
        key = (name, i, j)
        if key not in der:
            return []
        if key in memo:
            return memo[key]
        if key in active:
            flags['cyclic'] = True
            return []
        active.add(key)
        out = []
        for r in by_origin.get(name, []):
            for cs in seq(r['exp'], 0, i, j):
                out.append(('N', r['id'], cs))
                if len(out) > cap:
                    raise TooMany()
        active.discard(key)
        memo[key] = out
        return out

    def seq(exp, k, i, j):
        if k == len(exp):
            return [()] if i == j else []
        is_term, name = exp[k]
        res = []
        if is_term:
            heads = [(t, e) for t, e in term_from(name, i) if e <= j]
        else:
            heads = None
        ends = sorted({e for _, e in heads}) if is_term else range(i, j + 1)
        for m in ends:
            if not seq_ok(exp, k + 1, m, j):
                continue
            hs = [t for t, e in heads if e == m] if is_term else sym(name, i, m)
            if not hs:
                continue
            tails = seq(exp, k + 1, m, j)
            for h in hs:
                for t in tails:
                    res.append((h,) + t)
                    if len(res) > 4 * cap:
                        raise TooMany()
        return res
    out = []
    for j in range(n + 1):
        if n in reach[j]:
            out += sym(start, 0, j)
    return out, flags['cyclic']


def erase_pos(d):
    if d[0] == 'T':
        return d[:3]
    return ('N', d[1], tuple(erase_pos(c) for c in d[2]))


def expand_ambig_pos(t):
    """like expand_ambig, token leaves carry their start position: ('T', type, text, start_pos)"""
    from lark import Token
    import itertools
    if isinstance(t, Token):
        return [('T', str(t.type), str(t), t.start_pos)]
    if str(t.data) == '_ambig':
        out = []
        for c in t.children:
            out += expand_ambig_pos(c)
        return out
    parts = [expand_ambig_pos(c) for c in t.children]
    return [('N', str(t.data), cs) for cs in itertools.product(*parts)]


def leaves(d):
    if d[0] == 'T':
        return [d]
    out = []
    for c in d[2]:
        out += leaves(c)
    return out


def tiling_problem(d, text, terms, ignores):
    """structural check of one derivation read off the forest: its tokens, left to right, are ordered
    non-overlapping slices of the input, each matched by its terminal, and what lies between/around them is a
    sequence of ignored matches.  None or a message."""
    reach = gap_closure(text, ignores)
    pos = 0
    for (_, name, txt, p) in leaves(d):
        if p is None:
            return 'token %s %r has no position' % (name, txt)
        if p < pos:
            return 'token %s %r at [%d,%d) overlaps the previous token (ended at %d)' % (name, txt, p, p + len(txt), pos)
        if p not in reach[pos]:
            return 'text %r before token %s %r is neither a token nor ignorable' % (text[pos:p], name, txt)
        if text[p:p + len(txt)] != txt:
            return 'token %s %r is not the input slice [%d,%d)' % (name, txt, p, p + len(txt))
        if name in terms and p + len(txt) not in token_ends(terms, name, text, p, 'ideal'):
            return 'token %s %r is not matched by its terminal %r' % (name, txt, terms[name].get('regexp'))
        pos = p + len(txt)
    if len(text) not in reach[pos]:
        return 'trailing text %r is neither a token nor ignorable' % text[pos:]
    return None


# --------------------------------------------------------------------------- SPPF export
def export_graph(root, p, maps=None):
    """SPPF reachable from root as a list of nodes (ids = discovery order, root = 0).
    sym:  k='S', name, inter, start, end, prio, fams (packed ids, INSERTION order), order (ids in the order
          `children` returns them)
    pack: k='P', rule, rprio, rorder, rname, left, right, prio
    tok:  k='T', term, text, prio, start"""
    from lark.parsers.earley_forest import SymbolNode, PackedNode, TokenNode
    rule_idx = {id(r): i for i, r in enumerate(p.rules)} if p is not None else {}
    ids = {}
    tids = {}
    nodes = []

    def visit(n):
        if id(n) in ids:
            return ids[id(n)]
        k = len(nodes)
        ids[id(n)] = k
        nodes.append(None)
        if isinstance(n, TokenNode):
            t = n.token
            nodes[k] = dict(k='T', term=str(getattr(t, 'type', '?')), text=str(t), prio=n.priority,
                            start=getattr(t, 'start_pos', None), tid=tids.setdefault(id(t), len(tids)))
        elif isinstance(n, SymbolNode):
            if n.is_intermediate:
                name = '%d.%d' % (rule_idx.get(id(n.s[0]), -1), n.s[1])
            else:
                name = getattr(n.s, 'name', str(n.s))
            d = dict(k='S', name=name, inter=bool(n.is_intermediate), start=n.start, end=n.end, prio=n.priority)
            nodes[k] = d
            ins = list(iter(n))                 # SymbolNode.__iter__ : _children in insertion order
            srt = n.children                    # sorted by sort_key (stable)
            d['fams'] = [visit(c) for c in ins]
            d['order'] = [ids[id(c)] for c in srt]
        elif isinstance(n, PackedNode):
            r = n.rule
            if r is None:       # hand-built forests
                d = dict(k='P', rule=-1, rprio=None, rorder=0, rname='?', prio=n.priority,
                         pinter=bool(n.parent.is_intermediate))
            else:
                d = dict(k='P', rule=rule_idx.get(id(r), -1), rprio=r.options.priority, rorder=r.order,
                         rname=str(r.alias or r.options.template_source or r.origin.name), prio=n.priority,
                         pinter=bool(n.parent.is_intermediate))
            nodes[k] = d
            d['left'] = visit(n.left) if n.left is not None else None
            d['right'] = visit(n.right) if n.right is not None else None
        else:
            raise TypeError(type(n))
        return k
    sys.setrecursionlimit(10000)
    visit(root)
    if maps is not None:
        maps['ids'] = ids
        maps['tids'] = tids
    return nodes


def kids(nd):
    if nd['k'] == 'S':
        return nd['fams']
    if nd['k'] == 'P':
        return [x for x in (nd['left'], nd['right']) if x is not None]
    return []


def is_cyclic(nodes):
    state = {}

    def go(i):
        state[i] = 1
        for c in kids(nodes[i]):
            if state.get(c) == 1:
                return True
            if c not in state and go(c):
                return True
        state[i] = 2
        return False
    return go(0)


def unfolded_size(nodes):
    memo = {}

    def go(i):
        if i not in memo:
            memo[i] = 1 + sum(go(c) for c in kids(nodes[i]))
        return memo[i]
    return go(0)


def count_derivs(nodes):
    memo = {}

    def go(i):
        if i in memo:
            return memo[i]
        nd = nodes[i]
        if nd['k'] == 'T':
            r = 1
        elif nd['k'] == 'S':
            r = sum(go(c) for c in nd['fams'])
        else:
            r = 1
            for c in kids(nd):
                r *= go(c)
        memo[i] = r
        return r
    return go(0)


def zprio(x):
    return Z(0) if x == NEG_INF or x is None else Z(int(x))


def optZ(x):
    return 'None' if x is None else '(Some %s)' % Z(int(x))


def postext(pos, text):
    """token text with its start position, for position-aware comparison in the model"""
    return '%s:%s' % (pos, text)


def coq_forest(nodes, annotated=True, pos=False):
    """Coq literal of the (acyclic) forest with sharing unfolded semantically but kept textually: a symbol or
    token node referenced several times is bound once by `let` (the term denotes the unfolded tree).
    asym when annotated (observed priorities and observed `children` order as indices into the
    insertion-ordered family list), sym otherwise"""
    refs = {}
    for nd in nodes:
        for c in kids(nd):
            refs[c] = refs.get(c, 0) + 1
    lets = []          # (name, term) in dependency order
    memo = {}

    def label(nd):
        return '(mkLabel %s %s %s %s)' % (S(nd['name']), 'true' if nd['inter'] else 'false',
                                         Z(int(nd['start'])), Z(int(nd['end'])))

    def rinfo(nd):
        return '(mkRule %s %s %s %s)' % (Z(nd['rule']), S(nd['rname']), optZ(nd['rprio']), Z(nd['rorder']))

    def go(i):
        if i in memo:
            return memo[i]
        nd = nodes[i]
        if nd['k'] == 'T':
            txt = postext(nd['start'], nd['text']) if pos else nd['text']
            r = '(%s %s %s %s)' % ('ATok' if annotated else 'TokLeaf', S(nd['term']), S(txt), zprio(nd['prio']))
        elif nd['k'] == 'S':
            fams = L([go(c) for c in nd['fams']])
            if annotated:
                order = L([N(nd['fams'].index(c)) for c in nd['order']])
                r = '(ASym %s %s %s %s)' % (label(nd), zprio(nd['prio']), order, fams)
            else:
                r = '(Sym %s %s)' % (label(nd), fams)
        else:
            lft = 'None' if nd['left'] is None else '(Some %s)' % go(nd['left'])
            rgt = 'None' if nd['right'] is None else '(Some %s)' % go(nd['right'])
            if annotated:
                r = '(APack %s %s %s %s)' % (rinfo(nd), zprio(nd['prio']), lft, rgt)
            else:
                r = '(Pack %s %s %s)' % (rinfo(nd), lft, rgt)
        if refs.get(i, 0) > 1 and nd['k'] != 'P':
            name = 'n%d' % i
            lets.append((name, r))
            r = name
        memo[i] = r
        return r
    body = go(0)
    return '(' + ''.join('let %s := %s in ' % (n, t) for n, t in lets) + body + ')'


def coq_vgraph(nodes):
    """graph form for Forest/Visit.v: VTok tid | VInner (adjacency comes from the recorded callback returns)"""
    return L(['(Some %d%%N)' % nd['tid'] if nd['k'] == 'T' else 'None' for nd in nodes])


def BN(n):
    return '%d%%N' % n


def LN(xs):
    return L([BN(x) for x in xs]) if xs else '(@nil N)'


def coq_event(e):
    """raw event with binary numbers: (kind, node, path)"""
    if e[0] == 'cycle':
        return '(3%%N, %s, %s)' % (BN(e[1]), LN(e[2]))
    return '(%s, %s, (@nil N))' % ({'in': '0%N', 'out': '1%N', 'tok': '2%N'}[e[0]], BN(e[1]))


def coq_utree(t, pos=False):
    """lark Tree/Token (TreeForestTransformer output) -> Forest/Tft.v utree literal"""
    from lark import Tree, Token
    if isinstance(t, Token):
        return '(ULeaf %s %s)' % (S(str(t.type)), S(postext(t.start_pos, str(t)) if pos else str(t)))
    if isinstance(t, Tree):
        if str(t.data) == '_ambig':
            return '(UAmbig %s)' % L([coq_utree(c, pos) for c in t.children])
        return '(UNode %s %s)' % (S(str(t.data)), L([coq_utree(c, pos) for c in t.children]))
    raise TypeError(repr(t))


def expand_ambig(t):
    """all ambiguity-free trees a tree with _ambig nodes stands for, as nested tuples"""
    from lark import Tree, Token
    import itertools
    if isinstance(t, Token):
        return [('T', str(t.type), str(t))]
    if str(t.data) == '_ambig':
        out = []
        for c in t.children:
            out += expand_ambig(c)
        return out
    parts = [expand_ambig(c) for c in t.children]
    return [('N', str(t.data), cs) for cs in itertools.product(*parts)]


def unshaped(d, rules):
    """derivation with rule ids -> the unshaped tree TreeForestTransformer builds for it"""
    if d[0] == 'T':
        return d
    return ('N', rules[d[1]]['name'], tuple(unshaped(c, rules) for c in d[2]))


def traced_walk(cls, root, ids, tids, args=(), kw=None, method='visit', timeout=10):
    """run cls(*args).<method>(root) with every callback of the walk recorded.
    Returns (events, returns, result): events = ('in'|'out', node) | ('tok', tid) | ('cycle', node, path);
    returns = for every visit_*_in call, the nodes it handed back (None entries dropped)."""
    from lark.parsers.earley_forest import ForestNode
    events, rets = [], []

    def mk_in(orig):
        def f(self, node):
            events.append(('in', ids[id(node)]))
            r = orig(self, node)
            if r is None:
                rets.append((False, []))
                return None
            if isinstance(r, ForestNode):
                # a single node handed back as such: passed on unchanged, so that visit()'s own branch for this
                # return convention runs
                rets.append((True, [ids[id(r)]]))
                return r
            lst = [x for x in list(r) if x is not None]
            rets.append((False, [ids[id(x)] for x in lst]))
            return lst
        return f

    def mk_out(orig):
        def f(self, node):
            events.append(('out', ids[id(node)]))
            return orig(self, node)
        return f

    def tok(orig):
        def f(self, token):
            events.append(('tok', tids[id(token)]))
            return orig(self, token)
        return f

    def cyc(orig):
        def f(self, node, path):
            events.append(('cycle', ids[id(node)], [ids[id(x)] for x in path]))
            return orig(self, node, path)
        return f
    body = {}
    for nm in ('visit_symbol_node_in', 'visit_packed_node_in', 'visit_intermediate_node_in'):
        if hasattr(cls, nm):
            body[nm] = mk_in(getattr(cls, nm))
    for nm in ('visit_symbol_node_out', 'visit_packed_node_out', 'visit_intermediate_node_out'):
        if hasattr(cls, nm):
            body[nm] = mk_out(getattr(cls, nm))
    body['visit_token_node'] = tok(cls.visit_token_node)
    body['on_cycle'] = cyc(cls.on_cycle)
    T = type('Traced' + cls.__name__, (cls,), body)
    v = T(*args, **(kw or {}))
    res = with_timeout(timeout, getattr(v, method), root)
    return dict(events=events, rets=rets, result=res, single=bool(v.single_visit))


def multi_visit_size(nodes, cap=60000):
    """number of node entries of a full multi-visit walk (every child returned, cycles cut at the path) of the
    exported graph, or None when it exceeds cap: such walks terminate but take exponential time"""
    sys.setrecursionlimit(10000)
    count = [0]
    path = set()

    class Big(Exception):
        pass

    def go(i):
        nd = nodes[i]
        if nd['k'] == 'T':
            return
        count[0] += 1
        if count[0] > cap:
            raise Big()
        path.add(i)
        for c in (nd['order'] if nd['k'] == 'S' else kids(nd)):
            if c not in path:
                go(c)
        path.discard(i)
    try:
        go(0)
    except Big:
        return None
    return count[0]


def coq_gsum_case(root, p, timeout=20):
    """Run lark's ForestSumVisitor on the PRISTINE forest (every priority still -inf) and emit the case for
    gsum_ok of Forest/GraphResolveCheck.v: the graph, rule priority / rule order / token priority tables, and the
    priority found on every symbol and packed node afterwards (None = -inf).  Must be called before any other
    walk touches the forest."""
    from lark.parsers.earley_forest import ForestSumVisitor
    with_timeout(timeout, ForestSumVisitor().visit, root)
    maps = {}
    nodes = export_graph(root, p, maps)
    rules, terms = tables(p)
    nts, tms = {}, {}

    def nt(n):
        return nts.setdefault(n, len(nts))

    def tm(n):
        return tms.setdefault(n, len(tms))
    rule_terms = []
    for r in rules:
        rule_terms.append('(mkRule %d %s)' % (nt(r['origin']), L(['(T %d)' % tm(n) if t else '(NT %d)' % nt(n)
                                                                  for t, n in r['exp']]) if r['exp'] else '(@nil symbol)'))

    def label(i):
        nd = nodes[i]
        if nd['k'] == 'T':
            return '(NTok nat %d %d 0 0)' % (tm(nd['term']), nd['tid'])
        if nd['inter']:
            ri, ptr = nd['name'].split('.')
            return '(NInter nat (r %s) %s %d %d)' % (ri, ptr, nd['start'], nd['end'])
        return '(NSym nat %d %d %d)' % (nt(str(nd['name'])), nd['start'], nd['end'])

    def fam(k):
        pk = nodes[k]
        o = lambda x: 'None' if x is None else '(Some %s)' % label(x)
        return '(r %d, %s, %s)' % (pk['rule'], o(pk['left']), o(pk['right']))

    def oz(v):
        return 'None' if v == NEG_INF or v is None else '(Some %s)' % Z(int(v))
    fams, osym, opk = [], [], []
    ntok = 1 + max([nd['tid'] for nd in nodes if nd['k'] == 'T'] or [0])
    tptab = [0] * ntok
    for i, nd in enumerate(nodes):
        if nd['k'] == 'S':
            osym.append('(%s, %s)' % (label(i), oz(nd['prio'])))
            for k in nd['fams']:
                fams.append('(%s, %s)' % (label(i), fam(k)))
                opk.append('(%s, %s, %s)' % (label(i), fam(k), oz(nodes[k]['prio'])))
        elif nd['k'] == 'T':
            tptab[nd['tid']] = int(nd['prio'] or 0)
    rptab = L(['(r %d, %s)' % (i, Z(int(r['prio'] or 0))) for i, r in enumerate(rules)])
    rotab = L(['(r %d, %s)' % (i, Z(int(r['order']))) for i, r in enumerate(rules)])
    small = (not is_cyclic(nodes)) and unfolded_size(nodes) <= 300
    return ('(let r := fun k : nat => nth k %s (mkRule 0 []) in (%s, %s, %s, %s, %s, %s, %s, %s))'
            % (L(rule_terms), L(fams) if fams else '(@nil (nlabel nat * family nat))', rptab, rotab,
               L([Z(v) for v in tptab]), label(0), L(osym) if osym else '(@nil (nlabel nat * option Z))',
               L(opk) if opk else '(@nil (nlabel nat * family nat * option Z))', 'true' if small else 'false'))


def coq_graph_case(root, p, timeout=20):
    """Run lark's ForestToParseTree(resolve_ambiguity=True) with rule-identity callbacks on the forest (cyclic or
    not) and emit the case for Forest/GraphResolveCheck.v: (label, family) pairs in insertion order, the
    observed `children` order of every symbol node, the root label and the tree returned (None if none).
    Labels as in Forest/ExplicitBuild.v over lexemes = token ids; the rules are let-bound once per case."""
    from lark import Tree
    from lark.parsers.earley_forest import ForestSumVisitor, ForestToParseTree
    fsv = p.parser.parser.forest_sum_visitor
    tr = ForestToParseTree(Tree, id_callbacks(p), fsv and fsv(), True, False)
    res = with_timeout(timeout, tr.transform, root)
    maps = {}
    nodes = export_graph(root, p, maps)          # after the walk: `children` order as the walk saw it
    rules, terms = tables(p)
    nts = {}
    tms = {}

    def nt(n):
        return nts.setdefault(n, len(nts))

    def tm(n):
        return tms.setdefault(n, len(tms))
    rule_terms = []
    for r in rules:
        rule_terms.append('(mkRule %d %s)' % (nt(r['origin']), L(['(T %d)' % tm(n) if t else '(NT %d)' % nt(n)
                                                                  for t, n in r['exp']]) if r['exp'] else '(@nil symbol)'))

    def label(i):
        nd = nodes[i]
        if nd['k'] == 'T':
            return '(NTok nat %d %d 0 0)' % (tm(nd['term']), nd['tid'])
        if nd['inter']:
            ri, ptr = nd['name'].split('.')
            return '(NInter nat (r %s) %s %d %d)' % (ri, ptr, nd['start'], nd['end'])
        return '(NSym nat %d %d %d)' % (nt(str(nd['name'])), nd['start'], nd['end'])

    def fam(k):
        pk = nodes[k]
        o = lambda x: 'None' if x is None else '(Some %s)' % label(x)
        return '(r %d, %s, %s)' % (pk['rule'], o(pk['left']), o(pk['right']))
    fams, tab = [], []
    for i, nd in enumerate(nodes):
        if nd['k'] == 'S':
            for k in nd['fams']:
                fams.append('(%s, %s)' % (label(i), fam(k)))
            tab.append('(%s, %s)' % (label(i), L([fam(k) for k in nd['order']])))

    def dt(t):
        from lark import Token
        if isinstance(t, Token):
            return '(DL nat %d %d)' % (tm(str(t.type)), maps['tids'][id(t)])
        ks = [dt(c) for c in t.children]
        return '(DN nat (r %d) %s)' % (int(t.data), L(ks) if ks else '(@nil (dt nat))')
    obs = 'None' if res is None else '(Some %s)' % dt(res)
    return ('(let r := fun k : nat => nth k %s (mkRule 0 []) in (%s, %s, %s, %s))'
            % (L(rule_terms), L(fams) if fams else '(@nil (nlabel nat * family nat))', L(tab), label(0), obs)), res


def coq_gtft_case(root, p, resolve, timeout=20, max_events=400):
    """Run an instrumented ForestToParseTree (rule-identity callbacks; AmbiguousIntermediateExpander around them in
    resolve_ambiguity=False mode, as TreeForestTransformer._call_rule_func does; use_cache=False) on the forest and
    emit the case for gtft_ok of Forest/GraphTftCheck.v: every callback with what it returned / received.
    Values are rendered as ordered alternatives: `_iambig`/`_inter` and the `_ambig` a rule callback returns are
    multiplied out in the order AmbiguousIntermediateExpander produces them.  Returns (case or None, result, n_events)."""
    from lark import Tree, Token
    from lark.visitors import Discard
    from lark.parse_tree_builder import AmbiguousIntermediateExpander
    from lark.parsers.earley_forest import ForestToParseTree, ForestSumVisitor, TokenNode
    maps = {}
    nodes0 = export_graph(root, p, maps)
    ids, tids = maps['ids'], maps['tids']
    rules, terms = tables(p)
    nts, tms = {}, {}

    def nt(n):
        return nts.setdefault(n, len(nts))

    def tm(n):
        return tms.setdefault(n, len(tms))
    rule_terms = []
    for r in rules:
        rule_terms.append('(mkRule %d %s)' % (nt(r['origin']), L(['(T %d)' % tm(n) if t else '(NT %d)' % nt(n)
                                                                  for t, n in r['exp']]) if r['exp'] else '(@nil symbol)'))
    trace = []

    def conv(t):
        if isinstance(t, Token):
            return '(ALeaf %d %d)' % (tm(str(t.type)), tids[id(t)])
        if t.data == '_ambig':
            return '(AAmb %s)' % L([conv(c) for c in t.children])
        return '(ANode (r %d) %s)' % (int(t.data), L([conv(c) for c in t.children]) if t.children else '(@nil (atree nat))')

    def flat_children(c):
        c = list(c)
        if c and isinstance(c[0], Tree) and c[0].data == '_iambig':
            out = []
            for gc in c[0].children:
                for a in flat_children(gc.children):
                    out.append(a + [conv(x) for x in c[1:]])
            return out
        return [[conv(x) for x in c]]

    def val(v, packed_under_symbol=False):
        if v is Discard:
            return None
        if isinstance(v, list):
            return flat_children(v)
        if isinstance(v, Tree) and v.data == '_iambig':
            return flat_children([v])
        if packed_under_symbol and isinstance(v, Tree) and v.data == '_ambig':
            return [[conv(c)] for c in v.children]
        return [[conv(v)]]

    def alts(a):
        return L([L(x) if x else '(@nil (atree nat))' for x in a]) if a else '(@nil (list (atree nat)))'

    def oalts(a):
        return 'None' if a is None else '(Some %s)' % alts(a)
    cbs = {r: (lambda i: (lambda cs: Tree(str(i), cs)))(i) for i, r in enumerate(p.rules)}
    if not resolve:
        cbs = {r: AmbiguousIntermediateExpander(Tree, f) for r, f in cbs.items()}

    class T(ForestToParseTree):
        def visit_symbol_node_in(self, node):
            r = super().visit_symbol_node_in(node)
            trace.append(('in', ids[id(node)], [ids[id(x)] for x in (r or [])]))
            return r

        def visit_packed_node_in(self, node):
            r = super().visit_packed_node_in(node)
            trace.append(('in', ids[id(node)], [ids[id(x)] for x in (r or [])]))
            return r

        def visit_token_node(self, tok):
            trace.append(('tok', tok))
            return super().visit_token_node(tok)

        def on_cycle(self, node, path):
            trace.append(('cycle', ids[id(node)], [ids[id(q)] for q in path]))
            return super().on_cycle(node, path)

        def transform_symbol_node(self, node, data):
            r = super().transform_symbol_node(node, data)
            trace.append(('out', ids[id(node)], [val(d, True) for d in data], val(r)))
            return r

        def transform_intermediate_node(self, node, data):
            r = super().transform_intermediate_node(node, data)
            trace.append(('out', ids[id(node)], [val(d) for d in data], val(r)))
            return r

        def transform_packed_node(self, node, data):
            r = super().transform_packed_node(node, data)
            trace.append(('out', ids[id(node)], [val(d) for d in data], val(r, not node.parent.is_intermediate)))
            return r
    fsv = p.parser.parser.forest_sum_visitor
    tr = T(Tree, cbs, fsv and fsv(), resolve, False)
    res = with_timeout(timeout, tr.transform, root)
    if len(trace) > max_events:
        return None, res, len(trace)
    nodes = export_graph(root, p)          # after the walk: `children` order as the walk saw it
    parent = {}
    for i, nd in enumerate(nodes):
        if nd['k'] == 'S':
            for k in nd['fams']:
                parent[k] = i

    def label(i):
        nd = nodes[i]
        if nd['k'] == 'T':
            return '(NTok nat %d %d 0 0)' % (tm(nd['term']), nd['tid'])
        if nd['inter']:
            ri, ptr = nd['name'].split('.')
            return '(NInter nat (r %s) %s %d %d)' % (ri, ptr, nd['start'], nd['end'])
        return '(NSym nat %d %d %d)' % (nt(str(nd['name'])), nd['start'], nd['end'])
    lets = []
    for i, nd in enumerate(nodes):
        if nd['k'] != 'P':
            lets.append('let n%d := %s in ' % (i, label(i)))
    for i, nd in enumerate(nodes):
        if nd['k'] == 'P':
            o = lambda x: 'None' if x is None else '(Some n%d)' % x
            lets.append('let f%d := (r %d, %s, %s) in ' % (i, nd['rule'], o(nd['left']), o(nd['right'])))

    def tnode(i):
        return '(TP n%d f%d)' % (parent[i], i) if nodes[i]['k'] == 'P' else '(TS n%d)' % i

    def tnodes(xs):
        return L([tnode(x) for x in xs]) if xs else '(@nil (tnode nat))'
    evs = []
    for e in trace:
        if e[0] == 'in':
            evs.append('(TIn %s %s)' % (tnode(e[1]), tnodes(e[2])))
        elif e[0] == 'tok':
            evs.append('(TTok %d %d)' % (tm(str(e[1].type)), tids[id(e[1])]))
        elif e[0] == 'cycle':
            evs.append('(TCycle n%d %s)' % (e[1], tnodes(e[2])))
        else:
            evs.append('(TOut %s %s %s)' % (tnode(e[1]), L([alts(d) for d in e[2]]) if e[2] else '(@nil (aalts nat))',
                                          oalts(e[3])))
    fams, tab = [], []
    for i, nd in enumerate(nodes):
        if nd['k'] == 'S':
            for k in nd['fams']:
                fams.append('(n%d, f%d)' % (i, k))
            tab.append('(n%d, %s)' % (i, L(['f%d' % k for k in nd['order']])))
    ores = 'None' if res is None else '(Some %s)' % alts([[conv(res)]])
    case = ('(let r := fun k : nat => nth k %s (mkRule 0 []) in %s(%s, %s, n0, %s, %s, %s))'
            % (L(rule_terms), ''.join(lets), L(fams) if fams else '(@nil (nlabel nat * family nat))',
               L(tab) if tab else '(@nil (nlabel nat * list (family nat)))', 'true' if resolve else 'false',
               L(evs) if evs else '(@nil (tev nat))', ores))
    return case, res, len(trace)


def trace_discipline(events, single):
    """The documented contract of the walk, checked on a recorded callback trace: in/out are properly nested,
    on_cycle(node, path) is called with the nodes entered and not yet exited and node is one of them, no node is
    entered while it is on the path, a single-visit walk enters no node twice.  Returns None or a message."""
    stack = []
    entered = set()
    for k, e in enumerate(events):
        if e[0] == 'in':
            if e[1] in stack:
                return 'event %d: node %d entered while on the path %r (a loop)' % (k, e[1], stack)
            if single and e[1] in entered:
                return 'event %d: single-visit walk entered node %d twice' % (k, e[1])
            entered.add(e[1])
            stack.append(e[1])
        elif e[0] == 'out':
            if not stack or stack[-1] != e[1]:
                return 'event %d: out(%d) does not match the innermost entered node (path %r)' % (k, e[1], stack)
            stack.pop()
        elif e[0] == 'cycle':
            if list(e[2]) != stack:
                return 'event %d: on_cycle received path %r, the nodes entered and not exited are %r' % (k, e[2], stack)
            if e[1] not in stack:
                return 'event %d: on_cycle(%d) but the node is not on the path %r' % (k, e[1], stack)
    if stack:
        return 'walk ended with nodes still entered: %r' % stack
    return None


def derivation_end(t, i, rules, terms, units, dynamic):
    """t: unshaped ambiguity-free tree (nested tuples); position after t when it is a derivation starting at i
    of the compiled grammar over the input, else None"""
    if t[0] == 'T':
        if dynamic:
            v = t[2]
            ok = t[1] in terms and terms[t[1]]['value'] == v and units[i:i + len(v)] == v
            return i + len(v) if ok else None
        return i + 1 if i < len(units) and units[i] == (t[1], t[2]) else None
    shape = [(c[0] == 'T', c[1]) for c in t[2]]
    ok = False
    for r in rules:
        if r['name'] == t[1] and len(r['exp']) == len(shape) and all(
                a[0] == b[0] and (a[1] == b[1] if a[0] else True) for a, b in zip(r['exp'], shape)):
            # non-terminal children: their node name must be a name of some rule of that origin
            if all(a[0] or any(q['origin'] == a[1] and q['name'] == b[1] for q in rules) for a, b in zip(r['exp'], shape)):
                ok = True
    if not ok:
        return None
    pos = i
    for c in t[2]:
        pos = derivation_end(c, pos, rules, terms, units, dynamic)
        if pos is None:
            return None
    return pos


def coq_graph(nodes, sorted_order=True):
    """graph form for Forest/Visit.v: list of gnode; symbol kids in `children` order (sorted) or insertion order"""
    out = []
    for nd in nodes:
        if nd['k'] == 'T':
            out.append('GTok')
        elif nd['k'] == 'S':
            ks = nd['order'] if sorted_order else nd['fams']
            out.append('(GSym %s %s)' % ('true' if nd['inter'] else 'false', L([N(c) for c in ks])))
        else:
            o = lambda x: 'None' if x is None else '(Some %s)' % N(x)
            out.append('(GPack %s %s)' % (o(nd['left']), o(nd['right'])))
    return L(out)


# --------------------------------------------------------------------------- derivations (Python oracle)
class TooMany(Exception):
    pass


def enumerate_derivations(rules, terms, start, units, dynamic, cap=400):
    """All derivation trees of `start` over `units` (text for dynamic lexers - terminals are string literals
    matched at character positions - or the token list [(type, text)] of the basic lexer).
    Tree = ('N', rule_id, (children...)) | ('T', term, text).  Returns (list, cyclic, seq_ok): cyclic is True when
    the enumeration met a symbol/span inside its own expansion (derivation cycle: infinitely many trees, cut);
    seq_ok(expansion, 0, i, j) tells whether a sequence of symbols derives units[i:j]."""
    n = len(units)
    by_origin = {}
    for r in rules:
        by_origin.setdefault(r['origin'], []).append(r)
    memo = {}
    active = set()
    flags = {'cyclic': False}

    def term_at(name, i, j):
        if dynamic:
            v = terms[name]['value']
            if j - i == len(v) and units[i:j] == v and len(v) > 0:
                return ('T', name, v)
            return None
        if j == i + 1 and units[i][0] == name:
            return ('T', name, units[i][1])
        return None

    # which (symbol, span) have a derivation at all: least fixed point
    der = set()
    names = sorted(by_origin)

    def seq_ok(exp, k, i, j):
        if k == len(exp):
            return i == j
        is_term, name = exp[k]
        for m in range(i, j + 1):
            ok = (term_at(name, i, m) is not None) if is_term else ((name, i, m) in der)
            if ok and seq_ok(exp, k + 1, m, j):
                return True
        return False
    changed = True
    while changed:
        changed = False
        for name in names:
            for i in range(n + 1):
                for j in range(i, n + 1):
                    if (name, i, j) not in der and any(seq_ok(r['exp'], 0, i, j) for r in by_origin[name]):
                        der.add((name, i, j))
                        changed = True

    def sym(name, i, j):
        key = (name, i, j)
        if key not in der:
            return []
        if key in memo:
            return memo[key]
        if key in active:
            # reached inside its own expansion with a derivable prefix and (checked by the caller) a derivable
            # rest: a derivation cycle
            flags['cyclic'] = True
            return []
        active.add(key)
        out = []
        for r in by_origin.get(name, []):
            for cs in seq(r['exp'], 0, i, j):
                out.append(('N', r['id'], cs))
                if len(out) > cap:
                    raise TooMany()
        active.discard(key)
        memo[key] = out
        return out

    def seq(exp, k, i, j):
        if k == len(exp):
            return [()] if i == j else []
        is_term, name = exp[k]
        res = []
        for m in range(i, j + 1):
            if not seq_ok(exp, k + 1, m, j):
                continue
            if is_term:
                t = term_at(name, i, m)
                heads = [t] if t is not None else []
            else:
                heads = sym(name, i, m)
            if not heads:
                continue
            tails = seq(exp, k + 1, m, j)
            for h in heads:
                for t in tails:
                    res.append((h,) + t)
                    if len(res) > 4 * cap:
                        raise TooMany()
        return res
    res = sym(start, 0, n)
    return res, flags['cyclic'], seq_ok


def dprio(d, rules, terms, dynamic):
    if d[0] == 'T':
        return terms[d[1]]['prio'] if dynamic else 0
    return (rules[d[1]]['prio'] or 0) + sum(dprio(c, rules, terms, dynamic) for c in d[2])


def tree_to_derivation(t, rules):
    """unshaped lark Tree (no inlining, all tokens kept) -> derivation with rule ids; None if no rule fits"""
    from lark import Tree, Token
    if isinstance(t, Token):
        return ('T', str(t.type), str(t))
    if not isinstance(t, Tree):
        return None
    cs = [tree_to_derivation(c, rules) for c in t.children if c is not None]   # None = absent [x] placeholder
    if any(c is None for c in cs):
        return None
    shape = [(c[0] == 'T', c[1] if c[0] == 'T' else rules[c[1]]['origin']) for c in cs]
    name = str(t.data)
    cand = [r for r in rules if r['name'] == name and [(a, b) for a, b in r['exp']] == shape]
    if len(cand) != 1:
        return None
    return ('N', cand[0]['id'], tuple(cs))


def tree_to_posderivation(t, rules):
    """like tree_to_derivation, token leaves keep their start position: ('T', type, text, start_pos)"""
    from lark import Tree, Token
    if isinstance(t, Token):
        return ('T', str(t.type), str(t), t.start_pos)
    if not isinstance(t, Tree):
        return None
    cs = [tree_to_posderivation(c, rules) for c in t.children if c is not None]
    if any(c is None for c in cs):
        return None
    shape = [(c[0] == 'T', c[1] if c[0] == 'T' else rules[c[1]]['origin']) for c in cs]
    cand = [r for r in rules if r['name'] == str(t.data) and [(a, b) for a, b in r['exp']] == shape]
    if len(cand) != 1:
        return None
    return ('N', cand[0]['id'], tuple(cs))


def gen_ws_grammar(rng):
    """dynamic-lexer grammars with a greedy multi-character %ignore over blanks and regexp terminals that may swallow
    ignorable characters (AS: /a\\s/, SB: / ?b/ ...), signed rule and terminal priorities; texts over {a, b, ' '}"""
    tpool = [('A', '"a"'), ('B', '"b"'), ('AS', '/a /'), ('SB', '/ b/'), ('ASS', '/a ?/'), ('BS', '/b +/'),
             ('SA', '/ ?a/'), ('AB', '/a ?b/'), ('S', '" "')]
    chosen = [tpool[0], tpool[1]] + rng.sample(tpool[2:], rng.randint(2, 4))
    terms = [n for n, _ in chosen]
    nts = ['start', 'w', 'v'][:rng.randint(2, 3)]
    lines = []
    for nt in nts:
        idx = nts.index(nt)
        alts = []
        for _ in range(rng.randint(2, 3)):
            n = rng.choice([1, 2, 2, 3])
            syms = []
            for _ in range(n):
                if rng.random() < 0.55 or idx == len(nts) - 1:
                    syms.append(rng.choice(terms))
                else:
                    syms.append(rng.choice(nts[idx + 1:]))
            alts.append(' '.join(syms))
        alts = list(dict.fromkeys(alts))
        pr = '.%d' % rng.choice([-2, -1, 1, 2, 3]) if rng.random() < 0.5 else ''
        lines.append('%s%s: %s' % (nt, pr, ' | '.join(alts)))
    for n, v in chosen:
        pr = '.%d' % rng.choice([-2, -1, 1, 2, 3]) if rng.random() < 0.5 else ''
        lines.append('%s%s: %s' % (n, pr, v))
    lines.append(rng.choice(['%ignore / +/', '%ignore / +/', '%ignore /[ ]+/', '%ignore " "\n%ignore /  +/']))
    return '\n'.join(lines) + '\n'


def idtree_to_derivation(t):
    """Tree built by ForestToParseTree with callbacks {rule: lambda cs: Tree(rule_id, cs)}"""
    from lark import Tree, Token
    if isinstance(t, Token):
        return ('T', str(t.type), str(t))
    return ('N', int(t.data), tuple(idtree_to_derivation(c) for c in t.children))


def coq_otree(d):
    if d[0] == 'T':
        return '(OLeaf %s %s)' % (S(d[1]), S(postext(d[3], d[2]) if len(d) > 3 else d[2]))
    return '(ONode %s %s)' % (Z(d[1]), L([coq_otree(c) for c in d[2]]))


def id_callbacks(p):
    from lark import Tree
    return {r: (lambda i: (lambda cs: Tree(str(i), cs)))(i) for i, r in enumerate(p.rules)}


def empty_rule_ids(rules):
    return {r['id'] for r in rules if not r['exp']}


def mixed_empty_possible(rules):
    """can a symbol node hold a directly empty family beside a non-empty one?  Only on an empty span, when the
    origin of an empty rule has another alternative all of whose symbols are nullable"""
    nullable = set()
    changed = True
    while changed:
        changed = False
        for r in rules:
            if r['origin'] not in nullable and all((not t) and n in nullable for t, n in r['exp']):
                nullable.add(r['origin'])
                changed = True
    for e in rules:
        if not e['exp']:
            for r in rules:
                if r['origin'] == e['origin'] and r['exp'] and all((not t) and n in nullable for t, n in r['exp']):
                    return True
    return False


def empties_used(d, i=0, dynamic=True):
    """[(rule_id of an empty rule, position)] used in derivation d; returns (list, end position); positions
    are character offsets (dynamic lexers) or token indices (basic lexer)"""
    if d[0] == 'T':
        return [], i + (len(d[2]) if dynamic else 1)
    out = []
    pos = i
    for c in d[2]:
        o, pos = empties_used(c, pos, dynamic)
        out += o
    if not d[2]:
        out.append((d[1], i))
    return out, pos


# --------------------------------------------------------------------------- subprocess workers
WORKER = r'''
import sys, json
sys.path.insert(0, %(repo)r)
sys.setrecursionlimit(10000)
from lark import Lark, Tree, Token
def show(t):
    if isinstance(t, Tree):
        return [str(t.data), [show(c) for c in t.children]]
    if isinstance(t, Token):
        return [str(t.type), str(t)]
    return repr(t)
def forest_order(root):
    # the packed children of every symbol node, in insertion order and in `children` order, without ids
    from lark.parsers.earley_forest import TokenNode
    def lab(n):
        if n is None:
            return None
        if isinstance(n, TokenNode):
            return ['T', str(n.token.type), str(n.token), getattr(n.token, 'start_pos', None)]
        return ['S', (str(n.s[0]) + '@%%d' %% n.s[1]) if n.is_intermediate else n.s.name, n.start, n.end]
    out, seen, stack = {}, set(), [root]
    while stack:
        n = stack.pop()
        if n is None or isinstance(n, TokenNode) or id(n) in seen:
            continue
        seen.add(id(n))
        ins = [[str(pk.rule), lab(pk.left), lab(pk.right)] for pk in n]
        srt = [[str(pk.rule), lab(pk.left), lab(pk.right)] for pk in n.children]
        out[json.dumps(lab(n))] = [ins, srt]
        for pk in n:
            stack.append(pk.left)
            stack.append(pk.right)
    return sorted(out.items())
out = []
for c in json.load(sys.stdin):
    try:
        if c['amb'] == 'order':
            p = Lark(c['g'], parser='earley', ambiguity='forest', lexer=c['lexer'], priority=c['prio'])
            out.append(forest_order(p.parse(c['text'])))
            continue
        p = Lark(c['g'], parser='earley', ambiguity=c['amb'], lexer=c['lexer'], priority=c['prio'])
        r = p.parse(c['text'])
        if c['amb'] == 'forest':
            from lark.parsers.earley_forest import TreeForestTransformer
            r = TreeForestTransformer(resolve_ambiguity=False).transform(r)
        out.append(show(r))
    except Exception as e:
        out.append('EXC ' + type(e).__name__)
json.dump(out, sys.stdout)
'''


def run_in_subprocess(cases, hashseed, timeout=300):
    """cases: list of dict(g, amb, lexer, prio, text); returns list of shown results (or None on failure)"""
    env = dict(os.environ, PYTHONHASHSEED=str(hashseed), PYTHONDONTWRITEBYTECODE='1')
    try:
        pr = subprocess.run([sys.executable, '-c', WORKER % dict(repo=REPO)], input=json.dumps(cases), env=env,
                            stdout=subprocess.PIPE, stderr=subprocess.PIPE, text=True, timeout=timeout)
    except subprocess.TimeoutExpired:
        return None, 'timeout'
    if pr.returncode != 0:
        return None, pr.stderr[-500:]
    return json.loads(pr.stdout), ''


def show_tree(t):
    from lark import Tree, Token
    if isinstance(t, Tree):
        return [str(t.data), [show_tree(c) for c in t.children]]
    if isinstance(t, Token):
        return [str(t.type), str(t)]
    return repr(t)


class Timeout(Exception):
    pass


def with_timeout(seconds, fn, *a, **kw):
    """per-call timeout (SIGALRM): non-termination of a walk shows as Timeout"""
    import signal

    def h(sig, frm):
        raise Timeout()
    old = signal.signal(signal.SIGALRM, h)
    signal.setitimer(signal.ITIMER_REAL, seconds)
    try:
        return fn(*a, **kw)
    finally:
        signal.setitimer(signal.ITIMER_REAL, 0)
        signal.signal(signal.SIGALRM, old)
