"""C19 - Reconstructor output re-parses to the same tree."""
import re

from lib import coq_term_str as S, coq_list as L, coq_nat as N

THEOREMS = ['C19_F38_refuted', 'C19_model_conditions_regenerated', 'C19_relex_safe_bc', 'C19_lexed_tokens_lexable', 'C19_relex_safe_implies_bc', 'C19_char_roundtrip',
            'C19_m_cp_string', 'C19_char_roundtrip_example', 'C19_earley_matches_supported', 'C19_M_earley_sound', 'C19_M_earley_ok', 'C19_M_earley_complete',
            'C19_recons_token_roundtrip_earley', 'C19_resolve_selector_exists', 'C19_join_spec', 'C19_relex',
            'C19_char_roundtrip_partial', 'C19_write_tokens_yield', 'C19_recons_token_sound', 'C19_recons_token_roundtrip_partial', 'C19_recons_token_roundtrip',
            'C19_match_exists', 'C19_matcher_accepts', 'C19_text', 'C19_H_relex_refuted', 'C19_example']
GEN_DEPS = ['ReconsHoles', 'LexerSortKey']
RULE = ('seeded random grammars of the supported class (statement / expression / list / program skeletons and prefix-guarded '
        'random rules, with ?rule, _rule, !rule, aliases, * + ? [] operators, anonymous / named / _named string tokens, '
        'string literals shared between !rules (kept) and ordinary rules (filtered), operators factored into !op rules, '
        'prefix operators re-using binary literals, regexp terminals NAME NUMBER, %ignore whitespace), compiled for lalr and '
        'earley; random sentences of the compiled rules plus accepted concatenations of them (several node kinds in one '
        'tree); ONE Reconstructor per grammar reconstructs the whole sequence of trees, and one or two further '
        'Reconstructors see the same trees in other orders (another tree first): the round-trip oracle is evaluated on every '
        'tree of every history, the result for a tree must not depend on the history, and TreeMatcher.rules is compared with '
        'the model after every reconstruct call; each case = one grammar with its derived tree-matching rules and every '
        'match_tree / write_tokens call of the first sequence; a wide stream adds grammars outside the class (rule '
        'derivation and match/write correspondence only); exotic stream = fixed witnesses of the listed findings; '
        'non-trivial = distinct (grammar, sentence) whose reconstruction re-inserted >= 1 filtered token and used >= 1 '
        'inlined match node; relex-safe stream = one case per generated grammar (per-grammar condition vs observed H_relex '
        'of every tree); shared-alias / term_subs-family = fixed systematic families run by the oracle on one Reconstructor '
        'in every rotation of the inputs; idc-ascii = is_id_continue on the 128 ASCII characters')
TRUSTED_BASE = ['the parser side is a specification (derivation trees of parser.rules, ChildFilter/ExpandSingleChild shape), '
                'not a model of the LALR/Earley engines (that is C01-C03); match_tree is modelled as an arbitrary function '
                'returning supported matches - each recorded match is validated against the model grammar by the harness',
                'name numbering, snapshots of Tree/Token objects and of meta.orig_expansion taken by run-time wrapping of '
                'Reconstructor.match_tree and WriteTokensTransformer.transform',
                'is_id_continue is modelled for ASCII only (generated texts are ASCII)',
                'translator/gen_recons.py templates pin the shape of the mirrored functions; m_cp models string and [..]+ '
                'terminals only (compared with Python re on every recorded text)']
ASSUMPTIONS = ['maybe_placeholders=False, term_subs empty, no postlex, no templates, rule names do not collide with '
               'attributes of WriteTokensTransformer', 'C19_text holds under H_relex (joined text lexes back to the written '
               'tokens); H_relex is refuted in general (F12)']

IMPORTS = 'From LV Require Import Base.Prelude Cfg.Grammar Recons.Recons Recons.ReconsCheck Recons.Text.'
RX_IMPORTS = ('From LV Require Import Base.Prelude Lex.LexerBase Lex.Lexer Lex.LexerCheck Recons.Recons Recons.Relex '
              'Recons.RelexCheck Recons.RelexSafe Recons.RelexSafeCheck.')

F12_KEY = 'F12:adjacent-tokens-relex'
F13_KEY = 'C19-F13:shared-alias-two-origins'
F14_KEY = 'C19-F14:alias-unit-rule-at-root'
F15_KEY = 'C19-F15:expand1-single-inlined-symbol'
F16_KEY = 'C19-F16:root-rule-used-inline'


# ----------------------------------------------------------------------------------------------------
# lark side: build, observe
class CallTimeout(Exception):
    pass


def with_timeout(seconds, fn, *a, **kw):
    """run fn with a wall-clock limit (a mutant may make the tree matcher loop); main thread only"""
    import signal

    def handler(signum, frame):
        raise CallTimeout()
    try:
        old = signal.signal(signal.SIGALRM, handler)
    except ValueError:
        return fn(*a, **kw)
    signal.alarm(seconds)
    try:
        return fn(*a, **kw)
    finally:
        signal.alarm(0)
        signal.signal(signal.SIGALRM, old)


def make_parser(grammar, kind, **kw):
    from lark import Lark
    return Lark(grammar, parser=kind, maybe_placeholders=False, **kw)


def snap_tree(t):
    from lark import Tree, Token
    if isinstance(t, Tree):
        return ('n', str(t.data), tuple(snap_tree(c) for c in t.children))
    if isinstance(t, Token):
        return ('t', str(t.type), str(t))
    return ('?', repr(t))


def snap_sym(s):
    return (str(s.name), bool(s.is_term), bool(getattr(s, 'filter_out', False)))


def snap_u(u):
    from lark import Tree
    if isinstance(u, Tree) and getattr(u.meta, 'match_tree', False):
        return ('U', str(u.data), tuple(snap_sym(s) for s in u.meta.orig_expansion), tuple(snap_u(c) for c in u.children))
    return ('L', snap_tree(u))


def snap_items(res):
    from lark import Tree, Token
    out = []
    if not isinstance(res, list):
        return [('?', repr(res))]
    for it in res:
        if isinstance(it, Tree):
            out.append(('c', snap_tree(it)))
        elif isinstance(it, Token):
            out.append(('c', snap_tree(it)))
        else:
            out.append(('s', str(it)))
    return out


def snap_rrule(r):
    return (str(r.origin.name), tuple((str(s.name), bool(s.is_term)) for s in r.expansion),
            tuple(snap_sym(s) for s in r.alias.expansion))


def model_inputs(parser):
    """compiled rules and terminal literals of a Lark instance, as plain data"""
    from lark.lexer import PatternStr
    rules = []
    for r in parser.rules:
        rules.append(dict(origin=str(r.origin.name), exp=[snap_sym(s) for s in r.expansion],
                          alias=(str(r.alias) if r.alias else None), expand1=bool(r.options.expand1),
                          keep_all=bool(r.options.keep_all_tokens),
                          template=r.options.template_source, empty=tuple(r.options.empty_indices or ())))
    lits = {}
    for t in parser.terminals:
        if isinstance(t.pattern, PatternStr):
            lits[str(t.name)] = str(t.pattern.value)
    return rules, lits


class Obs:
    """one Reconstructor with match_tree / write_tokens.transform wrapped"""

    def __init__(self, parser, term_subs=None):
        from lark.reconstruct import Reconstructor
        self.rec = Reconstructor(parser, {k: (lambda sym, v=v: v) for k, v in (term_subs or {}).items()})
        self.matches = []
        rec = self.rec
        orig_match = rec.match_tree
        orig_tr = rec.write_tokens.transform

        def match_tree(tree, rulename):
            node = snap_tree(tree)
            u = orig_match(tree, rulename)
            self.matches.append([node, snap_u(u), None])
            return u

        def transform(u):
            idx = len(self.matches) - 1
            res = orig_tr(u)
            self.matches[idx][2] = snap_items(res)
            return res
        rec.match_tree = match_tree
        rec.write_tokens.transform = transform

    def derived(self):
        rules = [snap_rrule(r) for r in self.rec.rules]
        rfr = {str(k): [snap_rrule(r) for r in v] for k, v in self.rec.rules_for_root.items() if v}
        return rules, rfr

    def rules_now(self):
        return [snap_rrule(r) for r in self.rec.rules]

    def run(self, tree):
        """-> (matches, items, text, exception-name)"""
        self.matches = []
        try:
            raw = with_timeout(20, lambda: list(self.rec._reconstruct(tree)))
            self.typed = [(str(getattr(x, 'type', '')) or None, str(x)) for x in raw]
            items = [str(x) for x in raw]
        except Exception as e:   # noqa
            return list(self.matches), None, None, type(e).__name__
        # spacing rule exactly as reconstruct() does it, on the same items (a second generator run would
        # repeat the matches); the text is also taken from the public entry point below
        ms = list(self.matches)
        self.matches = []
        try:
            text = with_timeout(20, self.rec.reconstruct, tree)
        except Exception as e:   # noqa
            return ms, None, None, type(e).__name__
        return ms, items, text, None


# ----------------------------------------------------------------------------------------------------
# class predicates (Python mirror of ReconsCheck.class_b, plus the conditions of the property statement)
def kept_syms(r):
    return [s for s in r['exp'] if not (s[1] and s[2])]


def class_coq(rules):
    """mirror of ReconsCheck.class_b"""
    names = {r['origin'] for r in rules}
    exp1 = {r['origin'] for r in rules if r['expand1']}
    for r in rules:
        for s in r['exp']:
            if not s[1] and s[0] not in names:
                return False
        al = r['alias']
        if al is not None:
            if al in names or al.startswith('_'):
                return False
            for r2 in rules:
                if r2['alias'] == al and r2['origin'] != r['origin']:
                    return False
        if r['origin'].startswith('_') and (al is not None or r['expand1']):
            return False
        if r['origin'] in exp1 and not r['expand1']:
            return False
        if r['expand1'] and al is None:
            k = kept_syms(r)
            if len(k) == 1 and not k[0][1] and k[0][0].startswith('_'):
                return False
    return True


def plain_roots(rules):
    """mirror of ReconsCheck.plain_roots_b: no name that owns root rules (rules_for_root) is an inlined non-terminal
    of the tree-matching grammar.  Under it EVERY Earley match of a parser tree is a supported one
    (C19_earley_matches_supported), so the round trip does not depend on how lark resolves the matching ambiguity."""
    names = {r['origin'] for r in rules}
    exp1 = {r['origin'] for r in rules if r['expand1']}
    aliased = {r['origin'] for r in rules if r['alias'] is not None}

    def is_nt(n):
        return n in names and (n.startswith('_') or n in exp1 or n in aliased)

    def rsym(s):
        return (s[0], True) if s[1] or not is_nt(s[0]) else (s[0], False)
    for r in rules:
        kept = [rsym(s) for s in kept_syms(r)]
        if r['alias'] is None and kept == [(r['origin'], False)]:
            continue                                   # skipped self-recursive unit rule
        sym = r['alias'] or r['origin']
        if sym in exp1 and len(kept) != 1:
            root = True
        elif sym.startswith('_') or sym in exp1:
            root = False
        else:
            root = True
        if root and is_nt(sym):
            return False
    return True


def class_extra(rules, lits):
    """the remaining conditions of the supported class that are decidable on the compiled rules:
    filtered terminals are string literals, every alternative keeps a symbol other than the rule itself,
    keep_all consistent, no templates/placeholders, an aliased origin's bare alternative does not reduce to
    one child shaped by the origin itself (else the alias unit rules match at the root, F14)"""
    byo = {}
    for r in rules:
        byo.setdefault(r['origin'], []).append(r)
    exp1 = {r['origin'] for r in rules if r['expand1']}
    aliased = {r['origin'] for r in rules if r['alias'] is not None}
    for r in rules:
        if r['template'] or '{' in r['origin']:
            return 'template/placeholder'
        for s in r['exp']:
            if s[1] and s[2] and s[0] not in lits:
                return 'filtered regexp terminal'
        k = [s for s in kept_syms(r) if r['alias'] is not None or not (not s[1] and s[0] == r['origin'])]
        if not k:
            return 'alternative keeps no symbol other than the rule itself'
        if r['keep_all'] and any(s[1] and s[2] for s in r['exp']):
            return 'keep_all with filtered terminal'

    def reach(s):
        seen, todo = {s}, [s]
        while todo:
            x = todo.pop()
            if x.startswith('_') or x in exp1:
                for a in byo.get(x, []):
                    if a['alias'] is None or x.startswith('_'):
                        k = kept_syms(a)
                        if len(k) == 1 and not k[0][1] and k[0][0] not in seen:
                            seen.add(k[0][0])
                            todo.append(k[0][0])
        return seen
    # F16 guard: a name whose root rules (rules_for_root) can be reached again below the root of its own match
    nonterm = {o for o in byo if o.startswith('_') or o in exp1 or o in aliased}

    def goes_to_root(a):
        # mirror of _build_recons_rules: un-aliased alternative appended to rules_for_root[origin]
        if a['alias'] is not None or a['origin'].startswith('_'):
            return False
        return (len(kept_syms(a)) != 1) if a['origin'] in exp1 else True

    def inline_reach(x):
        seen, todo = set(), [a for a in byo[x] if goes_to_root(a)]
        while todo:
            a = todo.pop()
            for s in kept_syms(a):
                if not s[1] and s[0] in nonterm and s[0] not in seen:
                    seen.add(s[0])
                    todo.extend(b for b in byo[s[0]] if b['alias'] is None and not goes_to_root(b))
        return seen
    for x in nonterm:
        roots = [a for a in byo[x] if goes_to_root(a)]
        if roots and x in inline_reach(x):
            if x not in exp1:
                return 'aliased origin reachable below the root of its own match'
            if len({len(kept_syms(a)) for a in roots}) != 1 or \
                    any((not s[1]) and s[0].startswith('_') for a in roots for s in kept_syms(a)):
                return 'recursive ?rule whose un-aliased alternatives have varying child counts'
    for o in aliased - exp1:
        for a in byo[o]:
            if a['alias'] is None:
                k = kept_syms(a)
                if len(k) == 1 and not k[0][1] and o in reach(k[0][0]):
                    return 'aliased origin reachable from its own bare unit alternative'
    return None


def internal_names():
    """names of attributes of the classes the Reconstructor works with that are also valid rule names. The user's rule
    names are data for the Reconstructor: a grammar that happens to use one of them (F47, repaired in /repo) must round-trip
    like any other. The pool follows the implementation, so a new helper method is covered the day it is added."""
    import re as _re
    from lark.reconstruct import WriteTokensTransformer, Reconstructor
    from lark.tree_matcher import TreeMatcher
    pool = {'tokens', 'term_subs', 'transform', 'rules', 'parser'}
    for c in (WriteTokensTransformer, Reconstructor, TreeMatcher):
        pool |= set(dir(c))
    return sorted(n for n in pool if _re.fullmatch(r'_?[a-z][a-z0-9_]*', n) and not n.startswith('__'))


def name_collision_stream(ctx):
    from lark.exceptions import LarkError
    for nm in internal_names():
        grammars = [
            'start: "[" %s "]"\n%s: NAME ("," NAME)*\nNAME: /[a-z]+/\n%%ignore " "\n' % (nm, nm),
            'start: x+\nx: NAME "+" NAME ";" -> %s\n | NAME ";"\nNAME: /[a-z]+/\n%%ignore " "\n' % nm,
        ]
        if not nm.startswith('_'):
            grammars.append('start: "<" %s ">"\n?%s: NAME | "(" %s "," %s ")"\nNAME: /[a-z]+/\n%%ignore " "\n' % (nm, nm, nm, nm))
        texts = [['[a]', '[a, b ,c]'], ['a+b; c;', 'q;'], ['<a>', '<(a,(b,c))>']]
        for g, tx in zip(grammars, texts):
            for kind in ('lalr', 'earley'):
                for text in tx:
                    try:
                        bad = roundtrip(g, text, kind)
                    except LarkError as e:
                        bad = 'raised %s' % type(e).__name__
                    ctx.count('name-collision', key=(nm, g, kind, text), nontrivial=True)
                    if bad:
                        ctx.violation('roundtrip-oracle', {'grammar': g, 'text': text, 'parser': kind, 'rule_name': nm,
                                                           'detail': bad}, True,
                                      'a rule named like an internal attribute (%s): %s' % (nm, bad))


# ----------------------------------------------------------------------------------------------------
# Coq emission
class Names:
    def __init__(self):
        self.idx = {}
        self.lst = []

    def __call__(self, s):
        if s not in self.idx:
            self.idx[s] = len(self.lst)
            self.lst.append(s)
        return self.idx[s]


def c_sym(nm, s):
    return '(Tm %d %s)' % (nm(s[0]), 'true' if s[2] else 'false') if s[1] else '(Nt %d)' % nm(s[0])


def c_symbol(nm, s):
    return '(T %d)' % nm(s[0]) if s[1] else '(NT %d)' % nm(s[0])


def c_rrule(nm, r):
    return '(mkR %d %s %s)' % (nm(r[0]), L([c_symbol(nm, s) for s in r[1]]), L([c_sym(nm, s) for s in r[2]]))


def c_stree(nm, t):
    if t[0] == 't':
        return '(Tok %d %s)' % (nm(t[1]), S(t[2]))
    if t[0] == 'n':
        return '(Node %d %s)' % (nm(t[1]), L([c_stree(nm, c) for c in t[2]]))
    raise ValueError('not a tree/token: %r' % (t,))


def preorder(t, out):
    out.append(t)
    if t[0] == 'n':
        for c in t[2]:
            preorder(c, out)
    return out


def c_cutree(nm, u, kids, used):
    """compact match tree: leaves by their index among the node's children (in order of appearance)"""
    if u[0] == 'L':
        for i in range(used[0], len(kids)):
            if kids[i] == u[1]:
                used[0] = i + 1
                return '(CL %d)' % i
        return '(CLfull %s)' % c_stree(nm, u[1])
    return '(CU %d %s %s)' % (nm(u[1]), L([c_sym(nm, s) for s in u[2]]), L([c_cutree(nm, a, kids, used) for a in u[3]]))


def c_citems(nm, items, kids):
    out, pos = [], 0
    for it in items:
        if it[0] == 's':
            out.append('(CS %s)' % S(it[1]))
            continue
        for i in range(pos, len(kids)):
            if kids[i] == it[1]:
                pos = i + 1
                out.append('(CC %d)' % i)
                break
        else:
            out.append('(CCfull %s)' % c_stree(nm, it[1]))
    return L(out)


def c_case(rules, lits, d_rules, d_rfr, in_class, need_sup, runs, plain=None, subs=None):
    nm = Names()
    # number every name first so that the per-name table of rules_for_root is complete
    for r in rules:
        nm(r['origin'])
        if r['alias']:
            nm(r['alias'])
        for s in r['exp']:
            nm(s[0])
    for k in lits:
        nm(k)
    for r in d_rules:
        nm(r[0])
    for k in d_rfr:
        nm(k)
    P = L(['(mkP %d %s %s %s)' % (nm(r['origin']), L([c_sym(nm, s) for s in r['exp']]),
                                   ('(Some %d)' % nm(r['alias'])) if r['alias'] else 'None',
                                   'true' if r['expand1'] else 'false') for r in rules])
    # term_subs entries come first: lookup_lit takes the first entry, i.e. Relex.lit_subs (Char_proofs.lookup_lit_app)
    lit = L(['(%d, %s)' % (nm(k), S(v)) for k, v in sorted((subs or {}).items())] +
            ['(%d, %s)' % (nm(k), S(v)) for k, v in sorted(lits.items())])
    er = L([c_rrule(nm, r) for r in d_rules])
    runs_s = []
    for tree, ms, items, text in runs:
        subs = preorder(tree, [])
        recs = []
        for m in ms:
            k = subs.index(m[0])      # first equal subtree: equal nodes are interchangeable for the lookup
            kids = list(m[0][2])
            recs.append('(%d, %s, %s)' % (k, c_cutree(nm, m[1], kids, [0]), c_citems(nm, m[2], kids)))
        runs_s.append('(%s, %s, %s, %s)' % (c_stree(nm, tree), L(recs), L([S(x) for x in items]), S(text)))
    runs_t = L(runs_s)
    # names are complete now (trees only use rule/alias/terminal names, but be safe: number then emit)
    efr = L([L([c_rrule(nm, r) for r in d_rfr.get(n, [])]) for n in list(nm.lst)])
    names = L([S(n) for n in nm.lst])
    if plain is None:
        plain = plain_roots(rules)
    return '(mkCase %s %s %s %s %s %s %s %s %s)' % (names, P, lit, er, efr, 'true' if in_class else 'false',
                                                    'true' if need_sup else 'false', 'true' if plain else 'false', runs_t)


# ----------------------------------------------------------------------------------------------------
# grammar generator
KEYWORDS = ['let', 'if', 'then', 'else', 'do', 'end', 'fn', 'ret', 'pr', 'in', 'of', 'on', 'to', 'at']
PUNCT = ['(', ')', '[', ']', '{', '}', ',', ';', ':', '=', '+', '-', '*', '/', '<', '>', '!', '&', '|', '@', '#', '~', '^',
         '=>', '->', '::', '..', '<=', '%']
PUNCT_NAMES = {'(': 'LP', ')': 'RP', '[': 'LB', ']': 'RB', '{': 'LC', '}': 'RC', ',': 'COMMA_', ';': 'SEMI', ':': 'COL',
               '=': 'EQ', '+': 'PLUS_', '-': 'MINUS_', '*': 'STAR_', '/': 'SLASH_', '<': 'LT', '>': 'GT', '!': 'BANG_',
               '&': 'AMP', '|': 'BAR', '@': 'AT_', '#': 'HASH_', '~': 'TILDE_', '^': 'HAT', '=>': 'ARROW', '->': 'RARR',
               '::': 'DCOL', '..': 'DOTS', '<=': 'LE', '%': 'PCT'}
NAME_SAMPLES = ['a', 'b', 'x', 'y', 'foo', 'bar', 'q', 'zz', 'v', 'w']
NUM_SAMPLES = ['0', '1', '7', '42', '305']


class GB:
    """grammar text builder: tokens as anonymous strings (filtered), named strings (kept) or _named strings (filtered)"""

    def __init__(self, rng, literal_only=False):
        self.rng = rng
        self.terms = {}
        self.mode = {}
        self.lines = []
        self.literal_only = literal_only
        self.used_name = self.used_num = False

    def lit(self, s, mode=None):
        """reference to the string token s; mode: 'anon' | 'named' | 'hidden'"""
        if s not in self.mode:
            self.mode[s] = mode or self.rng.choice(['anon', 'anon', 'anon', 'named', 'hidden'])
        m = self.mode[s]
        if m == 'anon':
            return '"%s"' % s
        base = PUNCT_NAMES.get(s) or ('KW_' + s.upper())
        base = base.rstrip('_')
        name = ('_' + base) if m == 'hidden' else base
        self.terms[name] = '"%s"' % s
        return name

    def name(self):
        if self.literal_only:
            return self.lit(self.rng.choice(['a', 'b', 'c']), 'named')
        self.used_name = True
        return 'NAME'

    def num(self):
        if self.literal_only:
            return self.lit(self.rng.choice(['0', '1']), 'named')
        self.used_num = True
        return 'NUMBER'

    def rule(self, lhs, alts):
        self.lines.append('%s: %s' % (lhs, '\n    | '.join(alts)))

    def text(self):
        out = list(self.lines)
        for k, v in sorted(self.terms.items()):
            out.append('%s: %s' % (k, v))
        if self.used_name:
            out.append('NAME: /[a-z]+/')
        if self.used_num:
            out.append('NUMBER: /[0-9]+/')
        out.append('%ignore " "')
        return '\n'.join(out) + '\n'


def mod(rng, name, allowed=('', '?', '!')):
    return rng.choice(allowed) + name


def gen_expr(rng, gb):
    """left-recursive operator grammar with ?rules, aliases, parentheses, calls with an inlined argument list"""
    levels = rng.randint(1, 3)
    names = ['expr', 'term', 'fact'][:levels]
    ops = rng.sample(['+', '-', '*', '/', '<', '&', '|', '^', '%'], levels * 2)
    atom = 'atom'
    chain = names + [atom]
    for i, n in enumerate(names):
        nxt = chain[i + 1]
        alts = []
        q = rng.random() < 0.8
        factored = rng.random() < 0.35
        if factored:
            # the operators of this level as a keep-all-tokens rule: the tree keeps which operator it was
            gb.rule('!op%d' % i, [gb.lit(ops[2 * i]), gb.lit(ops[2 * i + 1])])
        for k in range(1 if factored else rng.randint(1, 2)):
            op = ('op%d' % i) if factored else gb.lit(ops[2 * i + k])
            al = (' -> %s_%d' % (n, k)) if rng.random() < 0.5 else ''
            if rng.random() < 0.8:
                alts.append('%s %s %s%s' % (n, op, nxt, al))
            else:
                alts.append('%s %s %s%s' % (nxt, op, n, al))
        alts.append(nxt)
        rng.shuffle(alts)
        gb.rule(('?' if q else '') + n, alts)
    alts = [gb.name(), gb.num()]
    if rng.random() < 0.8:
        alts.append('%s %s %s' % (gb.lit('('), names[0], gb.lit(')')))
    if rng.random() < 0.6:
        # the prefix operator often re-uses the literal of a binary operator (unary / binary minus)
        alts.append('%s %s -> neg' % (gb.lit(rng.choice(['~', ops[0], ops[-1]])), atom))
    if rng.random() < 0.6:
        alts.append('%s %s _args %s -> call' % (gb.lit('@'), gb.name(), gb.lit(']')))
        sep = gb.lit(',')
        form = rng.choice(['star', 'rec'])
        if form == 'star':
            gb.rule('_args', ['%s (%s %s)*' % (names[0], sep, names[0])])
        else:
            gb.rule('_args', ['_args %s %s' % (sep, names[0]), names[0]])
    rng.shuffle(alts)
    gb.rule(rng.choice(['?', '?', '']) + atom, alts)
    return names[0]


def gen_stmt(rng, gb, expr):
    """statement grammar on top of an expression rule"""
    alts = []
    semi = gb.lit(';')
    alts.append('%s %s %s %s %s%s' % (gb.lit('let'), gb.name(), gb.lit('='), expr, semi,
                                      rng.choice(['', ' -> let_', ' -> assign'])))
    if rng.random() < 0.7:
        alts.append('%s %s %s' % (gb.lit('pr'), expr, semi))
    if rng.random() < 0.7:
        alts.append('%s %s %s block [%s block]%s' % (gb.lit('if'), expr, gb.lit('then'), gb.lit('else'),
                                                    rng.choice(['', ' -> cond'])))
        gb.rule(mod(rng, 'block', ('', '', '!')), ['%s stmt* %s' % (gb.lit('{', 'named'), gb.lit('}'))])
    if rng.random() < 0.5:
        alts.append('%s %s (%s %s)* %s -> names' % (gb.lit('fn'), gb.name(), gb.lit(','), gb.name(), semi))
    rng.shuffle(alts)
    gb.rule(mod(rng, 'stmt', ('', '', '?')), alts)
    return 'stmt'


def gen_prog(rng, gb):
    """programs: a sequence of items of several kinds over one expression rule - bracketed headers, statements
    made of an expression followed by juxtaposed operands, assignments, keyword statements with lists, blocks"""
    expr = gen_expr(rng, gb)
    kinds = rng.sample(['header', 'juxt', 'assign', 'kw', 'block'], rng.randint(2, 4))
    semi = gb.lit(';')
    alts = []
    for k in kinds:
        al = rng.choice(['', '', ' -> %s_' % k])
        if k == 'header':
            body = '%s %s %s' % (gb.lit('['), expr, gb.lit(']'))
        elif k == 'juxt':
            body = '%s atom%s %s' % (expr, rng.choice(['*', '*', '+']), semi)
        elif k == 'assign':
            body = '%s %s %s %s' % (gb.name(), gb.lit('='), expr, semi)
        elif k == 'kw':
            body = '%s %s (%s %s)* %s' % (gb.lit(rng.choice(['pr', 'ret', 'do'])), expr, gb.lit(','), expr, semi)
        else:
            body = '%s item* %s' % (gb.lit('{', 'named'), gb.lit('}'))
        if rng.random() < 0.5:
            gb.rule(mod(rng, k, ('', '', '!')), [body])
            alts.append(k)
        else:
            alts.append(body + al)
    rng.shuffle(alts)
    gb.rule(rng.choice(['item', '?item']), alts)
    return 'item'


def gen_json(rng, gb):
    alts = ['list_', 'dict_', gb.name(), gb.num()]
    for kw in rng.sample(['of', 'on', 'to'], rng.randint(0, 2)):
        alts.append('%s -> c_%s' % (gb.lit(kw, 'named'), kw))
    rng.shuffle(alts)
    gb.rule(rng.choice(['?', '']) + 'value', alts)
    form = rng.choice([0, 1, 2])
    lb, rb, cm = gb.lit('[', 'named' if form != 1 else None), gb.lit(']'), gb.lit(',')
    if form == 0:
        gb.rule('list_', ['%s [value (%s value)*] %s' % (lb, cm, rb)])
    elif form == 1:
        gb.rule('list_', ['%s %s' % (lb, rb), '%s _items %s' % (lb, rb)])
        gb.rule('_items', ['value', '_items %s value' % cm])
    else:
        gb.rule('list_', ['%s (value %s)* %s' % (lb, gb.lit(';'), rb)])
    gb.rule('dict_', ['%s [pair (%s pair)*] %s' % (gb.lit('{', 'named'), cm, gb.lit('}'))])
    gb.rule(mod(rng, 'pair', ('', '', '!')), ['%s %s value' % (gb.name(), gb.lit(':'))])
    return 'value'


def gen_guarded(rng, gb, wide):
    """random rules; every alternative starts with its own guard token, operators are followed by a fresh
    separator when the next element could start the same way"""
    n = rng.randint(2, 5)
    rn = ['r%d' % i for i in range(n)]
    mods = {}
    for r in rn:
        mods[r] = rng.choice(['', '', '?', '?', '_', '!'])
    guards = KEYWORDS + [p for p in PUNCT]
    rng.shuffle(guards)
    gi = iter(guards)
    first = {}
    alts_of = {}
    for r in rn:
        alts_of[r] = [next(gi) for _ in range(rng.randint(1, 3))]
        first[r] = set(alts_of[r])
    seps = []

    def pick_sep():
        # separators and closers may be shared between rules: the same literal is then kept in a !rule and
        # filtered in an ordinary one
        if seps and rng.random() < 0.4:
            return rng.choice(seps)
        sp = next(gi)
        seps.append(sp)
        return sp
    for r in rn:
        pr = ('_' + r) if mods[r] == '_' else r
        alts = []
        for g in alts_of[r]:
            seq = [(gb.lit(g), {g})]
            mand = gb.mode[g] == 'named' or mods[r] == '!'
            for _ in range(rng.randint(0, 3)):
                c = rng.random()
                if c < 0.3:
                    e, f = gb.name(), {'NAME'}
                elif c < 0.4:
                    e, f = gb.num(), {'NUMBER'}
                else:
                    t = rng.choice(rn)
                    e, f = (('_' + t) if mods[t] == '_' else t), set(first[t])
                o = rng.random()
                if (o >= 0.56 or 0.15 <= o < 0.25 or 0.5 <= o < 0.56) and not (c >= 0.4 and t == r):
                    mand = True
                if o < 0.15:
                    e = '%s*' % e
                elif o < 0.25:
                    e = '%s+' % e
                elif o < 0.33:
                    e = '%s?' % e
                elif o < 0.40:
                    e = '[%s]' % e
                elif o < 0.5:
                    sp = pick_sep()
                    e = '(%s %s)*' % (e, gb.lit(sp))
                elif o < 0.56:
                    sp = pick_sep()
                    e = '%s (%s %s)*' % (e, gb.lit(sp), e)
                seq.append((e, f))
            # close every alternative that does not end in a plain token, so that what follows cannot be absorbed
            if len(seq) > 1 and not re.match(r'^[A-Z_"]', seq[-1][0][-1:] if seq[-1][0][-1:] in '*+?])' else 'x'):
                seq.append((gb.lit(pick_sep()), set()))
            out = []
            for k, (e, f) in enumerate(seq):
                out.append(e)
                if k + 1 < len(seq) and e[-1:] in '*+?])' and (f & seq[k + 1][1]):
                    out.append(gb.lit(next(gi)))
            body = ' '.join(out)
            if not mand and (not wide or rng.random() < 0.7):
                body += ' ' + gb.name()
            if mods[r] != '_' and rng.random() < 0.3:
                body += ' -> %s_%s' % (r, rng.choice('abc'))
            alts.append(body)
        m = mods[r] if mods[r] != '_' else ''
        gb.rule(m + pr, alts)
    return ('_' + rn[0]) if mods[rn[0]] == '_' else rn[0]


def gen_grammar(rng, wide=False):
    gb = GB(rng, literal_only=(rng.random() < 0.12))
    fam = rng.choice(['expr', 'expr', 'stmt', 'json', 'prog', 'prog', 'guard', 'guard', 'guard'])
    if fam == 'expr':
        top = gen_expr(rng, gb)
        gb.rule('start', [rng.choice([top, '%s (%s %s)*' % (top, gb.lit(';'), top)])])
    elif fam == 'stmt':
        e = gen_expr(rng, gb) if rng.random() < 0.7 else gb.name()
        st = gen_stmt(rng, gb, e)
        gb.rule('start', [rng.choice(['%s+' % st, '%s*  %s' % (st, gb.lit('end'))])])
    elif fam == 'json':
        top = gen_json(rng, gb)
        gb.rule('start', [top])
    elif fam == 'prog':
        top = gen_prog(rng, gb)
        gb.rule('start', ['%s+' % top])
    else:
        top = gen_guarded(rng, gb, wide)
        gb.rule('start', [rng.choice([top, '%s+' % top, '%s %s' % (top, gb.lit('end'))])])
    return fam, gb.text()


# ----------------------------------------------------------------------------------------------------
# sentences of the compiled rules
def min_depths(rules):
    INF = 10 ** 6
    d = {}
    names = {r['origin'] for r in rules}
    for n in names:
        d[n] = INF
    changed = True
    while changed:
        changed = False
        for r in rules:
            m = 0
            for s in r['exp']:
                if not s[1]:
                    m = max(m, d.get(s[0], INF))
            if m + 1 < d[r['origin']]:
                d[r['origin']] = m + 1
                changed = True
    return d


def gen_sentence(rng, rules, lits, start, budget):
    """random leftmost derivation; returns list of (terminal name, text)"""
    byo = {}
    for r in rules:
        byo.setdefault(r['origin'], []).append(r)
    md = min_depths(rules)
    out = []

    def rd(r):
        return 1 + max([md[s[0]] for s in r['exp'] if not s[1]] or [0])

    def go(nt, depth):
        alts = byo[nt]
        if depth <= 0 or len(out) > 40:
            m = min(rd(a) for a in alts)
            alts = [a for a in alts if rd(a) == m]
        r = rng.choice(alts)
        for s in r['exp']:
            if s[1]:
                if s[0] in lits:
                    out.append((s[0], lits[s[0]]))
                elif s[0] == 'NAME':
                    out.append((s[0], rng.choice(NAME_SAMPLES)))
                elif s[0] == 'NUMBER':
                    out.append((s[0], rng.choice(NUM_SAMPLES)))
                else:
                    raise KeyError(s[0])
            else:
                go(s[0], depth - 1)
    go(start, budget)
    return out


def ref_join(items):
    """the documented spacing rule: one blank between two items that would otherwise merge as identifiers (ASCII)"""
    def idc(ch):
        return ch == '_' or (ch.isascii() and ch.isalnum())
    out, prev = [], ''
    for it in items:
        if prev and it and idc(prev[-1]) and idc(it[0]):
            out.append(' ')
        out.append(it)
        prev = it
    return ''.join(out)


def has_ambig(t):
    from lark import Tree
    return isinstance(t, Tree) and any(st.data == '_ambig' for st in t.iter_subtrees())


# ----------------------------------------------------------------------------------------------------
# one grammar -> case
def mixed_literal(ms):
    """does one reconstruction use the same terminal both filtered (re-inserted) and kept (a !rule)?"""
    seen = {}

    def walk(u):
        if u[0] == 'U':
            for nm, is_term, fo in u[2]:
                if is_term:
                    seen.setdefault(nm, set()).add(fo)
            for a in u[3]:
                walk(a)
    for m in ms:
        walk(m[1])
    return any(len(v) == 2 for v in seen.values())


def relex_case(pbasic, lits, typed, text):
    """character-level case: lark's BasicLexer on the reconstructed text against the written (type, text) tokens, with the
    table of Python re matches on that text (the regex oracle of the lexer model, as in C07) -> Coq term or None"""
    import lark
    from props import C07
    tdefs = list(pbasic.terminals)
    model = C07.tdefs_to_model(tdefs)
    if any(not (isinstance(t['prio'], int)) for t in model) or any(ord(ch) > 126 or ord(ch) < 32 for ch in text):
        return None
    names = [t['name'] for t in model]
    idx = {n: i for i, n in enumerate(names)}
    written = []
    for ty, tx in typed:
        if ty is None:
            # a re-inserted filtered string: its terminal is the one defined by that literal
            cands = [n for n, v in lits.items() if v == tx and n in idx]
            if len(cands) != 1:
                return None
            ty = cands[0]
        if ty not in idx:
            return None
        written.append((idx[ty], tx))
    try:
        lexed = [(str(t.type), str(t)) for t in pbasic.lex(text)]
        lark_toks = [(idx[a], b) for a, b in lexed]
    except lark.exceptions.LarkError:
        lark_toks = None
    except KeyError:
        return None
    relex = lark_toks is not None and lark_toks == written
    tab, unl = C07.re_tables(tdefs, text, False)

    def toks(l):
        return L(['(%d, %s)' % (a, S(b)) for a, b in l])
    return '(mkRx %s %s %s %s %s %s %s %s %s)' % (
        L([C07.coq_term(t) for t in model]), L([S(str(x)) for x in pbasic.ignore_tokens]), L([S(n) for n in names]),
        S(text), C07.coq_tab(tab), C07.coq_unl(unl), toks(written), 'true' if relex else 'false',
        ('(Some %s)' % toks(lark_toks)) if lark_toks is not None else 'None'), relex



# ----------------------------------------------------------------------------------------------------
# per-grammar condition relex_safe: the harness's own evaluation on lark's real scanner order (mirror of
# Recons/RelexSafe.relex_safe_b; the model's verdict on its own lexer must be the same: RelexSafeCheck.check_safe)
def cls_of(pat):
    """[items]+ with plain characters and ranges only -> list of (lo, hi), else None"""
    if not pat.startswith('[') or not pat.endswith(']+'):
        return None
    body, out, i = pat[1:-2], [], 0
    if not body:
        return None
    while i < len(body):
        c = body[i]
        if c in '\\^[]-':
            return None
        if i + 2 < len(body) and body[i + 1] == '-':
            e = body[i + 2]
            if e in '\\^[]-':
                return None
            out.append((c, e))
            i += 3
        elif i + 1 < len(body) and body[i + 1] == '-':
            return None
        else:
            out.append((c, c))
            i += 1
    return out


def idc(ch):
    return ch == '_' or (ch.isascii() and ch.isalnum())


class SafeEval:
    def __init__(self, model, flat, ign, report):
        by = {t['name']: t for t in model}
        self.T = [by[n] for n in flat]
        self.ign = set(ign)
        self.report = report
        self.cls = {t['name']: (cls_of(t['value']) if t['re'] else None) for t in self.T}

    def term_ok(self, t):
        if t['flags']:
            return False
        return self.cls[t['name']] is not None if t['re'] else t['value'] != ''

    def in_cls(self, t, ch):
        return any(a <= ch <= b for a, b in self.cls[t['name']])

    def chars(self, t):
        return [chr(i) for i in range(256) if self.in_cls(t, chr(i))]

    def firsts(self, t):
        return self.chars(t) if t['re'] else [t['value'][0]]

    def lasts(self, t):
        return self.chars(t) if t['re'] else [t['value'][-1]]

    def mm(self, t, s):
        if t['re']:
            k = 0
            while k < len(s) and self.in_cls(t, s[k]):
                k += 1
            return k or None
        return len(t['value']) if s.startswith(t['value']) else None

    def first(self, s):
        for t in self.T:
            k = self.mm(t, s)
            if k is not None:
                return t, k
        return None

    def safe(self, lits):
        T = self.T
        if not all(self.term_ok(t) for t in T):
            return False
        live = [t for t in T if t['name'] not in self.ign]
        all_firsts = [c for t in live for c in self.firsts(t)]

        def next_firsts(t):
            return {(' ' if idc(a) and idc(b) else b) for a in self.lasts(t) for b in all_firsts}
        for t in live:                                                   # S1
            if t['re'] and any(self.in_cls(t, ch) for ch in next_firsts(t)):
                return False
        for i, t in enumerate(T):                                        # S2
            if t['name'] in self.ign:
                continue
            for u in T[:i]:
                if u['re']:
                    continue
                if t['re']:
                    if self.in_cls(t, u['value'][0]):
                        return False
                elif u['value'].startswith(t['value']) and len(u['value']) > len(t['value']):
                    if u['value'][len(t['value'])] in next_firsts(t):
                        return False
        need_any = any(idc(a) for t in live for a in self.lasts(t)) and any(idc(b) for b in all_firsts)
        if need_any:                                                     # S3
            for u in T:
                if u['re']:
                    if self.in_cls(u, ' '):
                        return False
                elif u['value'][0] == ' ' and u['value'] != ' ':
                    return False
            w = self.first(' ')
            if w is None or w[1] != 1 or w[0]['name'] not in self.ign:
                return False
        for n, v in lits:                                                # S4
            if v == '':
                return False
            w = self.first(v)
            if w is None or w[1] != len(v) or w[0]['name'] in self.ign or self.report(w[0]['name'], v) != n:
                return False
        return True


def basic_lexer_of(pbasic):
    from props import C07
    lx = getattr(getattr(pbasic, 'parser', None), 'lexer', None)
    if lx is None or not hasattr(lx, 'scanner'):
        lx = C07.build_basic(list(pbasic.terminals), list(pbasic.ignore_tokens), False, 0)
    return lx


def safe_case(pbasic, rules, lits, all_relex):
    """per-grammar relex_safe case -> (Coq term, predicted safe, every terminal supported) or None"""
    from props import C07
    from lark import Token
    tdefs = list(pbasic.terminals)
    model = C07.tdefs_to_model(tdefs)
    if any(not isinstance(t['prio'], int) for t in model):
        return None
    if any(ord(ch) > 126 or ord(ch) < 32 for t in model for ch in t['value'] + t['name']):
        return None
    lx = basic_lexer_of(pbasic)
    ob = C07.observe_lexer(lx)
    flat = [n for grp in ob['mres'] for n in grp]
    names = [t['name'] for t in model]
    idx = {n: i for i, n in enumerate(names)}
    filtered = sorted({s[0] for r in rules for s in r['exp'] if s[1] and s[2] and s[0] in lits and s[0] in idx})

    def report(tname, v):
        cb = lx.callback.get(tname)
        return str(cb(Token(tname, v)).type) if cb else tname
    ev = SafeEval(model, flat, ob['ignore'], report)
    pred = ev.safe([(n, lits[n]) for n in filtered])
    term = '(mkSf %s %s %s %s %s %s %s)' % (
        L([C07.coq_term(t) for t in model]), L([S(str(x)) for x in pbasic.ignore_tokens]), L([S(n) for n in names]),
        L(['(%d, %s)' % (idx[n], S(lits[n])) for n in filtered]), L([S(n) for n in flat]),
        'true' if pred else 'false', 'true' if all_relex else 'false')
    return term, pred, all(ev.term_ok(t) for t in ev.T)


def observed_relex(pbasic, lits, typed, text):
    """did lark's BasicLexer map the reconstructed text back to the written (type, text) tokens? None = cannot tell"""
    import lark
    written = []
    for ty, tx in typed:
        if ty is None:
            cands = [n for n, v in lits.items() if v == tx]
            if len(cands) != 1:
                return None
            ty = cands[0]
        written.append((ty, tx))
    try:
        return [(str(t.type), str(t)) for t in pbasic.lex(text)] == written
    except lark.exceptions.LarkError:
        return False


def judge(p0, parsers, kind0, pbasic, tx, snap, items, text, exc):
    """the property's oracle on one reconstruct() result -> (verdict or None, relex_ok)"""
    import lark
    # H_relex (hypothesis of C19_text): the joined text lexes back to the written tokens.  Where it fails the
    # input is an instance of finding F12 (adjacent tokens merge) and is outside the class of the main stream.
    relex_ok = True
    if exc is None and pbasic is not None:
        try:
            lexed = [(str(t.type), str(t)) for t in pbasic.lex(text)]
            relex_ok = len(lexed) == len(items) and all(v == w for (_, v), w in zip(lexed, items))
        except lark.exceptions.LarkError:
            relex_ok = False
        if not relex_ok and text != ref_join(items):
            relex_ok = True     # not an F12 instance: the text is not what the documented spacing rule gives
    verdict = None
    if exc is not None:
        verdict = 'reconstruct raised %s' % exc
    else:
        try:
            t2 = p0.parse(text)
            if snap_tree(t2) != snap:
                verdict = 're-parse gives a different tree'
        except lark.exceptions.LarkError as e:
            verdict = 're-parse raised %s' % type(e).__name__
    if 'earley' in parsers and kind0 != 'earley' and exc is None and verdict is None:
        # the other engine must agree on the round trip as well
        try:
            if snap_tree(parsers['earley'].parse(text)) != snap_tree(parsers['earley'].parse(tx)):
                verdict = 'earley: re-parse gives a different tree'
        except lark.exceptions.LarkError as e:
            verdict = 'earley: re-parse raised %s' % type(e).__name__
    return verdict, relex_ok


def build_case(ctx, rng, gtext, nsent, stream, wide=False, fixed_inputs=None, kinds=('lalr', 'earley'), term_subs=None):
    """returns dict(case=coq term or None, meta=..., violations=[...]) ; never raises for grammar errors"""
    import lark
    res = dict(case=None, meta=None, viol=[], ok=False)
    parsers = {}
    for kind in kinds:
        try:
            parsers[kind] = make_parser(gtext, kind)
        except Exception as e:   # noqa
            res.setdefault('errors', []).append('%s: %s' % (kind, type(e).__name__))
        if parsers:
            # the class predicates only need the compiled rules: decide before building the other engines
            rules, lits = model_inputs(next(iter(parsers.values())))
            coq_cls = class_coq(rules)
            extra = class_extra(rules, dict(lits, **(term_subs or {})))
            if not wide and not (coq_cls and extra is None):
                res['rejected'] = extra or 'class_b'
                return res
    if not parsers:
        return res
    kind0 = 'lalr' if 'lalr' in parsers else 'earley'
    p0 = parsers[kind0]
    rules, lits = model_inputs(p0)
    coq_cls = class_coq(rules)
    extra = class_extra(rules, dict(lits, **(term_subs or {})))
    in_class = coq_cls and extra is None
    try:
        pex = make_parser(gtext, 'earley', ambiguity='explicit')
    except Exception:   # noqa
        pex = None
    try:
        obs = Obs(p0, term_subs)
    except Exception as e:  # noqa
        res['errors'] = ['Reconstructor: %s' % type(e).__name__]
        return res
    d_rules, d_rfr = obs.derived()
    try:
        pbasic = make_parser(gtext, 'lalr', lexer='basic') if kind0 == 'lalr' else make_parser(gtext, 'earley', lexer='basic')
    except Exception:   # noqa
        pbasic = None
    runs = []
    texts = []
    if fixed_inputs is not None:
        texts = list(fixed_inputs)
    else:
        seen = set()
        for _ in range(nsent * 3):
            try:
                toks = gen_sentence(rng, rules, lits, 'start', rng.randint(1, 5))
            except (KeyError, RecursionError):
                break
            if len(toks) > 45:
                continue
            # single spaces everywhere, or no space where two neighbours cannot merge
            tx = ' '.join(t[1] for t in toks)
            if tx not in seen:
                seen.add(tx)
                texts.append(tx)
            if len(texts) >= nsent:
                break
    unamb = True
    hist = []          # texts already reconstructed by THIS Reconstructor (the object is reused, as an application would)
    accepted = []      # (text, tree snapshot, reconstructed text) of pass 1
    final_rules = d_rules
    if fixed_inputs is None and len(texts) >= 2:
        # longer inputs in which several node kinds occur: concatenations that the grammar accepts
        for _ in range(2):
            k = rng.randint(2, min(4, len(texts)))
            cat = ' '.join(rng.sample(texts, k))
            if len(cat.split()) <= 70 and cat not in texts:
                try:
                    p0.parse(cat)
                    texts.insert(rng.randrange(len(texts) + 1), cat)
                except lark.exceptions.LarkError:
                    pass
    for tx in texts:
        try:
            tree = p0.parse(tx)
        except lark.exceptions.LarkError:
            continue   # generated sentence not accepted (keyword/NAME clash etc.): not an input of the property
        amb = False
        if pex is not None:
            try:
                amb = has_ambig(pex.parse(tx))
            except lark.exceptions.LarkError:
                amb = False
        if amb:
            unamb = False
            if not wide:
                continue
        snap = snap_tree(tree)
        ms, items, text, exc = obs.run(tree)
        # correspondence point: reconstructing must not change the derived rules (they were compared with the model)
        now = obs.rules_now()
        if now != final_rules and 'rules_mutated' not in res:
            res['rules_mutated'] = dict(history=list(hist), text=tx)
            final_rules = now
        if exc is None and pex is not None:
            # the grammar must be unambiguous on the reconstructed text as well (else the class hypothesis fails)
            try:
                if has_ambig(pex.parse(text)):
                    amb = True
                    unamb = False
                    if not wide:
                        hist.append(tx)
                        continue
            except lark.exceptions.LarkError:
                pass
        verdict, relex_ok = judge(p0, parsers, kind0, pbasic, tx, snap, items, text, exc)
        if exc is None and pbasic is not None:
            orx = observed_relex(pbasic, lits, obs.typed, text)
            res.setdefault('relex_obs', []).append(orx)
            if orx is False and 'relex_fail' not in res:
                res['relex_fail'] = dict(text=tx, reconstructed=text)
        if verdict and in_class and not amb and not relex_ok:
            ctx.count(stream + ':relex-fails(F12-class)', key=(gtext, tx), nontrivial=False)
        elif verdict and in_class and not amb:
            res['viol'].append(dict(grammar=gtext, parser=kind0, history=list(hist), text=tx, reconstructed=text,
                                    detail=verdict))
        nins = sum(1 for m in ms for it in (m[2] or []) if it[0] == 's')
        ninl = sum(1 for m in ms for a in m[1][3] if a[0] == 'U') if ms else 0
        ctx.count(stream, key=(gtext, tx), nontrivial=(nins > 0 and ninl > 0 and exc is None),
                  tokens=min(len(tx.split()), 20), inserted=min(nins, 8), inlined_nodes=min(ninl, 8),
                  literal_kept_and_filtered_in_one_tree=mixed_literal(ms), node_kinds=min(len({m[0][1] for m in ms}), 8),
                  outcome=('ok' if verdict is None else verdict.split(' raised')[0]))
        if exc is None:
            runs.append((snap, ms, items, text))
            if pbasic is not None and len(res.setdefault('relex_cases', [])) < 2:
                try:
                    rc = relex_case(pbasic, lits, obs.typed, text)
                except Exception:   # noqa
                    rc = None
                if rc is not None:
                    res['relex_cases'].append(rc)
        if not amb:
            accepted.append((tx, tree, snap, text, exc, verdict))
        hist.append(tx)
        res.setdefault('inputs', []).append((tx, verdict))
    # pass 2: a second Reconstructor sees the same trees in another order.  The result for a tree must not depend on
    # what the object reconstructed before (parsers are cached per node kind inside it), and the oracle must hold on
    # every tree of this history as well.
    for npass in range((1 + (rng.random() < 0.5)) if (len(accepted) >= 2 and fixed_inputs is None) else 0):
        k = rng.randrange(1, len(accepted))
        order = accepted[k:] + accepted[:k]          # another tree comes first
        if npass:
            rest = order[1:]
            rng.shuffle(rest)
            order = order[:1] + rest
        try:
            obs2 = Obs(p0, term_subs)
        except Exception:   # noqa
            break
        hist2 = []
        for tx, _tree, snap, text1, exc1, verdict1 in order:
            tree = p0.parse(tx)      # a fresh tree: the first pass rebuilt parts of the old one in place
            ms, items, text, exc = obs2.run(tree)
            now = obs2.rules_now()
            if now != d_rules and 'rules_mutated' not in res:
                res['rules_mutated'] = dict(history=list(hist2), text=tx)
                final_rules = now
            verdict, relex_ok = judge(p0, parsers, kind0, pbasic, tx, snap, items, text, exc)
            if exc is None and pbasic is not None:
                res.setdefault('relex_obs', []).append(observed_relex(pbasic, lits, obs2.typed, text))
            ctx.count(stream + ':reordered', key=(gtext, tuple(hist2), tx), nontrivial=bool(hist2),
                      outcome2=('ok' if verdict is None else verdict.split(' raised')[0]))
            if verdict and in_class and relex_ok and verdict1 is None:
                res['viol'].append(dict(grammar=gtext, parser=kind0, history=list(hist2), text=tx, reconstructed=text,
                                        detail=verdict + ' (after the history; alone it round-trips)'))
            elif (text, exc) != (text1, exc1) and in_class:
                res.setdefault('history_dep', []).append(dict(grammar=gtext, parser=kind0, text=tx,
                                                              history_a=[a[0] for a in accepted[:[a[0] for a in accepted].index(tx)]],
                                                              out_a=text1, history_b=list(hist2), out_b=text))
            hist2.append(tx)
    d_rules = final_rules
    res['unambiguous'] = unamb
    res['in_class'] = in_class
    res['plain_roots'] = plain_roots(rules)
    res['meta'] = dict(grammar=gtext, parser=kind0, inputs=[tx for tx, _ in res.get('inputs', [])],
                       rules=len(rules), derived=len(d_rules), rules_mutated=res.get('rules_mutated'))
    if pbasic is not None and res.get('relex_obs'):
        try:
            sc = safe_case(pbasic, rules, dict(lits, **(term_subs or {})), all(o is not False for o in res['relex_obs']))
        except Exception as e:   # noqa
            sc = None
            res.setdefault('errors', []).append('safe_case: %s' % type(e).__name__)
        if sc is not None:
            res['safe_case'] = sc
    try:
        res['case'] = c_case(rules, lits, d_rules, d_rfr, coq_cls, in_class and not wide, runs, subs=term_subs)
    except ValueError as e:
        res['errors'] = ['emit: %s' % e]
    res['ok'] = True
    return res


EXOTIC = [
    (F12_KEY, 'PLUS: "+"\nPP: "++"\nstart: PLUS PLUS | PP\n%ignore " "\n', '+ +',
     'reconstructed text "++" lexes as PP: a different tree'),
    (F13_KEY, 'start: a | "!" b\na: X -> foo\nb: X "?" -> foo\nX: "x"\n%ignore " "\n', 'x',
     'alias shared by two origins: the root match picks origin b, the node match the rule of origin a'),
    (F14_KEY, 'start: o\no: p | X -> al\n?p: "(" o ")"\nX: "x"\n%ignore " "\n', '(x)',
     'node o[al[x]] is matched by the alias unit rule o -> al at the root: parentheses and the o level are lost'),
    (F15_KEY, 'start: x\n?x: _l\n_l: A+\nA: "a"\n%ignore " "\n', 'a a a',
     '?x: _l with three children is not collapsed by the parser, but no tree-matching rule accepts Tree(x)'),
    (F16_KEY, 'start: r\n?r: "%" r NUMBER+ "pr" | NAME\nNAME: /[a-z]+/\nNUMBER: /[0-9]+/\n%ignore " "\n', '% a 1 2 pr',
     'the rules of rules_for_root[r] are also usable below the root: r[a,1,2] is matched as r[r[a,1],2] flattened'),
]


TERM_SUBS = [
    ('start: stmt (_SEP stmt)*\nstmt: NAME "=" value\nvalue: NAME | NUMBER | "(" NAME ")" -> par\n_SEP: /;+/\n'
     'NAME: /[a-z]+/\nNUMBER: /[0-9]+/\n%ignore " "\n', {'_SEP': ';'}, ['a = b', 'a = 1 ;; b = ( c ) ; d = e']),
    ('start: item+\nitem: NAME _ARROW NAME _DOTS? -> edge | "[" NAME "]" -> node\n_ARROW: /-+>/\n_DOTS: /\\.{2,}/\n'
     'NAME: /[a-z]+/\n%ignore " "\n', {'_ARROW': '->', '_DOTS': '...'}, ['a --> b [ c ] d -> e ....', '[ x ]']),
]


def roundtrip(gtext, text, kind='lalr', history=(), term_subs=None):
    """the property's oracle on one input, reconstructed by a Reconstructor that has already reconstructed the
    trees of `history` (the object caches one matching parser per node kind): None if it holds, else a description"""
    import lark
    from lark.reconstruct import Reconstructor
    p = make_parser(gtext, kind)
    rec = Reconstructor(p, term_subs) if term_subs else Reconstructor(p)
    for h in history:
        try:
            with_timeout(20, rec.reconstruct, p.parse(h))
        except Exception:   # noqa
            pass
    t = p.parse(text)
    snap = snap_tree(t)
    try:
        out = with_timeout(20, rec.reconstruct, t)
    except Exception as e:   # noqa
        return 'reconstruct raised %s' % type(e).__name__
    try:
        t2 = p.parse(out)
    except lark.exceptions.LarkError as e:
        return 're-parse of %r raised %s' % (out, type(e).__name__)
    if snap_tree(t2) != snap:
        return 're-parse of %r gives a different tree' % out
    return None


def search_history(rng, gtext, kind, texts, orders=4):
    """failing-input search over histories: one Reconstructor per order of the texts -> (history, text, msg) or None"""
    import lark
    from lark.reconstruct import Reconstructor
    try:
        p = make_parser(gtext, kind)
    except Exception:   # noqa
        return None
    good = []
    for tx in texts:
        try:
            p.parse(tx)
            good.append(tx)
        except lark.exceptions.LarkError:
            pass
    for k in range(min(orders, max(1, len(good)))):
        # every text is the first one of some order (which parsers exist when a node kind is first met depends on it)
        order = good[k:] + good[:k]
        if k % 2:
            rest = order[1:]
            rng.shuffle(rest)
            order = order[:1] + rest
        rec = Reconstructor(p)
        hist = []
        for tx in order:
            t = p.parse(tx)
            snap = snap_tree(t)
            msg = None
            try:
                out = with_timeout(20, rec.reconstruct, t)
                try:
                    if snap_tree(p.parse(out)) != snap:
                        msg = 're-parse of %r gives a different tree' % out
                except lark.exceptions.LarkError as e:
                    msg = 're-parse of %r raised %s' % (out, type(e).__name__)
            except Exception as e:   # noqa
                msg = 'reconstruct raised %s' % type(e).__name__
            if msg:
                # keep only genuine ones: alone (fresh object) the input must be fine or fail as well - both are failures
                return list(hist), tx, msg
            hist.append(tx)
    return None


def lex_case(gtext, texts):
    """literal-only grammars: (literal table without the ignored blank, text, lark's basic-lexer tokens)"""
    import lark
    try:
        p = make_parser(gtext, 'lalr', lexer='basic')
    except Exception:   # noqa
        return []
    from lark.lexer import PatternStr
    if not all(isinstance(t.pattern, PatternStr) for t in p.terminals):
        return []
    ign = set(p.ignore_tokens)
    names = sorted(str(t.name) for t in p.terminals if t.name not in ign)
    idx = {n: i for i, n in enumerate(names)}
    tbl = L(['(%d, %s)' % (idx[str(t.name)], S(str(t.pattern.value))) for t in p.terminals if t.name not in ign])
    out = []
    for tx in texts:
        try:
            toks = [(str(t.type), str(t)) for t in p.lex(tx)]
            exp = '(Some %s)' % L(['(%d, %s)' % (idx[a], S(b)) for a, b in toks])
        except lark.exceptions.LarkError:
            exp = 'None'
        out.append('(%s, %s, %s)' % (tbl, S(tx), exp))
    return out



# ----------------------------------------------------------------------------------------------------
# systematic corner families evaluated by the round-trip oracle itself (fixed grammars, every order of the inputs on ONE
# Reconstructor): an alias shared by alternatives of several rules (the aliased node below the first / a later rule, the
# alias repeated inside one rule), and term_subs callbacks returning a plain str or a Token (a str subclass, as in lark's
# examples/advanced/reconstruct_python.py) with several nodes of the same shape in one history
LEX_TAIL = 'NAME: /[a-z]+/\nNUMBER: /[0-9]+/\n%ignore " "\n'
SHARED_ALIAS = [
    ('start: stmt+\nstmt: "type" NAME "=" type_ ";" -> typedef\n | NAME "=" value ";" -> assign\n'
     '?type_: NAME\n | NAME "<" NAME ">" -> apply\n?value: NUMBER\n | NAME "(" NUMBER ")" -> apply\n' + LEX_TAIL,
     ['x = f(3); y = 4; type u = int;', 'type t = list<int>; x = f(3);', 'type a = b<c>; type d = e;', 'x = 1;']),
    ('start: (a | b | c)+\na: "<" NAME ">" -> node\n | "a" NAME\nb: "[" NUMBER NUMBER "]" -> node\n | "b" NUMBER\n'
     'c: "{" NAME NUMBER "}" -> node\n | "(" NUMBER NAME NAME ")" -> node\n | "c" NAME NAME\n' + LEX_TAIL,
     ['<x>', '[1 2] <y>', '{z 3} (4 p q)', 'a x b 1 c u v', '<x> [1 2] {z 3} (4 p q) a w']),
    ('start: item+\n?item: "!" NAME -> mark\n | "(" item ")"\n | other\n?other: "?" NUMBER NUMBER -> mark\n | NUMBER\n' + LEX_TAIL,
     ['! a', '? 1 2', '( ! a ) 3 ? 4 5', '( ( 7 ) )']),
]
SUBS_FAMILY = [
    ('start: stmt+\nstmt: NAME "=" value _NL\n?value: NUMBER\n | NAME\n | "-" NUMBER -> neg\n_NL: /;+/\n' + LEX_TAIL,
     {'_NL': ';'}, ['a = 1 ;', 'a = 1 ; b = c ;;', 'a = 1 ; b = 2 ; c = - 3 ; d = e ; e = - 4 ;']),
] + [(g, subs, inputs) for g, subs, inputs in TERM_SUBS]


def family_stream(ctx):
    from lark import Token
    from lark.exceptions import LarkError

    def run(stream, g, texts, kind, order, mk_subs, label):
        hist = []
        for tx in order:
            try:
                bad = roundtrip(g, tx, kind, history=tuple(hist), term_subs=mk_subs() if mk_subs else None)
            except LarkError as e:
                bad = 'raised %s' % type(e).__name__
            except Exception as e:   # noqa
                bad = 'raised %s' % type(e).__name__
            ctx.count(stream, key=(g, kind, tuple(hist), tx, label), nontrivial=True)
            if bad:
                ctx.violation('roundtrip-oracle', dict(grammar=g, text=tx, parser=kind, history=list(hist),
                                                       term_subs=label, detail=bad), True,
                              '%s (%s): %s' % (stream, label or 'no term_subs', bad))
                return
            hist.append(tx)
    for g, texts in SHARED_ALIAS:
        for kind in ('lalr', 'earley'):
            for k in range(len(texts)):
                run('shared-alias', g, texts, kind, texts[k:] + texts[:k], None, None)
    for g, subs, texts in SUBS_FAMILY:
        for kind in ('lalr', 'earley'):
            for label, mk in (('str', lambda: {k: (lambda sym, v=v: v) for k, v in subs.items()}),
                              ('Token', lambda: {k: (lambda sym, v=v: Token(sym.name, v)) for k, v in subs.items()})):
                for k in range(min(2, len(texts))):
                    run('term_subs-family', g, texts, kind, texts[k:] + texts[:k], mk, label)


def idc_eval(ctx, box):
    """the Coq side of idc_stream (run in a helper thread: it only waits for coqtop)"""
    box['val'], box['out'] = ctx.coq_eval(
        'c19_idc', 'From LV Require Import Recons.Recons Recons.GenBase.',
        'map (fun n => (ascii_cat (Ascii.ascii_of_nat n), is_id_continue (Ascii.ascii_of_nat n))) (seq 0 128)')


def idc_stream(ctx, box):
    """is_id_continue on the ASCII range: lark.utils.is_id_continue and unicodedata.category against the model's
    is_id_continue and the category table behind the regenerated category tuple (Recons/GenBase.ascii_cat)"""
    import unicodedata
    from lark.utils import is_id_continue
    val, out = box.get('val'), box.get('out')
    got = re.findall(r'\(\s*"(\w\w|\?\?)",\s*(true|false)\s*\)', val or '')
    if len(got) != 128:
        ctx.violation('correspondence:coq-eval', {'error': (out or '')[-400:]}, False, 'is_id_continue table not evaluated')
        return
    for i, (cat, b) in enumerate(got):
        ch = chr(i)
        ok = cat == unicodedata.category(ch) and (b == 'true') == bool(is_id_continue(ch))
        ctx.count('idc-ascii', key=i, nontrivial=True)
        if not ok:
            ctx.violation('correspondence:Recons.is_id_continue / GenBase.ascii_cat vs lark.utils.is_id_continue / unicodedata',
                          dict(no_longer_checks='the spacing rule of the model (is_id_continue on ASCII)', char=i,
                               model=[cat, b], lark=[unicodedata.category(ch), bool(is_id_continue(ch))]), False,
                          'is_id_continue differs on chr(%d)' % i)
            return


def correspond(ctx):
    rng = ctx.rng
    import threading
    idc_box = {}
    idc_thread = threading.Thread(target=idc_eval, args=(ctx, idc_box))
    idc_thread.start()
    name_collision_stream(ctx)
    family_stream(ctx)
    lex_cases = []
    rx_cases, rx_meta = [], []
    sf_cases, sf_meta = [], []

    def add_safe(r, g, stream):
        sc = r.get('safe_case') if r.get('ok') else None
        if sc is None:
            return
        term, pred, supported = sc
        all_ok = all(o is not False for o in r['relex_obs'])
        sf_cases.append(term)
        sf_meta.append(dict(grammar=g, stream=stream, predicted_safe=pred, observed_all_relex=all_ok,
                            relex_fail=r.get('relex_fail'), inputs=(r.get('meta') or {}).get('inputs')))
        ctx.count('relex-safe', key=(g, stream), nontrivial=supported, predicted_safe=pred,
                  terminals_supported=supported, observed_relex_on_all_trees=all_ok, trees=min(len(r['relex_obs']), 12),
                  verdict=('safe,relexed' if pred and all_ok else 'SAFE-BUT-FAILED' if pred else
                           'not-safe,relexed' if all_ok else 'not-safe,failed'))
    n_class = ctx.scale(75, 700) * (3 if ctx.widen else 1)
    n_wide = ctx.scale(30, 250)
    cases, metas = [], []
    rejected = {}
    tried = 0
    accepted = 0
    while accepted < n_class and tried < n_class * 8:
        tried += 1
        fam, g = gen_grammar(rng)
        r = build_case(ctx, rng, g, ctx.scale(4, 6), 'class')
        if not r['ok']:
            k = r.get('rejected') or ';'.join(r.get('errors', ['?']))
            rejected[k] = rejected.get(k, 0) + 1
            continue
        if not r.get('inputs'):
            continue
        accepted += 1
        ctx.histo.setdefault('plain_roots(all Earley matches supported)', {})
        hk = ctx.histo['plain_roots(all Earley matches supported)']
        hk[str(r.get('plain_roots'))] = hk.get(str(r.get('plain_roots')), 0) + 1
        for v in r['viol']:
            ctx.violation('roundtrip-oracle', v, True, v['detail'])
        for hd in r.get('history_dep', [])[:1]:
            if not r['viol'] and getattr(ctx, 'n_hdep', 0) < 3:
                ctx.n_hdep = getattr(ctx, 'n_hdep', 0) + 1
                ctx.violation('correspondence:history independence of Reconstructor.reconstruct',
                              dict(no_longer_checks='the model reconstructs a tree as a function of the rules and the tree only',
                                   **hd), False,
                              'the same tree is reconstructed differently after different histories on one Reconstructor')
        if r['case']:
            cases.append(r['case'])
            metas.append(r['meta'])
        add_safe(r, g, 'class')
        for rc, ok in r.get('relex_cases', []):
            if len(rx_cases) < ctx.scale(70, 1200):
                rx_cases.append(rc)
                rx_meta.append((g, r['meta']['inputs']))
                ctx.count('relex', key=rc, nontrivial=True, H_relex=ok)
        if 'NAME:' not in g and 'NUMBER:' not in g:
            txs = [tx for tx, _ in r.get('inputs', [])]
            for lc in lex_case(g, txs + [t.replace(' ', '') for t in txs]):
                if len(lex_cases) >= ctx.scale(150, 1000):
                    break
                lex_cases.append(lc)
                ctx.count('minilex', key=lc, nontrivial=True)
        if accepted <= 2:
            ctx.sample(dict(stream='class', family=fam, **r['meta'], results=r.get('inputs')))
    ctx.extra['class_generator'] = dict(tried=tried, accepted=accepted, rejected=rejected)
    wide_n = 0
    tries = 0
    while wide_n < n_wide and tries < n_wide * 6:
        tries += 1
        fam, g = gen_grammar(rng, wide=True)
        g = wide_mutation(rng, g)
        r = build_case(ctx, rng, g, 3, 'wide', wide=True)
        if not r['ok'] or not r['case']:
            continue
        wide_n += 1
        add_safe(r, g, 'wide')
        cases.append(r['case'])
        metas.append(r['meta'])
        if wide_n <= 1:
            ctx.sample(dict(stream='wide', family=fam, **r['meta'], results=r.get('inputs')))
    # exotic witnesses (known findings): evaluated by the oracle, and their model correspondence is checked too
    for key, g, text, why in EXOTIC:
        msg = roundtrip(g, text)
        ctx.count('exotic', key=key, nontrivial=True, outcome=('violates' if msg else 'holds'))
        if msg:
            import lib as _lib
            listed = any(key in k.get('witness_keys', []) for k in _lib.load_known() if k.get('property') == 'C19')
            if listed:
                ctx.violation('roundtrip-oracle:exotic', dict(grammar=g, parser='lalr', text=text, why=why), True, msg, key=key)
            else:
                # proposed entry in harness/props/C19_findings.json; KNOWN_FINDINGS.json is the coordinator's file
                ctx.note('finding %s reproduces (%s) but is not yet listed in KNOWN_FINDINGS.json' % (key, msg))
                ctx.extra.setdefault('unlisted_findings_reproduced', []).append(key)
        r = build_case(ctx, rng, g, 0, 'exotic-model', wide=True, fixed_inputs=[text], kinds=('lalr',))
        add_safe(r, g, 'exotic')
        if r['ok'] and r['case']:
            cases.append(r['case'])
            metas.append(r['meta'])
        for rc, ok in (r.get('relex_cases', []) if r['ok'] else []):
            rx_cases.append(rc)
            rx_meta.append((g, [text]))
            ctx.count('relex', key=rc, nontrivial=True, H_relex=ok)
    # term_subs: filtered regexp terminals written through WriteTokensTransformer.term_subs
    for g, subs, inputs in TERM_SUBS:
        r = build_case(ctx, rng, g, 0, 'term_subs', fixed_inputs=inputs, kinds=('lalr',), term_subs=subs)
        add_safe(r, g, 'term_subs')
        if r['ok'] and r['case']:
            cases.append(r['case'])
            metas.append(r['meta'])
            for v in r['viol']:
                ctx.violation('roundtrip-oracle', v, True, v['detail'])
    idc_thread.join()
    idc_stream(ctx, idc_box)
    # the mini-lexer model used by H_relex_refuted against lark's basic lexer (literal-only grammars and F12)
    for lc in lex_case(EXOTIC[0][1], ['+ +', '++', '+++', '+ ++ +']):
        lex_cases.append(lc)
        ctx.count('minilex', key=lc, nontrivial=True)
    badl, errl = ctx.coq_bad_indices('c19lex', IMPORTS, 'check_lex', lex_cases, chunk=200)
    for e in errl:
        ctx.violation('correspondence:coq-eval', {'error': e}, False, e[:300])
    for i in badl:
        ctx.violation('correspondence:Recons/Text.minilex vs lark BasicLexer (string terminals)',
                      dict(no_longer_checks='mini-lexer model agreement', case=lex_cases[i][:600]), False,
                      'the literal-only lexer model and lark.lex disagree')
    # character level: bc_b / lex_model of the BasicLexer model against lark's lexer on the reconstructed texts
    from props import C07 as _C07
    badx, errx = ctx.coq_bad_indices('c19rx', RX_IMPORTS, 'check_relex_all', rx_cases, chunk=ctx.scale(18, 60),
                                     extra_defs=_C07.extra_defs())
    for e in errx:
        ctx.violation('correspondence:coq-eval', {'error': e}, False, e[:300])
    for i in badx[:3]:
        code, _ = ctx.coq_eval('c19rx_code_%d' % i, RX_IMPORTS + '\n' + _C07.extra_defs(), 'check_relex_code %s' % rx_cases[i])
        if (code or '').strip() == '2':
            ctx.violation('correspondence:Recons/RelexSafe.m_cp (string / class-plus matcher) vs Python re on a reconstructed text',
                          dict(no_longer_checks='the computed matcher of the per-grammar condition relex_safe',
                               grammar=rx_meta[i][0], inputs=rx_meta[i][1]), False,
                          'm_cp and the recorded re table disagree')
        else:
            ctx.violation('correspondence:Recons/Relex (join_sp, bc_b, lex_model) vs lark reconstruct() text and BasicLexer',
                          dict(no_longer_checks='character-level model agreement', grammar=rx_meta[i][0],
                               inputs=rx_meta[i][1]), False,
                          'the boundary condition / lexer model and lark disagree on a reconstructed text')
    # per grammar: relex_safe_b evaluated by the model on its own lexer against the harness's evaluation on lark's scanner
    # order, and the prediction against the observed H_relex of every reconstructed tree (never "safe but failed")
    bads, errsf = ctx.coq_bad_indices('c19sf', RX_IMPORTS, 'check_safe', sf_cases, chunk=ctx.scale(30, 80),
                                      extra_defs=_C07.extra_defs())
    for e in errsf:
        ctx.violation('correspondence:coq-eval', {'error': e}, False, e[:300])
    for i in bads[:3]:
        code, _ = ctx.coq_eval('c19sf_code_%d' % i, RX_IMPORTS + '\n' + _C07.extra_defs(), 'check_safe_code %s' % sf_cases[i])
        what = {'1': 'the lexer model could not be built', '2': 'scanner trial order (model vs lark)',
                '3': 'relex_safe_b: model verdict differs from the harness evaluation on lark\'s scanner order',
                '4': 'relex_safe_b holds but a reconstructed text did not lex back to the written tokens'}.get(
                    (code or '').strip(), 'relex_safe case')
        m = sf_meta[i]
        ctx.violation('correspondence:Recons/RelexSafe (per-grammar relex_safe) vs lark: ' + what,
                      dict(no_longer_checks='C19_char_roundtrip applies to the relex-safe grammars: ' + what,
                           grammar=m['grammar'], inputs=m['inputs'], relex_fail=m['relex_fail'],
                           predicted_safe=m['predicted_safe']), False, what)
    for m in sf_meta:
        if m['predicted_safe'] and not m['observed_all_relex'] and not bads:
            # the harness's own evaluation says safe, the model agreed, and lark failed to re-lex: cannot happen for a
            # faithful model (C19_relex_safe_implies_bc); reported even if the Coq comparison above was skipped
            ctx.violation('correspondence:relex_safe predicted a re-lexable text',
                          dict(no_longer_checks='relex_safe prediction', **m), False, 'safe but the re-lex failed')
            break
    bad, errs = ctx.coq_bad_indices('c19', IMPORTS, 'check_case', cases, chunk=ctx.scale(25, 60))
    for e in errs:
        ctx.violation('correspondence:coq-eval', {'error': e}, False, e[:300])
    already = any(v['found'] for v in ctx.violations if v.get('key') is None)
    if len(bad) > 4:
        ctx.note('%d cases disagree with the model; the first 4 are analysed, the others searched for a failing input (time-bounded)' % len(bad))
    import time as _time
    t_search = _time.time()
    for n_bad, i in enumerate(bad):
        m = metas[i]
        if n_bad >= 4 and (already or _time.time() - t_search > ctx.scale(120, 400)):
            break
        what = 'case'
        if n_bad < 4:
            # which observation point? ask the model again for the verdict code of this case only
            code, _ = ctx.coq_eval('c19_code_%d' % i, IMPORTS, 'check_case_code %s' % cases[i])
            what = {'1': 'derived rules (TreeMatcher.rules / rules_for_root)', '2': 'class predicate',
                    '3': 'match_tree result / written items', '4': 'token sequence / text'}.get((code or '').strip(), 'case')
            if m.get('rules_mutated'):
                what += ' - TreeMatcher.rules changed while reconstructing %r after %r' % (
                    m['rules_mutated']['text'], m['rules_mutated']['history'])
        # search: does the round trip fail on an input of this grammar, alone or after a history of other inputs
        # reconstructed by the same Reconstructor (wider sample, several orders)?
        found = None
        if not already:
            pool = list(m['inputs']) + more_inputs(ctx, m['grammar'], 30 if n_bad < 4 else 10)
            for tx in pool if n_bad < 4 else []:
                try:
                    msg = roundtrip(m['grammar'], tx, m['parser'])
                except Exception:   # noqa
                    continue
                if msg:
                    found = ([], tx, msg)
                    break
            if not found:
                try:
                    cats = [' '.join(rng.sample(pool, min(len(pool), 3))) for _ in range(3)] if len(pool) >= 2 else []
                    found = search_history(rng, m['grammar'], m['parser'], pool + cats, orders=8)
                except Exception:   # noqa
                    found = None
        if found:
            already = True
            ctx.violation('correspondence+oracle', dict(grammar=m['grammar'], parser=m['parser'], history=found[0],
                                                        text=found[1], disagrees_at=what), True, found[2])
        elif n_bad < 4:
            ctx.violation('correspondence:Recons model vs lark.tree_matcher/reconstruct: ' + what,
                          dict(no_longer_checks='model/implementation agreement: ' + what, grammar=m['grammar'],
                               parser=m['parser'], inputs=m['inputs']), False,
                          'model and implementation disagree on %s; the round trip holds on the sampled inputs' % what)


def more_inputs(ctx, gtext, n):
    try:
        p = make_parser(gtext, 'lalr')
    except Exception:   # noqa
        try:
            p = make_parser(gtext, 'earley')
        except Exception:   # noqa
            return []
    rules, lits = model_inputs(p)
    out = []
    for _ in range(n):
        try:
            toks = gen_sentence(ctx.rng, rules, lits, 'start', ctx.rng.randint(1, 5))
        except (KeyError, RecursionError):
            break
        if len(toks) <= 45:
            out.append(' '.join(t[1] for t in toks))
    return out


def wide_mutation(rng, g):
    """push a grammar outside the class in ways the rule derivation must still handle: self-recursive filtered
    alternatives (skipped unit rules), duplicate aliases, ?rule over an inlined rule"""
    lines = g.split('\n')
    c = rng.random()
    if c < 0.35:
        # add `| "<" r ">"` to a ?rule or _rule: recons_exp == [origin] -> skipped
        idx = [i for i, l in enumerate(lines) if re.match(r'^(\?\w+|_\w+): ', l)]
        if idx:
            i = rng.choice(idx)
            nm = re.match(r'^\??(\w+):', lines[i]).group(1)
            lines[i] = lines[i] + ' | "<<" %s ">>"' % nm
    elif c < 0.55:
        idx = [i for i, l in enumerate(lines) if re.match(r'^\??[a-z]\w*: ', l) and '->' not in l]
        if idx:
            i = rng.choice(idx)
            lines[i] = lines[i] + ' | "<<" NAME ">>" -> dup_alias | "<|" NAME -> dup_alias'
            if not any(l.startswith('NAME:') for l in lines):
                lines.insert(len(lines) - 2, 'NAME: /[a-z]+/')
    return '\n'.join(lines)


def replay(ctx, case):
    w = case['witness']
    if 'grammar' not in w or 'text' not in w:
        return False
    try:
        subs = None
        if w.get('term_subs') in ('str', 'Token'):
            from lark import Token
            tbl = dict(pair for g, sb, _ in SUBS_FAMILY if g == w['grammar'] for pair in sb.items())
            subs = {k: ((lambda sym, v=v: Token(sym.name, v)) if w['term_subs'] == 'Token' else (lambda sym, v=v: v))
                    for k, v in tbl.items()}
        return roundtrip(w['grammar'], w['text'], w.get('parser', 'lalr'), history=w.get('history') or (),
                         term_subs=subs) is not None
    except Exception:   # noqa
        return False
