"""C09 stream terminal-model: lark's TerminalTreeToPattern and Python's `re` against the Coq model coq/Re/.

For generated terminal definitions (nested ? * + ~n ~n..m, literals with regexp-special characters, alternations,
"a".."z" ranges, the self-delimiting user regexps [..] [^..] ., terminal references, no flags):
  * the terminal TREE is taken from lark itself (load_grammar(...).term_defs, i.e. the input of
    PrepareLiterals * TerminalTreeToPattern) and turned into a Re.TermPattern.ttree;
  * lark's compiled Pattern (kind, value, to_regexp(), min_width, max_width) is compared in Coq with
    Re.TermPattern.compile of that tree (check_string / check_width);
  * re.match(...).end() and re.fullmatch on lark's regexp are compared with Re.Lang.bt_match / bt_fullmatch
    evaluated by vm_compute on generated inputs, incl. near-miss occurrence counts n-1 and m+1 (check_match);
  * the property's own oracle (stated counts, evaluated in Python on the tree) is compared with re.fullmatch.
"""
from lib import coq_list as L, coq_term_str as S, coq_nat as NAT

IMPORTS = 'From LV Require Import Re.Syntax Re.Lang Re.Width Re.TermPattern Re.TermPatternCheck.'

SPECIALS = '()[]{}?*+-|^$\\.&~# '
PLAIN = 'abcxyz019_'
ALPHA = 'abcdefghijklmnopqrstuvwxyz'


class Unsupported(Exception):
    pass


# ------------------------------------------------------------------------------------------------ source text
def q(s):
    """a lark string literal for the characters s"""
    out = ''
    for ch in s:
        if ch == '\\':
            out += '\\\\'
        elif ch == '"':
            out += '\\"'
        elif ch == '\t':
            out += '\\t'
        elif ch == '\n':
            out += '\\n'
        else:
            out += ch
    return '"%s"' % out


def gen_leaf(rng):
    r = rng.random()
    if r < 0.45:
        n = rng.choice([1, 1, 1, 2, 2, 3])
        return q(''.join(rng.choice(SPECIALS + PLAIN + PLAIN) for _ in range(n)))
    if r < 0.6:
        return q(rng.choice(PLAIN))
    if r < 0.72:
        a, b = sorted(rng.sample(ALPHA[:8], 2))
        return '"%s".."%s"' % (a, b)
    if r < 0.9:
        items = []
        for _ in range(rng.choice([1, 1, 2])):
            a, b = sorted(rng.choices(ALPHA[:6] + '0123', k=2))
            items.append('%s-%s' % (a, b))
        return '/[%s%s]/' % ('^' if rng.random() < 0.3 else '', ''.join(items))
    return '/./'


def gen_op(rng):
    r = rng.random()
    if r < 0.2:
        return '?'
    if r < 0.4:
        return '*'
    if r < 0.6:
        return '+'
    lo = rng.randint(0, 3)
    if r < 0.75:
        return '~%d' % lo
    return '~%d..%d' % (lo, lo + rng.randint(0, 3))


def gen_item(rng, depth, refs):
    r = rng.random()
    if depth >= 2 or r < 0.4:
        atom = gen_leaf(rng)
    elif r < 0.5 and refs:
        atom = rng.choice(refs)
    elif r < 0.58:
        return '[%s]' % gen_alts(rng, depth + 1, refs)
    else:
        atom = '(%s)' % gen_alts(rng, depth + 1, refs)
    if rng.random() < 0.5:
        atom += gen_op(rng)
        if rng.random() < 0.12:
            atom = '(%s)%s' % (atom, gen_op(rng))
    return atom


def gen_seq(rng, depth, refs):
    n = rng.choice([1, 1, 2, 2, 3])
    return ' '.join(gen_item(rng, depth, refs) for _ in range(n))


def gen_alts(rng, depth, refs):
    n = rng.choice([1, 1, 1, 2, 2, 3])
    alts = [gen_seq(rng, depth, refs) for _ in range(n)]
    if depth > 0 and n > 1 and rng.random() < 0.08:
        alts[rng.randrange(n)] = ''       # an empty alternative
    return ' | '.join(alts)


def gen_definition(rng):
    """(grammar text, name of the terminal under test)"""
    refs, lines = [], []
    if rng.random() < 0.3:
        lines.append('A: %s' % gen_alts(rng, 1, []))
        refs = ['A']
    lines.append('T: %s' % gen_alts(rng, 0, refs))
    return 'start: T\n' + '\n'.join(lines) + '\n', 'T'


# ------------------------------------------------------------------------------------------------ fixed families
OPS = ['?', '*', '+', '~0', '~3', '~2..4', '~0..2', '~1..1']
OPERANDS = ['"a"', '"("', '"a."', '("a" | "ab")', '("a" "b")', '/[^a-c]/', '"a".."c"',
            '("a"?)', '("a"*)', '("a"+)', '("a"~1..2)', '("a" | )']
ALT_POOL = ['"a"', '"ab"', '"abc"', '"a"+', '"a"?', '"a" "b"?', '/[a-b]/', '"a."', '"a" "b"']


def fixed_definitions():
    out = []
    for x in OPERANDS:
        for op in OPS:
            out.append(('op', 'start: T\nT: "<" %s%s ">"\n' % (x, op)))
            if op == '*':
                out.append(('op', 'start: T\nT: %s%s "a"\n' % (x, op)))          # the tail competes with the loop
    for i, a in enumerate(ALT_POOL):
        for j, b in enumerate(ALT_POOL):
            if i != j:
                out.append(('alt', 'start: T\nT: (%s | %s) "c"?\n' % (a, b)))
    for tri in (('"a"', '"ab"', '"abc"'), ('"abc"', '"a"', '"ab"'), ('"a"+', '"ab"', '"a" "b"?'), ('"b"', '"a"', '"c"'),
                ('/[a-b]/', '"a"', '"b"'), ('"a"', '/[a-b]/', '"a."'), ('"a" "b"', '"ab"', '/./ /./')):
        out.append(('alt', 'start: T\nT: %s\n' % ' | '.join(tri)))
    for ch in SPECIALS + '"\t\n' + 'aZ0_/!%,:;<=>@`\'':
        out.append(('escape', 'start: T\nT: (%s | "y")~1..2 %s\n' % (q(ch + 'a'), q(ch))))
    out.append(('ref', 'start: T\nA: "a" | "b"+\nT: A~2 "c"\n'))
    out.append(('ref', 'start: T\nA: "a"\nB: A A?\nT: B+ | A "x"\n'))
    return out


# ------------------------------------------------------------------------------------------------ lark's tree
def parse_class(rx):
    """/[a-c0-3]/ -> (neg, [(a, c), (0, 3)]); '.' -> 'dot'"""
    if rx == '.':
        return 'dot'
    if not (rx.startswith('[') and rx.endswith(']')):
        raise Unsupported(rx)
    body = rx[1:-1]
    neg = body.startswith('^')
    if neg:
        body = body[1:]
    if len(body) % 3 or not body:
        raise Unsupported(rx)
    items = []
    for i in range(0, len(body), 3):
        a, d, b = body[i:i + 3]
        if d != '-' or not (a.isalnum() and b.isalnum()):
            raise Unsupported(rx)
        items.append((a, b))
    return (neg, items)


def ascii_lit(ch):
    o = ord(ch)
    if o > 255:
        raise Unsupported(ch)
    if ch == '"':
        return '""""%char'
    if 32 <= o < 127:
        return '"%s"%%char' % ch
    return '"%03d"%%char' % o


def convert(node):
    """lark's terminal tree -> (Coq ttree term, spec tree for the count oracle)"""
    from lark.tree import Tree
    from lark.load_grammar import _literal_to_pattern
    from lark.lexer import PatternStr
    if not isinstance(node, Tree):
        raise Unsupported(repr(node))
    d = node.data
    if d in ('expansions', 'expansion'):
        kids = [convert(c) for c in node.children]
        return ('(%s %s)' % ('TAlt' if d == 'expansions' else 'TSeq', L([k[0] for k in kids])),
                ('alt' if d == 'expansions' else 'seq', [k[1] for k in kids]))
    if d == 'value':
        (c,) = node.children
        return convert(c)
    if d == 'literal':
        (tok,) = node.children
        p = _literal_to_pattern(tok)
        if p.flags:
            raise Unsupported('flags')
        if isinstance(p, PatternStr):
            return '(TStr %s)' % S(p.value), ('lit', p.value)
        c = parse_class(p.value)
        if c == 'dot':
            return 'TDot', ('dot',)
        neg, items = c
        return ('(TCls %s %s)' % ('true' if neg else 'false', L(['(%s, %s)' % (ascii_lit(a), ascii_lit(b)) for a, b in items])),
                ('cls', neg, items))
    if d == 'range':
        a, b = [t.value[1:-1] for t in node.children]
        if len(a) != 1 or len(b) != 1:
            raise Unsupported('range')
        return '(TRange %s %s)' % (ascii_lit(a), ascii_lit(b)), ('cls', False, [(a, b)])
    if d == 'maybe':
        (c,) = node.children
        t, s = convert(c)
        return '(TOp %s OpOpt)' % t, ('rep', s, 0, 1)
    if d == 'expr':
        t, s = convert(node.children[0])
        op = str(node.children[1])
        if op == '?':
            return '(TOp %s OpOpt)' % t, ('rep', s, 0, 1)
        if op == '*':
            return '(TOp %s OpStar)' % t, ('rep', s, 0, None)
        if op == '+':
            return '(TOp %s OpPlus)' % t, ('rep', s, 1, None)
        if op == '~':
            nums = [int(x) for x in node.children[2:]]
            if len(nums) == 1:
                return '(TOp %s (OpExact %d))' % (t, nums[0]), ('rep', s, nums[0], nums[0])
            return '(TOp %s (OpRange %d %d))' % (t, nums[0], nums[1]), ('rep', s, nums[0], nums[1])
    raise Unsupported(d)


# ------------------------------------------------------------------------------------------------ count oracle
def chr_ok(e, ch):
    if e[0] == 'dot':
        return ch != '\n'
    _, neg, items = e
    return any(a <= ch <= b for a, b in items) != neg


def ends(e, s, i):
    """set of j such that e matches s[i:j] with the documented meaning of the operators"""
    k = e[0]
    if k == 'lit':
        return {i + len(e[1])} if s.startswith(e[1], i) else set()
    if k in ('cls', 'dot'):
        return {i + 1} if i < len(s) and chr_ok(e, s[i]) else set()
    if k == 'seq':
        cur = {i}
        for x in e[1]:
            cur = {j2 for j in cur for j2 in ends(x, s, j)}
        return cur
    if k == 'alt':
        out = set()
        for x in e[1]:
            out |= ends(x, s, i)
        return out
    _, x, lo, hi = e
    out, cur, n, seen = set(), {i}, 0, set()
    while cur and (hi is None or n <= hi):
        if n >= lo:
            out |= cur
        nxt = {j2 for j in cur for j2 in ends(x, s, j)}
        n += 1
        if hi is None and n > lo:
            nxt -= seen
            seen |= nxt
        cur = nxt
        if n > len(s) + lo + 2 and hi is None:
            break
    return out


def sample_chr(e, rng):
    pool = 'abcdef0123xyz(.'
    ok = [c for c in pool if chr_ok(e, c)]
    return rng.choice(ok) if ok else 'a'


def sample_word(e, rng, miss=0.0):
    k = e[0]
    if k == 'lit':
        return e[1]
    if k in ('cls', 'dot'):
        return sample_chr(e, rng)
    if k == 'seq':
        return ''.join(sample_word(x, rng, miss) for x in e[1])
    if k == 'alt':
        return sample_word(rng.choice(e[1]), rng, miss) if e[1] else ''
    _, x, lo, hi = e
    top = (lo + 2) if hi is None else hi
    n = rng.choice([lo, top, rng.randint(lo, top)])
    if rng.random() < miss:
        n = rng.choice([max(lo - 1, 0), top + 1])      # near miss: one occurrence too few / too many
    return ''.join(sample_word(x, rng, miss) for _ in range(n))


def probes_for(spec, rng, nwords):
    words = {''}
    for _ in range(nwords):
        words.add(sample_word(spec, rng))
        words.add(sample_word(spec, rng, miss=0.5))
    for w in list(words):
        if w:
            k = rng.randrange(len(w))
            words.add(w[:k] + w[k + 1:])
            words.add(w + w[-1])
            words.add(w[:k] + rng.choice('ab(.x') + w[k:])
            words.add(w + 'a')
    return sorted(x for x in words if len(x) <= 12)


# ------------------------------------------------------------------------------------------------ the stream
def observe(text, name):
    """(tree, TerminalDef) of terminal `name` as lark loads / compiles it"""
    from lark.load_grammar import load_grammar
    g, _ = load_grammar(text, '<c09-terminal>', [], False)
    tree = dict((n, t) for n, (t, _p) in g.term_defs)[name]
    terms, _rules, _ign = g.compile(['start'], set())
    td = [t for t in terms if t.name == name][0]
    return tree, td


def run(ctx):
    import re
    import time
    from lark import Lark
    from lark.exceptions import GrammarError, LexError
    rng = ctx.rng
    t0 = time.time()
    defs = [(fam, text) for fam, text in fixed_definitions()]
    if not ctx.thorough() and not ctx.widen:
        # quick tier: a deterministic slice of the fixed families (the generated Coq file costs ~1 s per definition
        # on a loaded machine); the full families and the random definitions run in the thorough tier / when widened
        keep = {'op': 3, 'alt': 6, 'escape': 5, 'ref': 1}
        seen = {}
        thin = []
        for fam, text in defs:
            seen[fam] = seen.get(fam, 0) + 1
            if seen[fam] % keep[fam] == 0 or fam == 'ref':
                thin.append((fam, text))
        defs = thin
    nrand = ctx.scale(0, 1500) * (3 if ctx.widen else 1)
    defs += [('random', gen_definition(rng)[0]) for _ in range(nrand)]
    cases, meta = [], []
    for fam, text in defs:
        try:
            tree, td = observe(text, 'T')
        except GrammarError as ex:
            ctx.violation('terminal-construct', {'grammar': text, 'expect_error': False, 'error': repr(ex)[:200]}, True,
                          'a terminal definition with nested operators failed to compile: %r' % (ex,))
            continue
        try:
            term, spec = convert(tree)
        except Unsupported as ex:
            ctx.violation('correspondence:terminal tree outside the modelled class',
                          {'no_longer_checks': 'terminal-model', 'grammar': text, 'what': str(ex)[:100]}, False,
                          'generated terminal definition is outside the modelled class: %s' % ex)
            continue
        p = td.pattern
        rx_s = p.to_regexp()
        try:
            rx = re.compile(rx_s)
        except re.error as ex:
            ctx.violation('terminal-construct', {'grammar': text, 'expect_error': False, 'error': repr(ex)[:200]}, True,
                          'lark compiled a terminal to a regexp Python rejects: %r' % rx_s)
            continue
        probes = []
        nbad = 0
        words = probes_for(spec, rng, 3 if fam == 'random' else 2)
        if len(words) > 7:
            words = [words[0]] + rng.sample(words[1:], 6)
        # nested quantifiers over overlapping alternatives backtrack exponentially (in sre and in the model alike):
        # such definitions are left out (counted), decided by the time sre itself needs
        import signal

        class Slow(Exception):
            pass

        def on_alarm(*_a):
            raise Slow()
        old_h = signal.signal(signal.SIGALRM, on_alarm)
        tw = time.time()
        try:
            signal.setitimer(signal.ITIMER_REAL, 0.25)
            obs = [(w, rx.match(w), rx.fullmatch(w) is not None) for w in words]
            signal.setitimer(signal.ITIMER_REAL, 0)
        except Slow:
            obs = None
        finally:
            signal.setitimer(signal.ITIMER_REAL, 0)
            signal.signal(signal.SIGALRM, old_h)
        if obs is None or time.time() - tw > 0.02:
            ctx.count('terminal-model-skipped-backtracking', key=text, nontrivial=False)
            continue
        for w, m, full in obs:
            probes.append((w, m.end() if m else None, full))
            want = len(w) in ends(spec, w, 0)
            ctx.count('terminal-model', key=(text, w), family=fam, matched=full)
            if want != full and nbad < 2:
                nbad += 1
                ctx.violation('terminal-count', {'grammar': text, 'word': w, 'regexp': rx_s, 'expected_match': want}, True,
                              'terminal %s %s %r' % (text.split('\n')[-2], 'must match' if want else 'must not match', w))
        # zero-width terminals: the lexer refuses them, exactly when min_width is 0
        try:
            Lark(text, parser='lalr', lexer='basic')
            refused = False
        except LexError:
            refused = True
        except GrammarError:
            refused = None
        if refused is not None and refused != (p.min_width == 0):
            ctx.violation('correspondence:zero-width check', {'no_longer_checks': 'zero-width terminal refusal', 'grammar': text,
                                                              'min_width': p.min_width}, False,
                          'lexer %s a terminal whose min_width is %d' % ('refused' if refused else 'accepted', p.min_width))
        cases.append('(%s, (%s, %s, %s, %d%%N, %d%%N), %s)'
                     % (term, 'true' if type(p).__name__ == 'PatternStr' else 'false', S(p.value), S(rx_s),
                        p.min_width, p.max_width,
                        L(['(%s, %s, %s)' % (S(w), 'None' if e is None else '(Some %d)' % e, 'true' if f else 'false')
                           for w, e, f in probes])))
        meta.append((fam, text, rx_s, spec, probes, p, term))
    if meta:
        ctx.sample({'terminal-model': {'definition': meta[-1][1].split('\n')[-2], 'regexp': meta[-1][2],
                                       'probes': len(meta[-1][4])}})
    t1 = time.time()
    bad, errs = ctx.coq_bad_indices('c09term', IMPORTS, 'check_all', cases, chunk=max(40, -(-len(cases) // 4)))
    for er in errs:
        ctx.violation('correspondence:coq-eval', {'error': er}, False, er[:300])
    if bad:
        # which group of observations differs
        sub = [cases[i] for i in bad[:60]]
        parts = {}
        for fn in ('check_string', 'check_width', 'check_match'):
            b2, _ = ctx.coq_bad_indices('c09term_' + fn, IMPORTS, fn, sub, chunk=60)
            parts[fn] = set(b2)
        for k, i in enumerate(bad[:60]):
            fam, text, rx_s, spec, probes, p, _term = meta[i]
            what = [fn for fn in parts if k in parts[fn]]
            if 'check_match' in what:
                term_i = cases[i][1:cases[i].index(', (')] if False else None
                pc = ['(%s, (%s, %s, %s))' % (meta[i][6], S(w), 'None' if e is None else '(Some %d)' % e,
                                              'true' if f else 'false') for w, e, f in probes]
                b4, _ = ctx.coq_bad_indices('c09term_probe%d' % k, IMPORTS,
                                            '(fun c => check_probe (p_re (compile (fst c))) (snd c))', pc, chunk=100)
                what.append('probes ' + ';'.join('%r: re.match end %s fullmatch %s' % probes[j] for j in b4[:3]))
            # search for an input on which the stated counts fail on lark's regexp
            found = None
            try:
                rx = re.compile(rx_s)
                r2 = __import__('random').Random(i)
                for w in probes_for(spec, r2, 40):
                    if (rx.fullmatch(w) is not None) != (len(w) in ends(spec, w, 0)):
                        found = w
                        break
            except re.error:
                pass
            if found is not None:
                ctx.violation('terminal-count', {'grammar': text, 'word': found, 'regexp': rx_s,
                                                 'expected_match': len(found) in ends(spec, found, 0)}, True,
                              'compiled pattern of %s differs from the model (%s) and %r is matched wrongly'
                              % (text.split('\n')[-2], ','.join(what), found))
            else:
                ctx.violation('correspondence:Re/TermPattern.compile + Re/Lang.bt_match vs TerminalTreeToPattern + re',
                              {'no_longer_checks': 'terminal-model ' + ','.join(what), 'grammar': text, 'regexp': rx_s,
                               'value': p.value, 'min_width': p.min_width, 'max_width': p.max_width}, False,
                              '%s of %s differs from the model (regexp %r)' % (','.join(what) or 'observation',
                                                                             text.split('\n')[-2], rx_s))
    # bad ranges: GrammarError in lark, ranges_ok = false in the model
    badr = ['start: T\nT: "a"~3..2\n', 'start: T\nT: ("a" | "b"~2..1)+ "c"\n', 'start: T\nT: ["a"~1..0]\n']
    terms = []
    from lark.load_grammar import load_grammar
    for text in badr:
        ctx.count('terminal-badrange', key=text)
        g, _ = load_grammar(text, '<c09-terminal>', [], False)
        tree = dict((n, t) for n, (t, _p) in g.term_defs)['T']
        terms.append(convert(tree)[0])
        try:
            g.compile(['start'], set())
            ctx.violation('terminal-badrange', {'grammar': text, 'expect_error': True}, True,
                          'a terminal range with max < min was accepted')
        except GrammarError:
            pass
    b3, errs = ctx.coq_bad_indices('c09termbad', IMPORTS, 'check_bad_range', terms)
    for er in errs:
        ctx.violation('correspondence:coq-eval', {'error': er}, False, er[:300])
    for i in b3:
        ctx.violation('correspondence:Re/TermPattern.ranges_ok', {'no_longer_checks': 'terminal bad-range rejection',
                                                                  'grammar': badr[i]}, False,
                      'model accepts a terminal range that lark rejects')
    ctx.note('terminal-model: %d definitions (%d fixed), %d probes, python %.1f s, vm_compute %.1f s'
             % (len(cases), len(fixed_definitions()), sum(len(m[4]) for m in meta), t1 - t0, time.time() - t1))
