"""C20 - The parse forest (ambiguity='forest') encodes exactly the derivations."""
from lib import coq_term_str as S, coq_list as L, coq_Z as Z, coq_nat as N
from props import forest_common as fc

THEOREMS = ['C20_tft_unshaped_exact', 'C20_tft_unshaped_perm', 'C20_tft_resolve_in', 'C20_is_ambiguous_single', 'C20_is_ambiguous_iff',
            'C20_visit_terminates', 'C20_visit_total', 'C20_on_cycle_exact', 'C20_cycle_events_sound',
            'C20_loop_eq_rec', 'C20_example_tft', 'C20_example_cycle', 'C20_graph_resolve_in_den',
            'C20_graph_resolve_total', 'C20_example_graph_resolve', 'C20_forest_exact_model',
            'C20_forest_complete_model', 'C20_resolve_model_exact',
            'C20_tft_walk_terminates', 'C20_tft_walk_computes', 'C20_graph_tft_sound', 'C20_graph_tft_exact',
            'C20_graph_tft_exact_acyclic', 'C20_tft_model_exact', 'C20_example_graph_tft']
GEN_DEPS = ['ForestSortKey', 'ForestWalk']
RULE = ('(c) random grammars for the dynamic lexers with one to three %ignore literals of different lengths that are prefixes/'
        'suffixes of the grammar\'s own string terminals, all texts up to length 4, character-level tiling oracle; '
        '(a) random acyclic ambiguous grammars as in C05 (priorities, overlapping terminals, nullable rules), texts up to '
        'length 4, lexer in {basic,dynamic,dynamic_complete}: forest, TreeForestTransformer both modes, is_ambiguous, '
        'brute-force derivations; (b) the same plus random CYCLIC grammars (unit cycles a: a | A, mutual cycles, nullable '
        'contexts), a fixed cyclic corpus and hand-built cyclic forests: callback traces of instrumented subclasses '
        'of ForestVisitor (multi/single visit), ForestSumVisitor, ForestTransformer, ForestToParseTree (resolve), '
        'TreeForestTransformer (both modes) with a per-call timeout; non-trivial = distinct (grammar,text,lexer[,class]) '
        'whose forest has >= 2 derivations or a cycle')
TRUSTED_BASE = ['export of the SPPF and instrumentation of the visitor classes by subclassing '
                '(harness/props/forest_common.py: traced_walk wraps visit_*_in/out, visit_token_node, on_cycle; the '
                'lists returned by visit_*_in are recorded and replayed as the model parameter sel)',
                'ForestToParseTree / TreeForestTransformer are modelled on cyclic graph forests with use_cache=False '
                '(Forest/GraphTft.v, branch conditions regenerated: Gen/ForestWalk.v); values are compared as ordered '
                'alternatives - the _iambig/_inter encoding is multiplied out by the exporter (forest_common.coq_gtft_case)',
                'forest exactness is proved for the executable Earley model (C20_forest_exact_model, basic lexer / unit '
                'tokens); that the model is lark (and the dynamic lexers) is compared per case: model derivations of '
                'the exported forest = brute-force derivations']
ALLOWED_AXIOMS = []
ASSUMPTIONS = ['with regexp terminals under the dynamic lexers, completeness of the forest is only required for the token spans the '
               'scanner considers (known finding F7); soundness is required against re.fullmatch on every span',
               'finite forests; callbacks return finite lists (generators are materialised by the instrumentation)',
               'grammars without tree shaping for the derivation comparison (plain rule names, named terminals)',
               'streams (a) and (b) use string-literal terminals only']

IMPORTS_G = ('From LV Require Import Cfg.Grammar Forest.ExplicitBuild Forest.GraphResolve Forest.GraphSum '
             'Forest.GraphResolveCheck.')
IMPORTS_T = ('From LV Require Import Base.Prelude Cfg.Grammar Forest.ExplicitBuild Forest.GraphResolve '
             'Forest.GraphResolveCheck Forest.GraphTft Forest.GraphTftCheck.')
IMPORTS = ('From LV Require Import Base.Prelude Forest.Sppf Forest.Prio Forest.SppfCheck Forest.PrioCheck Forest.Tft '
           'Forest.TftCheck Forest.Visit Forest.VisitCheck.')
MAX_UNFOLDED = 700
MAX_EVENTS = 400

CYCLIC_CORPUS = [
    ('start: start | A\nA: "a"\n', ['a']),
    ('start: a\na: b | A\nb: a\nA: "a"\n', ['a']),
    ('start: a a\na: a | | A\nA: "a"\n', ['', 'a', 'aa']),
    ('start: a B\na: a a | A |\nA: "a"\nB: "b"\n', ['b', 'ab', 'aab']),
    ('start: start start | A |\nA: "a"\n', ['', 'a', 'aa']),
    ('start: a | b\na: b\nb: a | A\nA.2: "a"\n', ['a']),
]


def handbuilt_forests():
    """cyclic forests built by hand from lark's node classes: (name, root)"""
    from lark.parsers.earley_forest import SymbolNode, StableSymbolNode, TokenNode
    from lark.lexer import Token
    from lark.grammar import NonTerminal, Rule, RuleOptions, Terminal
    out = []
    A, B = NonTerminal('a'), NonTerminal('b')
    r1 = Rule(A, [B], 0, None, RuleOptions())
    r2 = Rule(B, [A], 0, None, RuleOptions())
    r3 = Rule(A, [Terminal('X')], 1, None, RuleOptions())
    # a -> b -> a (two-node cycle) and a -> X
    na, nb = StableSymbolNode(A, 0, 1), StableSymbolNode(B, 0, 1)
    tk = TokenNode(Token('X', 'x'), None)
    na.add_family(A, r1, 0, None, nb)
    na.add_family(A, r3, 0, None, tk)
    nb.add_family(B, r2, 0, None, na)
    out.append(('two-cycle', na))
    # self loop only (no finite derivation at all)
    nc = StableSymbolNode(A, 0, 0)
    r4 = Rule(A, [A], 0, None, RuleOptions())
    nc.add_family(A, r4, 0, None, nc)
    out.append(('self-loop', nc))
    # diamond with a back edge to the root from both branches
    nr = StableSymbolNode(A, 0, 2)
    n1, n2 = StableSymbolNode(B, 0, 2), StableSymbolNode(NonTerminal('c'), 0, 2)
    rc = Rule(NonTerminal('c'), [A], 0, None, RuleOptions())
    r5 = Rule(A, [NonTerminal('c')], 2, None, RuleOptions())
    nr.add_family(A, r1, 0, None, n1)
    nr.add_family(A, r5, 0, None, n2)
    nr.add_family(A, r3, 0, None, tk)
    n1.add_family(B, r2, 0, None, nr)
    n2.add_family(NonTerminal('c'), rc, 0, None, nr)
    n2.add_family(NonTerminal('c'), rc, 0, nr, tk)    # left = a symbol node on the path as well
    out.append(('diamond', nr))
    return out


def visitor_classes():
    from lark.parsers.earley_forest import (ForestVisitor, ForestSumVisitor, ForestTransformer, ForestToParseTree,
                                            TreeForestTransformer)
    from lark import Tree

    class FullWalk(ForestVisitor):
        def visit_symbol_node_in(self, node):
            return node.children

        def visit_packed_node_in(self, node):
            return node.children

    class FullWalkInter(FullWalk):            # with the optional intermediate callbacks
        def visit_intermediate_node_in(self, node):
            return node.children

        def visit_intermediate_node_out(self, node):
            pass
    class OneChild(ForestVisitor):            # every callback hands back ONE node itself (not an iterable)
        pick = 0

        def visit_symbol_node_in(self, node):
            cs = node.children
            return cs[self.pick if self.pick == 0 else -1] if cs else None

        def visit_packed_node_in(self, node):
            cs = node.children
            return cs[self.pick if self.pick == 0 else -1] if cs else None

    class LastChild(OneChild):
        pick = 1

    class MixedReturn(ForestVisitor):         # symbol nodes: iterable of all children; packed nodes: one node
        def visit_symbol_node_in(self, node):
            return node.children

        def visit_packed_node_in(self, node):
            return node.left if node.left is not None else node.right

    class MixedReturn2(ForestVisitor):        # packed: the right child itself; intermediate nodes: one node too
        def visit_symbol_node_in(self, node):
            return iter(node.children)

        def visit_intermediate_node_in(self, node):
            cs = node.children
            return cs[-1] if cs else None

        def visit_packed_node_in(self, node):
            return node.right if node.right is not None else node.left
    return [
        ('ForestVisitor/one-first', OneChild, (), {}, 'visit'),
        ('ForestVisitor/one-last/single', LastChild, (), {'single_visit': True}, 'visit'),
        ('ForestVisitor/mixed', MixedReturn, (), {}, 'visit'),
        ('ForestVisitor/mixed/single', MixedReturn, (), {'single_visit': True}, 'visit'),
        ('ForestVisitor/mixed2', MixedReturn2, (), {}, 'visit'),
        ('ForestVisitor/multi', FullWalk, (), {}, 'visit'),
        ('ForestVisitor/single', FullWalk, (), {'single_visit': True}, 'visit'),
        ('ForestVisitor/inter', FullWalkInter, (), {}, 'visit'),
        ('ForestSumVisitor', ForestSumVisitor, (), {}, 'visit'),
        ('ForestTransformer', ForestTransformer, (), {}, 'transform'),
        ('ForestToParseTree/resolve', ForestToParseTree, (Tree, None, ForestSumVisitor(), True, False), {}, 'transform'),
        ('TreeForestTransformer/ambig', TreeForestTransformer, (), {'resolve_ambiguity': False}, 'transform'),
        ('TreeForestTransformer/resolve', TreeForestTransformer, (), {'resolve_ambiguity': True}, 'transform'),
    ]


def walk_cases(ctx, root, p, w, out_cases, out_meta, cyclic, nontrivial, pick=None):
    """instrumented walks of every visitor class on one forest; appends Coq cases"""
    from lark import Tree
    maps = {}
    nodes = fc.export_graph(root, p, maps)
    g = fc.coq_vgraph(nodes)
    classes = visitor_classes()
    if pick is not None:
        # two of the pure walkers' modes always, plus a sample of the transformer classes
        classes = pick.sample(classes[:5], 2) + [classes[5], classes[6]] + pick.sample(classes[7:], 2)
    if fc.multi_visit_size(nodes) is None:
        # a multi-visit walk of this forest terminates (C20_visit_terminates) but enters exponentially many paths:
        # a timeout would not mean non-termination, so only the single-visit classes are run here
        classes = [c for c in classes if c[0] in ('ForestVisitor/single', 'ForestSumVisitor', 'ForestVisitor/one-first',
                                                   'ForestVisitor/one-last/single', 'ForestVisitor/mixed/single')]
        ctx.count('walk-multi-visit-skipped-exponential', nontrivial=False)
    for name, cls, args, kw, method in classes:
        if name == 'ForestToParseTree/resolve':
            if p is None:
                continue
            args = (Tree, fc.id_callbacks(p), args[2], True, False)
        if getattr(ctx, 'n_timeouts', 0) >= 3:
            return      # non-termination established; do not spend the budget on more hangs
        try:
            r = fc.traced_walk(cls, root, maps['ids'], maps['tids'], args, kw, method, timeout=10)
        except fc.Timeout:
            ctx.n_timeouts = getattr(ctx, 'n_timeouts', 0) + 1
            ctx.violation('walk-timeout', dict(w, visitor=name), True,
                          '%s.%s did not return within 10 s on this forest (walks must terminate)' % (name, method))
            continue
        except Exception as e:   # noqa
            if cyclic and p is None:
                # hand-built forests without derivations may make tree-building callbacks fail; the walk itself
                # is what is compared, only for the pure walkers
                continue
            ctx.violation('walk-exception', dict(w, visitor=name), True, '%s raised %s: %s' % (name, type(e).__name__, e))
            continue
        ctx.count('walk', key=(w.get('g'), w.get('text'), w.get('lexer'), w.get('hand'), name), nontrivial=nontrivial,
                  visitor=name, cyclic=cyclic, events=min(len(r['events']) // 10 * 10, 200))
        msg = fc.trace_discipline(r['events'], r['single'])
        if msg:
            ctx.violation('walk-contract', dict(w, visitor=name), True, '%s: %s' % (name, msg))
        ncyc = sum(1 for e in r['events'] if e[0] == 'cycle')
        if ncyc:
            ctx.count('walk-with-on_cycle', nontrivial=False)
        if len(r['events']) > MAX_EVENTS:
            ctx.count('walk-too-long-for-model', nontrivial=False)
            continue
        out_cases.append('(%s, %s, %s, %s)' % (g, 'true' if r['single'] else 'false',
                                              L(['(%s, %s)' % ('true' if one else 'false', fc.LN(l)) for one, l in r['rets']]),
                                              L([fc.coq_event(e) for e in r['events']])))
        out_meta.append(dict(w, visitor=name))
        # results of tree-building transformers on cyclic forests: every tree must be a derivation
        if cyclic and p is not None and name.startswith('TreeForestTransformer') and r['result'] is not None:
            rules, terms = fc.tables(p)
            dyn = w['lexer'] != 'basic'
            units = w['text'] if dyn else [(t.type, str(t)) for t in p.lex(w['text'])]
            try:
                trees = fc.with_timeout(10, fc.expand_ambig, r['result'])
            except fc.Timeout:
                trees = []
            for t in trees[:200]:
                if fc.derivation_end(t, 0, rules, terms, units, dyn) != len(units):
                    ctx.violation('cyclic-result-not-a-derivation', dict(w, visitor=name), True,
                                  '%s returned a tree that is not a derivation of the input: %r' % (name, t))
                    break


def graph_case(ctx, root, p, w, out_cases, out_meta, cyclic, sum_cases=None, sum_meta=None, tft_cases=None, tft_meta=None):
    """ForestToParseTree(resolve) on the graph forest vs Forest/GraphResolve.v (cyclic forests included)"""
    try:
        if sum_cases is not None:
            # the forest must be pristine for this one: parse again
            root2 = p.parse(w['text'])
            sc = fc.coq_gsum_case(root2, p)
            if len(sc) < 60000:
                sum_cases.append(sc)
                sum_meta.append(w)
        case, res = fc.coq_graph_case(root, p)
    except fc.Timeout:
        ctx.violation('walk-timeout', dict(w, visitor='ForestToParseTree/resolve'), True,
                      'ForestToParseTree(resolve_ambiguity=True).transform did not return within 20 s')
        return
    ctx.count('graph-resolve', key=(w.get('g'), w.get('text'), w.get('lexer')), nontrivial=cyclic, graph_cyclic=cyclic,
              returned_tree=res is not None)
    if len(case) < 60000:
        out_cases.append(case)
        out_meta.append(w)
    if tft_cases is not None:
        # quick tier: at most 40 acyclic and 100 cyclic forests go through the instrumented walk
        n_same = sum(1 for m in tft_meta if bool(m.get('cyclic')) == bool(cyclic))
        if ctx.thorough() or ctx.widen or n_same < (200 if cyclic else 80):
            tft_walks(ctx, p, w, cyclic, tft_cases, tft_meta)


def named_tree(t, rules):
    """tree built with rule-identity callbacks -> the tree TreeForestTransformer builds (rule names)"""
    from lark import Tree
    if not isinstance(t, Tree):
        return (str(t.type), str(t))
    if str(t.data) == '_ambig':
        return ('_ambig', tuple(named_tree(c, rules) for c in t.children))
    return (rules[int(t.data)]['name'], tuple(named_tree(c, rules) for c in t.children))


def plain_tree(t):
    from lark import Tree
    if not isinstance(t, Tree):
        return (str(t.type), str(t))
    return (str(t.data), tuple(plain_tree(c) for c in t.children))


def tft_walks(ctx, p, w, cyclic, out_cases, out_meta):
    """ForestToParseTree / TreeForestTransformer in both modes on a pristine forest (cyclic or not): every callback,
    the data every transform_* receives and the result against Forest/GraphTft.v (walk model and gta)"""
    from lark.parsers.earley_forest import TreeForestTransformer
    rules, _ = fc.tables(p)
    for resolve in (False, True):
        try:
            root = p.parse(w['text'])
            case, res, nev = fc.coq_gtft_case(root, p, resolve)
            fsv = p.parser.parser.forest_sum_visitor      # the same prioritizer as the instrumented walk
            named = fc.with_timeout(20, TreeForestTransformer(prioritizer=fsv and fsv(), resolve_ambiguity=resolve).transform,
                                    p.parse(w['text']))
        except fc.Timeout:
            ctx.violation('walk-timeout', dict(w, visitor='ForestToParseTree', resolve=resolve), True,
                          'ForestToParseTree(resolve_ambiguity=%s).transform did not return within 20 s' % resolve)
            continue
        ctx.count('graph-tft', key=(w.get('g'), w.get('text'), w.get('lexer'), resolve), nontrivial=cyclic,
                  graph_cyclic=cyclic, resolve=resolve, returned_tree=res is not None, events=min(nev // 50 * 50, 400))
        # TreeForestTransformer proper (rule NAMES, its own _call_rule_func/_call_ambig_func) builds the same tree
        a = None if res is None else named_tree(res, rules)
        b = None if named is None else plain_tree(named)
        if a != b:
            ctx.violation('correspondence:TreeForestTransformer vs ForestToParseTree with rule-identity callbacks',
                          dict(w, resolve=resolve, no_longer_checks='TreeForestTransformer builds the tree of the modelled walk'),
                          False, 'TreeForestTransformer(resolve_ambiguity=%s) returned %r, the instrumented ForestToParseTree %r'
                          % (resolve, b, a))
        if case is None:
            ctx.count('graph-tft-too-long-for-model', nontrivial=False)
        elif len(case) < 50000:
            out_cases.append(case)
            out_meta.append(dict(w, resolve=resolve, cyclic=cyclic))


def oracle_acyclic(g, text, lexer):
    """the property on one acyclic case, in Python: returns (violation message or None, observation)"""
    from lark.exceptions import LarkError
    from lark.parsers.earley_forest import TreeForestTransformer
    try:
        p = fc.mk(g, lexer, 'forest', 'normal')
        root = fc.with_timeout(20, p.parse, text)
    except LarkError:
        return None, None
    t_amb = fc.with_timeout(20, TreeForestTransformer(resolve_ambiguity=False).transform, root)
    t_res = fc.with_timeout(20, TreeForestTransformer(resolve_ambiguity=True).transform, root)
    amb = bool(root.is_ambiguous)
    nodes = fc.export_graph(root, p)
    rules, terms = fc.tables(p)
    dyn = lexer != 'basic'
    units = text if dyn else [(t.type, str(t)) for t in p.lex(text)]
    try:
        ds, cyc, _ = fc.enumerate_derivations(rules, terms, 'start', units, dyn)
    except fc.TooMany:
        return None, None
    if fc.is_cyclic(nodes):
        if not cyc:
            return ('the forest is cyclic (infinitely many trees) but the input has %d derivations and no derivation '
                    'cycle' % len(ds)), dict(cyclic=True, root=root, p=p)
        return None, dict(cyclic=True, root=root, p=p)
    ob = dict(cyclic=False, root=root, p=p, nodes=nodes, t_amb=t_amb, t_res=t_res, amb=amb, ds=ds, rules=rules)
    if cyc:
        return 'the grammar has a derivation cycle on this input but the forest is acyclic', ob
    want = sorted(fc.unshaped(d, rules) for d in ds)
    got = sorted(fc.expand_ambig(t_amb))
    if got != want:
        missing = [x for x in want if x not in got]
        extra = [x for x in got if x not in want]
        dup = len(got) != len(set(got))
        return ('expanding TreeForestTransformer(resolve_ambiguity=False) gives %d trees, the input has %d derivations; '
                'missing %r extra %r duplicates %s' % (len(got), len(want), missing[:2], extra[:2], dup)), ob
    r = fc.expand_ambig(t_res)
    if len(r) != 1 or r[0] not in want:
        return 'resolve_ambiguity=True returned %r, not one of the derivations' % (r[:2],), ob
    if len(ds) == 1 and amb:
        return 'root.is_ambiguous is True but the input has a single derivation', ob
    return None, ob


# classic shapes of ignorable text that is also the start of the next terminal and can alternatively be consumed
# inside the preceding symbol (fixed corpus beside the random grammars): (grammar, ignored literals, texts)
IGNORE_CORPUS = [
    ('start: a C\na: A | A1\nA: "a"\nA1: "a1"\nC: "1b"\n%ignore "1"\n', ['1'], ['a1b', 'a11b', 'a1']),
    ('start: key value\nkey: WORD | WORD SEP\nvalue: NEG | NUM\nWORD: "x"\nSEP: "-"\nNEG: "-5"\nNUM: "5"\n%ignore "-"\n',
     ['-'], ['x-5', 'x--5', 'x5', '-x-5-']),
    ('start: a b\na: A | AB\nb: BA | A\nA: "a"\nAB: "ab"\nBA: "ba"\n%ignore "b"\n%ignore "bb"\n', ['b', 'bb'],
     ['aba', 'abba', 'abbba', 'aa']),
    # regexp terminals that are not prefix-closed (a truncation of a match is not itself a match)
    ('start: A B\nA: /(ab)+/\nB: /a?b/\n', [], ['abab', 'ababab', 'abb', 'ababb']),
    ('start: x+\nx: AB | C\nAB: /abc|a/\nC: /b?c/\n', [], ['abc', 'abcc', 'aabc', 'abcabc']),
    ('start: NUM REST?\nNUM: /[0-9]+(e[0-9]+)?/\nREST: /e?[a-z]+/\n', [], ['12e5', '12e', '1e5x', '12ex', '7']),
    ('start: w+\nw: AB | A | B\nAB: /(ab)+/\nA: "a"\nB: "b"\n%ignore " "\n', [' '], ['abab', 'ab ab', 'aba b']),
]


# fixed regression corpus (unkeyed)
EXOTIC = [
    # F43 (fixed in /repo): every completed item of the start symbol - also inner ones of a recursive start - was
    # carried over ignored text into a second node span: the same derivation twice, is_ambiguous True for one
    dict(g='start: A | B start\nA: "a"\nB: "b"\n%ignore "c"\n', ign=['c'], text='bac', lexer='dynamic'),
    dict(g='start: A | B start\nA: "a"\nB: "b"\n%ignore "c"\n', ign=['c'], text='bbac', lexer='dynamic_complete'),
]


def oracle_ignore(g, ign, text, lexer):
    """Dynamic lexers with %ignore terminals that overlap the grammar's terminals: the forest must encode only
    derivations of the given input.  Expected derivations: character-level brute force (tokens tile the text in
    order, ignored matches only between tokens).  Returns (message or None, observation or None)."""
    from lark.exceptions import LarkError
    from lark.parsers.earley_forest import TreeForestTransformer
    p = fc.mk(g, lexer, 'forest', 'normal')
    rules, terms = fc.tables(p)
    try:
        ds, cyc = fc.enumerate_derivations_ignore(rules, terms, 'start', text, ign)
        # the derivations built from the token spans xearley's scanner considers (regexp engine's match and, for
        # dynamic_complete, its matches on the truncations): equal to all derivations for string terminals and
        # prefix-closed regexps; a proper subset is the known incompleteness of the dynamic lexers (F7, C01)
        ds_scan, _ = fc.enumerate_derivations_ignore(rules, terms, 'start', text, ign, scanner=lexer)
    except fc.TooMany:
        return None, None
    if cyc:
        return None, None
    exact = sorted(ds) == sorted(ds_scan)
    try:
        root = fc.with_timeout(20, p.parse, text)
    except LarkError:
        if ds_scan:
            return 'input rejected although it has %d derivations (ignored text between tokens)' % len(ds_scan), None
        return None, None
    nodes = fc.export_graph(root, p)
    ob = dict(root=root, p=p, nodes=nodes, ds=ds, rules=rules, cyclic=fc.is_cyclic(nodes), exact=exact)
    if ob['cyclic']:
        return ('the forest is cyclic (infinitely many trees) but the input has %d derivations and no derivation '
                'cycle' % len(ds)), ob

    def named(d):
        return d if d[0] == 'T' else ('N', rules[d[1]]['name'], tuple(named(c) for c in d[2]))
    want_pos = [named(d) for d in ds]
    want = set(map(fc.erase_pos, want_pos))
    t_amb = fc.with_timeout(20, TreeForestTransformer(resolve_ambiguity=False).transform, root)
    t_res = fc.with_timeout(20, TreeForestTransformer(resolve_ambiguity=True).transform, root)
    ob.update(t_amb=t_amb, t_res=t_res, amb=bool(root.is_ambiguous),
              nodes=fc.export_graph(root, p))         # again: with the priorities the transformer's walk left
    got_pos = fc.expand_ambig_pos(t_amb)
    for o in got_pos + fc.expand_ambig_pos(t_res):
        m = fc.tiling_problem(o, text, terms, ign)
        if m:
            return 'a tree read off the forest is not a derivation of the input: %s; tree %r' % (m, o), ob
    got = set(map(fc.erase_pos, got_pos))
    must = want if exact else set(fc.erase_pos(named(d)) for d in ds_scan)
    if not (must <= got <= want):
        return ('expanding TreeForestTransformer(resolve_ambiguity=False) gives trees %r that are not derivations / misses '
                '%r (%d derivations expected)' % (sorted(got - want)[:2], sorted(must - got)[:2], len(must))), ob
    extra = [o for o in got_pos if o not in want_pos]
    if extra:
        return 'a tree read off the forest places its tokens where no derivation does: %r' % (extra[0],), ob
    r = fc.expand_ambig_pos(t_res)
    if len(r) != 1 or r[0] not in want_pos:
        return 'resolve_ambiguity=True returned %r, not one of the derivations' % (r[:1],), ob
    if len(ds) == 1 and ob['amb']:
        return 'root.is_ambiguous is True but the input has a single derivation', ob
    return None, ob


def select_ignore_texts(rng, g, ign, want=4, maxlen=4):
    """texts up to length 4 accepted under the dynamic lexer; prefer those whose derivations use ignored text and
    are ambiguous"""
    import itertools
    from lark.exceptions import LarkError
    try:
        p = fc.mk(g, 'dynamic', 'forest', 'normal')
    except LarkError:
        return None
    rules, terms = fc.tables(p)
    if '/' in g.split('%ignore')[0]:
        want, maxlen = 3 * want, maxlen + 1        # regexp terminals: more and longer texts
    best, rest = [], []
    for n in range(0, maxlen + 1):
        for tup in itertools.product('ab', repeat=n):
            t = ''.join(tup)
            try:
                ds, cyc = fc.enumerate_derivations_ignore(rules, terms, 'start', t, ign, cap=60)
                if ds and not fc.enumerate_derivations_ignore(rules, terms, 'start', t, ign, cap=60, scanner='dynamic')[0]:
                    ds = []          # not accepted by the dynamic scanner
            except fc.TooMany:
                continue
            if cyc or not ds:
                continue
            gap = any(sum(len(l[2]) for l in fc.leaves(d)) < len(t) for d in ds)
            (best if (gap or '/' in g) and len(ds) > 1 else rest).append(t)
    rng.shuffle(best)
    rng.shuffle(rest)
    return best[:want] + rest[:1]


# ---- histories on ONE transformer object -----------------------------------------------------------------------
# A walk may be left by an exception raised in a callback (the documented way to reject a cyclic forest is to raise from
# on_cycle; user token / rule callbacks fail).  The object keeps node_stack, data, and for ForestToParseTree the retreat
# flag, the cycle node and _successful_visits.  Every later transform() on that object must behave like a fresh one:
# transform() re-pushes its 'result' sentinel and visit_*_in resets data[id(node)]; ForestToParseTree.visit() resets the
# retreat state (F50, repaired in /repo; the stale-flag witness is part of this stream as a regression case).
REUSE_FORESTS = [
    ('expr', 'start: e\ne: e P e | N\nN: "n"\nP: "+"\n', 'n+n+n'),
    ('opt', 'start: a b c\na: X?\nb: X?\nc: X?\nX: "x"\n', 'xx'),
    ('self-cycle', 'start: item\nitem: item | A\nA: "a"\n', 'a'),
    ('nullable-cycle', 'start: a a\na: a | | A\nA: "a"\n', 'a'),
    ('mutual-cycle', 'start: a\na: b | A\nb: a\nA: "a"\n', 'a'),
]
REUSE_KINDS = ['transform_token_node', 'transform_packed_node', 'transform_symbol_node', 'transform_intermediate_node',
               'on_cycle', 'visit_packed_node_in']


class _Abort(Exception):
    pass


def reuse_classes():
    from lark import Tree
    from lark.parsers.earley_forest import TreeForestTransformer, ForestTransformer, ForestToParseTree, ForestSumVisitor

    class Count(ForestTransformer):          # number of derivations (simple unfoldings)
        def transform_token_node(self, tok):
            return 1

        def transform_packed_node(self, node, data):
            n = 1
            for d in data:
                n *= d
            return n

        def transform_symbol_node(self, node, data):
            return sum(data)
        transform_intermediate_node = transform_symbol_node
    return [('TreeForestTransformer/ambig', lambda p: TreeForestTransformer(resolve_ambiguity=False)),
            ('TreeForestTransformer/resolve', lambda p: TreeForestTransformer(resolve_ambiguity=True)),
            ('ForestToParseTree/resolve', lambda p: ForestToParseTree(Tree, fc.id_callbacks(p), ForestSumVisitor(), True, False)),
            ('ForestTransformer/count', lambda p: Count())]


def _armed(obj, kind, k):
    """make the k-th call of callback `kind` on this object raise (after running the original, so that the object's own
    bookkeeping for that call has happened)"""
    orig = getattr(obj, kind)
    st = {'n': 0, 'armed': True}

    def f(*a, **kw):
        r = orig(*a, **kw)
        if st['armed']:
            st['n'] += 1
            if st['n'] == k:
                raise _Abort()
        return r
    setattr(obj, kind, f)
    return st


def _show(r):
    from lark import Tree
    return fc.show_tree(r) if isinstance(r, Tree) else repr(r)


def reuse_history(cname, fname, kind, k, forests=None):
    """one history; returns (aborted, [(later forest, got, want)])"""
    if forests is None:
        forests = {n: fc.mk(g, 'basic', 'forest', 'normal') for n, g, _ in REUSE_FORESTS}
    texts = {n: t for n, _, t in REUSE_FORESTS}
    mk = dict(reuse_classes())[cname]
    p1 = forests[fname]
    root1 = p1.parse(texts[fname])
    obj = mk(p1)
    st = _armed(obj, kind, k)
    try:
        fc.with_timeout(10, obj.transform, root1)
        return False, []
    except _Abort:
        pass
    st['armed'] = False
    out = []
    keep = [root1]
    for n2 in [fname] + [n for n in texts if n != fname]:
        p2 = forests[n2]
        if cname.startswith('ForestToParseTree') and n2 != fname:
            continue               # its callbacks belong to one grammar
        root2 = root1 if n2 == fname else p2.parse(texts[n2])
        keep.append(root2)
        try:
            got = _show(fc.with_timeout(10, obj.transform, root2))
        except fc.Timeout:
            got = 'TIMEOUT'
        except Exception as e:   # noqa
            got = 'EXC %s' % type(e).__name__
        try:
            want = _show(fc.with_timeout(10, mk(p2).transform, root2 if n2 != fname else p1.parse(texts[fname])))
        except Exception as e:   # noqa
            want = 'EXC %s' % type(e).__name__
        out.append((n2, got, want))
    return True, out


def reuse_stream(ctx):
    forests = {n: fc.mk(g, 'basic', 'forest', 'normal') for n, g, _ in REUSE_FORESTS}
    for cname, _ in reuse_classes():
        for fname, _, _ in REUSE_FORESTS:
            for kind in REUSE_KINDS:
                for k in (1, 2, 3, 5, 8):
                    aborted, res = reuse_history(cname, fname, kind, k, forests)
                    if not aborted:
                        continue
                    ctx.count('reuse-history', key=(cname, fname, kind, k), nontrivial=True, visitor=cname, aborted_in=kind)
                    for n2, got, want in res:
                        if got != want:
                            ctx.violation('reuse-after-abort', dict(reuse=True, visitor=cname, forest=fname, kind=kind, k=k, later=n2),
                                          True, '%s: after a walk of forest %r left by an exception in call %d of %s, transform() of '
                                          'forest %r on the same object returned %s; a fresh object returns %s'
                                          % (cname, fname, k, kind, n2, got[:200], want[:200]))
                            break


def correspond(ctx):
    from lark.exceptions import LarkError
    from props.C05 import select_texts
    reuse_stream(ctx)
    rng = ctx.rng
    tcases, tmeta = [], []
    vcases, vmeta = [], []
    gcases, gmeta = [], []
    scases, smeta = [], []
    fcases, fmeta = [], []
    # ---- (a) acyclic: forest = derivations, TreeForestTransformer, is_ambiguous -------------------
    n_gram = ctx.scale(45, 250) * (3 if ctx.widen else 1)
    for gi in range(n_gram):
        g = fc.gen_grammar(rng, cyclic=False, empties=(rng.random() < 0.6))
        texts = select_texts(rng, g)
        if not texts:
            ctx.count('grammar-rejected', nontrivial=False)
            continue
        for text in texts:
            for lexer in fc.LEXERS:
                w = dict(g=g, text=text, lexer=lexer)
                try:
                    msg, ob = oracle_acyclic(g, text, lexer)
                except fc.Timeout:
                    ctx.violation('timeout', w, True, 'parse / TreeForestTransformer did not finish in 20 s')
                    continue
                if ob is None or ob.get('cyclic'):
                    ctx.count('rejected-or-cyclic', nontrivial=False)
                    if msg:
                        ctx.violation('oracle:' + msg.split(' ')[0], w, True, msg)
                    continue
                nd = len(ob['ds'])
                ctx.count('acyclic', key=(g, text, lexer), nontrivial=nd > 1, lexer=lexer, derivations=min(nd, 9),
                          is_ambiguous=ob['amb'])
                if msg:
                    ctx.violation('oracle:' + msg.split(' ')[0], w, True, msg)
                ctx.sample(dict(grammar=g, text=text, lexer=lexer, derivations=nd, is_ambiguous=ob['amb'],
                                transformed=fc.show_tree(ob['t_amb'])))
                if fc.unfolded_size(ob['nodes']) <= MAX_UNFOLDED and nd <= 60:
                    tcases.append('(%s, %s, %s, %s, %s)' % (
                        fc.coq_forest(ob['nodes'], True), fc.coq_utree(ob['t_amb']), fc.coq_utree(ob['t_res']),
                        'true' if ob['amb'] else 'false', L([fc.coq_otree(d) for d in ob['ds']])))
                    tmeta.append((w, msg))
                if rng.random() < 0.15:
                    walk_cases(ctx, ob['root'], ob['p'], w, vcases, vmeta, False, nd > 1, rng)
                if rng.random() < 0.3:
                    graph_case(ctx, ob['root'], ob['p'], w, gcases, gmeta, False, scases, smeta, fcases, fmeta)
    import time; ctx.note('t_acyclic=%.1f' % (time.time()-ctx.t0))
    # ---- (c) dynamic lexers with %ignore terminals overlapping the grammar's terminals ----------------
    for w in EXOTIC:
        msg, _ = oracle_ignore(w['g'], w['ign'], w['text'], w['lexer'])
        ctx.count('regression-corpus', nontrivial=False)
        if msg:
            ctx.violation('oracle-ignore:regression-corpus', w, True, msg)
    icases, imeta = [], []
    ign_work = [(g, ign, ts) for g, ign, ts in IGNORE_CORPUS]
    for gi in range(ctx.scale(110, 500) * (3 if ctx.widen else 1)):
        g, ign = fc.gen_ignore_grammar(rng)
        ign_work.append((g, ign, None))
    for g, ign, texts in ign_work:
        if texts is None:
            texts = select_ignore_texts(rng, g, ign)
        if not texts:
            ctx.count('ignore-grammar-rejected', nontrivial=False)
            continue
        for text in texts:
            for lexer in ('dynamic', 'dynamic_complete'):
                w = dict(g=g, ign=ign, text=text, lexer=lexer)
                try:
                    msg, ob = oracle_ignore(g, ign, text, lexer)
                except fc.Timeout:
                    ctx.violation('timeout', w, True, 'parse / TreeForestTransformer did not finish in 20 s')
                    continue
                if msg:
                    ctx.violation('oracle-ignore:' + msg.split(' ')[0], w, True, msg)
                if ob is None:
                    ctx.count('ignore-skipped', nontrivial=False)
                    continue
                nd = len(ob['ds'])
                ctx.count('ignore-overlap', key=(g, text, lexer), nontrivial=nd > 1, lexer=lexer,
                          ignored=len(ign), derivations=min(nd, 9), regexp_terminals='/' in g.split('%ignore')[0],
                          scanner_sees_all_derivations=ob.get('exact'))
                if ob['cyclic'] or 't_amb' not in ob:
                    continue
                if fc.unfolded_size(ob['nodes']) <= MAX_UNFOLDED and nd <= 60:
                    icases.append('(%s, %s, %s, %s, %s)' % (
                        fc.coq_forest(ob['nodes'], True, pos=True), fc.coq_utree(ob['t_amb'], pos=True),
                        fc.coq_utree(ob['t_res'], pos=True), 'true' if ob['amb'] else 'false',
                        L([fc.coq_otree(d) for d in ob['ds']])))
                    imeta.append((w, msg))
    # ---- (b) cyclic forests: walks terminate, on_cycle, results are derivations -------------------
    corpus = [(g, t) for g, ts in CYCLIC_CORPUS for t in ts]
    for _ in range(ctx.scale(40, 200) * (3 if ctx.widen else 1)):
        g = fc.gen_grammar(rng, cyclic=True, empties=True, prios=(rng.random() < 0.5))
        for _ in range(3):
            corpus.append((g, fc.gen_input(rng, 3)))
    ncyc = 0
    for g, text in corpus:
        for lexer in fc.LEXERS:
            w = dict(g=g, text=text, lexer=lexer)
            try:
                p = fc.mk(g, lexer, 'forest', 'normal')
                root = fc.with_timeout(20, p.parse, text)
            except LarkError:
                continue
            except fc.Timeout:
                ctx.violation('timeout', w, True, 'parse did not finish in 20 s')
                continue
            nodes = fc.export_graph(root, p)
            if not fc.is_cyclic(nodes):
                ctx.count('cyclic-generator-acyclic-forest', nontrivial=False)
                continue
            if len(nodes) > 400:
                continue
            ncyc += 1
            ctx.count('cyclic', key=(g, text, lexer), nontrivial=True, lexer=lexer, nodes=min(len(nodes) // 20 * 20, 200))
            walk_cases(ctx, root, p, w, vcases, vmeta, True, True, rng if ncyc > 20 else None)
            graph_case(ctx, root, p, w, gcases, gmeta, True, scases, smeta, fcases, fmeta)
            # the front ends themselves must return on cyclic forests
            for amb in ('resolve', 'explicit'):
                if getattr(ctx, 'n_timeouts', 0) >= 3:
                    break
                try:
                    fc.with_timeout(20, fc.mk(g, lexer, amb, 'normal').parse, text)
                except fc.Timeout:
                    ctx.n_timeouts = getattr(ctx, 'n_timeouts', 0) + 1
                    ctx.violation('walk-timeout', dict(w, ambiguity=amb), True,
                                  "Lark(ambiguity=%r).parse did not return within 20 s on a cyclic grammar" % amb)
                except LarkError:
                    pass
    for name, root in handbuilt_forests():
        ctx.count('cyclic-handbuilt', key=name, nontrivial=True)
        walk_cases(ctx, root, None, dict(hand=name), vcases, vmeta, True, True)
    ctx.note('t_cyclic=%.1f tvol=%d vvol=%d' % (time.time()-ctx.t0, sum(map(len, tcases)), sum(map(len, vcases))))
    # ---- the models on the same cases (a seeded subset keeps the Coq volume within the budget; the Python
    #      oracles above ran on every case) -----------------------------------------------------------------
    def subset(cases, meta, cap):
        if len(cases) <= cap:
            return cases, meta
        idx = sorted(rng.sample(range(len(cases)), cap))
        return [cases[i] for i in idx], [meta[i] for i in idx]
    if not ctx.widen:
        tcases, tmeta = subset(tcases, tmeta, ctx.scale(110, 1500))
        icases, imeta = subset(icases, imeta, ctx.scale(70, 700))
        vcases, vmeta = subset(vcases, vmeta, ctx.scale(250, 3000))
    bad, errs = ctx.coq_bad_indices('c20t', IMPORTS, 'tft_ok', tcases, chunk=40)
    for e in errs:
        ctx.violation('correspondence:coq-evaluation', {'no_longer_checks': 'c20 tft cases', 'detail': e}, False, e)
    TD = {'1': 'forest not well-formed', '2': 'priorities / children order', '3': 'TreeForestTransformer(resolve_ambiguity=False)',
          '4': 'TreeForestTransformer(resolve_ambiguity=True)', '5': 'is_ambiguous', '6': 'forest derivations vs grammar derivations'}
    for i in bad[:8]:
        w, msg = tmeta[i]
        if msg is None:
            code, _ = ctx.coq_eval('c20t_diag_%d' % i, IMPORTS, 'tft_diag %s' % tcases[i])
            what = TD.get(str(code).split('%')[0], str(code))
            ctx.violation('correspondence:' + what, dict(w, no_longer_checks='model vs lark: ' + what), False,
                          'model and lark disagree on %s (diag %s); the Python oracle accepts this case' % (what, code))
    ctx.note('t_coq_tft=%.1f' % (time.time()-ctx.t0))
    bad, errs = ctx.coq_bad_indices('c20i', IMPORTS, 'tft_sub_ok', icases, chunk=35)
    for e in errs:
        ctx.violation('correspondence:coq-evaluation', {'no_longer_checks': 'c20 ignore cases', 'detail': e}, False, e)
    TD[6] = TD['6'] = 'derivations read off the forest vs tilings of the input (position-aware)'
    for i in bad[:8]:
        w, msg = imeta[i]
        if msg is None:
            code, _ = ctx.coq_eval('c20i_diag_%d' % i, IMPORTS, 'tft_sub_diag %s' % icases[i])
            what = TD.get(str(code).split('%')[0], str(code))
            ctx.violation('correspondence:' + what, dict(w, no_longer_checks='model vs lark (ignore stream): ' + what), False,
                          'model and lark disagree on %s (diag %s); the Python oracle accepts this case' % (what, code))
    if not ctx.widen:
        gcases, gmeta = subset(gcases, gmeta, ctx.scale(80, 1500))
    if not ctx.widen:
        scases, smeta = subset(scases, smeta, ctx.scale(60, 1200))
    bad, errs = ctx.coq_bad_indices('c20s', IMPORTS_G, 'gsum_ok', scases, chunk=40)
    for e in errs:
        ctx.violation('correspondence:coq-evaluation', {'no_longer_checks': 'c20 sum-walk cases', 'detail': e}, False, e)
    for i in bad[:6]:
        code, _ = ctx.coq_eval('c20s_diag_%d' % i, IMPORTS_G, 'gsum_diag %s' % scases[i])
        what = {'1': 'symbol node priority after ForestSumVisitor', '2': 'packed node priority after ForestSumVisitor',
                '3': 'walk annotation vs recursive reading gsv'}.get(str(code).split('%')[0], str(code))
        ctx.violation('correspondence:sum-walk ' + what, dict(smeta[i], no_longer_checks='ForestSumVisitor on the graph: ' + what),
                      False, 'model Forest/GraphSum.v and lark disagree on %s' % what)
    bad, errs = ctx.coq_bad_indices('c20g', IMPORTS_G, 'gres_ok', gcases, chunk=50)
    for e in errs:
        ctx.violation('correspondence:coq-evaluation', {'no_longer_checks': 'c20 graph-resolve cases', 'detail': e}, False, e)
    for i in bad[:6]:
        code, _ = ctx.coq_eval('c20g_diag_%d' % i, IMPORTS_G, 'gres_diag %s' % gcases[i])
        what = {'1': 'tree returned by ForestToParseTree(resolve) on the graph forest',
                '2': 'children order is not a rearrangement of the packed children'}.get(str(code).split('%')[0], str(code))
        ctx.violation('correspondence:graph-resolve ' + what, dict(gmeta[i], no_longer_checks='graph resolve: ' + what),
                      False, 'model Forest/GraphResolve.v and lark disagree on %s' % what)
    if not ctx.widen:
        fcases, fmeta = subset(fcases, fmeta, ctx.scale(40, 1500))
    bad, errs = ctx.coq_bad_indices('c20f', IMPORTS_T, 'gtft_ok', fcases, chunk=20)
    for e in errs:
        ctx.violation('correspondence:coq-evaluation', {'no_longer_checks': 'c20 graph-tft cases', 'detail': e}, False, e)
    for i in bad[:6]:
        code, _ = ctx.coq_eval('c20f_diag_%d' % i, IMPORTS_T, 'gtft_diag %s' % fcases[i])
        c = str(code).split('%')[0]
        what = {'2': 'children order is not a rearrangement of the packed children', '3': 'value returned by transform()',
                '4': 'walk result vs the plain function gta', '5': 'model out of fuel'}.get(
                    c, 'callback #%s of the walk (visit_*_in return / transform_* data and result / on_cycle path)'
                    % (int(c) - 100) if c.isdigit() and int(c) >= 100 else c)
        ctx.violation('correspondence:graph-tft ' + what, dict(fmeta[i], no_longer_checks='ForestToParseTree walk on the graph: ' + what),
                      False, 'model Forest/GraphTft.v and lark disagree on %s' % what)
    bad, errs = ctx.coq_bad_indices('c20v', IMPORTS, 'visit_ok_raw', vcases, chunk=64)
    for e in errs:
        ctx.violation('correspondence:coq-evaluation', {'no_longer_checks': 'c20 walk cases', 'detail': e}, False, e)
    VD = {'1': 'recursive model trace', '2': 'loop model trace', '3': 'loop model did not finish', '4': 'model stuck',
          '5': 'model out of fuel'}
    for i in bad[:8]:
        code, _ = ctx.coq_eval('c20v_diag_%d' % i, IMPORTS, 'visit_diag (vcase_of_raw %s)' % vcases[i])
        what = VD.get(str(code).split('%')[0], str(code))
        # the property speaks about termination and on_cycle; a differing trace is a failing input when the
        # recorded trace itself breaks the stack discipline (checked here), otherwise a correspondence break
        ctx.violation('correspondence:walk ' + what, dict(vmeta[i], no_longer_checks='walk trace: ' + what), False,
                      'visitor %s: model and lark disagree on the callback trace (%s)' % (vmeta[i].get('visitor'), what))
    ctx.note('t_coq_walk=%.1f' % (time.time()-ctx.t0))
    ctx.extra['cyclic_forests'] = ncyc


def replay(ctx, case):
    from lark.exceptions import LarkError
    w = case.get('witness', case)

    class Collect:
        def __init__(self):
            self.v = []

        def violation(self, *a, **k):
            self.v.append(a)

        def count(self, *a, **k):
            pass
    if w.get('reuse'):
        aborted, res = reuse_history(w['visitor'], w['forest'], w['kind'], w['k'])
        return any(got != want for _, got, want in res)
    if 'hand' in w:
        for name, root in handbuilt_forests():
            if name == w['hand']:
                c = Collect()
                walk_cases(c, root, None, w, [], [], True, True)
                return bool(c.v)
        return False
    if 'g' not in w:
        return False
    if 'ign' in w:
        try:
            return oracle_ignore(w['g'], w['ign'], w['text'], w['lexer'])[0] is not None
        except fc.Timeout:
            return True
    if w.get('visitor') or w.get('ambiguity'):
        try:
            p = fc.mk(w['g'], w['lexer'], w.get('ambiguity', 'forest'), 'normal')
            root = fc.with_timeout(20, p.parse, w['text'])
            if w.get('visitor'):
                c = Collect()
                walk_cases(c, root, p, w, [], [], True, True)
                return bool(c.v)
            return False
        except fc.Timeout:
            return True
        except LarkError:
            return False
    try:
        msg, _ = oracle_acyclic(w['g'], w['text'], w['lexer'])
    except fc.Timeout:
        return True
    return msg is not None
