"""C11 helper: export of real lark objects / serialised dicts as Coq terms of the types of coq/Ser/Serialize.v."""
from lib import coq_term_str as S


class NotExportable(Exception):
    pass


def Z(n):
    return '(%d)%%Z' % n


def L(items):
    return '[' + '; '.join(items) + ']'


def B(b):
    return 'true' if b else 'false'


def OS(s):
    return 'None' if s is None else '(Some %s)' % S(str(s))


def OZ(n):
    return 'None' if n is None else '(Some %s)' % Z(n)


class Opaque:
    """numbering of pass-through objects by identity (per case)"""

    def __init__(self):
        self.objs = []

    def get(self, o):
        for i, x in enumerate(self.objs):
            if x is o:
                return i
        self.objs.append(o)
        return len(self.objs) - 1


def value(v, opq):
    """python value of the serialised form -> Coq term of type value"""
    if v is None:
        return 'VNone'
    if isinstance(v, bool):
        return '(VBool %s)' % B(v)
    if isinstance(v, int):
        return '(VInt %s)' % Z(v)
    if isinstance(v, str):
        return '(VStr %s)' % S(str(v))
    if isinstance(v, list):
        return '(VList %s)' % L([value(x, opq) for x in v])
    if isinstance(v, tuple):
        return '(VTuple %s)' % L([value(x, opq) for x in v])
    if isinstance(v, dict):
        return '(VDict %s)' % L(['(%s, %s)' % (value(k, opq), value(x, opq)) for k, x in v.items()])
    return '(VOpaque %d)' % opq.get(v)


def options(d, opq):
    return L(['(%s, %s)' % (S(k), value(v, opq)) for k, v in d.items()])


def flags(fl):
    if isinstance(fl, (frozenset, set)):
        return '(FSet %s)' % L([S(x) for x in fl])        # iteration order = the order list(fl) gives
    if isinstance(fl, (list, tuple)):
        return '(FList %s)' % L([S(x) for x in fl])
    raise NotExportable('flags %r' % (fl,))


def width(w):
    if w is None:
        return 'WUnset'
    if isinstance(w, list) and len(w) == 2:
        return '(WList %s %s)' % (Z(w[0]), Z(w[1]))
    if isinstance(w, tuple) and len(w) == 2:
        return '(WTuple %s %s)' % (Z(w[0]), Z(w[1]))
    raise NotExportable('_width %r' % (w,))


def pattern(p):
    n = type(p).__name__
    if n == 'PatternStr':
        return '(PatStr %s %s %s)' % (S(p.value), flags(p.flags), OS(p.raw))
    if n == 'PatternRE':
        return '(PatRE %s %s %s %s)' % (S(p.value), flags(p.flags), OS(p.raw), width(p._width))
    raise NotExportable('pattern class %s' % n)


def termdef(t):
    return '(mkTD %s %s %s)' % (S(t.name), pattern(t.pattern), Z(t.priority))


def sym(s):
    if s.is_term:
        return '(T %s %s)' % (S(str(s.name)), B(s.filter_out))
    return '(NT %s)' % S(str(s.name))


def rule(r):
    o = r.options
    ro = '(mkRO %s %s %s %s %s)' % (B(o.keep_all_tokens), B(o.expand1), OZ(o.priority), OS(o.template_source),
                                   L([B(x) for x in o.empty_indices]))
    return '(mkRule %s %s %s %s %s)' % (sym(r.origin), L([sym(x) for x in r.expansion]), Z(r.order), OS(r.alias), ro)


class Namer:
    """emits one Definition per distinct exported term (keyed by its text) and refers to it by name afterwards, so
    that rules / terminals / tables / dicts shared by several cases are elaborated by Coq once"""

    def __init__(self, prefix):
        self.prefix = prefix
        self.names = {}
        self.defs = []

    def intern(self, kind, text):
        nm = self.names.get(text)
        if nm is None:
            nm = '%s_%s%d' % (self.prefix, kind, len(self.names))
            self.names[text] = nm
            self.defs.append('Definition %s := %s.' % (nm, text))
        return nm

    def rule(self, r):
        return self.intern('r', rule(r))

    def term(self, t):
        return self.intern('t', termdef(t))


def table(pt, nm):
    from lark.parsers.lalr_analysis import Shift, Reduce
    sts = []
    for st, acts in pt.states.items():
        if not isinstance(st, int):
            raise NotExportable('state key %r' % (st,))
        al = []
        for tok, (act, arg) in acts.items():
            if act is Reduce:
                al.append('(%s, Reduce %s)' % (S(str(tok)), nm.rule(arg)))
            elif act is Shift:
                al.append('(%s, Shift %s)' % (S(str(tok)), Z(arg)))
            else:
                raise NotExportable('action %r' % (act,))
        sts.append('(%s, %s)' % (Z(st), L(al)))
    nmap = lambda d: L(['(%s, %s)' % (S(str(k)), Z(v)) for k, v in d.items()])
    return nm.intern('tbl', '(mkTable %s %s %s)' % (L(sts), nmap(pt.start_states), nmap(pt.end_states)))


def re_is_regex(mod):
    return getattr(mod, '__name__', '') == 'regex'


def lexer_conf(lc, nm, opq):
    if not isinstance(lc.lexer_type, str):
        raise NotExportable('custom lexer')
    return '(mkLC %s %s %s %s %s %s %s %s)' % (
        nm.intern('terms', L([nm.term(t) for t in lc.terminals])), L([S(str(x)) for x in lc.ignore]), Z(lc.g_regex_flags),
        B(lc.use_bytes) if isinstance(lc.use_bytes, bool) else _bad('use_bytes'), S(lc.lexer_type),
        value(lc.callbacks, opq), B(re_is_regex(lc.re_module)), value(lc.postlex, opq))


def _bad(what):
    raise NotExportable(what)


def instance(p, nm, opq):
    """object graph of a Lark instance (original or loaded): exactly the attributes of the typed records"""
    fe = p.parser
    if fe.lexer_conf is not p.lexer_conf:
        raise NotExportable('lexer_conf not shared')
    pc = fe.parser_conf
    pct = '(mkPC %s %s %s)' % (nm.intern('rules', L([nm.rule(r) for r in pc.rules])), L([S(str(x)) for x in pc.start]),
                               S(pc.parser_type))
    return '(mkLark (mkFE %s %s %s) %s %s)' % (lexer_conf(fe.lexer_conf, nm, opq), pct,
                                              table(fe.parser._parse_table, nm),
                                              nm.intern('rules', L([nm.rule(r) for r in p.rules])),
                                              nm.intern('opts', options(p.options.options, opq)))


def gpart(p, nm):
    fe = p.parser
    lc, pc = fe.lexer_conf, fe.parser_conf
    return '(mkG %s %s %s %s %s %s %s)' % (
        nm.intern('terms', L([nm.term(t) for t in lc.terminals])), L([S(str(x)) for x in lc.ignore]), S(lc.lexer_type),
        nm.intern('rules', L([nm.rule(r) for r in p.rules])), L([S(str(x)) for x in pc.start]), S(pc.parser_type),
        table(fe.parser._parse_table, nm))
