"""C15 - Input representation does not matter: str, bytes and TextSlice agree."""
from props import _positions as P

THEOREMS = ['C15_window_shift', 'C15_from_text_slice_coord', 'C15_dyn_bytes_eq_str', 'C15_bytes_eq_str',
            'C15_lookbehind_refuted', 'C15_example', 'C15_parse_window_shift', 'C15_driver_ignores_positions',
            'C15_propagate_commutes', 'C15_parse_example', 'C15_slice_normalisation', 'C15_cast_from_complete',
            'C15_slice_out_of_range_refuted', 'C15_slice_example']
GEN_DEPS = ['LineCounter', 'LexStep', 'DynStep', 'PropPos', 'TokenFields', 'CounterCopy', 'TextSlice']
RULE = ('[routes: every comparison is also made through parse_interactive+feed_token+feed_eof, forks (copy(), copy.copy) '
        'finished separately, ImmutableInteractiveParser, copy.deepcopy(tree), Tree.copy(), pickle round trip and scan(), '
        'each also against parse() of the same input; token values must keep the exact Python type of the buffer] '
        'the C06 grammars (token soup with every newline spelling; structured grammar with inlined/filtered/empty rules) x '
        'random ASCII inputs (accepted and rejected) x 5 parser/lexer configurations; each reference run on the plain str '
        'is compared - tree shape, token types/values, all 8 position fields, all metas, error class + position + expected '
        'set - with: the bytes run (use_bytes=True), TextSlice windows [a,b) of prefix+text+suffix (str and bytes; '
        'prefix/suffix with newlines, windows starting mid-line) shifted by a with line/column recomputed in the buffer by '
        'the direct definition, complete-text slices for the dynamic lexers (partial ones must raise TypeError); '
        'non-trivial = distinct (grammar, configuration, text, variant) whose reference has >= 2 tokens and whose variant is '
        'bytes or a window with a non-empty prefix')
TRUSTED_BASE = ['coq/Pos/PosBase.v reading of str/bytes methods; translator/gen_positions.py templates (see C06)',
                'Python re is an oracle: H_ctxfree (a match does not look outside the window) and H_ascii (bytes-compiled '
                'terminals match what str-compiled ones match on ASCII) are hypotheses of the theorems; the main streams use '
                'terminals without look-behind, \\b, ^, $ and the differential itself checks the conclusion on every case',
                'parser drivers (LALR, Earley) are not modelled here: trees and metas are compared by the differential only']
ASSUMPTIONS = ['input is ASCII', 'UnexpectedToken at $END: only class and expected set are compared (the $END token borrows '
               'the position of the last token, or 0/1/1 on an empty stream)']
ALLOWED_AXIOMS = []


# ------------------------------------------------------------------------------------------ the differential
def outcome_sig(out):
    if out['kind'] == 'ok':
        return ('ok', P.tree_sig(out['result'], out['buf']))
    if out['kind'] == 'error':
        return ('error', out['sig'])
    return ('unsupported', out.get('why'))


def shift_sig(sig, a, buf):
    """re-base a reference signature (obtained on the extracted text) to the window start a of buffer buf"""
    def c3(pos):
        ln, col = P.coord(buf, pos + a)
        return (pos + a, ln, col)

    def e3(pos, start):
        ln, col = P.coord(buf, pos + a)
        return (pos + a, ln, col)

    def tok(f):
        ty, val, s, ln, col, eln, ecol, e = f[:8]
        if s is None:
            return f
        s3 = c3(s)
        if e == s:
            return (ty, val, s3[0], s3[1], s3[2], s3[1], s3[2], s3[0]) + f[8:]
        e_ = e3(e, s)
        return (ty, val, s3[0], s3[1], s3[2], e_[1], e_[2], e_[0]) + f[8:]

    def tree(t):
        if t[0] == 'T':
            empty, st, en = t[2]
            if st is not None:
                st = c3(st[0])
            if en is not None:
                ln, col = P.coord(buf, en[0] + a)
                en = (en[0] + a, ln, col)
            return ('T', t[1], (empty, st, en), tuple(tree(c) for c in t[3]))
        if t[0] == 'K':
            return ('K',) + tok(t[1:])
        if t[0] == 'L':
            return ('L', tuple(tree(c) for c in t[1]))
        if t[0] == 'R':
            return ('R', t[1] + a, t[2] + a, tree(t[3]))
        return t
    kind, body = sig
    if kind == 'ok':
        return (kind, tree(body))
    if kind == 'error':
        if body[0] == 'UnexpectedCharacters':
            p3 = c3(body[1])
            return (kind, ('UnexpectedCharacters',) + p3 + body[4:])
        if body[0] == 'UnexpectedToken' and body[4] != '$END':
            p3 = c3(body[1])
            return (kind, ('UnexpectedToken',) + p3 + body[4:])
        return (kind, body)
    return sig


def normalise(sig):
    """$END tokens carry a borrowed position: compare class and expected set only"""
    kind, body = sig
    if kind == 'error' and body[0] == 'UnexpectedToken' and body[4] == '$END':
        return (kind, ('UnexpectedToken', '$END') + body[6:])
    return sig


def first_diff(x, y, path='result'):
    if type(x) is not type(y):
        return '%s: %r vs %r' % (path, x, y)
    if isinstance(x, tuple):
        if len(x) != len(y):
            return '%s: %d vs %d components: %r vs %r' % (path, len(x), len(y), x[:3], y[:3])
        for i, (p, q) in enumerate(zip(x, y)):
            d = first_diff(p, q, '%s.%d' % (path, i))
            if d:
                return d
        return None
    return None if x == y else '%s: %r vs %r' % (path, x, y)


def strip_meta(sig):
    if isinstance(sig, tuple):
        if sig and sig[0] == 'T':
            return ('T', sig[1], None, tuple(strip_meta(c) for c in sig[3]))
        return tuple(strip_meta(c) for c in sig)
    return sig


def route_vs_parse(api, route, plain):
    """another public way of obtaining the result must give what parse() gives on the same input:
    tree shape, token types, values, value kinds, positions, metas (Tree.copy() does not carry the meta;
    a fork yields the result three times; for errors class and position are compared)"""
    if api in ('parse', 'scan') or route['kind'] == 'unsupported' or plain['kind'] == 'unsupported':
        return []
    r, p = outcome_sig(route), outcome_sig(plain)
    if r[0] != p[0]:
        return ['%s() ends with %r but parse() with %r' % (api, r[0] if r[0] == 'ok' else r[1][:4], p[0] if p[0] == 'ok' else p[1][:4])]
    if r[0] == 'error':
        a, b = r[1], p[1]
        if a[0] != b[0] or (a[0] != 'UnexpectedEOF' and not (a[0] == 'UnexpectedToken' and a[4] == '$END') and a[1:4] != b[1:4]):
            return ['%s() raises %r but parse() raises %r' % (api, a[:4], b[:4])]
        return []
    rs, ps = r[1], p[1]
    if api == 'tree_copy':
        rs, ps = strip_meta(rs), strip_meta(ps)
    msgs = []
    for k, one in enumerate(rs[1] if api == 'fork' else [rs]):
        d = first_diff(ps, one)
        if d:
            msgs.append('result obtained through %s%s differs from parse() (parse vs %s): %s'
                        % (api, ('[%d]' % k) if api == 'fork' else '', api, d))
            break
    return msgs


def compare(g, parser, lexer, text, extra, rep, window, complete_slice=False, ref=None, api='parse'):
    """list of messages: how the variant (rep, window) differs from the plain-str reference, re-based"""
    dynamic = lexer in P.DYNAMIC
    if ref is None:
        ref = P.run_case(g, parser, lexer, text, 'str', None, api, extra)
    if ref['kind'] == 'unsupported':
        return [], ref, ref
    if complete_slice:
        var = run_complete_slice(g, parser, lexer, text, rep, extra)
    else:
        var = P.run_case(g, parser, lexer, text, rep, window, api, extra)
    msgs = []
    if var['kind'] == 'unsupported':
        return [], ref, var
    if dynamic and window is not None:
        if not (var['kind'] == 'error' and var['sig'] == ('TypeError',)):
            msgs.append('dynamic lexer given a partial TextSlice: expected TypeError, got %r' % (outcome_sig(var)[:1],))
        return msgs, ref, var
    exp = outcome_sig(ref)
    if window is not None:      # bytes / complete slices: same offsets and coordinates; windows: re-based
        exp = shift_sig(exp, var['a'], var['buf'])
    exp = normalise(exp)
    got = normalise(outcome_sig(var))
    d = first_diff(exp, got)
    if d:
        msgs.append('%s%s%s differs from the plain str run re-based by %d (expected vs observed): %s'
                    % (rep, ' window' if window else (' complete slice' if complete_slice else ''),
                       '' if api == 'parse' else ' via ' + api, var['a'], d))
    if api != 'parse':
        for one in (ref, var):          # each route against parse() in its own representation
            w_ = None if one is ref else window
            plain = P.run_case(g, parser, lexer, text, 'str' if one is ref else rep, w_, 'parse', extra)
            msgs += route_vs_parse(api, one, plain)
            if msgs:
                break
    return msgs, ref, var


def run_complete_slice(g, parser, lexer, text, rep, extra):
    from lark.utils import TextSlice
    lk = P.get_lark(g, parser, lexer, rep == 'bytes', extra)
    if isinstance(lk, Exception):
        return dict(kind='unsupported', why=type(lk).__name__)
    buf = text.encode('latin-1') if rep == 'bytes' else text
    tr = P.Tracer()
    out = dict(buf=buf, a=0, b=len(buf), tracer=tr, dynamic=lexer in P.DYNAMIC)
    with tr.active():
        try:
            out.update(kind='ok', result=lk.parse(TextSlice(buf, 0, len(buf))))
        except Exception as e:   # noqa
            out.update(kind='error', error=e, sig=P.error_sig(e))
    return out


def witness(g, parser, lexer, text, rep, window, api, extra, complete_slice=False):
    return dict(grammar=g, parser=parser, lexer=lexer, text=text, rep=rep, window=list(window) if window else None,
                api=api, extra=[[k, v if isinstance(v, str) else int(v)] for k, v in extra], complete_slice=complete_slice)


def run_witness(w):
    """the differential on one witness -> list of (stage, message)"""
    if 'slice' in w:
        return [('representation-differential', 'TextSlice(buf, %r, %r) is not buf[start:end]' % tuple(w['slice']))] \
            if replay_slice(w) else []
    msgs, _, _ = compare(w['grammar'], w['parser'], w['lexer'], w['text'], tuple((k, v) for k, v in w.get('extra', [])),
                         w['rep'], tuple(w['window']) if w.get('window') else None, w.get('complete_slice', False),
                         api=w.get('api', 'parse'))
    return [('representation-differential', m) for m in msgs]


class Diff:
    def __init__(self, ctx):
        self.ctx = ctx
        # the Collector is used for its Coq-case accumulation; the oracle is the differential itself
        self.col = P.Collector(ctx, 'c15', lambda x: x if isinstance(x, list) else [], witness, run_witness)
        self.refs = {}
        self.shifts = []      # (coq ShiftCase term, witness)

    def case(self, stream, g, parser, lexer, text, extra, rep, window, complete_slice=False, key=None, api='parse'):
        ctx = self.ctx
        rk = (g, parser, lexer, text, extra, api)
        if rk not in self.refs:
            if len(self.refs) > 80:
                self.refs.clear()
            self.refs[rk] = P.run_case(g, parser, lexer, text, 'str', None, api, extra)
        msgs, ref, var = compare(g, parser, lexer, text, extra, rep, window, complete_slice, ref=self.refs[rk], api=api)
        if ref['kind'] == 'unsupported' or var['kind'] == 'unsupported':
            ctx.count(stream, nontrivial=False, outcome='unsupported')
            return
        w = witness(g, parser, lexer, text, rep, window, api, extra, complete_slice)
        ntok = len(P.result_tokens(ref))
        nontriv = ntok >= 2 and (rep == 'bytes' or bool(window and window[0]))
        ctx.count(stream, key=(g, parser, lexer, text, rep, window, complete_slice, api), nontrivial=nontriv,
                  config='%s/%s' % (parser, lexer), route=api,
                  variant='%s%s' % (rep, '/window' if window else ('/complete-slice' if complete_slice else '')),
                  reference='ok' if ref['kind'] == 'ok' else ref['sig'][0], tokens=min(ntok, 12),
                  window_start=('none' if not window else 'line-start' if (window[0] == '' or window[0].endswith('\n'))
                                else 'mid-line'))
        if nontriv:
            ctx.sample({'grammar': g, 'config': [parser, lexer], 'text': text, 'variant': [rep, window, complete_slice],
                        'reference': repr(outcome_sig(ref))[:400]}, limit=4)
        for m in msgs:
            ctx.violation('representation-differential', w, True, m, key=key)
        # Coq cases of the variant run (windows / bytes): the model is evaluated on what the lexer did
        if api == 'parse' or self.ctx.rng.random() < 0.15:     # the routes lex the same way: a sample is enough
            self.col_add(var, w)
        # tree level: the callback tree of the substring run, re-based in Coq, must give the window run's metas
        if api == 'parse' and window is not None and ref['kind'] == 'ok' and var['kind'] == 'ok':
            rt, vt = ref['tracer'], var['tracer']
            if len(rt.pp_calls) == len(vt.pp_calls) and rt.pp_calls:
                same = all(x['sel'] == y['sel'] and [k[0] for k in x['kids']] == [k[0] for k in y['kids']]
                           for x, y in zip(rt.pp_calls, vt.pp_calls))
                if same:
                    for r in P.meta_roots(rt):
                        if not rt.pp_calls[r]['filtered']:
                            self.shifts.append(('ShiftCase %s %s (%s)' % (P.T(P.as_text(var['buf'])), P.Z(var['a']),
                                                                        P.coq_ptree(rt, r, True, vt)), w))

    def col_add(self, out, w):
        self.col.add(out, w)


F9_CASES = [
    ('F9:lookbehind-outside-window', 'start: FOO\nFOO: /\\bfoo/\n', 'foo', ('x', '')),
    ('F9:caret-at-window-start', 'start: FOO\nFOO: /^foo/\n', 'foo', ('x', '')),
]


F51_GRAMMAR = 'start: "\\xe9" "a"\n'
F51_TEXT = '\xe9a'


def f51_outcomes(lexer):
    """(str outcome, bytes outcome) of the F51 witness under lexer"""
    from lark import Lark
    res = []
    for use_bytes in (False, True):
        try:
            lk = Lark(F51_GRAMMAR, parser='lalr', lexer=lexer, use_bytes=use_bytes)
            t = lk.parse(F51_TEXT.encode('latin-1') if use_bytes else F51_TEXT)
            res.append(('ok', [P.as_text(c.value) if hasattr(c, 'value') else str(c) for c in t.children], t.data))
        except Exception as e:   # noqa
            res.append(('error', type(e).__name__))
    return res


def f51(ctx):
    for lexer in ('basic', 'contextual'):
        s_out, b_out = f51_outcomes(lexer)
        ctx.count('exotic-F51', key=(F51_GRAMMAR, lexer), nontrivial=True, outcome='%s/%s' % (s_out[0], b_out[0]))
        if s_out != b_out:
            ctx.violation('representation-differential',
                          dict(f51=True, grammar=F51_GRAMMAR, text=F51_TEXT, lexer=lexer, parser='lalr'), True,
                          'str run: %r, bytes run (use_bytes=True, latin-1 encoded): %r' % (s_out, b_out),
                          key='F51:bytes-anon-nonascii-group-name')


SLICE_G = 'start: pair ("," pair)*\npair: NAME "=" NUMBER\nNAME: /[a-z]+/\nNUMBER: /[0-9]+/\n%ignore /[ \\n]+/\n'
SLICE_BUF = 'x, a=1,\nb=2 ,'


def slices(ctx, col):
    """every (start, end) in [-n-1, n+1] x ({None} u [-n-1, n+1]) on a fixed buffer, str and bytes: the TextSlice must
    denote Python's buf[start:end] (in range), parse like the normalised slice, and agree with the regenerated model"""
    from lark.utils import TextSlice
    cases = []
    for rep in ('str', 'bytes'):
        buf = SLICE_BUF.encode('latin-1') if rep == 'bytes' else SLICE_BUF
        n = len(buf)
        lk = P.get_lark(SLICE_G, 'lalr', 'contextual', rep == 'bytes')
        memo = {}

        def outcome(ts):
            key = (ts.start, ts.end)
            if key not in memo:
                try:
                    memo[key] = ('ok', P.tree_sig(lk.parse(ts), buf))
                except Exception as e:      # noqa
                    memo[key] = ('error', P.error_sig(e))
            return memo[key]
        for s_ in range(-n - 1, n + 2):
            for e_ in [None] + list(range(-n - 1, n + 2)):
                try:
                    ts = TextSlice(buf, s_, e_)
                    obs = (ts.start, ts.end)
                except AssertionError:
                    obs = None
                in_range = -n <= s_ <= n and (e_ is None or -n <= e_ <= n)
                if rep == 'str':
                    cases.append(('SliceCase %s %s %s %s %s %s' % (
                        P.Z(n), P.Z(s_), 'None' if e_ is None else '(Some %s)' % P.Z(e_),
                        'None' if obs is None else '(Some (%s, %s))' % (P.Z(obs[0]), P.Z(obs[1])),
                        'true' if obs and ts.is_complete_text() else 'false', P.Z(obs[1] - obs[0] if obs else 0)),
                        dict(slice=[s_, e_], rep=rep)))
                if not in_range:
                    continue
                s2, e2, _ = slice(s_, e_).indices(n)
                nontriv = s_ < 0 or e_ is None or e_ < 0
                ctx.count('slice-normalisation', key=(rep, s_, e_), nontrivial=nontriv,
                          slice_kind=('neg-start' if s_ < 0 else 'pos-start') + ('/none-end' if e_ is None else '/neg-end' if e_ < 0 else '/pos-end'))
                w = dict(slice=[s_, e_], rep=rep)
                if obs != (s2, e2):
                    ctx.violation('representation-differential', w, True,
                                  'TextSlice(buf, %r, %r) denotes [%r, %r), Python slicing gives [%d, %d)' % (s_, e_, obs and obs[0], obs and obs[1], s2, e2))
                    continue
                if s2 > e2:
                    continue
                if outcome(ts) != outcome(TextSlice(buf, s2, e2)) or \
                        (s_ < 0 or e_ is None or e_ < 0) and len(ts) != e2 - s2:
                    ctx.violation('representation-differential', w, True,
                                  'parse(TextSlice(buf, %r, %r)) differs from parse(TextSlice(buf, %d, %d))' % (s_, e_, s2, e2))
    col.cases['slice'] += cases


def replay_slice(w):
    from lark.utils import TextSlice
    buf = SLICE_BUF.encode('latin-1') if w['rep'] == 'bytes' else SLICE_BUF
    s_, e_ = w['slice']
    lk = P.get_lark(SLICE_G, 'lalr', 'contextual', w['rep'] == 'bytes')
    s2, e2, _ = slice(s_, e_).indices(len(buf))
    try:
        ts = TextSlice(buf, s_, e_)
    except AssertionError:
        return True

    def outcome(x):
        try:
            return ('ok', P.tree_sig(lk.parse(x), buf))
        except Exception as e:      # noqa
            return ('error', P.error_sig(e))
    return (ts.start, ts.end) != (s2, e2) or (s2 <= e2 and outcome(ts) != outcome(TextSlice(buf, s2, e2)))


def correspond(ctx):
    rng = ctx.rng
    d = Diff(ctx)
    mult = 3 if ctx.widen else 1

    def variants(stream, g, text, extra):
        for parser, lexer in P.CONFIGS:
            if lexer == 'dynamic_complete' and len(text) > 60:
                continue
            d.case(stream, g, parser, lexer, text, extra, 'bytes', None)
            if lexer in P.DYNAMIC:
                # complete-text slices must behave like the plain text (repair F30); partial ones raise TypeError
                d.case(stream, g, parser, lexer, text, extra, rng.choice(['str', 'bytes']), None, complete_slice=True)
                if rng.random() < 0.5:
                    d.case(stream, g, parser, lexer, text, extra, 'bytes', None, api=rng.choice(P.ROUTES_ANY))
                if rng.random() < 0.3:
                    d.case(stream, g, parser, lexer, text, extra, 'str', (rng.choice(P.WINDOW_PARTS[1:]), ''))
                continue
            for _ in range(2):
                win = (rng.choice(P.WINDOW_PARTS), rng.choice(P.WINDOW_PARTS))
                d.case(stream, g, parser, lexer, text, extra, rng.choice(['str', 'str', 'bytes']), win)
            # the other public ways of obtaining a result, in every representation
            routes = list(P.ROUTES_ANY) + (list(P.ROUTES_LALR) if parser == 'lalr' else [])
            for api in rng.sample(routes, 2 if parser == 'lalr' else 1):
                d.case(stream, g, parser, lexer, text, extra, 'bytes', None, api=api)
                if rng.random() < 0.5:
                    win = (rng.choice(P.WINDOW_PARTS), rng.choice(P.WINDOW_PARTS))
                    d.case(stream, g, parser, lexer, text, extra, rng.choice(['str', 'bytes']), win, api=api)

    for gi in range(ctx.scale(22, 150) * mult):
        if P.enough(ctx):
            break
        g, pieces, extra = P.gen_flat_grammar(rng)
        for ii in range(3):
            text = P.gen_flat_input(rng, pieces)
            variants('soup', g, text, extra)
    for gi in range(ctx.scale(5, 24) * mult):
        if P.enough(ctx):
            break
        g, comments = P.gen_struct_grammar(rng)
        for ii in range(ctx.scale(5, 10)):
            text = P.gen_struct_input(rng, comments)
            if rng.random() < 0.25 and text:
                k = rng.randrange(len(text))
                text = text[:k] + rng.choice(['', '$', ';', ')', '\n=']) + text[k + 1:]    # one-edit mutation: rejected inputs
            variants('struct', g, text, ())
    # every route x {bytes, str window, bytes window} on a fixed grammar (always run)
    RG = 'start: pair ("," pair)*\npair: NAME "=" NUMBER\nNAME: /[a-z]+/\nNUMBER: /[0-9]+/\n%ignore /[ \\n]+/\n'
    for parser, lexer in P.CONFIGS:
        for api in list(P.ROUTES_ANY) + (list(P.ROUTES_LALR) if parser == 'lalr' else []):
            for rep, win in (('bytes', None), ('str', ('q\n x', '\n')), ('bytes', ('\n', ' z'))):
                if win is not None and lexer in P.DYNAMIC:
                    continue
                d.case('routes', RG, parser, lexer, 'ab = 12, cd = 345,\nxyz = 6', (), rep, win, api=api)
    # keyword re-typing (UnlessCallback) in every representation and through every route
    KG = 'start: stmt+\nstmt: IF NAME | NAME "=" NAME\nIF: "if"\nNAME: /[a-z]+/\n%ignore /[ \\n]+/\n'
    for parser, lexer in P.CONFIGS:
        for rep, win in (('bytes', None), ('str', ('if\n', ' if')), ('bytes', ('x', '\n'))):
            if win is not None and lexer in P.DYNAMIC:
                continue
            d.case('routes', KG, parser, lexer, 'if a b = c\nif if', (), rep, win)
            d.case('routes', KG, parser, lexer, 'if a b = c\nif d', (), rep, win, api='deepcopy')
    # boundary family: inputs that start at offset 0 with a filtered opening token / end with a filtered closing one
    for g, texts in P.BOUNDARY:
        for text in texts[:5]:
            for parser, lexer in P.CONFIGS:
                d.case('boundary', g, parser, lexer, text, (), 'bytes', None)
                if lexer not in P.DYNAMIC:
                    for win in (('', ' z'), ('x\n', ''), ('\n(', ')')):
                        d.case('boundary', g, parser, lexer, text, (), 'str', win)
    # fixed exotic witnesses: F9 (listed finding)
    for key, g, text, win in F9_CASES:
        for parser, lexer in (('lalr', 'basic'), ('lalr', 'contextual'), ('earley', 'basic')):
            d.case('exotic-F9', g, parser, lexer, text, (), 'str', win, key=key)
    # TextSlice index normalisation (negative / None indices), systematic
    slices(ctx, d.col)
    # F51 (listed finding): an anonymous non-ASCII literal written with an escape in an ASCII grammar gets a non-ASCII
    # auto name, which is not a valid group name in a bytes regexp: str parses, bytes raises re.error at construction
    f51(ctx)
    # regression witness of F30 (repaired): complete-text TextSlice under the dynamic lexers
    for lexer in P.DYNAMIC:
        for rep in ('str', 'bytes'):
            d.case('exotic-F30', 'start: (A|B)+\nA: /a/\nB: /\\n/\n', 'earley', lexer, 'a\na', (), rep, None, complete_slice=True)
    d.col.check()
    # tree-level window shift: Coq re-bases the substring run's callback tree and compares with the window run
    seen, uniq = set(), []
    for c, w in d.shifts:
        if c not in seen:
            seen.add(c)
            uniq.append((c, w))
    if uniq:
        bad, errs = ctx.coq_bad_indices('c15_shift', 'From LV Require Import Pos.PosBase Pos.MetaSpan Pos.PosCheck Pos.ShiftCheck.',
                                        'check_shift', [c for c, _ in uniq], chunk=400)
        ctx.extra.setdefault('coq_case_kinds', {})['check_shift'] = len(uniq)
        for e in errs:
            ctx.violation('correspondence:coq-eval', {'error': e}, False, e[:300])
        for i in bad[:5]:
            w = uniq[i][1]
            msgs = run_witness(w)
            if msgs:
                ctx.violation('correspondence+oracle:check_shift', w, True, msgs[0][1])
            else:
                what = 'Pos/MetaSpan.build on the re-based callback tree of the substring run vs the metas of the window run'
                ctx.violation('correspondence:' + what, dict(w, no_longer_checks=what, coq_case=uniq[i][0][:1500]), False,
                              'model and implementation disagree; the differential holds on this case')


def replay(ctx, case):
    w = case['witness']
    if 'slice' in w:
        return replay_slice(w)
    if w.get('f51'):
        s_out, b_out = f51_outcomes(w['lexer'])
        return s_out != b_out
    if 'grammar' not in w:
        return False
    return bool(run_witness(w))
