"""C05 - Default ambiguity resolution is a priority-optimal, deterministic choice."""
from lib import coq_term_str as S, coq_list as L, coq_Z as Z
from props import forest_common as fc

THEOREMS = ['C05_sum_visitor_is_max', 'C05_sum_visitor_packed', 'C05_resolve_in_derivs', 'C05_resolve_lex_optimal',
            'C05_sort_key_meaning', 'C05_optimal', 'C05_optimal_uniform', 'C05_empty_precedence', 'C05_invert',
            'C05_none', 'C05_deterministic', 'C05_example', 'C05_empty_precedence_bites', 'C05_optimal_graph',
            'C05_optimal_graph_walk', 'C05_optimal_graph_example', 'C05_sum_walk_eq_recursive',
            'C05_compiled_priority_is_declared']
GEN_DEPS = ['ForestSortKey', 'RulePriority']
RULE = ('random acyclic ambiguous grammars (2-4 non-terminals, 1-3 alternatives, signed rule priorities `r.2:`, terminal '
        'priorities `A.3:`, colliding/overlapping string terminals, nullable alternatives, and in 60% of the grammars `x?`, '
        '`[x]` maybe-placeholders and groups `(x | y)` inside prioritised rules - several Rule/RuleOptions objects per definition), every string over '
        '{a,b} up to length 4 tried and ambiguous ones preferred; each (grammar, text) under lexer in '
        '{basic,dynamic,dynamic_complete} x priority in {normal,invert,None}; non-trivial = distinct '
        '(grammar,text,lexer,priority) whose forest has >= 2 derivations')
TRUSTED_BASE = ['PackedNode.sort_key tuple, the max of ForestSumVisitor.visit_symbol_node_out and the rule-priority '
                'condition of visit_packed_node_out are regenerated (translator/gen_forest.py templates pin the rest of '
                'those three bodies); the traversal order / single-visit bookkeeping of the visitor is not part of '
                'this model (see C20), its RESULT on every node is compared',
                'export of the SPPF by harness/props/forest_common.py (families in OrderedSet insertion order, '
                'observed priorities, observed `children` order); sharing is unfolded before the model sees it']
ALLOWED_AXIOMS = []
ASSUMPTIONS = ['acyclic forests only (for derivation cycles of positive weight the maximum does not exist); '
               'ordered_sets=True (the default)',
               'no tree shaping in the compared grammars (plain rule names, named terminals), so that the tree '
               'returned by Lark determines the derivation; shaping is the subject of C03',
               'C05_optimal/C05_invert assume that the priority walk is skipped only when all priorities are '
               'absent/zero: checked on every case (diag code 5)',
               'hash-seed independence of the code is established by the subprocess sweep, not by a theorem']

IMPORTS = 'From LV Require Import Forest.Sppf Forest.Prio Forest.SppfCheck Forest.PrioCheck.'
MAX_UNFOLDED = 700


def coq_case(mode, basic, rules, terms_sorted, summed, nodes, obs):
    rps = L([fc.optZ(r['prio']) for r in rules])
    tps = L(['(%s, %s)' % (S(n), Z(int(p))) for n, p in terms_sorted])
    return '(%s, %s, %s, %s, %s, %s, %s)' % (fc.MODE_COQ[mode], 'true' if basic else 'false', rps, tps,
                                             'true' if summed else 'false', fc.coq_forest(nodes, True),
                                             fc.coq_otree(obs))


def select_texts(rng, g, want=3):
    """texts (length <= 4) accepted under the dynamic lexer, ambiguous ones first"""
    from lark.exceptions import LarkError
    import itertools
    try:
        p = fc.mk(g, 'dynamic', 'forest', 'normal')
    except LarkError:
        return None
    amb, plain = [], []
    for n in range(0, 5):
        for tup in itertools.product('ab', repeat=n):
            t = ''.join(tup)
            try:
                root = p.parse(t)
            except LarkError:
                continue
            nodes = fc.export_graph(root, p)
            if fc.is_cyclic(nodes):
                continue
            (amb if fc.count_derivs(nodes) > 1 else plain).append(t)
    rng.shuffle(amb)
    rng.shuffle(plain)
    return amb[:want] + plain[:1]


def observe(g, text, lexer, mode):
    """run lark; returns dict or None (rejected / cyclic / too big)"""
    from lark import Tree
    from lark.exceptions import LarkError
    from lark.parsers.earley_forest import ForestSumVisitor, ForestToParseTree
    try:
        pf = fc.mk(g, lexer, 'forest', mode)
        root = pf.parse(text)
    except LarkError:
        return None
    fsv = pf.parser.parser.forest_sum_visitor
    # the transformer Lark itself would use, with rule-identity callbacks: the derivation chosen
    res = ForestToParseTree(Tree, fc.id_callbacks(pf), fsv and fsv(), True, False).transform(root)
    # priorities are now on the nodes (if the walk ran); export
    nodes = fc.export_graph(root, pf)
    if fc.is_cyclic(nodes):
        return dict(cyclic=True)
    pr = fc.mk(g, lexer, 'resolve', mode)
    tree = pr.parse(text)
    rules_m, terms_m = fc.tables(pf)
    dyn = lexer != 'basic'
    units = text if dyn else [(t.type, str(t)) for t in pf.lex(text)]
    return dict(cyclic=False, nodes=nodes, summed=fsv is not None, d_id=fc.idtree_to_derivation(res),
                d_tree=fc.tree_to_derivation(tree, rules_m), shown=fc.show_tree(tree), units=units, dyn=dyn,
                rules_m=rules_m, terms_m=terms_m)


def oracle(g, text, lexer, mode, ob=None, tabs=None):
    """The property itself, evaluated on lark's answer with brute-force enumeration of the derivations of
    the compiled grammar.  Returns None or a description of the violation."""
    ob = ob or observe(g, text, lexer, mode)
    if ob is None or ob.get('cyclic'):
        return None
    if tabs is None:
        tabs = fc.declared_tables(g, fc.mk(g, lexer, 'forest', 'normal'))
    rules, terms = tabs           # priorities as written in the grammar TEXT (not read back from lark's Rule objects)
    try:
        ds, cyc, seq_ok = fc.enumerate_derivations(rules, terms, 'start', ob['units'], ob['dyn'])
    except fc.TooMany:
        return None
    if cyc:
        return None
    d = ob['d_tree']
    if d is None:
        return 'returned tree %r is not built from the rules of the grammar' % (ob['shown'],)
    if d != ob['d_id']:
        return 'Lark.parse returned %r but ForestToParseTree with rule-identity callbacks chose %r' % (d, ob['d_id'])
    if d not in ds:
        return 'returned tree %r is not a derivation of the input (%d derivations)' % (ob['shown'], len(ds))
    # the empty-alternative precedence
    for rid, pos in fc.empties_used(d, 0, ob['dyn'])[0]:
        for r in rules:
            if r['origin'] == rules[rid]['origin'] and r['exp'] and seq_ok(r['exp'], 0, pos, pos):
                return 'empty alternative of %s chosen at %d although <%s> matches the empty span' % (
                    r['origin'], pos, ' '.join(n for _, n in r['exp']))
    # the optimum is exact unless a node can hold a directly empty family beside a non-empty one
    has_empty_family = fc.mixed_empty_possible(rules)
    pri = fc.dprio(d, rules, terms, ob['dyn'])
    all_p = [fc.dprio(x, rules, terms, ob['dyn']) for x in ds]
    if not has_empty_family:
        if mode == 'normal' and pri != max(all_p):
            return 'priority of the returned tree is %d, maximum over %d derivations is %d' % (pri, len(ds), max(all_p))
        if mode == 'invert' and pri != min(all_p):
            return 'priority=invert: priority of the returned tree is %d, minimum over %d derivations is %d' % (
                pri, len(ds), min(all_p))
    if mode is None:
        ob0 = observe(fc.strip_priorities(g), text, lexer, 'normal')
        if ob0 is None or ob0.get('cyclic') or ob0['shown'] != ob['shown']:
            return 'priority=None returned %r, the grammar without priorities returns %r' % (
                ob['shown'], ob0 and ob0.get('shown'))
    return None


# fixed regression corpus (unkeyed: a failure here is an ordinary violation)
EXOTIC = [
    # F24 (fixed in /repo): Grammar.compile shares one RuleOptions object between the alternatives of a rule and
    # Lark.__init__ used to negate rule.options.priority once per alternative: an even number of alternatives
    # left the priority un-negated under priority='invert'
    dict(g='start: a | b\na.2: A | A A\nb.1: A\nA: "a"\n', text='a', lexer='dynamic', mode='invert'),
    dict(g='start: a | b\na.2: A | A A\nb.1: A\nA: "a"\n', text='a', lexer='basic', mode='invert'),
    dict(g='start.1: a B | a a B | B B B\na.2: b b | B | b? B B\nb.1: start? A b | B B | A\nA: "a"\nB: "b"\n',
         text='bbb', lexer='basic', mode='invert'),
    # alternatives with an absent [x] placeholder own a COPIED RuleOptions (empty_indices): every options object of
    # a prioritised rule must be negated exactly once under priority='invert'
    dict(g='start: a | b\na.3: X [Y] | X Y Y\nb.1: X | X Y\nX: "x"\nY: "y"\n', text='x', lexer='dynamic', mode='invert'),
    dict(g='start: a | b\na.3: X [Y] | X Y Y\nb.1: X | X Y\nX: "x"\nY: "y"\n', text='xy', lexer='basic', mode='invert'),
    dict(g='start: a | b\na.-2: [Y] X | (X | Y) [X] | X Y Y\nb.1: X | X Y\nX: "x"\nY: "y"\n', text='x', lexer='dynamic_complete',
         mode='invert'),
]


def placeholder_family():
    """Systematic family: the ambiguity is decided by the priority of a rule one of whose compiled alternatives has an
    ABSENT `[...]` placeholder (that alternative owns a copied RuleOptions object) or comes from `x?` / a group.
    start: a | b;  a.P: <items with optionals>;  b.Q: <the mandatory items>;  texts: mandatory items alone and with each
    optional present.  Every (shape, P, Q) x lexer x mode goes through the oracle (declared priorities)."""
    shapes = [('X [Y]', 'X', ['x', 'xy']), ('[Y] X', 'X', ['x', 'yx']), ('X [Y] X', 'X X', ['xx', 'xyx']),
              ('X [Y] [Z]', 'X', ['x', 'xy', 'xz', 'xyz']), ('X [Y Z]', 'X', ['x', 'xyz']), ('X Y?', 'X', ['x', 'xy']),
              ('X (Y | Z)?', 'X', ['x', 'xz']), ('[Y] [Z] X', 'X', ['x', 'zx'])]
    out = []
    for a, b, texts in shapes:
        for pa, pb in ((2, 1), (1, 2), (-2, -1), (-1, 1)):
            g = 'start: a | b\na.%d: %s\nb.%d: %s | %s Y | %s Z | Y %s | Z %s\nX: "x"\nY: "y"\nZ: "z"\n' % (
                pa, a, pb, b, b, b, b, b)
            out.append((g, texts))
    return out


# Ambiguities whose derivations TIE on sort_key (same rule, different split point; equal priorities; ties inside
# nested and intermediate nodes): the tie is broken by the insertion order of the packed nodes, i.e. by the order in
# which the engine processed its items - which must not depend on the hash seed.  Always swept, whatever VERIF_SEED.
TIE_CORPUS = [
    ('start: a a\na: X | X X\nX: "x"\n', ['xxx', 'xxxx']),
    ('start: a a a\na: X | X X\nX: "x"\n', ['xxxx', 'xxxxx']),
    ('start: e\ne: e e | X\nX: "x"\n', ['xxx', 'xxxx']),
    ('start: e\ne.2: e P e | N\nN: "n"\nP: "+"\n', ['n+n+n', 'n+n+n+n']),
    ('start: b b\nb: a a\na: X | X X | X X X\nX: "x"\n', ['xxxxxx', 'xxxxxxx']),
    ('start: a b\na.1: X | X Y\nb.1: Y Z | Z\nX: "x"\nY: "y"\nZ: "z"\n', ['xyz']),
    ('start: a a\na.3: X | Y | X Y | Y X\nX.2: "x"\nY.2: "y"\n', ['xyx', 'xyxy', 'yxyx']),
    ('start: l l\nl: i+\ni: X\nX: "x"\n', ['xxx', 'xxxx']),
    ('start: (a | b) (a | b)\na.1: X | X X\nb.1: X | X X\nX: "x"\n', ['xxx']),
    ('start: a [a] a\na: X | X X\nX: "x"\n', ['xxx', 'xxxx']),
]


# dynamic lexers, greedy multi-character %ignore, terminals that may swallow ignorable characters: fixed corpus
WS_CORPUS = [
    ('start: w B\nw: A | AS\nA: "a"\nAS.2: /a\\s/\nB: "b"\n%ignore /\\s+/\n', ['a b', 'a  b', 'a   b']),
    ('start: w B\nw: x | y\nx: A\ny.3: AS\nA: "a"\nAS: /a /\nB: "b"\n%ignore / +/\n', ['a b', 'a  b', 'a   b']),
    ('start: w w\nw.1: A | AS\nw2: B\nA.1: "a"\nAS.-2: /a ?/\nB: "b"\n%ignore / +/\n', ['a a', 'a  a', ' a  a ']),
    ('start: A v | AS v\nv: B | SB\nA: "a"\nAS.1: /a /\nB: "b"\nSB.2: / b/\n%ignore / +/\n', ['a b', 'a  b', 'a   b', 'ab']),
]


_WS_CACHE = {}


def oracle_ws(g, text, lexer, mode):
    """optimum over the derivations enumerated on the position graph (tokens tile the text, ignored matches between
    them), with the grammar-written priorities; returns a message or None"""
    from lark.exceptions import LarkError
    key = (g, lexer, mode)
    if key not in _WS_CACHE:
        if len(_WS_CACHE) > 64:
            _WS_CACHE.clear()
        try:
            pn = fc.mk(g, lexer, 'forest', 'normal')
            _WS_CACHE[key] = (pn, fc.mk(g, lexer, 'resolve', mode), fc.declared_tables(g, pn))
        except LarkError:
            _WS_CACHE[key] = None
    if _WS_CACHE[key] is None:
        return None
    pn, pr, (rules, terms) = _WS_CACHE[key]
    ign = [str(n) for n in pn.ignore_tokens]
    try:
        ds, cyc = fc.enumerate_derivations_ignore(rules, terms, 'start', text, [], ign_terms=ign)
        ds_scan, _ = fc.enumerate_derivations_ignore(rules, terms, 'start', text, [], scanner=lexer, ign_terms=ign)
    except fc.TooMany:
        return None
    if cyc:
        return None
    try:
        tree = fc.with_timeout(20, pr.parse, text)
    except LarkError:
        return ('input rejected although it has %d derivations' % len(ds_scan)) if ds_scan else None
    d = fc.tree_to_posderivation(tree, rules)
    if d is None or d not in ds:
        return 'returned tree %r is not a derivation of the input (%d derivations)' % (fc.show_tree(tree), len(ds))
    if fc.mixed_empty_possible(rules) or not ds_scan:
        return None

    def pri(x):
        return (terms[x[1]]['prio'] if x[0] == 'T' else (rules[x[1]]['prio'] or 0) + sum(pri(c) for c in x[2]))
    all_p = [pri(x) for x in ds_scan]
    if mode == 'normal' and pri(d) < max(all_p):
        return 'priority of the returned tree is %d, maximum over %d derivations is %d' % (pri(d), len(ds_scan), max(all_p))
    if mode == 'invert' and pri(d) > min(all_p):
        return 'priority=invert: priority of the returned tree is %d, minimum over %d derivations is %d' % (
            pri(d), len(ds_scan), min(all_p))
    return None


def ws_stream(ctx):
    import itertools
    rng = ctx.rng
    work = [(g, ts) for g, ts in WS_CORPUS]
    for _ in range(ctx.scale(45, 300) * (3 if ctx.widen else 1)):
        g = fc.gen_ws_grammar(rng)
        texts = [''.join(t) for n in range(1, 6) for t in itertools.product('ab ', repeat=n)]
        rng.shuffle(texts)
        work.append((g, texts[:30]))
    for g, texts in work:
        for text in texts:
            for lexer in ('dynamic', 'dynamic_complete'):
                for mode in ('normal', 'invert'):
                    w = dict(g=g, text=text, lexer=lexer, mode=mode, ws=True)
                    try:
                        msg = oracle_ws(g, text, lexer, mode)
                    except fc.Timeout:
                        ctx.violation('timeout', w, True, 'parse did not finish in 20 s')
                        continue
                    ctx.count('ignore-priority', nontrivial=False, lexer=lexer)
                    if msg:
                        ctx.violation('oracle-ws:' + msg.split(' ')[0], w, True, msg)


def correspond(ctx):
    from lark.exceptions import LarkError
    rng = ctx.rng
    ws_stream(ctx)
    for w in EXOTIC:
        msg = oracle(w['g'], w['text'], w['lexer'], w['mode'])
        ctx.count('regression-corpus', nontrivial=False)
        if msg:
            ctx.violation('oracle:regression-corpus', w, True, msg)
    for g, texts in placeholder_family():
        for text in texts:
            for lexer in fc.LEXERS:
                for mode in fc.MODES:
                    w = dict(g=g, text=text, lexer=lexer, mode=mode)
                    try:
                        msg = fc.with_timeout(20, oracle, g, text, lexer, mode)
                    except fc.Timeout:
                        msg = 'parse/resolve did not finish in 20 s'
                    ctx.count('placeholder-priority', key=(g, text, lexer, mode), nontrivial=True, lexer=lexer, mode=str(mode))
                    if msg:
                        ctx.violation('oracle:' + msg.split(' ')[0], w, True, msg)
    n_gram = ctx.scale(70, 400) * (3 if ctx.widen else 1)
    cases, meta = [], []
    tcases, tmeta, seen_tables = [], [], set()
    det_cases = []
    for gi in range(n_gram):
        g = fc.gen_grammar(rng, cyclic=False, empties=(rng.random() < 0.5))
        texts = select_texts(rng, g)
        if not texts:
            ctx.count('grammar-rejected', nontrivial=False)
            continue
        for text in texts:
            for lexer in fc.LEXERS:
                try:
                    tabs = fc.declared_tables(g, fc.mk(g, lexer, 'forest', 'normal'))
                except LarkError:
                    continue
                for mode in fc.MODES:
                    if (g, lexer, mode) not in seen_tables:
                        seen_tables.add((g, lexer, mode))
                        try:
                            rm, tm = fc.tables(fc.mk(g, lexer, 'forest', mode))
                            tcases.append('(%s, %s, %s, %s, %s)' % (
                                fc.MODE_COQ[mode], L([fc.optZ(r['prio']) for r in tabs[0]]),
                                L([fc.optZ(r['prio']) for r in rm]) if rm else '(@nil (option Z))',
                                L([Z(int(t['prio'])) for _, t in sorted(tabs[1].items())]),
                                L([Z(int(t['prio'])) for _, t in sorted(tm.items())])))
                            tmeta.append(dict(g=g, lexer=lexer, mode=mode))
                            ctx.count('tables', nontrivial=False)
                        except LarkError:
                            pass
                    w = dict(g=g, text=text, lexer=lexer, mode=mode)
                    try:
                        ob = fc.with_timeout(20, observe, g, text, lexer, mode)
                    except fc.Timeout:
                        ctx.violation('timeout', w, True, 'parse/resolve did not finish in 20 s')
                        continue
                    if ob is None:
                        ctx.count('rejected', nontrivial=False)
                        continue
                    if ob.get('cyclic'):
                        ctx.count('cyclic-skipped', nontrivial=False)
                        continue
                    nd = fc.count_derivs(ob['nodes'])
                    ctx.count('main', key=(g, text, lexer, mode), nontrivial=nd > 1, lexer=lexer, mode=str(mode),
                              derivations=min(nd, 9), summed=ob['summed'], textlen=len(text))
                    msg = oracle(g, text, lexer, mode, ob, tabs)
                    if msg:
                        ctx.violation('oracle:' + msg.split(' ')[0], w, True, msg)
                    if fc.unfolded_size(ob['nodes']) > MAX_UNFOLDED:
                        ctx.count('too-big-for-model', nontrivial=False)
                        continue
                    rules, terms = tabs
                    cases.append(coq_case(mode, lexer == 'basic', rules,
                                          sorted((n, t['prio']) for n, t in terms.items()),
                                          ob['summed'], ob['nodes'], ob['d_id']))
                    meta.append((w, msg))
                    if nd > 1:
                        det_cases.append((w, ob['shown']))
                    ctx.sample(dict(grammar=g, text=text, lexer=lexer, priority=mode, derivations=nd,
                                    returned=ob['shown']))
    # ---- the model on the same forests (seeded subset within the Coq budget; the oracle ran on all) ----
    cap = ctx.scale(650, 6000)
    if not ctx.widen and len(cases) > cap:
        idx = sorted(rng.sample(range(len(cases)), cap))
        cases, meta = [cases[i] for i in idx], [meta[i] for i in idx]
    bad, errs = ctx.coq_bad_indices('c05', IMPORTS, 'c05_ok', cases, chunk=100)
    for e in errs:
        ctx.violation('correspondence:coq-evaluation', {'no_longer_checks': 'c05 cases', 'detail': e}, False, e)
    for i in bad[:8]:
        w, msg = meta[i]
        code, _ = ctx.coq_eval('c05_diag_%d' % i, IMPORTS, 'c05_diag %s' % cases[i])
        what = {'1': 'forest not well-formed', '2': 'uses_visitor', '3': 'loaded priorities (invert/None/basic)',
                '4': 'node priorities / children order', '5': 'walk skipped with non-zero priorities',
                '6': 'resolved derivation', '7': 'resolved derivation'}.get(str(code).split('%')[0], str(code))
        if msg is None:
            # widen: the oracle on this case under all lexers/modes
            found = None
            for lexer in fc.LEXERS:
                for mode in fc.MODES:
                    m2 = oracle(w['g'], w['text'], lexer, mode)
                    if m2:
                        found = (dict(w, lexer=lexer, mode=mode), m2)
                        break
                if found:
                    break
            if found:
                ctx.violation('oracle:' + found[1].split(' ')[0], found[0], True, found[1])
            else:
                ctx.violation('correspondence:' + what, dict(w, no_longer_checks='model vs lark: ' + what), False,
                              'model and lark disagree on %s (diag %s)' % (what, code))
    bad, errs = ctx.coq_bad_indices('c05t', IMPORTS, 'c05_tables_ok', tcases, chunk=400)
    for e in errs:
        ctx.violation('correspondence:coq-evaluation', {'no_longer_checks': 'c05 table cases', 'detail': e}, False, e)
    for i in bad[:4]:
        w = tmeta[i]
        # search: every text up to length 3 under this lexer and mode
        found = None
        import itertools
        for n in range(0, 4):
            for tup in itertools.product('ab', repeat=n):
                try:
                    m2 = oracle(w['g'], ''.join(tup), w['lexer'], w['mode'])
                except Exception:   # noqa
                    m2 = None
                if m2:
                    found = (dict(w, text=''.join(tup)), m2)
                    break
            if found:
                break
        if found:
            ctx.violation('oracle:' + found[1].split(' ')[0], found[0], True, found[1])
        else:
            ctx.violation('correspondence:loaded priority tables', dict(w, no_longer_checks='loaded rule/terminal priority '
                          'tables vs the model of the invert/None block'), False,
                          'the priorities loaded under priority=%r differ from the model of Lark.__init__ on the grammar tables' % (w['mode'],))
    # ---- determinism: fresh instances, repeated calls, fresh processes with other hash seeds ----
    rng.shuffle(det_cases)
    det = det_cases[:ctx.scale(150, 600)]
    for w, shown in det:
        p = fc.mk(w['g'], w['lexer'], 'resolve', w['mode'])
        a = fc.show_tree(p.parse(w['text']))
        b = fc.show_tree(p.parse(w['text']))
        ctx.count('determinism-in-process', nontrivial=False)
        if a != shown or b != shown:
            ctx.violation('determinism:in-process', w, True, 'repeated parse returned %r / %r, first %r' % (a, b, shown))
    # hash seeds: at least 4 in quick; the fixed tie corpus makes the sweep independent of VERIF_SEED
    seeds = list(range(4)) if not ctx.thorough() else list(range(25))
    corpus = [(dict(g=g, text=t, lexer=lx, mode=mode), None)
              for g, texts in TIE_CORPUS for t in texts for lx in ('basic', 'dynamic') for mode in ('normal', 'invert')]
    sweep = corpus + det
    payload = []
    for w, _ in sweep:
        payload.append(dict(g=w['g'], amb='resolve', lexer=w['lexer'], prio=w['mode'], text=w['text']))
        payload.append(dict(g=w['g'], amb='order', lexer=w['lexer'], prio=w['mode'], text=w['text']))
    from concurrent.futures import ThreadPoolExecutor
    with ThreadPoolExecutor(max_workers=4) as ex:
        outs = list(ex.map(lambda sd: fc.run_in_subprocess(payload, sd), seeds))
    ref = {}
    for sd, (res, err) in zip(seeds, outs):
        if res is None:
            ctx.violation('determinism:subprocess', {'no_longer_checks': 'hash seed sweep', 'detail': err}, False, err)
            continue
        for k, (w, shown) in enumerate(sweep):
            r, order = res[2 * k], res[2 * k + 1]
            ctx.count('determinism-hashseed' if shown is not None else 'determinism-tie-corpus', nontrivial=False, hashseed=sd)
            if shown is None:
                # corpus case: the in-process result is the reference
                if k not in ref:
                    try:
                        ref[k] = (fc.show_tree(fc.mk(w['g'], w['lexer'], 'resolve', w['mode']).parse(w['text'])), sd, order)
                    except Exception as e:   # noqa
                        ref[k] = ('EXC ' + type(e).__name__, sd, order)
                shown = ref[k][0]
            elif k not in ref:
                ref[k] = (shown, sd, order)
            if r != shown:
                ctx.violation('determinism:hashseed', dict(w, hashseed=sd, expected=shown), True,
                              'PYTHONHASHSEED=%d returned %r, in-process %r' % (sd, r, shown))
            elif order != ref[k][2]:
                # internal observation point, stricter than the resolved tree: the order of the packed children of
                # every symbol node (insertion order and `children` order) of the exported forest
                ctx.violation('determinism:packed-order', dict(w, kind='order', hashseeds=[ref[k][1], sd],
                                                               no_longer_checks='packed children order across hash seeds'),
                              False, 'the packed children of some symbol node are ordered differently under '
                              'PYTHONHASHSEED=%d and %d (the resolved tree agrees)' % (ref[k][1], sd))
    ctx.extra['hash_seeds'] = seeds


def replay(ctx, case):
    w = case.get('witness', case)
    if 'g' not in w:
        return False
    if w.get('ws'):
        try:
            return oracle_ws(w['g'], w['text'], w['lexer'], w['mode']) is not None
        except fc.Timeout:
            return True
    if w.get('kind') == 'order':
        outs = [fc.run_in_subprocess([dict(g=w['g'], amb='order', lexer=w['lexer'], prio=w['mode'], text=w['text'])], sd)[0]
                for sd in range(4)]
        return any(o != outs[0] for o in outs)
    if 'hashseed' in w:
        res, err = fc.run_in_subprocess([dict(g=w['g'], amb='resolve', lexer=w['lexer'], prio=w['mode'], text=w['text'])],
                                        w['hashseed'])
        return res is None or res[0] != w['expected']
    try:
        return fc.with_timeout(20, oracle, w['g'], w['text'], w['lexer'], w['mode']) is not None
    except fc.Timeout:
        return True
