"""C09 stream compile-structure: random nested EBNF expressions, lark's compiled rules against
Ebnf/Compile.compile_pruned (up to a renaming of helper rules), plus a language-level oracle."""
import re
from lib import coq_list as L, coq_Z as Z

IMPORTS_COMPILE = 'From LV Require Import Base.Prelude Cfg.Grammar Ebnf.Compile Ebnf.CompileCheck.'
NSYM = 3
SYMS = ['X0', 'X1', 'X2', 'w']          # w is a rule name: opaque to the compiler like a terminal
CHARS = 'abcd'


# expressions: ('sym', i) ('seq', [..]) ('alt', [..]) ('opt', e) ('star', e) ('plus', e) ('rep', e, mn, mx)
# generated in the shape lark's grammar parser produces: body/group = alt of seq, operands = sym or group
def gen_group(rng, depth, budget, single=False):
    nalt = 1 if single else rng.choice([1, 1, 2, 2, 3])
    return ('alt', [gen_seq(rng, depth, budget) for _ in range(nalt)])


def gen_seq(rng, depth, budget):
    n = rng.choice([0, 1, 1, 2, 2, 3]) if depth > 0 else rng.choice([1, 2, 2, 3, 3])
    return ('seq', [gen_item(rng, depth, budget) for _ in range(n)])


def gen_atom(rng, depth, budget):
    if depth >= 3 or budget[0] <= 0 or rng.random() < 0.5:
        return ('sym', rng.randrange(len(SYMS)))
    budget[0] -= 1
    return gen_group(rng, depth + 1, budget)


def alt_width(e):
    """number of alternatives the expression distributes to (upper bound)"""
    k = e[0]
    if k == 'sym':
        return 1
    if k == 'seq':
        w = 1
        for x in e[1]:
            w *= alt_width(x)
        return w
    if k == 'alt':
        return sum(alt_width(x) for x in e[1])
    if k == 'opt':
        return alt_width(e[1]) + 1
    if k == 'star':
        return 2
    if k == 'plus':
        return 1
    _, x, mn, mx = e
    if mx >= 50:
        return 1
    w = alt_width(x)
    return sum(w ** n for n in range(mn, mx + 1))


def gen_item(rng, depth, budget):
    a = gen_atom(rng, depth, budget)
    r = rng.random()
    if r < 0.4:
        return a
    if r < 0.52:
        return ('opt', a)
    if r < 0.64:
        return ('star', a)
    if r < 0.76:
        return ('plus', a)
    # ~ : small ranges, and a few large ones that go through small_factors
    if rng.random() < 0.2:
        mx = rng.choice([49, 50, 51, 52, 60, 64, 75, 100, 127])
        mn = rng.choice([mx, 0, 1, rng.randint(0, mx), max(0, mx - rng.randint(0, 7))])
        if mx < 50 and alt_width(a) > 1:
            mn = mx = rng.randint(0, 3)
        if mx >= 50 and alt_width(a) > 3:
            # the helper rules of the factored scheme repeat the operand up to 5 times: width ** 5 alternatives
            mn, mx = rng.randint(0, 2), 2
    else:
        mn = rng.randint(0, 3)
        mx = mn if rng.random() < 0.4 else mn + rng.randint(0, 3)
    e = ('rep', a, mn, mx)
    if alt_width(e) > 64:
        e = ('rep', a, min(mn, 2), min(mn, 2))
        if alt_width(e) > 64:
            return ('plus', a)
    return e


def gen_expr(rng):
    for _ in range(50):
        e = gen_group(rng, 0, [rng.choice([1, 2, 3, 4])])
        if alt_width(e) <= 400:
            return e
    return ('alt', [('seq', [('sym', 0)])])


def render(e, top=True):
    k = e[0]
    if k == 'sym':
        return SYMS[e[1]]
    if k == 'seq':
        return ' '.join(render(x, False) for x in e[1])
    if k == 'alt':
        s = ' | '.join(render(x, False) for x in e[1])
        return s if top else '(' + s + ')'
    if k == 'opt':
        return render(e[1], False) + '?'
    if k == 'star':
        return render(e[1], False) + '*'
    if k == 'plus':
        return render(e[1], False) + '+'
    _, x, mn, mx = e
    return render(x, False) + ('~%d' % mn if mn == mx and (mn + len(str(x))) % 2 else '~%d..%d' % (mn, mx))


def subexprs(e):
    yield e
    if e[0] in ('seq', 'alt'):
        for x in e[1]:
            yield from subexprs(x)
    elif e[0] != 'sym':
        yield from subexprs(e[1])


def grammar_text(e):
    return 'start: %s\nX0: "a"\nX1: "b"\nX2: "c"\nw: "d"\n' % render(e)


def coq_expr(e):
    k = e[0]
    if k == 'sym':
        return '(Sym %d)' % e[1]
    if k in ('seq', 'alt'):
        return '(%s %s)' % ('Seq' if k == 'seq' else 'Alt', L([coq_expr(x) for x in e[1]]))
    if k in ('opt', 'star', 'plus'):
        return '(%s %s)' % (k.capitalize(), coq_expr(e[1]))
    return '(Rep %s %s %s)' % (coq_expr(e[1]), Z(e[2]), Z(e[3]))


HELPER = re.compile(r'^__start_(?:star|plus|repeat_a\d+_b\d+(?:_opt)?)_(\d+)$')


def lark_rules(text):
    """[(lhs number, [symbols])] of the compiled rule start and its helpers, in lark's order"""
    from lark.load_grammar import load_grammar
    g, _used = load_grammar(text, '<c09>', [], False)
    _terms, rules, _ign = g.compile(['start'], set())
    out = []
    unknown = {}

    def num(name):
        if name == 'start':
            return 0
        m = HELPER.match(name)
        if not m:
            # a helper of a kind the model does not know: keep it (the structural comparison decides)
            return 900 + unknown.setdefault(name, len(unknown))
        return int(m.group(1)) + 1
    per_origin = {}
    for r in rules:
        if r.origin.name == 'w':
            continue
        o = num(r.origin.name)
        if r.order != per_origin.get(o, 0):
            raise ValueError('rule order field out of sequence for %s' % r.origin.name)
        per_origin[o] = r.order + 1
        syms = []
        for s in r.expansion:
            if s.name in SYMS:
                syms.append('T %d' % SYMS.index(s.name))
            else:
                syms.append('NT %d' % num(s.name))
        out.append((o, syms))
    return out


def coq_rules(rs):
    return L(['(%d, %s)' % (o, L(syms)) for o, syms in rs])


def coq_rules_text(rs):
    """the rules as a Coq string for CompileCheck.parse_rules"""
    return '"%s"' % ''.join('%d:%s;' % (o, ''.join(('t%s ' if s[0] == 'T' else 'n%s ') % s.split()[1] for s in syms))
                            for o, syms in rs)


# ---- the property's own oracle on the source expression ------------------------------------------
def ends(e, s, i, memo):
    """set of j such that e matches s[i:j] with the stated counts"""
    key = (id(e), i)
    if key in memo:
        return memo[key]
    k = e[0]
    if k == 'sym':
        out = {i + 1} if s[i:i + 1] == CHARS[e[1]] else set()
    elif k == 'seq':
        out = {i}
        for x in e[1]:
            out = {j2 for j in out for j2 in ends(x, s, j, memo)}
    elif k == 'alt':
        out = set()
        for x in e[1]:
            out |= ends(x, s, i, memo)
    else:
        if k == 'opt':
            x, lo, hi = e[1], 0, 1
        elif k == 'star':
            x, lo, hi = e[1], 0, None
        elif k == 'plus':
            x, lo, hi = e[1], 1, None
        else:
            _, x, lo, hi = e
        out = set()
        cur = {i}
        n = 0
        while cur and (hi is None or n <= hi) and n <= len(s) + lo + 1:
            if n >= lo:
                out |= cur
            cur = {j2 for j in cur for j2 in ends(x, s, j, memo)}
            n += 1
            if hi is None and n > lo and cur <= out:
                break
    memo[key] = out
    return out


def spec_accepts(e, s):
    return len(s) in ends(e, s, 0, {})


def words_upto(alphabet, n):
    out = ['']
    frontier = ['']
    for _ in range(n):
        frontier = [w + c for w in frontier for c in alphabet]
        out += frontier
    return out


def used_chars(e):
    k = e[0]
    if k == 'sym':
        return {CHARS[e[1]]}
    if k in ('seq', 'alt'):
        s = set()
        for x in e[1]:
            s |= used_chars(x)
        return s
    return used_chars(e[1])


def language_search(e, text, maxlen=6, limit=1200):
    """first word (shortlex) on which lark's acceptance differs from the stated counts, or None"""
    from lark import Lark
    from lark.exceptions import UnexpectedInput
    try:
        p = Lark(text, parser='earley')
    except Exception as ex:
        return ('<construct>', repr(ex)[:200])
    ab = sorted(used_chars(e)) or ['a']
    extra = [c for c in CHARS if c not in ab][:1]
    n = 0
    if any(x[0] == 'rep' and x[3] >= maxlen for x in subexprs(e)):
        # large ranges: words whose occurrence counts sit at and next to the bounds
        import random
        r = random.Random(len(text))
        seen = set()
        for _ in range(60):
            w = boundary_word(e, r)
            if len(w) > 400 or w in seen:
                continue
            seen.add(w)
            want = spec_accepts(e, w)
            try:
                p.parse(w)
                got = True
            except UnexpectedInput:
                got = False
            if got != want:
                return (w, want)
    for w in words_upto(ab + extra, maxlen):
        n += 1
        if n > limit:
            break
        want = spec_accepts(e, w)
        try:
            p.parse(w)
            got = True
        except UnexpectedInput:
            got = False
        if got != want:
            return (w, want)
    return None


# ---- shared-operand family: one operand under two or three different operators in one grammar ------------
# (the helper-rule cache of EBNF_to_BNF is shared by all operator sites of all rules)
OPERANDS = {
    'atom': ('sym', 0),
    'seqgroup': ('alt', [('seq', [('sym', 0), ('sym', 1)])]),
    'alt2': ('alt', [('seq', [('sym', 0)]), ('seq', [('sym', 1)])]),
    'alt3': ('alt', [('seq', [('sym', 0)]), ('seq', [('sym', 1)]), ('seq', [('sym', 2)])]),
}
SEP = ('sym', 3)


def apply_op(op, x):
    if op == '?':
        return ('opt', x)
    if op == '*':
        return ('star', x)
    if op == '+':
        return ('plus', x)
    return ('rep', x, op[0], op[1])


def op_text(op):
    return op if isinstance(op, str) else ('~%d' % op[0] if op[0] == op[1] else '~%d..%d' % op)


CORE_OPSETS = [('+', (5, 5)), ((4, 5), '+'), ('*', (5, 5)), ((3, 3), '*'), ('?', '+'), ((2, 4), (3, 3)),
               ('+', '*'), ('*', '?'), ((5, 5), (4, 5)), ('+', (2, 2), '*'), ((4, 5), '?', '+')]


def shared_cases(rng, n_random):
    """(label, grammar text, spec expression, operand expression, number of operator sites)"""
    out, seen = [], set()
    small_ops = ['?', '*', '+', (2, 2), (3, 3), (5, 5), (4, 5), (2, 4), (0, 2), (1, 3), (4, 4), (3, 5)]
    combos = []
    for i, ops in enumerate(CORE_OPSETS):
        for kind in ('alt3', ['atom', 'alt2', 'seqgroup'][i % 3]):
            for o in (ops, tuple(reversed(ops))):
                for tworules in (False, True):
                    combos.append((kind, o, tworules))
    for _ in range(n_random):
        k = rng.choice([2, 2, 2, 3])
        ops = tuple(rng.sample(small_ops, k))
        combos.append((rng.choice(list(OPERANDS)), ops, rng.random() < 0.5))
    for kind, ops, tworules in combos:
        x = OPERANDS[kind]
        width = alt_width(x)
        if any(not isinstance(o, str) and sum(width ** j for j in range(o[0], o[1] + 1)) > 330 for o in ops):
            ops = tuple(o if isinstance(o, str) else (min(o[0], 3), min(o[1], 3)) for o in ops)
            if len(set(ops)) < len(ops):
                continue
        items = []
        for j, o in enumerate(ops):
            if j:
                items.append(SEP)
            items.append(apply_op(o, x))
        spec = ('alt', [('seq', items)])
        if not tworules and alt_width(spec) > 350:
            tworules = True       # in one rule the alternatives of all sites multiply
        xt = render(x, False)
        if tworules:
            names = ['r%d' % j for j in range(len(ops))]
            body = ' w '.join(names)
            text = 'start: %s\n' % body + ''.join('%s: %s%s\n' % (nm, xt, op_text(o)) for nm, o in zip(names, ops))
        else:
            text = 'start: %s\n' % ' w '.join(xt + op_text(o) for o in ops)
        text += 'X0: "a"\nX1: "b"\nX2: "c"\nw: "d"\n'
        if text in seen:
            continue
        seen.add(text)
        out.append(('%s:%s:%s' % (kind, ','.join(op_text(o) for o in ops), 'rules' if tworules else 'one'),
                    text, spec, x, len(ops), tworules))
    return out


def sample_operand(x, rng):
    k = x[0]
    if k == 'sym':
        return CHARS[x[1]]
    if k == 'seq':
        return ''.join(sample_operand(y, rng) for y in x[1])
    return sample_operand(rng.choice(x[1]), rng)


def shared_words(x, nsites, rng):
    ks = range(0, 8) if nsites == 2 else (0, 1, 2, 5, 6)
    import itertools
    for counts in itertools.product(ks, repeat=nsites):
        yield counts, 'd'.join(''.join(sample_operand(x, rng) for _ in range(k)) for k in counts)


def boundary_word(e, r):
    """a word built with occurrence counts at / just outside the bounds of every operator"""
    k = e[0]
    if k == 'sym':
        return CHARS[e[1]]
    if k == 'seq':
        return ''.join(boundary_word(x, r) for x in e[1])
    if k == 'alt':
        return boundary_word(r.choice(e[1]), r) if e[1] else ''
    if k == 'opt':
        n = r.choice([0, 1, 1, 2])
    elif k == 'star':
        n = r.choice([0, 1, 2, 3])
    elif k == 'plus':
        n = r.choice([0, 1, 1, 2, 3])
    else:
        n = r.choice([e[2] - 1, e[2], e[2], e[3], e[3], e[3] + 1, (e[2] + e[3]) // 2])
        n = max(n, 0)
    return ''.join(boundary_word(e[1], r) for _ in range(n))


def factor_cases(rng, n):
    """rule bodies whose ~ ranges go through small_factors with factor lists that agree on a prefix and then differ
    in exactly one component (a or b), or agree on (a, b) after different prefixes: every component of the
    rules_cache keys of _add_repeat_rule / _add_repeat_opt_rule matters for at least one of them"""
    from lark.utils import small_factors
    sf = {k: small_factors(k, 5) for k in range(2, 140)}
    fam = {'same_a': [], 'same_b': [], 'same_ab_other_target': []}
    ks = sorted(sf)
    for i in ks:
        for j in ks:
            if j <= i or (i < 50 and j < 50):
                continue
            f, g = sf[i], sf[j]
            for t in range(min(len(f), len(g))):
                if f[:t] == g[:t] and f[t] != g[t]:
                    if f[t][0] == g[t][0]:
                        fam['same_a'].append((i, j))
                    elif f[t][1] == g[t][1]:
                        fam['same_b'].append((i, j))
                    elif t + 1 < min(len(f), len(g)) and f[t + 1] == g[t + 1]:
                        fam['same_ab_other_target'].append((i, j))
                    break
    out = []
    for name in sorted(fam):
        pairs = fam[name]
        if not pairs:
            continue
        for _ in range(n):
            i, j = rng.choice(pairs)
            if rng.random() < 0.5:
                i, j = j, i
            x = ('sym', 0) if rng.random() < 0.7 else ('alt', [('seq', [('sym', 0), ('sym', 1)])])
            y = x if rng.random() < 0.8 else ('sym', 2)
            if rng.random() < 0.5 and min(i, j) >= 50:
                a, b = ('rep', x, i, i), ('rep', y, j, j)                     # mn chains
            else:
                lo1, lo2 = rng.choice([0, 0, 1, 7]), rng.choice([0, 0, 2])
                a, b = ('rep', x, lo1, lo1 + i - 1), ('rep', y, lo2, lo2 + j - 1)   # diff chains (diff = i, j)
                if a[3] < 50 or b[3] < 50:
                    a, b = ('rep', x, 50, 50 + i - 1), ('rep', y, 50, 50 + j - 1)
            out.append(('alt', [('seq', [a, SEP, b])]))
    return out


# ---- nested-operator family: operator over group over operator, systematically --------------------------------
# (the operand of the outer operator is a group whose body is - or contains - another operator site; when the inner
# site is a large repeat the group's body is a bare helper non-terminal of the factored scheme)
NEST_INNER = ['?', '*', '+', (2, 2), (1, 3), (0, 2), (50, 50), (51, 51), (64, 64), (0, 50), (49, 50), (50, 52), (3, 60)]
NEST_OUTER = ['?', '*', '+', (2, 2), (0, 2), (1, 3)]
NEST_INNER_CORE = ['+', (2, 2), (50, 50), (0, 50), (50, 52)]
NEST_OUTER_CORE = ['?', '*', '+', (2, 2)]


def nested_cases():
    """(label, expression): deterministic, independent of the seed"""
    x = ('sym', 0)
    out = []

    def grp(*items):
        return ('alt', [('seq', list(items))])
    for io in NEST_INNER:
        for oo in NEST_OUTER:
            out.append(('plain:%s:%s' % (op_text(io), op_text(oo)), grp(apply_op(oo, grp(apply_op(io, x))))))
    for io in NEST_INNER_CORE:
        for oo in NEST_OUTER_CORE:
            out.append(('double:%s:%s' % (op_text(io), op_text(oo)),
                        grp(apply_op(oo, grp(grp(apply_op(io, x)))))))
            out.append(('trailing:%s:%s' % (op_text(io), op_text(oo)),
                        grp(apply_op(oo, grp(apply_op(io, x), ('sym', 1))))))
            out.append(('seqoperand:%s:%s' % (op_text(io), op_text(oo)),
                        grp(apply_op(oo, grp(apply_op(io, grp(x, ('sym', 1))))))))
    # a large repeat outside: the helper rules of the factored scheme repeat a group that holds an operator site
    for io in ('+', '?', (2, 2), (50, 50)):
        for oo in ((50, 50), (0, 50)):
            out.append(('plain:%s:%s' % (op_text(io), op_text(oo)), grp(apply_op(oo, grp(apply_op(io, x))))))
    # three levels
    for ops in (('+', (50, 50), '+'), ((50, 50), '+', '?'), ('*', (2, 2), (64, 64)), ((51, 51), '?', '+')):
        e = x
        for o in reversed(ops):
            e = grp(apply_op(o, e))
        out.append(('three:' + ':'.join(op_text(o) for o in ops), e))
    return out


def op_bounds(o):
    return {'?': (0, 1), '*': (0, None), '+': (1, None)}[o] if isinstance(o, str) else o


def nested_words(label, e, maxlen=420):
    """inputs with 0, 1, 2, 3 blocks whose occurrence counts sit at the inner bounds, and one off"""
    kind = label.split(':')[0]
    unit = 'ab' if kind == 'seqoperand' else 'a'
    tail = 'b' if kind == 'trailing' else ''
    inner = [x for x in subexprs(e) if x[0] in ('opt', 'star', 'plus', 'rep')]
    b = inner[-1]                                # the innermost operator site
    lo, hi = {'opt': (0, 1), 'star': (0, None), 'plus': (1, None)}.get(b[0]) or (b[2], b[3])
    hi2 = hi if hi is not None else lo + 2
    words = set()
    shapes = [[], [lo], [hi2], [lo, lo], [hi2, lo], [hi2, hi2], [lo, lo, lo]]
    if hi2 - lo > 8:
        # wide inner range: every split of a long input is a parse (cubic for Earley) - two blocks are enough
        shapes = [[], [lo], [hi2], [lo, lo], [hi2, lo]]
    for blocks in shapes:
        w = ''.join(unit * n + tail for n in blocks)
        for v in (w, w + unit[0], w[:-1] if w else w):
            if len(v) <= maxlen:
                words.add(v)
    return sorted(words, key=lambda v: (len(v), v))
