"""C06 - Token and tree positions are exact source coordinates."""
import re

from props import _positions as P

THEOREMS = ['C06_feed_tracks_coord', 'C06_advance_to_tracks_coord', 'C06_from_text_slice_coord', 'C06_coord_step',
            'C06_lexer_coords', 'C06_lexer_coords_under_H_nl', 'C06_dyn_coords_str', 'C06_dyn_coords_bytes',
            'C06_dyn_token_coords', 'C06_meta_span', 'C06_meta_passthrough', 'C06_meta_span_inlined_token_refuted',
            'C06_test_newline_false_refuted', 'C06_spans_ordered_nested', 'C06_example',
            'C06_tree_coords_exact', 'C06_tree_container_span', 'C06_tree_own_span', 'C06_tree_example',
            'C06_empty_child_example',
            'C06_propagate_regenerated', 'C06_propagate_no_attribute_error', 'C06_pp_alias_safe', 'C06_fork_keeps_counter',
            'C06_lexer_coords_fork', 'C06_recover_skip_tracks_coord', 'C06_lexer_coords_recovering',
            'C06_token_plumbing_keeps_positions', 'C06_recover_example', 'C06_tree_coords_exact_earley',
            'C06_dyn_tree_coords', 'C06_dyn_tree_example']
GEN_DEPS = ['LineCounter', 'LexStep', 'DynStep', 'PropPos', 'TokenFields', 'CounterCopy']
RULE = ('random token-soup grammars (1-4 kept + 0-2 ignored terminals from a regex fragment, 1-2 newline-capable '
        'terminals spelled \\n, \\r?\\n, [\\n], \\s, [^...], \\W, \\D, [\\t-\\r], (?s:.), \\x0a, [\\x00-\\x1f], global DOTALL; '
        'kept or ignored) and a fixed structured grammar (inlined ?rules, _rules, filtered punctuation, [optional] '
        'placeholders, possibly-empty rule, ignored whitespace/comments spelled 8 ways) x random inputs with newlines at '
        'arbitrary positions x {lalr/basic, lalr/contextual, earley/basic, earley/dynamic, earley/dynamic_complete} x '
        '{str, bytes} x {whole text, TextSlice window of prefix+text+suffix} x {parse, lex, lex(dont_ignore), scan}; '
        'non-trivial = distinct (grammar, configuration, representation, window, api, text) producing >= 2 tokens one '
        'of which lies on line >= 2; [round 12, always run] forks: parse_interactive + k tokens + copy()/copy.copy/'
        'as_immutable, the FORK lexing the rest, k = 0, 1, n and the first/last mid-line token of every line >= 2, '
        'str/bytes/windows, basic/contextual; on_error recovery: grammars without a newline terminal x inputs with stray '
        'unlexable characters incl. newlines, handler accepting every UnexpectedCharacters; callable propagate_positions '
        '(6 named filters) under lalr/contextual, earley/basic, earley/dynamic; __lark_meta__ children produced by an '
        'embedded transformer (one answering None)')
TRUSTED_BASE = ['coq/Pos/PosBase.v: reading of str/bytes count, rindex, index, slicing as list functions (validated on '
                'every recorded LineCounter call)',
                'translator/gen_positions.py templates pin the statement skeletons of LineCounter.__init__/feed/advance_to/'
                'from_text_slice, BasicLexer.next_token, Scanner.match, LexerState.__init__ and of the main loop and the '
                'token.end_* assignments of xearley.Parser._parse',
                'Python re is an oracle (scan): only "a match of length n at pos inside [pos, endpos)" is assumed; lexer '
                'callbacks other than the type-only UnlessCallback are not modelled',
                'translator/gen_positions.py (round 12) also pins PropagatePositions.__init__/__call__/_pp_get_meta, '
                'make_propagate_positions, Meta, Tree.__init__/meta, Token._future_new/__new__/new_borrow_pos/_future_update/'
                '__deepcopy__/__reduce__, UnexpectedCharacters.__init__ (line/column/pos_in_stream), LineCounter.__slots__ and its '
                'copy protocol, LexerState/LexerThread.__copy__, LALR_Parser.parse (on_error loop), and rejects any write to a '
                'LineCounter field outside class LineCounter anywhere under lark/',
                'coq/Pos/RawMeta.v: reading of getattr(src, name, default) with an eagerly evaluated default, hasattr, and of '
                'the three-way classification of children in _pp_get_meta; a Token attribute that is None is outside the model',
                'Earley routes: the derivation handed to the callbacks is any derivation tree over the lexer tokens; the forest '
                'walk itself (which derivation) is C03/C05/C20 business']
ASSUMPTIONS = ['input is ASCII/latin-1 (one character = one byte); newline is "\\n"',
               'meta_span holds inside the class [good]: an inlined ?rule that returns a bare Token matched no other '
               '(filtered) token - outside it finding F23 applies']
ALLOWED_AXIOMS = []


def witness(g, parser, lexer, text, rep, window, api, extra):
    return dict(grammar=g, parser=parser, lexer=lexer, text=text, rep=rep, window=list(window) if window else None,
                api=api, extra=[[k, v if isinstance(v, str) else int(v)] for k, v in extra])


def run_witness(w):
    return P.run_case(w['grammar'], w['parser'], w['lexer'], w['text'], w['rep'],
                      tuple(w['window']) if w.get('window') else None, w['api'],
                      tuple((k, v) for k, v in w.get('extra', [])))


def oracle(out):
    """list of (stage, message): every way the run violates C06 by the property's own definition"""
    bad = []
    if out['kind'] == 'unsupported':
        return bad
    for t in P.result_tokens(out):
        m = P.token_claim(out['buf'], t, out['dynamic'], out['a'], out['b'])
        if m:
            bad.append(('token-coordinates', m))
    for m in P.meta_violations(out):
        bad.append(('tree-meta', m))
    special = any(c['custom'] or c['filtered'] for c in out['tracer'].pp_calls)
    if out['kind'] == 'ok' and not special:      # with a node_filter / __lark_meta__ a child may lie outside its parent
        from lark import Tree
        if isinstance(out['result'], Tree):
            nb = []
            P.spans_nested(out['result'], nb)
            bad += [('tree-meta-nesting', m) for m in nb]
    if out['kind'] == 'error' and out['sig'][0] == 'AttributeError' and not any(c['custom'] for c in out['tracer'].pp_calls):
        # PropagatePositions read a position attribute that is not there (a meta with one end only)
        bad.append(('tree-meta', 'building the tree raised AttributeError: %s' % str(out['error'])[:120]))
    if out['kind'] == 'error' and out['sig'][0] == 'UnexpectedCharacters':
        _, pos, ln, col = out['sig'][:4]
        if (ln, col) != P.coord(out['buf'], pos):
            bad.append(('error-coordinates', 'UnexpectedCharacters at offset %d reports %r, exact %r'
                        % (pos, (ln, col), P.coord(out['buf'], pos))))
    return bad


# ---------------------------------------------------------------------------------------------- exotic
F1_CASES = [
    ('F1:nonword-class', 'start: (A|B)+\nA: /a/\nB: /\\W/\n', (), 'a\na'),
    ('F1:nondigit-class', 'start: (A|B)+\nA: /1/\nB: /\\D/\n', (), '1\n1'),
    ('F1:range-class', 'start: (A|B)+\nA: /a/\nB: /[\\t-\\r]/\n', (), 'a\na'),
    ('F1:global-dotall', 'start: (A|B)+\nA: /a/\nB: /./\n', (('g_regex_flags', re.S),), 'a\na'),
]
F23_CASES = [
    ('F23:inlined-token-loses-container', 'start: atom "x"\n?atom: "(" NUM ")"\nNUM: /[0-9]+/\n', '(1)x'),
    ('F23:inlined-token-loses-container', 'start: "y" atom\n?atom: "(" NUM ")"\nNUM: /[0-9]+/\n', 'y(1)'),
]


# an EMPTY child tree handed through an inlined rule as the LAST / FIRST positioned child (the boundary family only has
# it between two tokens): where looking up last_meta after res_meta was written makes the result its own last child
EMPTY_EDGE = ('start: item+\n?item: "[" emp "]" | "<" emp | emp2 ">" | NAME -> name\nemp:\nemp2:\nNAME: /[a-z]+/\n%ignore /[ \\n]+/\n',
              ['<', '>', '<>', 'a<', '>a', '[]<', '<\n>', '< <\n<'])


def exotic(col):
    for key, g, extra, text in F1_CASES:
        for parser, lexer in (('lalr', 'basic'), ('lalr', 'contextual'), ('earley', 'basic')):
            for rep in ('str', 'bytes'):
                col.run('exotic-F1', g, parser, lexer, text, rep, None, 'parse', extra, key=key)
    for lexer in P.DYNAMIC:
        col.run('exotic-F2', 'start: (A|B)+\nA: /a/\nB: /\\n/\n', 'earley', lexer, 'a\na\n\na', 'bytes', None, 'parse', (),
                key='F2:dynamic-bytes-line')
    for key, g, text in F23_CASES:
        for parser, lexer in (('lalr', 'contextual'), ('earley', 'dynamic')):
            col.run('exotic-F23', g, parser, lexer, text, 'str', None, 'parse', (), key=key)


# ---------------------------------------------------------------------------------------------- main
def correspond(ctx):
    rng = ctx.rng
    col = P.Collector(ctx, 'c06', oracle, witness, run_witness)
    mult = 3 if ctx.widen else 1
    # 1. token-soup grammars
    for gi in range(ctx.scale(32, 200) * mult):
        if P.enough(ctx):
            break
        g, pieces, extra = P.gen_flat_grammar(rng)
        for ii in range(3):
            text = P.gen_flat_input(rng, pieces)
            for parser, lexer in P.CONFIGS:
                rep = 'bytes' if rng.random() < 0.35 else 'str'
                col.run('soup', g, parser, lexer, text, rep, None, 'parse', extra)
                if lexer in P.DYNAMIC:
                    continue
                if rng.random() < 0.5:
                    win = (rng.choice(P.WINDOW_PARTS), rng.choice(P.WINDOW_PARTS))
                    col.run('soup', g, parser, lexer, text, rng.choice(['str', 'bytes']), win, 'parse', extra)
                if lexer == 'basic' and rng.random() < 0.4:
                    win = (rng.choice(P.WINDOW_PARTS), rng.choice(P.WINDOW_PARTS)) if rng.random() < 0.5 else None
                    col.run('soup', g, parser, lexer, text, 'str', win, rng.choice(['lex', 'lex_all']), extra)
            if rng.random() < 0.3:
                col.run('scan', g, 'lalr', 'contextual', text + rng.choice(['', '\n', ' ?']) + text, 'str',
                        (rng.choice(P.WINDOW_PARTS), '') if rng.random() < 0.5 else None, 'scan', extra)
    # 2. structured grammar: tree metas
    for gi in range(ctx.scale(6, 30) * mult):
        if P.enough(ctx):
            break
        g, comments = P.gen_struct_grammar(rng)
        for ii in range(ctx.scale(6, 12)):
            text = P.gen_struct_input(rng, comments)
            for parser, lexer in P.CONFIGS:
                if lexer == 'dynamic_complete' and len(text) > 60:
                    continue
                rep = 'bytes' if rng.random() < 0.3 else 'str'
                col.run('struct', g, parser, lexer, text, rep, None, 'parse', ())
                if lexer not in P.DYNAMIC and rng.random() < 0.4:
                    win = (rng.choice(P.WINDOW_PARTS), rng.choice(P.WINDOW_PARTS))
                    col.run('struct', g, parser, lexer, text, rep, win, 'parse', ())
            if rng.random() < 0.3:
                col.run('scan', g, 'lalr', 'contextual', '?? ' + text + ' ?\n' + text, 'str', None, 'scan', ())
    # 2b. boundary family (fixed): inputs starting at offset 0 with a filtered opening token and ending with a
    #     filtered closing token, under every configuration, as whole texts and as windows at offset 0 and > 0
    for g, texts in P.BOUNDARY:
        for text in texts:
            for parser, lexer in P.CONFIGS:
                for win in P.BOUNDARY_WINDOWS:
                    if win is not None and lexer in P.DYNAMIC:
                        continue
                    col.run('boundary', g, parser, lexer, text, 'bytes' if (win and win[0] == 'ab') else 'str', win, 'parse', ())
    for text in EMPTY_EDGE[1]:
        for parser, lexer in P.CONFIGS:
            col.run('boundary', EMPTY_EDGE[0], parser, lexer, text, 'str', None, 'parse', ())
    # 2c. forks: the copied lexer state lexes the rest (systematic fork points, three ways of forking)
    for g, texts in P.FORK_GRAMMARS + [(P.BOUNDARY[0][0], ['(1\n+2)*\n(3)', '( 1 )\n * (2\n + 3)'])]:
        for ti, text in enumerate(texts):
            for lexer in ('basic', 'contextual'):
                for rep, win in (('str', None), ('bytes', None), ('str', ('x\n y', '\n')), ('bytes', ('\n', ''))):
                    if win is not None and lexer == 'basic' and ti % 2:
                        continue
                    lk = P.get_lark(g, 'lalr', lexer, rep == 'bytes')
                    if isinstance(lk, Exception):
                        continue
                    inp, buf, a = P.make_input(text, rep, win)
                    for k in P.fork_points(lk, inp, buf):
                        mode = P.FORK_MODES[(k + ti) % 3]
                        col.run('fork', g, 'lalr', lexer, text, rep, win, 'forkat:%d:%s' % (k, mode), ())
    for gi in range(ctx.scale(3, 12) * mult):
        g, comments = P.gen_struct_grammar(rng)
        for ii in range(ctx.scale(4, 10)):
            text = P.gen_struct_input(rng, comments)
            lexer = rng.choice(['basic', 'contextual'])
            rep = rng.choice(['str', 'bytes'])
            win = (rng.choice(P.WINDOW_PARTS), rng.choice(P.WINDOW_PARTS)) if rng.random() < 0.4 else None
            lk = P.get_lark(g, 'lalr', lexer, rep == 'bytes')
            if isinstance(lk, Exception):
                continue
            ks = P.fork_points(lk, P.make_input(text, rep, win)[0], None)
            for k in rng.sample(ks, min(2, len(ks))):
                col.run('fork', g, 'lalr', lexer, text, rep, win, 'forkat:%d:%s' % (k, rng.choice(P.FORK_MODES)), ())
    # 2d. on_error recovery: stray characters, newlines among them, stepped over by the parser's recovery loop
    for gi, (g, groups) in enumerate(P.RECOVER_GRAMMARS):
        texts = (P.RECOVER_FIXED if gi == 0 else ['a\n(b\n c)\n\n; $ (d)', '\n\na']) + \
                [P.gen_recover_input(rng, groups) for _ in range(ctx.scale(8, 40) * mult)]
        for ti, text in enumerate(texts):
            for lexer in ('basic', 'contextual'):
                rep = 'bytes' if (ti + (lexer == 'basic')) % 2 else 'str'
                col.run('recover', g, 'lalr', lexer, text, rep, None, 'on_error', ())
                if ti % 3 == 0:
                    col.run('recover', g, 'lalr', lexer, text, 'str' if rep == 'bytes' else 'bytes', ('q\n\nr', '\n'), 'on_error', ())
    # 2e. callable propagate_positions: the span is taken over the children the filter accepts
    sg, _ = P.gen_struct_grammar(rng)
    ftexts = ['a = (1);\n{ f(2, x); }', '[ ]\n<{ v = @!7 + (2); }>', 'go();\nfoo = 1 + 23 + (a);', '{ { [ ] } }\n a = 1;',
              'f((1), 2,\n 3);'] + [P.gen_struct_input(rng, []) for _ in range(ctx.scale(3, 10))]
    for name in sorted(P.PP_FILTERS):
        for parser, lexer in (('lalr', 'contextual'), ('earley', 'basic'), ('earley', 'dynamic')):
            for text in ftexts:
                col.run('filter', sg, parser, lexer, text, 'str', None, 'parse', (('pp_filter', name),), all_pp=True)
            for bg, btexts in P.BOUNDARY[:2]:
                for text in btexts[:4]:
                    col.run('filter', bg, parser, lexer, text, 'str', None, 'parse', (('pp_filter', name),), all_pp=True)
    # 2f. children that offer positions through __lark_meta__ (results of an embedded transformer)
    for lexer in ('basic', 'contextual'):
        for text in P.CUSTOM_TEXTS:
            col.run('custom-meta', P.CUSTOM_GRAMMAR, 'lalr', lexer, text, 'str', None, 'parse', (('transformer', 'boxing'),),
                    all_pp=True)
    # 3. fixed exotic witnesses (F1, F2 repaired: these pass; F23 is a listed finding)
    exotic(col)
    col.check()


def replay(ctx, case):
    w = case['witness']
    if 'grammar' not in w:
        return False
    return bool(oracle(run_witness(w)))
