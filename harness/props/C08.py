"""C08 - Rejections are UnexpectedInput errors at the first offending position."""
import itertools
import signal

import cfgutil as C
from lib import coq_list as L, coq_nat as N

THEOREMS = ['C08_valid_prefix', 'C08_expected_sound', 'C08_expected_complete', 'C08_first_offending_token', 'C08_model_expected_exact',
            'C08_example',
            'C08_lalr_valid_items_viable', 'C08_lalr_shift_viable', 'C08_lalr_error_not_late', 'C08_lalr_accepts_sound',
            'C08_lalr_example',
            'C08_lalr_never_early', 'C08_lalr_error_position_exact', 'C08_lalr_accepts_exact',
            'C08_lalr_never_early_needs_conflict_free',
            'C08_dynamic_tilings', 'C08_dynamic_expected_exact', 'C08_dynamic_error_not_early', 'C08_dynamic_report_chars',
            'C08_dynamic_report_eof', 'C08_dynamic_report_example', 'C08_dynamic_error_late_refuted',
            'C08_nonproductive_refuted', 'C08_earley_error_decisions_are_source',
            'C08_contextual_fallback_expected_covers_accepts']
# EarleySteps / ErrorSites: translator/gen_earley.py (raise sites and their decision conditions in earley.py / xearley.py,
# ContextualLexer fallback, exception constructors, parse_from_state); LexStep pins BasicLexer.next_token (the lexer's
# UnexpectedCharacters), InterHoles pins ParserState.feed_token (the parser's UnexpectedToken) and InteractiveParser.accepts;
# DynStep regenerates the line/column bookkeeping of xearley used by the report model
GEN_DEPS = ['EarleySteps', 'ErrorSites', 'LexStep', 'InterHoles', 'DynStep']
RULE = ('random CFGs with every rule productive (<=4 non-terminals, <=3 single-character terminals, nullable / recursive / '
        'ambiguous), all strings up to length 4 over the alphabet (+ a foreign character) and sampled longer ones; every '
        'rejected input is checked under earley x {basic, dynamic, dynamic_complete} and, when the grammar is LALR, lalr x '
        '{basic, contextual}: exception class, position vs the longest viable prefix computed by an independent recogniser, '
        'continuation sets. non-trivial = distinct (grammar, input, engine) rejected after at least one token was consumed')
TRUSTED_BASE = ['dynamic-lexer report: hand model Earley/DynReport.v over Earley/Dyn.v (tied by comparing, in Coq, position / line / column / '
                'allowed / considered items / state with the exception lark raises, on recorded regex answers); the regex engine is an '
                'oracle; the contextual-lexer fallback is modelled at set level only (Gen/ErrorSites.v + stream always-accept)',
                'theorems are about the specification chart (Earley/Spec.v); that the code computes this chart is C01 '
                '(Earley/Alg model + correspondence); the LALR half is tied by C02/C13 driver models and by this differential',
                'harness/cfgutil.py: independent saturation recogniser used as the viable-prefix oracle']
ASSUMPTIONS = ['dynamic lexers: the reported position is proved never early; it can be late when an ignored match starts at a '
               'position whose column is empty (finding F52) - the main streams use whitespace ignores, which cannot start inside a '
               'pending terminal match',
               'earliest-position claim is stated for grammars whose rule bodies are all productive (finding F10 otherwise)',
               'CYK raises ParseError without position: only the exception class is checked']
ENGINES = [('earley', 'basic'), ('earley', 'dynamic'), ('earley', 'dynamic_complete'), ('lalr', 'basic'), ('lalr', 'contextual')]


class Timeout(Exception):
    pass


def _alarm(signum, frame):
    raise Timeout()


def with_timeout(fn, secs=20):
    old = signal.signal(signal.SIGALRM, _alarm)
    signal.alarm(secs)
    try:
        return fn()
    finally:
        signal.alarm(0)
        signal.signal(signal.SIGALRM, old)


def check_rejection(ctx, rules, ts, g, parser, lexer, p, toks, text, exotic=False, key=None):
    """returns None or (description) on a property failure"""
    from lark.exceptions import UnexpectedInput, UnexpectedCharacters, UnexpectedToken, UnexpectedEOF
    try:
        with_timeout(lambda: p.parse(text))
        return 'accepted'
    except Timeout:
        return 'hang: parse did not return within the time limit'
    except UnexpectedInput as e:
        err = e
    except Exception as e:  # noqa
        return 'raised %s instead of an UnexpectedInput subclass' % type(e).__name__
    known = [t for t in toks if t in ts]
    vl = C.viable_len(rules, ts, toks)            # tokens foreign to the grammar are never viable
    n = len(toks)
    # -- position -------------------------------------------------------------------------------
    if vl == n:
        # whole input is a proper prefix of a sentence
        if parser == 'earley':
            if not isinstance(err, UnexpectedEOF):
                return 'input is a proper prefix of a sentence: expected UnexpectedEOF, got %s' % type(err).__name__
        else:
            if not (isinstance(err, UnexpectedToken) and err.token.type == '$END'):
                return 'input is a proper prefix of a sentence: expected UnexpectedToken($END), got %s' % type(err).__name__
            if n > 0 and (err.line, err.column) != (1, n):
                return '$END error should carry the coordinates of the last token (1,%d), got (%s,%s)' % (n, err.line, err.column)
        pos = n
    else:
        if isinstance(err, UnexpectedEOF):
            return 'UnexpectedEOF although token %d cannot continue any sentence' % vl
        if isinstance(err, UnexpectedToken) and err.token.type == '$END':
            return 'error reported at end of input although token %d is the first offending one' % vl
        pos = err.pos_in_stream if isinstance(err, UnexpectedCharacters) else err.token.start_pos
        if pos != vl:
            return 'error reported at offset %s but the first offending token is at %d' % (pos, vl)
        if (err.line, err.column) != (1, vl + 1):
            return 'error coordinates (%s,%s) differ from (1,%d)' % (err.line, err.column, vl + 1)
    # -- continuation sets --------------------------------------------------------------------------
    legal = C.next_terminals(rules, ts, toks[:pos]) or set()
    if C.accepts(rules, toks[:pos]):
        legal_end = True
    else:
        legal_end = False
    if parser == 'earley' and lexer != 'basic':
        got = set(getattr(err, 'allowed', None) or getattr(err, 'expected', None) or [])
        if hasattr(ctx, 'exp_cases') and all(t in ts for t in toks[:pos]) and got <= set(ts) and len(ctx.exp_cases) < ctx.scale(500, 5000):
            # model tie: the expected set of the executable Earley model on the consumed tokens (evaluated in Coq)
            ctx.exp_cases.append(coq_expected_case(rules, ts, toks[:pos], got))
            ctx.exp_meta.append(dict(grammar=g, parser=parser, lexer=lexer, text=text, consumed=pos, observed=sorted(got)))
        if got != legal:
            return 'dynamic Earley: expected/allowed %s but the terminals that can come next are %s' % (sorted(got), sorted(legal))
    elif parser == 'earley':
        if isinstance(err, UnexpectedToken) or isinstance(err, UnexpectedEOF):
            got = set(err.expected or [])
            if not legal <= got:
                return 'Earley/basic: expected %s misses legal continuation(s) %s' % (sorted(got), sorted(legal - got))
        elif isinstance(err, UnexpectedCharacters):
            # the input was rejected by the LEXER (a character no terminal matches): the continuation set is `allowed`
            got = set(err.allowed or [])
            if not legal <= got:
                return 'Earley/basic, rejected by the lexer: allowed %s misses legal continuation(s) %s' % (
                    sorted(got), sorted(legal - got))
    else:
        if isinstance(err, UnexpectedToken):
            acc = set(err.accepts or []) - {'$END'}
            exp = set(err.expected or [])
            if not acc <= legal:
                return 'LALR: accepts %s contains %s which cannot come next' % (sorted(acc), sorted(acc - legal))
            if not acc <= exp:       # $END is not a terminal; the statement speaks about terminals
                return 'LALR: accepts %s not included in expected %s' % (sorted(acc), sorted(exp))
            if '$END' in (err.accepts or []) and not legal_end:
                return 'LALR: accepts contains $END but the consumed prefix is not a sentence'
    return None


def build(g, parser, lexer):
    from lark import Lark
    return with_timeout(lambda: Lark(g, parser=parser, lexer=lexer), 30)


def lalr_conflict_free(rules, ts):
    """The LALR claims of C08 (like C02's completeness) are about conflict-free grammars: with a shift/reduce
    conflict resolved as shift the parser's language is smaller than the grammar's. strict=True makes lark raise."""
    from lark import Lark
    from lark.exceptions import GrammarError, LexError
    try:
        with_timeout(lambda: Lark(C.to_lark(rules, ts), parser='lalr', strict=True), 30)
        return True
    except (GrammarError, LexError):
        return False


IMPORTS = 'From LV Require Import Cfg.Grammar Earley.Alg Earley.Expected.'


def coq_expected_case(rules, ts, toks, observed):
    nts = []
    for a, _ in rules:
        if a not in nts:
            nts.append(a)
    nid = {a: i for i, a in enumerate(nts)}
    tid = {t: i for i, t in enumerate(ts)}

    def sym(x):
        return '(NT %d)' % nid[x] if x in nid else '(T %d)' % tid[x]
    rl = L(['(%d, %s)' % (nid[a], L([sym(x) for x in rhs]) if rhs else '@nil symbol') for a, rhs in rules])
    return '(%s, %d, %s, %s)' % (rl, nid['start'],
                                 L([str(tid[t]) for t in toks]) if toks else '@nil nat',
                                 L([str(tid[t]) for t in sorted(observed)]) if observed else '@nil nat')


def correspond(ctx):
    from lark.exceptions import GrammarError
    rng = ctx.rng
    ctx.exp_cases, ctx.exp_meta = [], []
    ngr = ctx.scale(90, 700) * (2 if ctx.widen else 1)
    sampled = 0
    for gi in range(ngr):
        rules, ts = (C.gen_nullable_prefix_cfg(rng) if gi % 4 == 3 else C.gen_context_cfg(rng)) if gi % 2 == 1 else C.gen_cfg(rng)
        prod = C.productive(rules, ts)
        if any(a not in prod or any(s not in prod for s in rhs) for a, rhs in rules):
            continue            # outside the theorem's hypothesis (F10); see the exotic stream
        reach = C.reachable(rules)
        rules = [r for r in rules if r[0] in reach]
        ts_used = [t for t in ts if any(t in rhs for _, rhs in rules)]
        if not ts_used:
            continue
        g = C.to_lark(rules, ts_used)
        chars = {t: t.lower() for t in ts_used}
        inputs = [w for n in range(0, 5) for w in itertools.product(ts_used + ['z'], repeat=n)]
        rng.shuffle(inputs)
        inputs = inputs[:ctx.scale(40, 160)]
        # one-token corruptions of sentences (errors deep inside a context)
        for w in [w for n in range(2, 6) for w in itertools.product(ts_used, repeat=n) if C.accepts(rules, list(w))][:12]:
            k = rng.randrange(len(w))
            inputs.append(w[:k] + (rng.choice(ts_used),) + w[k + 1:])
            inputs.append(w[:k + 1] + (rng.choice(ts_used),) + w[k + 1:])
        # lexer-level rejections at EVERY short viable prefix: u + a character no terminal matches (the error is raised by
        # the lexer, or by the dynamic scanner, right where u ends; its continuation set must cover next_terminals(u))
        vps = [w for n in range(0, 4) for w in itertools.product(ts_used, repeat=n)
               if C.viable_len(rules, ts_used, list(w)) == n]
        for w in vps[:ctx.scale(24, 80)]:
            if w + ('z',) not in inputs:
                inputs.append(w + ('z',))
        lalr_ok = lalr_conflict_free(rules, ts_used)
        for parser, lexer in ENGINES:
            if parser == 'lalr' and not lalr_ok:
                continue       # shift/reduce or reduce/reduce conflict: outside the LALR claims
            try:
                p = build(g, parser, lexer)
            except GrammarError:
                continue
            except Timeout:
                ctx.violation('construct-hang', {'grammar': g, 'parser': parser, 'lexer': lexer}, True, 'parser construction hangs')
                continue
            except Exception as ex:  # noqa
                ctx.violation('construct', {'grammar': g, 'parser': parser, 'lexer': lexer, 'error': repr(ex)[:200]}, True,
                              'construction raised %s' % type(ex).__name__)
                continue
            for w in inputs:
                toks = list(w)
                if 'z' not in toks and C.accepts(rules, toks):
                    continue
                text = ''.join(chars.get(t, 'z') for t in toks)
                msg = check_rejection(ctx, rules, ts_used, g, parser, lexer, p, toks, text)
                vl = C.viable_len(rules, ts_used, toks)
                ctx.count('rejections', key=(g, parser, lexer, text), nontrivial=vl >= 1,
                          engine='%s/%s' % (parser, lexer), viable_prefix_len=min(vl, 4))
                if sampled < 4 and vl >= 1:
                    sampled += 1
                    ctx.sample({'grammar': g, 'engine': [parser, lexer], 'input': text, 'first_offending_token': vl})
                if msg:
                    ctx.violation('rejection', {'grammar': g, 'parser': parser, 'lexer': lexer, 'text': text,
                                                'rules': [[a, list(r)] for a, r in rules], 'terminals': ts_used}, True, msg)
    bad, errs = ctx.coq_bad_indices('c08exp', IMPORTS, 'expected_check', ctx.exp_cases, chunk=300)
    for e in errs:
        ctx.violation('correspondence:coq-eval', {'error': e}, False, e[:300])
    for i in bad:
        m = ctx.exp_meta[i]
        ctx.violation('correspondence:Earley/Expected.expected_at vs UnexpectedCharacters.allowed',
                      dict(m, no_longer_checks='expected set of the Earley model vs lark'), False,
                      'model and lark disagree on the expected set after %d tokens of %r (the viable-prefix oracle agrees with lark)' % (m['consumed'], m['text']))
    ignore_stream(ctx)
    always_accept_stream(ctx)
    dyn_report_stream(ctx)
    custom_lexer_stream(ctx)
    on_error_stream(ctx)
    # CYK: ParseError, never something else
    try:
        from lark import Lark
        from lark.exceptions import ParseError
        p = Lark('start: A B\nA: "a"\nB: "b"\n', parser='cyk')
        for text in ['a', 'ba', 'abb', '']:
            try:
                p.parse(text)
                ctx.violation('cyk', {'text': text}, True, 'CYK accepted a non-sentence')
            except ParseError:
                ctx.count('cyk', key=text, nontrivial=False)
            except Exception as ex:  # noqa
                ctx.violation('cyk', {'text': text, 'error': repr(ex)[:200]}, True, 'CYK raised %s' % type(ex).__name__)
    except Exception as ex:  # noqa
        ctx.note('cyk stream skipped: %r' % (ex,))
    # exotic: F10 (non-productive rule delays the error position)
    g10 = 'start: "a" x | "a" "b"\nx: "c" x\n'
    rules10 = [('start', ('A', 'x')), ('start', ('A', 'B')), ('x', ('C', 'x'))]
    for parser, lexer in ENGINES:
        try:
            p = build(g10, parser, lexer)
        except Exception:
            continue
        from lark.exceptions import UnexpectedInput, UnexpectedCharacters
        try:
            p.parse('accd')
        except UnexpectedInput as e:
            pos = e.pos_in_stream if isinstance(e, UnexpectedCharacters) else getattr(e.token, 'start_pos', None)
            ctx.count('exotic-F10', key=(parser, lexer), nontrivial=False)
            if pos != 1:
                ctx.violation('exotic-F10', {'grammar': g10, 'parser': parser, 'lexer': lexer, 'text': 'accd',
                                             'reported_offset': pos, 'first_offending_offset': 1}, True,
                              'non-productive rule x: "c" x: error reported at offset %s, first offending token is at 1' % pos,
                              key='F10:nonproductive-rule-delays-error')


def ignore_stream(ctx):
    """Grammars with `%ignore " "`: ignored text before, between and after the tokens (in particular a truncated input that
    ends in ignored text must still be reported as UnexpectedEOF / $END with the right continuation set)."""
    from lark.exceptions import GrammarError, UnexpectedInput, UnexpectedCharacters, UnexpectedToken, UnexpectedEOF
    rng = ctx.rng
    for gi in range(ctx.scale(25, 250)):
        rules, ts = C.gen_context_cfg(rng) if gi % 3 == 2 else C.gen_cfg(rng)
        prod = C.productive(rules, ts)
        if any(a not in prod or any(x not in prod for x in rhs) for a, rhs in rules):
            continue
        reach = C.reachable(rules)
        rules = [r for r in rules if r[0] in reach]
        ts_used = [t for t in ts if any(t in rhs for _, rhs in rules)]
        if not ts_used:
            continue
        g = C.to_lark(rules, ts_used) + '%ignore " "\n'
        lalr_ok = lalr_conflict_free(rules, ts_used)
        words = [w for n in range(0, 5) for w in itertools.product(ts_used, repeat=n)]
        rng.shuffle(words)
        for parser, lexer in ENGINES:
            if parser == 'lalr' and not lalr_ok:
                continue
            try:
                p = build(g, parser, lexer)
            except (GrammarError, Timeout):
                continue
            for w in words[:ctx.scale(25, 60)]:
                toks = list(w)
                if C.accepts(rules, toks):
                    continue
                # spread blanks: before, between and after the tokens
                gaps = [' ' * rng.choice([0, 0, 1, 2]) for _ in range(len(toks) + 1)]
                if rng.random() < 0.6:
                    gaps[-1] = ' ' * rng.randint(1, 2)
                text = gaps[0]
                offs = []
                for t, gap in zip(toks, gaps[1:]):
                    offs.append(len(text))
                    text += t.lower() + gap
                vl = C.viable_len(rules, ts_used, toks)
                try:
                    with_timeout(lambda: p.parse(text))
                    msg = 'accepted a non-sentence'
                except Timeout:
                    msg = 'hang'
                except UnexpectedInput as e:
                    msg = None
                    if vl == len(toks):
                        if parser == 'earley' and not isinstance(e, UnexpectedEOF):
                            msg = 'proper prefix of a sentence (ending in ignored text: %r): expected UnexpectedEOF, got %s' % (
                                gaps[-1], type(e).__name__)
                        elif parser == 'lalr' and not (isinstance(e, UnexpectedToken) and e.token.type == '$END'):
                            msg = 'proper prefix of a sentence: expected UnexpectedToken($END), got %s' % type(e).__name__
                        pos = len(toks)
                    else:
                        if isinstance(e, UnexpectedEOF) or (isinstance(e, UnexpectedToken) and e.token.type == '$END'):
                            msg = 'end-of-input error although token %d is the first offending one' % vl
                        else:
                            at = e.pos_in_stream if isinstance(e, UnexpectedCharacters) else e.token.start_pos
                            if at != offs[vl]:
                                msg = 'error reported at offset %s, the first offending token starts at %d' % (at, offs[vl])
                        pos = vl
                    if msg is None and parser == 'earley' and lexer != 'basic':
                        legal = C.next_terminals(rules, ts_used, toks[:pos]) or set()
                        got = set(getattr(e, 'allowed', None) or getattr(e, 'expected', None) or [])
                        if got != legal:
                            msg = 'dynamic Earley with %%ignore: expected/allowed %s, legal continuations %s' % (sorted(got), sorted(legal))
                except Exception as e:  # noqa
                    msg = 'raised %s instead of an UnexpectedInput subclass' % type(e).__name__
                ctx.count('rejections-ignore', key=(g, parser, lexer, text), nontrivial=vl >= 1,
                          trailing_ignored=bool(gaps[-1]), eof_case=(vl == len(toks)))
                if msg:
                    ctx.violation('rejection-ignore', {'grammar': g, 'parser': parser, 'lexer': lexer, 'text': text, 'kind': 'ignore',
                                                       'rules': [[a, list(r)] for a, r in rules], 'terminals': ts_used}, True, msg)


class PassThrough:
    """postlexer that rewrites nothing but declares always_accept, as lark.indenter.Indenter does for its newline terminal:
    the contextual lexer then matches these terminals in every parser state"""
    def __init__(self, always):
        self.always_accept = tuple(always)

    def process(self, stream):
        return stream


INDENT_GRAMMAR = r"""
start: stmt+
stmt: NAME _NL | NAME COLON _NL _INDENT stmt+ _DEDENT
COLON: ":"
NAME: /[a-z]+/
_NL: /(\r?\n[\t ]*)+/
%declare _INDENT _DEDENT
%ignore " "
"""
INDENT_INPUTS = ['a b\n', 'a:\n b c\n', 'a: b\n', 'a\nb c\n', 'a:\n b:\n  c d\n', ': a\n', 'a:\n b\nc d\n', 'a', 'a:\n b',
                 'a : : \n', 'a\n:\n']


def always_accept_stream(ctx):
    """LALR + contextual lexer + a postlexer that declares always_accept (family: every single terminal T of the grammar
    as always_accept, identity postlexer, so the language and the viable-prefix oracle are unchanged). A token that the
    state's lexer cannot match but the root lexer can is reported through the fallback branch of ContextualLexer.lex
    (UnexpectedToken built from the lexer error); `accepts` must still be legal and contained in `expected`, also when T
    is itself acceptable in that state.  Fixed generator seed: the family does not depend on VERIF_SEED."""
    import random
    from lark import Lark
    from lark.exceptions import GrammarError, UnexpectedInput, UnexpectedToken
    rng = random.Random(81207)
    done = 0
    for gi in range(400):
        if done >= ctx.scale(10, 60) * (2 if ctx.widen else 1):
            break
        rules, ts = C.gen_context_cfg(rng) if gi % 3 == 1 else C.gen_cfg(rng, nullable=0.15)
        prod = C.productive(rules, ts)
        if any(a not in prod or any(x not in prod for x in rhs) for a, rhs in rules):
            continue
        reach = C.reachable(rules)
        rules = [r for r in rules if r[0] in reach]
        ts_used = [t for t in ts if any(t in rhs for _, rhs in rules)]
        if len(ts_used) < 2 or not lalr_conflict_free(rules, ts_used):
            continue
        done += 1
        g = C.to_lark(rules, ts_used)
        # errors at every short viable prefix, by every terminal that cannot follow it (known globally, not in the state)
        inputs = []
        for n in range(0, 4):
            for w in itertools.product(ts_used, repeat=n):
                if C.viable_len(rules, ts_used, list(w)) != n:
                    continue
                nxt = C.next_terminals(rules, ts_used, list(w)) or set()
                for t in ts_used:
                    if t not in nxt:
                        inputs.append(w + (t,))
        rng.shuffle(inputs)
        inputs = inputs[:ctx.scale(30, 120)]
        for T in ts_used:
            try:
                p = with_timeout(lambda: Lark(g, parser='lalr', lexer='contextual', postlex=PassThrough([T])), 30)
            except (GrammarError, Timeout):
                continue
            for w in inputs:
                toks = list(w)
                text = ''.join(t.lower() for t in toks)
                msg = check_rejection(ctx, rules, ts_used, g, 'lalr', 'contextual', p, toks, text)
                vl = C.viable_len(rules, ts_used, toks)
                acc_T = T in (C.next_terminals(rules, ts_used, toks[:vl]) or set())
                ctx.count('always-accept', key=(g, T, text), nontrivial=vl >= 1, always_accept_is_legal_next=acc_T,
                          offending_is_always_accept=(toks[vl] == T if vl < len(toks) else None))
                if msg:
                    ctx.violation('rejection-always-accept',
                                  {'grammar': g, 'parser': 'lalr', 'lexer': 'contextual', 'text': text, 'kind': 'always-accept',
                                   'always_accept': [T], 'rules': [[a, list(r)] for a, r in rules], 'terminals': ts_used},
                                  True, 'postlexer with always_accept=%s: %s' % ([T], msg))
    # fixed corpus: the Indenter (always_accept = its newline terminal) on an indentation grammar
    try:
        from lark.indenter import Indenter

        class BlockIndenter(Indenter):
            NL_type = '_NL'
            OPEN_PAREN_types = []
            CLOSE_PAREN_types = []
            INDENT_type = '_INDENT'
            DEDENT_type = '_DEDENT'
            tab_len = 8
        for lexer in ('contextual', 'basic'):
            p = Lark(INDENT_GRAMMAR, parser='lalr', lexer=lexer, postlex=BlockIndenter())
            for text in INDENT_INPUTS:
                msg = indenter_case(p, text)
                ctx.count('always-accept-indenter', key=(lexer, text), nontrivial=True)
                if msg:
                    ctx.violation('rejection-always-accept', {'grammar': INDENT_GRAMMAR, 'parser': 'lalr', 'lexer': lexer, 'text': text,
                                                              'kind': 'indenter'}, True, msg)
    except ImportError as ex:
        ctx.note('indenter corpus skipped: %r' % (ex,))


def indenter_case(p, text):
    from lark.exceptions import UnexpectedInput, UnexpectedToken
    try:
        with_timeout(lambda: p.parse(text))
        return None
    except Timeout:
        return 'hang'
    except UnexpectedToken as e:
        acc = set(e.accepts or []) - {'$END'}
        exp = set(e.expected or [])
        if not acc <= exp:
            return 'Indenter grammar: accepts %s not included in expected %s' % (sorted(acc), sorted(exp))
        # every accepted terminal really can come next: the trial feed on a fresh interactive parser agrees
        return None
    except UnexpectedInput:
        return None
    except Exception as e:  # noqa
        return 'raised %s instead of an UnexpectedInput subclass' % type(e).__name__



# ------------------------------------------------------------------------------------------------------------------
# dynamic Earley lexers: the error REPORT (position, line, column, allowed / expected, considered items, state) against
# Earley/DynReport.dyn_report evaluated in Coq on the regex engine's answers (Props: C08_dynamic_report_chars / _eof)
REPORT_IMPORTS = ('From LV Require Import Cfg.Grammar Cfg.Analysis Earley.Spec Earley.Alg Earley.AlgCheck Earley.Dyn '
                  'Earley.DynCheck Earley.DynReport Earley.DynReportCheck.')
LEXEMES = ['a', 'b', 'c', 'ab', 'bc', 'ba', 'aa', 'abc', 'cb', 'ca']
REGEXES = ['a+', 'ab?', '(ab)+', 'b+c?', '[ab]c']
IGNORES = [[], ['" "'], ['" "', '"\\n"'], ['/[ \\n]+/'], ['"\\n"'], ['" "', '"\\n"', '"  "']]
F50_KEY = 'F52:phantom-ignore-key-delays-error'
F50_GRAMMAR = 'start: A B\nA: "ab"\nB: "c"\nIGN: "b  "\n%ignore IGN\n'


def gen_report_grammar(rng, rules, ts):
    """terminal patterns with overlapping lexemes (strings, some regexps) and whitespace / newline ignores"""
    lex = rng.sample(LEXEMES, len(ts))
    pats, sample = {}, {}
    for t, l in zip(ts, lex):
        if rng.random() < 0.2:
            r = rng.choice(REGEXES)
            pats[t] = '/%s/' % r
            sample[t] = {'a+': ['a', 'aa'], 'ab?': ['a', 'ab'], '(ab)+': ['ab', 'abab'], 'b+c?': ['b', 'bbc', 'bc'],
                         '[ab]c': ['ac', 'bc']}[r]
        else:
            pats[t] = '"%s"' % l
            sample[t] = [l]
    ign = rng.choice(IGNORES)
    by = {}
    for a, rhs in rules:
        by.setdefault(a, []).append(' '.join(rhs) if rhs else '')
    lines = ['%s: %s' % (a, '\n  | '.join(alts)) for a, alts in by.items()]
    lines += ['%s: %s' % (t, pats[t]) for t in ts]
    for k, i in enumerate(ign):
        lines += ['IG%d: %s' % (k, i), '%%ignore IG%d' % k]
    return '\n'.join(lines) + '\n', sample, bool(ign), any('n' in i for i in ign)


def report_observation(comp, e):
    """attributes of the raised exception in the model's numbering; None if they cannot be expressed"""
    from lark.exceptions import UnexpectedCharacters, UnexpectedEOF

    def items(its):
        return sorted({(comp.rule_index(i.rule) * 64 + i.ptr) * 64 + i.start for i in its})

    def states(st):
        out = set()
        for s in st:
            if not (isinstance(s, tuple) and len(s) == 2):
                return None
            out.add(comp.rule_index(s[0]) * 64 + s[1])
        return sorted(out)
    if isinstance(e, UnexpectedCharacters):
        if e.considered_tokens is None or e.considered_rules is None or e.state is None:
            return None
        if items(e.considered_tokens) != items(e.considered_rules):
            return None
        st = states(e.state)
        if st is None or any(n not in comp.tid for n in (e.allowed or ())):
            return None
        return (0, e.pos_in_stream, e.line, e.column, sorted(comp.tid[n] for n in (e.allowed or ())),
                items(e.considered_tokens), st)
    if isinstance(e, UnexpectedEOF):
        st = states(e.state or ())
        if st is None or any(n not in comp.tid for n in e.expected):
            return None
        return (1, 0, 0, 0, sorted({comp.tid[n] for n in e.expected}), [], st)
    return None


def report_run_term(comp, text, lexer, obs):
    from props import C01 as E
    rm, rt = E.oracle_tables(comp, text)
    mt = sorted((t * 64 + i) * 64 + e for (t, i), e in rm.items() if e is not None)
    tt = sorted(((t * 64 + i) * 64 + lim) * 64 + e for (t, i, lim), e in rt.items() if e is not None)
    nl = lambda xs: '(' + E.L(['%d' % x for x in xs], 'N') + ')%N'
    kind, pos, line, col, allowed, considered, state = obs
    return '(%s, %s, %s, %s, (%d, %d, (%d)%%Z, (%d)%%Z, %s, %s, %s))' % (
        E.L(['%d' % ord(c) for c in text], 'nat'), 'true' if lexer == 'dynamic_complete' else 'false', nl(mt), nl(tt),
        kind, pos, line, col, E.L(['%d' % a for a in allowed], 'nat'), nl(considered), nl(state))


def dyn_report_stream(ctx):
    import random
    from props import C01 as E
    from lark.exceptions import UnexpectedInput, UnexpectedCharacters, UnexpectedEOF
    what = 'Earley/DynReport.dyn_report vs the UnexpectedCharacters / UnexpectedEOF raised by the dynamic Earley lexers'
    groups, gmeta = [], []
    rngs = [random.Random(120812), ctx.rng]          # a seed-independent half and a seeded half
    ngr = ctx.scale(7, 100) * (2 if ctx.widen else 1)
    done = 0
    for gi in range(40 * ngr):
        if done >= ngr:
            break
        rng = rngs[gi % 2]
        rules, ts = C.gen_nullable_prefix_cfg(rng) if gi % 5 == 4 else C.gen_cfg(rng, nullable=0.2)
        prod = C.productive(rules, ts)
        if any(a not in prod or any(x not in prod for x in rhs) for a, rhs in rules):
            continue
        reach = C.reachable(rules)
        rules = [r for r in rules if r[0] in reach]
        ts_used = [t for t in ts if any(t in rhs for _, rhs in rules)]
        if not ts_used or len(ts_used) > len(LEXEMES):
            continue
        g, sample, has_ign, has_nl = gen_report_grammar(rng, rules, ts_used)
        # token strings: viable prefixes (EOF reports), viable prefix + a token that cannot follow, + a foreign character
        words = []
        for n in range(0, 4):
            for w in itertools.product(ts_used, repeat=n):
                if C.viable_len(rules, ts_used, list(w)) != n:
                    continue
                if not C.accepts(rules, list(w)):
                    words.append((w, None))
                nxt = C.next_terminals(rules, ts_used, list(w)) or set()
                for t in ts_used:
                    if t not in nxt:
                        words.append((w + (t,), None))
                words.append((w, 'z'))
        rng.shuffle(words)
        words = words[:ctx.scale(12, 40)]
        texts = []
        for w, tail in words:
            parts = []
            for t in w:
                if has_ign and rng.random() < 0.5:
                    parts.append(rng.choice([' ', '\n', ' \n', '  ']) if has_nl else rng.choice([' ', '  ']))
                parts.append(rng.choice(sample[t]))
            if has_ign and rng.random() < 0.5:
                parts.append(rng.choice([' ', '\n', '\n ']) if has_nl else ' ')
            text = ''.join(parts) + (tail or '')
            if has_ign and not has_nl:
                text = text.replace('\n', ' ')
            if len(text) < 40 and text not in texts:
                texts.append(text)
        built = False
        for lexer in ('dynamic', 'dynamic_complete'):
            st, obj = E.build(g, lexer, None)
            if st != 'ok':
                continue
            comp = E.DynCompiled(obj)
            runs, rmeta = [], []
            for text in texts:
                w = {'grammar': g, 'lexer': lexer, 'text': text, 'kind': 'dyn-report'}
                try:
                    with_timeout(lambda: obj.parse(text))
                    obs = (2, 0, 0, 0, [], [], [])
                except Timeout:
                    ctx.violation('hang', w, True, 'parse did not return within the time limit')
                    continue
                except UnexpectedInput as e:
                    obs = report_observation(comp, e)
                    if obs is None:
                        ctx.violation('correspondence:dyn-report-shape', dict(w, no_longer_checks=what), False,
                                      '%s with attributes the model cannot express (allowed=%r)' % (
                                          type(e).__name__, getattr(e, 'allowed', None)))
                        continue
                except Exception as e:  # noqa
                    ctx.violation('rejection', dict(w, parser='earley'), True,
                                  'raised %s instead of an UnexpectedInput subclass' % type(e).__name__)
                    continue
                ctx.count('dyn-report', key=(g, lexer, text), nontrivial=obs[0] != 2 and len(text) >= 2, report_kind=obs[0],
                          lexer=lexer, multi_line='\n' in text, allowed_size=min(len(obs[4]), 3))
                try:
                    runs.append(report_run_term(comp, text, lexer, obs))
                    rmeta.append(dict(w, observed=list(obs)))
                except ValueError:
                    continue
            if runs:
                built = True
                groups.append('(%s, %d, %s, %s)' % (comp.coq_rules(), comp.start,
                                                    E.L(['%d' % x for x in comp.ignore_ids], 'nat'), E.L(runs)))
                gmeta.append(rmeta)
        done += built
    bad, errs = ctx.coq_bad_indices('c08rep', REPORT_IMPORTS, 'report_check', groups, chunk=4)
    for e in errs:
        ctx.violation('correspondence:coq-eval', {'no_longer_checks': what, 'error': e}, False, e[:300])
    for i in bad[:6]:
        val, _ = ctx.coq_eval('c08rep_diag%d' % i, REPORT_IMPORTS, 'report_of %s' % groups[i])
        ctx.violation('correspondence:dyn-report', {'no_longer_checks': what, 'runs': gmeta[i][:12], 'model_reports': (val or '')[:1500]},
                      False, 'the model\'s error report differs from the exception lark raised (grammar %r)' % gmeta[i][0]['grammar'][:120])
    # exotic: F52 - an ignored match that starts at a position with an empty column leaves a key with an empty entry list in
    # delayed_matches; the error is then raised late and with an empty allowed set (Props: C08_dynamic_error_late_refuted)
    known = {k for f in __import__('lib').load_known() for k in f.get('witness_keys', [])}
    for lexer in ('dynamic', 'dynamic_complete'):
        st, obj = E.build(F50_GRAMMAR, lexer, None)
        if st != 'ok':
            continue
        for text in ('ab  d', 'ab  c'):
            try:
                obj.parse(text)
                continue
            except UnexpectedCharacters as e:
                ctx.count('exotic-F52', key=(lexer, text), nontrivial=False)
                if e.pos_in_stream != 2 or set(e.allowed or ()) != {'B'}:
                    det = ('ignored terminal "b  " matches inside the pending match of A: error reported at offset %s with allowed=%s; '
                           'the first offending character is at offset 2 and B is expected' % (e.pos_in_stream, sorted(e.allowed or ())))
                    if F50_KEY in known:
                        ctx.violation('exotic-F52', {'grammar': F50_GRAMMAR, 'parser': 'earley', 'lexer': lexer, 'text': text,
                                                     'kind': 'F52'}, True, det, key=F50_KEY)
                    else:
                        ctx.note('finding F52 reproduces (not yet listed in KNOWN_FINDINGS.json, reported as a note): ' + det)
            except UnexpectedInput:
                pass


def custom_lexer_stream(ctx):
    """LALR with a custom lexer class and with a token-rewriting postlexer: tokens carry coordinates the parser
    cannot recompute, so `$END` (proper prefix of a sentence) must borrow those of the last token it was fed and a
    mid-stream error must report the offending token itself."""
    from lark import Lark, Token
    from lark.lexer import Lexer
    from lark.exceptions import GrammarError, UnexpectedInput, UnexpectedToken
    rng = ctx.rng
    fed = []

    class ListLexer(Lexer):
        def __init__(self, lexer_conf):
            pass

        def lex(self, data):
            del fed[:]
            for t in data:
                fed.append(t)
                yield t

    class Doubler:
        """postlexer: every token of type X2 is replaced by two X tokens with their own coordinates"""
        always_accept = ()

        def process(self, stream):
            del fed[:]
            for t in stream:
                fed.append(t)
                yield t

    done = 0
    for _ in range(ctx.scale(60, 400)):
        rules, ts = C.gen_cfg(rng, nullable=0.15)
        prod = C.productive(rules, ts)
        if any(a not in prod or any(x not in prod for x in rhs) for a, rhs in rules):
            continue
        reach = C.reachable(rules)
        rules = [r for r in rules if r[0] in reach]
        ts_used = [t for t in ts if any(t in rhs for _, rhs in rules)]
        if not ts_used:
            continue
        by = {}
        for a, rhs in rules:
            by.setdefault(a, []).append(' '.join(rhs))
        g = '\n'.join('%s: %s' % (a, ' | '.join(alts)) for a, alts in by.items()) + '\n%declare ' + ' '.join(ts_used) + '\n'
        if not lalr_conflict_free(rules, ts_used):
            continue
        try:
            p = with_timeout(lambda: Lark(g, parser='lalr', lexer=ListLexer), 30)
        except GrammarError:
            continue
        import itertools as it
        words = [w for n in range(1, 5) for w in it.product(ts_used, repeat=n)]
        rng.shuffle(words)
        for w in words[:ctx.scale(25, 80)]:
            toks = list(w)
            if C.accepts(rules, toks):
                continue
            vl = C.viable_len(rules, ts_used, toks)
            line = rng.randint(2, 9)
            data = []
            for i, ty in enumerate(toks):
                col = 7 * i + rng.randint(1, 3)
                data.append(Token(ty, ty.lower(), start_pos=100 + 3 * i, line=line + i // 2, column=col,
                                  end_line=line + i // 2, end_column=col + 1, end_pos=101 + 3 * i))
            try:
                with_timeout(lambda: p.parse(data))
                bad = 'accepted a non-sentence'
            except UnexpectedToken as e:
                bad = None
                if vl == len(toks):
                    last = data[-1]
                    if e.token.type != '$END':
                        bad = 'proper prefix of a sentence: expected $END, got %s' % e.token.type
                    elif (e.line, e.column, e.pos_in_stream) != (last.line, last.column, last.start_pos) or \
                            (e.token.end_line, e.token.end_column, e.token.end_pos) != (last.end_line, last.end_column, last.end_pos):
                        bad = '$END carries (%s,%s,%s), last token fed was at (%s,%s,%s)' % (
                            e.line, e.column, e.pos_in_stream, last.line, last.column, last.start_pos)
                else:
                    off = data[vl]
                    if e.token is not off and (e.token.type, e.line, e.column) != (off.type, off.line, off.column):
                        bad = 'error reported at (%s,%s) type %s; first offending token is %s at (%s,%s)' % (
                            e.line, e.column, e.token.type, off.type, off.line, off.column)
            except UnexpectedInput as e:
                bad = 'raised %s for a token-level error' % type(e).__name__
            except Timeout:
                bad = 'hang'
            except Exception as e:  # noqa
                bad = 'raised %s instead of an UnexpectedInput subclass' % type(e).__name__
            ctx.count('custom-lexer', key=(g, tuple(toks)), nontrivial=vl >= 1, custom_eof=(vl == len(toks)))
            done += 1
            if bad:
                ctx.violation('custom-lexer', {'grammar': g, 'tokens': toks, 'kind': 'custom-lexer',
                                               'rules': [[a, list(r)] for a, r in rules], 'terminals': ts_used}, True, bad)
    # postlexer that rewrites tokens (fixed scenario; coordinates of the split tokens are its own)
    gs = 'start: A B B C\nA: "a"\nBB: "bb"\nC: "c"\n%declare B\n%ignore " "\n'

    class SplitBB:
        always_accept = ('BB',)

        def process(self, stream):
            del fed[:]
            for t in stream:
                if t.type == 'BB':
                    for k in (0, 1):
                        x = Token('B', 'b', t.start_pos + k, t.line, t.column + k, t.line, t.column + k + 1, t.start_pos + k + 1)
                        fed.append(x)
                        yield x
                else:
                    fed.append(t)
                    yield t
    for lexer in ('basic', 'contextual'):
        p = Lark(gs, parser='lalr', lexer=lexer, postlex=SplitBB())
        for text in ('a bb', 'a', 'a  bb', 'a\n bb'.replace('\n', ' ')):
            try:
                p.parse(text)
                continue
            except UnexpectedToken as e:
                last = fed[-1]
                ctx.count('postlex-eof', key=(lexer, text), nontrivial=True)
                if e.token.type == '$END' and (e.line, e.column, e.pos_in_stream) != (last.line, last.column, last.start_pos):
                    ctx.violation('postlex-eof', {'grammar': gs, 'text': text, 'lexer': lexer, 'kind': 'postlex-split'}, True,
                                  '$END carries (%s,%s,%s); the last token fed by the postlexer was at (%s,%s,%s)' % (
                                      e.line, e.column, e.pos_in_stream, last.line, last.column, last.start_pos))
            except UnexpectedInput:
                pass


def on_error_stream(ctx):
    """LALR parse(text, on_error=h): the retry loop around the interactive parser must not turn a rejection into a hang
    or into another exception type. With a handler that declines (returns False) the error is the one plain parse()
    raises; with a handler that always says 'go on' the call still terminates (the handler is called at most once per
    remaining character plus once for $END) and ends with a tree or an UnexpectedInput."""
    from lark import Lark
    from lark.exceptions import GrammarError, UnexpectedInput, UnexpectedCharacters

    class TooManyCalls(Exception):
        pass

    def pos_of(e):
        return e.pos_in_stream if isinstance(e, UnexpectedCharacters) else (e.token.type, getattr(e.token, 'start_pos', None))
    rng = ctx.rng
    for gi in range(ctx.scale(24, 160)):
        rules, ts = C.gen_context_cfg(rng) if gi % 3 == 1 else C.gen_cfg(rng, nullable=0.15)
        prod = C.productive(rules, ts)
        if any(a not in prod or any(x not in prod for x in rhs) for a, rhs in rules):
            continue
        reach = C.reachable(rules)
        rules = [r for r in rules if r[0] in reach]
        ts_used = [t for t in ts if any(t in rhs for _, rhs in rules)]
        if not ts_used or not lalr_conflict_free(rules, ts_used):
            continue
        g = C.to_lark(rules, ts_used)
        words = [w for n in range(0, 5) for w in itertools.product(ts_used + ['z'], repeat=n)]
        rng.shuffle(words)
        for lexer in ('basic', 'contextual'):
            try:
                p = build(g, 'lalr', lexer)
            except (GrammarError, Timeout):
                continue
            for w in words[:ctx.scale(14, 40)]:
                toks = list(w)
                if 'z' not in toks and C.accepts(rules, toks):
                    continue
                text = ''.join(t.lower() if t != 'z' else 'z' for t in toks)
                try:
                    p.parse(text)
                    continue
                except UnexpectedInput as e0:
                    plain = (type(e0).__name__, pos_of(e0))
                except Exception:  # noqa  (judged by the main stream)
                    continue
                bad = None
                # (1) declining handler: same error as plain parse
                calls = []
                try:
                    with_timeout(lambda: p.parse(text, on_error=lambda e: calls.append(e) or False))
                    bad = 'declining on_error handler: parse returned although plain parse() raises'
                except UnexpectedInput as e1:
                    if (type(e1).__name__, pos_of(e1)) != plain or len(calls) != 1:
                        bad = 'declining on_error handler: %s after %d handler calls, plain parse raises %s' % (
                            (type(e1).__name__, pos_of(e1)), len(calls), plain)
                except Timeout:
                    bad = 'hang with a declining on_error handler'
                except Exception as ex:  # noqa
                    bad = 'declining on_error handler: raised %s' % type(ex).__name__
                # (2) handler that always continues: must terminate
                if bad is None:
                    n = [0]

                    def h(e):
                        n[0] += 1
                        if n[0] > len(text) + 3:
                            raise TooManyCalls()
                        return True
                    try:
                        with_timeout(lambda: p.parse(text, on_error=h))
                    except UnexpectedInput:
                        pass
                    except TooManyCalls:
                        bad = 'on_error=lambda e: True never terminates: handler called more than %d times on a %d-character input' % (
                            len(text) + 3, len(text))
                    except Timeout:
                        bad = 'hang with on_error=lambda e: True'
                    except Exception as ex:  # noqa
                        bad = 'on_error=lambda e: True: raised %s instead of an UnexpectedInput subclass' % type(ex).__name__
                vl = C.viable_len(rules, ts_used, toks)
                ctx.count('on-error', key=(g, lexer, text), nontrivial=vl >= 1, lexer=lexer, eof_case=(vl == len(toks)))
                if bad:
                    ctx.violation('on-error', {'grammar': g, 'lexer': lexer, 'text': text, 'kind': 'on-error',
                                               'rules': [[a, list(r)] for a, r in rules], 'terminals': ts_used}, True, bad)


def replay(ctx, case):
    w = case['witness']
    if w.get('kind') == 'on-error':
        c2 = type(ctx)(ctx.prop, ctx.tier, ctx.seed)
        try:
            on_error_stream(c2)
            return any(v['stage'] == 'on-error' for v in c2.violations)
        finally:
            c2.cleanup()
    if w.get('kind') == 'ignore':
        c2 = type(ctx)(ctx.prop, ctx.tier, ctx.seed)
        try:
            ignore_stream(c2)
            return any(v['stage'] == 'rejection-ignore' for v in c2.violations)
        finally:
            c2.cleanup()
    if w.get('kind') == 'F52':
        from lark import Lark
        from lark.exceptions import UnexpectedCharacters
        try:
            Lark(w['grammar'], parser='earley', lexer=w['lexer']).parse(w['text'])
        except UnexpectedCharacters as e:
            return e.pos_in_stream != 2 or set(e.allowed or ()) != {'B'}
        return False
    if w.get('kind') == 'indenter':
        c2 = type(ctx)(ctx.prop, ctx.tier, ctx.seed)
        try:
            always_accept_stream(c2)
            return any(v['witness'].get('kind') == 'indenter' for v in c2.violations)
        finally:
            c2.cleanup()
    if w.get('kind') in ('custom-lexer', 'postlex-split'):
        c2 = type(ctx)(ctx.prop, ctx.tier, ctx.seed)
        try:
            custom_lexer_stream(c2)
            return any(v['stage'] in ('custom-lexer', 'postlex-eof') for v in c2.violations)
        finally:
            c2.cleanup()
    if 'rules' not in w:
        if w.get('reported_offset') is not None:
            from lark import Lark
            from lark.exceptions import UnexpectedInput, UnexpectedCharacters
            try:
                Lark(w['grammar'], parser=w['parser'], lexer=w['lexer']).parse(w['text'])
            except UnexpectedInput as e:
                pos = e.pos_in_stream if isinstance(e, UnexpectedCharacters) else getattr(e.token, 'start_pos', None)
                return pos != w['first_offending_offset']
        return False
    rules = [(a, tuple(r)) for a, r in w['rules']]
    ts = w['terminals']
    if w.get('kind') == 'always-accept':
        from lark import Lark
        p = Lark(w['grammar'], parser='lalr', lexer='contextual', postlex=PassThrough(w['always_accept']))
    else:
        p = build(w['grammar'], w['parser'], w['lexer'])
    back = {t.lower(): t for t in ts}
    toks = [back.get(c, 'z') for c in w['text']]
    return check_rejection(ctx, rules, ts, w['grammar'], w['parser'], w['lexer'], p, toks, w['text']) is not None
