#!/bin/bash
# Builds the whole Coq development from files on disk (offline). Idempotent.
set -e
cd "$(dirname "$0")"
export VERIF_REPO=${VERIF_REPO:-/repo}
export PYTHONPATH=$VERIF_REPO PYTHONDONTWRITEBYTECODE=1 PYTHONHASHSEED=0
/venv/bin/python -c "
import sys; sys.path.insert(0,'harness'); import lib
print('regenerate:', lib.regenerate())
ok, log, failed = lib.build_coq()
print(log[-3000:])
print('build ok' if ok else 'BUILD FAILED: %s' % failed)
sys.exit(0 if ok else 1)
"
