(* Classification of the regenerated write-set / escape facts (Gen/InstWrites.v) and the run-time reading of
   those facts: an abstract aheap, store events, and which events a syntactic fact licenses.
   Executable definitions only; proofs in Writes_proofs.v.

   The facts are syntactic: for every function that can run during parse()/lex()/scan()/parse_interactive()
   (name-based over-approximation of the call graph) every statement that stores into an object, with the root of
   its access path.  What a fact means at run time:

     root = self, plain path (self.a = v, self.a[i] = v, self.a.append(v), self.a op= v, del self.a[i]) in a method
            that is not a constructor: a store into cell `a` of the receiver, an object of the defining class or of
            one of its subclasses.  Whether that object is held by the Lark instance cannot be seen syntactically, so
            if some class of the family CAN be held (held_classes: validated against the object graph of every
            configuration of the harness on every run) the cell must be one the instance model knows
            (modelled_cells: the state of Inst/Instance.v plus the width cache) or a cell of a value object
            (value_cells: Tree nodes, which also occur inside the instance's Grammar object).
     constructor, root = self: a store into the object that is being created.
     root = *args / **kwargs: a store into the tuple / dict the interpreter built for this activation.
     root = result of a call: fine when the callee is a class of the allocation table or a copying builtin and the
            path is plain (a store into the new object); otherwise the pair (function, callee) must be reviewed.
     root = a parameter: the pair (function, parameter) must be reviewed (the argument is an object of the call: a
            LexerState, a token just built, a value-stack slice, an Earley column ...).
   The reviewed tables are part of the trusted base; what they assert (the target is not held by the instance) is
   checked on the implementation by the object-graph snapshots of the harness.  Everything else is decided here by
   a finite check, so a new store into instance state on a parse path makes [stores_ok] false and breaks
   Writes_proofs.stores_ok_holds. *)
From Coq Require Import String List Bool Arith.
From LV Require Import Base.Prelude Inst.WritesBase Gen.InstWrites.
Import ListNotations.
Local Open Scope string_scope.

(* ---------------------------------------------------------------------------------------------- the tables *)
(* lark-defined classes an instance of which can be reachable from a Lark instance between calls (user subclasses
   count as their nearest lark ancestor).  A superset is harmless; a missing class is reported by the harness
   (correspondence:held-classes). *)
Definition held_classes : list string :=
  [ "Lark"; "LarkOptions"; "Grammar"; "LexerConf"; "ParserConf"; "ParsingFrontend"; "PostLexConnector";
    "CYK_FrontEnd"; "CustomLexerWrapper0"; "CustomLexerWrapper1"; "Lexer"; "AbstractBasicLexer"; "BasicLexer";
    "ContextualLexer"; "Scanner"; "UnlessCallback"; "CallChain"; "LALR_Parser"; "_Parser"; "ParseTableBase";
    "ParseTable"; "IntParseTable"; "Action"; "Rule"; "RuleOptions"; "Symbol"; "NonTerminal"; "Terminal";
    "TerminalDef"; "Pattern"; "PatternStr"; "PatternRE"; "Parser"; "CnfWrapper"; "UnitSkipRule";
    "EarleyRegexpMatcher"; "ParseTreeBuilder"; "ChildFilter"; "ChildFilterLALR"; "ChildFilterLALR_NoPlaceholders";
    "ExpandSingleChild"; "PropagatePositions"; "AmbiguousExpander"; "AmbiguousIntermediateExpander";
    "PostLex"; "Indenter"; "PythonIndenter"; "Tree"; "SlottedTree"; "Meta"; "Token"; "Definition";
    "Transformer"; "Transformer_InPlace"; "Transformer_InPlaceRecursive"; "Transformer_NonRecursive";
    "TransformerChain"; "InlineTransformer"; "_Decoratable"; "_VArgsWrapper"; "FromPackageLoader"; "fzset";
    "GrammarAnalyzer"; "RulePtr"; "LR0ItemSet"; "Serialize"; "FS"; "TemplateConf" ].

(* the mutable cells of the instance model: (class that defines the writing method, attribute) *)
Definition modelled_cells : list (string * string) :=
  [ ("BasicLexer", "_scanner"); ("BasicLexer", "_search_scanner"); ("BasicLexer", "callback");   (* Inst/Instance.lcell *)
    ("Indenter", "paren_level"); ("Indenter", "indent_level");                                   (* Inst/Instance.ind *)
    ("PatternRE", "_width") ].                                     (* lazily cached pure function: Inst/LazyCell.v *)

(* cells of value objects: a Tree is built and shaped by the call that returns it; Tree nodes also occur in the
   Grammar object the instance keeps (not read by any parse path; covered by the harness's configuration
   fingerprint and snapshots only) *)
Definition value_cells : list (string * string) :=
  [ ("Tree", "_meta"); ("Tree", "children") ].

(* callees whose result is a new object *)
Definition copying_builtins : list string :=
  [ "copy"; "deepcopy"; "set"; "dict"; "list"; "tuple"; "sorted"; "deque"; "defaultdict"; "cls"; "__new__"; "Set" ].

(* (function, parameter): the argument is an object of the current call *)
Definition reviewed_param_stores : list (string * string) :=
  [ ("lark/lexer.py:BasicLexer.next_token", "lex_state");            (* the LexerState of this LexerThread *)
    ("lark/lexer.py:UnlessCallback.__call__", "t");                  (* the token next_token has just built *)
    ("lark/parse_tree_builder.py:ChildFilterLALR.__call__", "children");                  (* value-stack slice; the *)
    ("lark/parse_tree_builder.py:ChildFilterLALR_NoPlaceholders.__call__", "children");   (* child trees of this parse *)
    ("lark/parsers/earley.py:Parser._parse", "columns");
    ("lark/parsers/earley.py:Parser.predict_and_complete", "columns");
    ("lark/parsers/earley.py:Parser.predict_and_complete", "node_cache");
    ("lark/parsers/earley.py:Parser.predict_and_complete", "to_scan");
    ("lark/parsers/xearley.py:Parser._parse", "columns");
    ("lark/visitors.py:Transformer_InPlaceRecursive._transform_tree", "tree");            (* the tree being returned *)
    (* reached only through the name-based call graph (grammar compilation, not a parse path) *)
    ("lark/load_grammar.py:SimplifyRule_Visitor.alias", "tree");
    ("lark/load_grammar.py:SimplifyRule_Visitor.expansion", "tree") ].

(* (function, callee): the callee returns an object of the current call *)
Definition reviewed_call_stores : list (string * string) :=
  [ ("lark/lexer.py:BasicLexer._build_scanner", "_create_unless");   (* the callback dict, built locally, published last *)
    ("lark/parse_tree_builder.py:PropagatePositions.__call__", "node_builder");           (* the node just built *)
    ("lark/parse_tree_builder.py:AmbiguousIntermediateExpander.__call__", "_collapse_iambig");
    ("lark/parser_frontends.py:ParsingFrontend._scan", "parse_interactive");  (* ParseConf of the stunted session *)
    ("lark/parsers/earley.py:Parser._parse", "advance"); ("lark/parsers/earley.py:Parser._parse", "scan");
    ("lark/parsers/earley.py:Parser.predict_and_complete", "advance");
    ("lark/parsers/earley.py:Parser.predict_and_complete", "pop");
    ("lark/parsers/xearley.py:Parser._parse", "advance");
    ("lark/parsers/lalr_interactive_parser.py:InteractiveParser.accepts", "copy");        (* a copied cursor *)
    ("lark/visitors.py:Transformer_InPlace.transform", "iter_subtrees");
    ("lark/parser_frontends.py:CYK_FrontEnd._transform", "list");     (* the subtrees of the tree being returned *)
    ("lark/parsers/xearley.py:Parser._parse", "defaultdict");         (* tokens held in this parse's delayed_matches *)
    ("lark/tree_matcher.py:_MakeTreeMatch.__call__", "Tree");         (* meta of the node just built *)
    ("lark/load_grammar.py:Grammar.compile", "transform"); ("lark/load_grammar.py:Grammar.compile", "copy") ].

(* builtins that only read their argument *)
Definition reading_builtins : list string :=
  [ "arg:len"; "arg:isinstance"; "arg:bool"; "arg:any"; "arg:all"; "arg:sum"; "arg:min"; "arg:max"; "arg:repr"; "arg:str";
    "arg:id"; "arg:hash"; "arg:type"; "arg:enumerate"; "arg:iter"; "arg:reversed"; "arg:zip"; "arg:sorted"; "arg:list";
    "arg:tuple"; "arg:set"; "arg:frozenset"; "arg:dict"; "arg:format"; "arg:print" ].

(* default arguments evaluated once to a mutable object: none of lark's own calls relies on them *)
Definition reviewed_defaults : list (string * string) :=
  [ ("lark/parsers/earley_forest.py:ForestToParseTree.__init__", "dict()");
    ("lark/parsers/earley_forest.py:ForestToParseTree.__init__", "ForestSumVisitor()");
    ("lark/tree_templates.py:Template.__init__", "TemplateConf()") ].

(* lazily initialised cells and how each is handled *)
Inductive lazy_status :=
| LzValue      (* builder is a function of immutable configuration; only the value matters: LazyCell.value_safe *)
| LzPerCall.   (* the cell belongs to an object of one call / one user-held result *)
Definition lazy_table : list (string * string * lazy_status) :=
  [ ("BasicLexer", "_scanner", LzValue); ("BasicLexer", "_search_scanner", LzValue); ("PatternRE", "_width", LzValue);
    ("Tree", "_meta", LzPerCall); ("UnexpectedToken", "_accepts", LzPerCall) ].

(* ---------------------------------------------------------------------------------------------- the checks *)
Definition pair_eqb (a b : string * string) : bool := String.eqb (fst a) (fst b) && String.eqb (snd a) (snd b).
Definition mem_pair (x : string * string) (l : list (string * string)) : bool := existsb (pair_eqb x) l.

Definition family_held (fam : list string) : bool := existsb (fun c => mem_string c held_classes) fam.

Definition fresh_callee (f : string) : bool := mem_string f allocated || mem_string f copying_builtins.

(* a store through `self` by a plain path in a method that is not a constructor *)
Definition self_plain (s : store) : bool :=
  match s_root s with RSelf => negb (s_ctor s) && negb (s_deep s) | _ => false end.

Definition store_ok (s : store) : bool :=
  match s_root s with
  | RSelf =>
      if s_ctor s then true
      else if family_held (s_family s)
           then negb (s_deep s) && (mem_pair (s_cls s, s_attr s) modelled_cells || mem_pair (s_cls s, s_attr s) value_cells)
           else true
  | RFresh => true
  | RCall f => (fresh_callee f && negb (s_deep s)) || mem_pair (s_fn s, f) reviewed_call_stores
  | RParam p => mem_pair (s_fn s, p) reviewed_param_stores
  | RGlobal => false
  end.

Definition stores_ok : bool := forallb store_ok stores.
Definition bad_stores : list store := filter (fun s => negb (store_ok s)) stores.

(* a container built by a (possibly held) class for itself may be read by a builtin, nothing else *)
Definition escape_ok (x : escape) : bool :=
  negb (family_held (x_family x)) || mem_string (x_how x) reading_builtins.
Definition escapes_ok : bool := forallb escape_ok escapes.
Definition bad_escapes : list escape := filter (fun x => negb (escape_ok x)) escapes.

Definition defaults_ok : bool := forallb (fun d => mem_pair d reviewed_defaults) mutable_defaults.

Fixpoint lazy_lookup (c a : string) (t : list (string * string * lazy_status)) : option lazy_status :=
  match t with
  | [] => None
  | (c', a', st) :: r => if String.eqb c c' && String.eqb a a' then Some st else lazy_lookup c a r
  end.
(* every lazily initialised cell of lark is in the table; the value cells have the shape the interleaving model
   LazyCell.v has (test / store / `return self.X` re-reading the cell) *)
Definition lazy_ok1 (z : lazy) : bool :=
  match lazy_lookup (z_cls z) (z_attr z) lazy_table with
  | Some LzValue => z_reread z
  | Some LzPerCall => true
  | None => false
  end.
Definition lazy_ok : bool := forallb lazy_ok1 lazy_cells.

(* the cells of possibly held objects that some parse path can write: (defining class, attribute) *)
Fixpoint dedup (l : list (string * string)) : list (string * string) :=
  match l with
  | [] => []
  | x :: r => if mem_pair x r then dedup r else x :: dedup r
  end.
Definition writable_held_cells : list (string * string) :=
  dedup (map (fun s => (s_cls s, s_attr s)) (filter (fun s => self_plain s && family_held (s_family s)) stores)).

(* ---------------------------------------------------------------------------------------------- run-time reading *)
(* objects: the lark class (nearest lark ancestor for user subclasses) and whether the object is part of the object
   graph of the Lark instance when the call starts *)
Record obj := mkObj { o_cls : string; o_held : bool }.
Definition loc := (nat * string)%type.
Definition aheap := loc -> nat.                     (* attribute values, abstract *)

Record stev := mkW { w_fn : string; w_obj : nat; w_attr : string; w_val : nat }.

Definition loc_eqb (a b : loc) : bool := Nat.eqb (fst a) (fst b) && String.eqb (snd a) (snd b).
Definition exec1 (h : aheap) (e : stev) : aheap :=
  fun l => if loc_eqb l (w_obj e, w_attr e) then w_val e else h l.
Definition exec (tr : list stev) (h : aheap) : aheap := fold_left exec1 tr h.

(* the fact s covers the event e *)
Definition licenses (objs : nat -> obj) (s : store) (e : stev) : Prop :=
  s_fn s = w_fn e /\
  if self_plain s
  then In (o_cls (objs (w_obj e))) (s_family s) /\ w_attr e = s_attr s
  else o_held (objs (w_obj e)) = false.     (* object under construction / fresh / reviewed *)

Definition licensed (objs : nat -> obj) (e : stev) : Prop := exists s, In s stores /\ licenses objs s e.

(* every held object has one of the held classes *)
Definition typed (objs : nat -> obj) : Prop := forall o, o_held (objs o) = true -> In (o_cls (objs o)) held_classes.

(* can some parse path write attribute a of an object of class c ? *)
Definition writable (c a : string) : bool :=
  existsb (fun s => self_plain s && mem_string c (s_family s) && String.eqb a (s_attr s)) stores.

(* two heaps agree on everything the instance holds that no parse path can write *)
Definition frame_eq (objs : nat -> obj) (h h' : aheap) : Prop :=
  forall o a, o_held (objs o) = true -> writable (o_cls (objs o)) a = false -> h (o, a) = h' (o, a).

(* decidable version of [licensed], for concrete traces *)
Definition licensesb (objs : nat -> obj) (s : store) (e : stev) : bool :=
  String.eqb (s_fn s) (w_fn e) &&
  (if self_plain s
   then mem_string (o_cls (objs (w_obj e))) (s_family s) && String.eqb (w_attr e) (s_attr s)
   else negb (o_held (objs (w_obj e)))).
Definition licensedb (objs : nat -> obj) (e : stev) : bool := existsb (fun s => licensesb objs s e) stores.
