(* Proofs about Inst/World.v: calls on one instance are not affected by the construction or use of
   other instances, and construction is not affected by what was constructed before. *)
From Coq Require Import ZArith List Bool String Arith Lia.
From LV Require Import Base.Prelude Sys.IndenterBase Gen.IndenterHoles Sys.Indenter Inst.IndSteps Inst.Instance
     Inst.Instance_proofs Inst.World.
Import ListNotations.

Section Proofs.
Variables Conf Sc CB LexSt Err Text : Type.
Variable mk_scanner : Conf -> Sc.
Variable mk_callback : Conf -> CB.
Variable mk_search : Conf -> Sc.
Variable at_end : LexSt -> bool.
Variable ntfuel : LexSt -> nat.
Variable init_ls : Text -> nat -> LexSt.
Variable iter : Conf -> Sc -> CB -> LexSt -> iter_res LexSt Err.
Variable search : Sc -> Text -> nat -> option nat.
Variable sc_want : Text -> nat -> list tok -> bool.
Variable sc_end : Text -> nat -> list tok -> pend Err -> option nat.
Variables GP Src : Type.
Variable mk_gp : GP.
Variable compile : GP -> Src -> option (iconf Conf).

Notation coherent := (coherent Conf Sc CB mk_scanner mk_callback mk_search).
Notation run_op := (run_op mk_scanner mk_callback mk_search at_end ntfuel init_ls iter search sc_want sc_end).
Notation op_pure := (op_pure mk_scanner mk_callback mk_search at_end ntfuel init_ls iter search sc_want sc_end).
Notation wstep := (wstep mk_scanner mk_callback mk_search at_end ntfuel init_ls iter search sc_want sc_end mk_gp compile).
Notation wrun := (wrun mk_scanner mk_callback mk_search at_end ntfuel init_ls iter search sc_want sc_end mk_gp compile).
Notation world := (world Conf Sc CB GP).

(* the process-wide cell is unset or holds the constant; every instance is coherent and its configuration
   is what compiling some source with that constant gives *)
Definition w_ok (w : world) : Prop :=
  (w_gp w = None \/ w_gp w = Some mk_gp) /\
  Forall (fun p => coherent (fst p) (snd p) /\ exists src, compile mk_gp src = Some (fst p)) (w_insts w).

Lemma w_ok_0 : w_ok (world0 Conf Sc CB GP).
Proof. split; cbn; auto. Qed.

Lemma force_gp_ok w : w_ok w -> exists w', force_gp mk_gp w = (w', mk_gp) /\ w_ok w' /\ w_insts w' = w_insts w.
Proof.
  intros (A & B). unfold force_gp. destruct (w_gp w) eqn:E.
  - destruct A as [A|A]; [discriminate|]. inversion A; subst. exists w. repeat split; auto; try (rewrite E; auto).
  - eexists. split; [reflexivity|]. split; [|reflexivity]. split; cbn; auto.
Qed.

Lemma nth_upd_inst (l : list (iconf Conf * inst Sc CB)) : forall i j s,
  nth_error (upd_inst l i s) j =
  match nth_error l j with
  | Some (cf, s0) => Some (cf, if Nat.eqb j i then s else s0)
  | None => None
  end.
Proof.
  induction l as [|[cf s0] r IH]; intros i j s.
  - destruct i, j; reflexivity.
  - destruct i, j; cbn; auto.
    destruct (nth_error r j) as [[c x]|]; reflexivity.
Qed.

Lemma Forall_upd_inst (P : iconf Conf * inst Sc CB -> Prop) l : forall i s,
  Forall P l -> (forall cf s0, nth_error l i = Some (cf, s0) -> P (cf, s)) -> Forall P (upd_inst l i s).
Proof.
  induction l as [|[cf s0] r IH]; intros i s F H; cbn.
  - destruct i; constructor.
  - inversion F; subst. destruct i.
    + constructor; auto; try (apply (H cf s0); reflexivity).
    + constructor; auto.
Qed.

Lemma wstep_ok fuel w e : w_ok w -> w_ok (fst (wstep fuel w e)).
Proof.
  intros H. destruct e as [src|i o]; cbn [World.wstep].
  - destruct (force_gp_ok w H) as (w1 & E & H1 & I). rewrite E.
    destruct (compile mk_gp src) as [cf|] eqn:C; cbn; auto.
    destruct H1 as (A & B). split; cbn; auto. apply Forall_app. split; auto.
    constructor; [|constructor]. cbn. split; [exact (coherent_fresh Conf Sc CB mk_scanner mk_callback mk_search LexSt Err Text iter search cf)|eauto].
  - destruct (nth_error (w_insts w) i) as [[cf s]|] eqn:E; cbn; auto.
    destruct H as (A & B).
    assert (Hs : coherent cf s /\ exists src, compile mk_gp src = Some cf).
    { rewrite Forall_forall in B. apply (B (cf, s)). eapply nth_error_In; eauto. }
    destruct Hs as (Hc & Hsrc).
    pose proof (run_op_coh Conf Sc CB mk_scanner mk_callback mk_search LexSt Err Text at_end ntfuel init_ls iter search sc_want sc_end
                  fuel cf s o Hc) as (_ & Hc').
    destruct (run_op fuel cf s o) as [s' ob]. cbn in *. split; auto.
    apply Forall_upd_inst; auto. intros cf0 s0 E0. rewrite E in E0. inversion E0; subst. cbn. auto.
Qed.

Lemma wrun_ok fuel h : forall w, w_ok w -> w_ok (wrun fuel w h).
Proof.
  induction h as [|e r IH]; intros w H; cbn; auto. apply IH. now apply wstep_ok.
Qed.

(* Other instances.  After any history of the process - any number of other instances constructed (successfully or
   not) and used in any way, and any earlier calls on this one - a call on an instance delivers the pure function of
   that instance's own configuration and the call's arguments. *)
Theorem other_instances fuel h i cf s o :
  nth_error (w_insts (wrun fuel (world0 Conf Sc CB GP) h)) i = Some (cf, s) ->
  snd (wstep fuel (wrun fuel (world0 Conf Sc CB GP) h) (WCall Src i o)) = WResult (op_pure fuel cf o).
Proof.
  intros E. pose proof (wrun_ok fuel h _ w_ok_0) as (A & B).
  assert (Hc : coherent cf s).
  { rewrite Forall_forall in B. apply (B (cf, s)). eapply nth_error_In; eauto. }
  cbn [World.wstep]. rewrite E.
  pose proof (run_op_coh Conf Sc CB mk_scanner mk_callback mk_search LexSt Err Text at_end ntfuel init_ls iter search sc_want sc_end
                fuel cf s o Hc) as (R & _).
  destruct (run_op fuel cf s o) as [s' ob]. cbn in *. now rewrite R.
Qed.

(* Construction does not depend on the history either: Lark(src) fails or yields the configuration compile gives
   with the constant grammar-of-grammars parser, whatever was built or called before ... *)
Theorem construction_pure fuel h src :
  let w := wrun fuel (world0 Conf Sc CB GP) h in
  match compile mk_gp src with
  | None => snd (wstep fuel w (WNew Text src)) = WFailed _
  | Some cf => snd (wstep fuel w (WNew Text src)) = WCreated _ (List.length (w_insts w)) /\
               nth_error (w_insts (fst (wstep fuel w (WNew Text src)))) (List.length (w_insts w)) = Some (cf, fresh Sc CB)
  end.
Proof.
  intros w. pose proof (wrun_ok fuel h _ w_ok_0) as H. fold w in H.
  cbn [World.wstep]. destruct (force_gp_ok w H) as (w1 & E & H1 & I). rewrite E.
  destruct (compile mk_gp src) as [cf|]; cbn; auto. rewrite I. split; auto.
  rewrite nth_error_app2 by lia. rewrite Nat.sub_diag. reflexivity.
Qed.

(* ... and an instance keeps its configuration for ever *)
Theorem configuration_immutable fuel e w i cf s :
  nth_error (w_insts w) i = Some (cf, s) ->
  exists s', nth_error (w_insts (fst (wstep fuel w e))) i = Some (cf, s').
Proof.
  intros E. destruct e as [src|j o]; cbn [World.wstep].
  - unfold force_gp. destruct (w_gp w); destruct (compile _ src); cbn; eauto;
      exists s; rewrite nth_error_app1; auto; apply nth_error_Some; congruence.
  - destruct (nth_error (w_insts w) j) as [[cf' s0]|] eqn:Ej; cbn; eauto.
    destruct (run_op fuel cf' s0 o) as [s' ob]. cbn. rewrite nth_upd_inst, E. eauto.
Qed.

End Proofs.
