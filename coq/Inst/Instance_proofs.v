(* Proofs about Inst/Instance.v: the coherence invariant of the lazy cells and history
   independence of every operation. *)
From Coq Require Import ZArith List Bool String Arith Lia.
From LV Require Import Base.Prelude Sys.IndenterBase Gen.IndenterHoles Sys.Indenter Inst.IndSteps Inst.Instance.
Import ListNotations.

Section Proofs.
Variable Conf Sc CB : Type.
Variable mk_scanner : Conf -> Sc.
Variable mk_callback : Conf -> CB.
Variable mk_search : Conf -> Sc.
Variables LexSt Err Text : Type.
Variable at_end : LexSt -> bool.
Variable ntfuel : LexSt -> nat.
Variable init_ls : Text -> nat -> LexSt.
Variable iter : Conf -> Sc -> CB -> LexSt -> iter_res LexSt Err.
Variable search : Sc -> Text -> nat -> option nat.
Variable sc_want : Text -> nat -> list tok -> bool.
Variable sc_end : Text -> nat -> list tok -> pend Err -> option nat.

Notation lcell := (lcell Sc CB).
Notation inst := (inst Sc CB).
Notation iconf := (iconf Conf).
Notation force_scanner := (force_scanner mk_scanner mk_callback).
Notation force_search := (force_search (CB:=CB) mk_search).
Notation next_token := (next_token mk_scanner mk_callback at_end iter).
Notation nt_pure := (nt_pure mk_scanner mk_callback at_end iter).
Notation ppull := (ppull mk_scanner mk_callback at_end ntfuel iter).
Notation ppull_pure := (ppull_pure mk_scanner mk_callback at_end ntfuel iter).
Notation pull_stream := (pull_stream mk_scanner mk_callback at_end ntfuel iter).
Notation pull_pure := (pull_pure mk_scanner mk_callback at_end ntfuel iter).
Notation scan_loop := (scan_loop mk_scanner mk_callback mk_search at_end ntfuel init_ls iter search sc_want sc_end).
Notation scan_pure := (scan_pure mk_scanner mk_callback mk_search at_end ntfuel init_ls iter search sc_want sc_end).
Notation run_op := (run_op mk_scanner mk_callback mk_search at_end ntfuel init_ls iter search sc_want sc_end).
Notation op_pure := (op_pure mk_scanner mk_callback mk_search at_end ntfuel init_ls iter search sc_want sc_end).
Notation run_hist := (run_hist mk_scanner mk_callback mk_search at_end ntfuel init_ls iter search sc_want sc_end).

(* Every lazy cell is unset or holds what its builder returns for the configuration; and a
   published scanner implies a published callback table. *)
Definition coherent1 (c : Conf) (l : lcell) : Prop :=
  (c_scanner l = None \/ c_scanner l = Some (mk_scanner c)) /\
  (c_callback l = None \/ c_callback l = Some (mk_callback c)) /\
  (c_search l = None \/ c_search l = Some (mk_search c)) /\
  (c_scanner l <> None -> c_callback l <> None).

Definition coherent (cf : iconf) (s : inst) : Prop := forall i, coherent1 (lexconf cf i) (cells s i).

Lemma coherent1_cell0 c : coherent1 c (cell0 Sc CB).
Proof. unfold coherent1, cell0; cbn. intuition congruence. Qed.

Lemma coherent_fresh cf : coherent cf (fresh Sc CB).
Proof. intros i. apply coherent1_cell0. Qed.

Lemma force_scanner_coh c l : coherent1 c l ->
  exists l', force_scanner c l = (l', mk_scanner c) /\ coherent1 c l' /\ c_callback l' = Some (mk_callback c).
Proof.
  intros (A & B & C & D). unfold Instance.force_scanner.
  destruct (c_scanner l) as [s|] eqn:E.
  - exists l. destruct A as [A|A]; [discriminate|]. inversion A; subst.
    assert (c_callback l <> None) by (apply D; congruence).
    destruct B as [B|B]; [congruence|].
    repeat split; auto; try (rewrite E; auto).
  - eexists. split; [reflexivity|]. unfold coherent1; cbn. intuition congruence.
Qed.

Lemma force_search_coh c l : coherent1 c l ->
  exists l', force_search c l = (l', mk_search c) /\ coherent1 c l'.
Proof.
  intros (A & B & C & D). unfold Instance.force_search.
  destruct (c_search l) as [s|] eqn:E.
  - exists l. destruct C as [C|C]; [discriminate|]. inversion C; subst.
    repeat split; auto; try (rewrite E; auto).
  - eexists. split; [reflexivity|]. unfold coherent1; cbn. intuition.
Qed.

(* next_token computes the pure function and keeps the cell coherent - for every fuel, hence for
   every prefix of its loop *)
Lemma next_token_coh fuel : forall c l ls, coherent1 c l ->
  exists l', next_token fuel c l ls = (l', nt_pure fuel c ls) /\ coherent1 c l'.
Proof.
  induction fuel; intros c l ls H; cbn.
  - eauto.
  - destruct (at_end ls); [eauto|].
    destruct (force_scanner_coh c l H) as (l1 & E & H1 & CB1). rewrite E, CB1.
    destruct (iter c (mk_scanner c) (mk_callback c) ls); eauto.
Qed.

Lemma coherent_set_cell cf s i l : coherent cf s -> coherent1 (lexconf cf i) l -> coherent cf (set_cell s i l).
Proof.
  intros H Hl j. unfold set_cell; cbn. destruct (Nat.eqb j i) eqn:E; auto.
  apply Nat.eqb_eq in E. now subst.
Qed.

Lemma coherent_set_ind cf s st : coherent cf s -> coherent cf (set_ind s st).
Proof. intros H j. apply H. Qed.

Lemma ppull_coh fuel cf want : forall s ist ls acc, coherent cf s ->
  exists s', ppull fuel cf want s ist ls acc
             = (let '(i', a', e') := ppull_pure fuel cf want ist ls acc in (s', i', a', e'))
             /\ coherent cf s' /\ ind s' = ind s.
Proof.
  induction fuel; intros s ist ls acc H; cbn [Instance.ppull Instance.ppull_pure].
  - eauto.
  - destruct (next_token_coh (ntfuel ls) (lexconf cf (pick cf acc)) (cells s (pick cf acc)) ls (H _))
      as (l' & E & Hl). rewrite E.
    pose proof (coherent_set_cell cf s _ l' H Hl) as H1.
    destruct (nt_pure (ntfuel ls) (lexconf cf (pick cf acc)) ls) as [t ls'| |e ls1| |].
    + destruct (pl_feed (postlex cf) ist t) as [[outs ist1] err].
      destruct (consume want acc outs) as [acc' [st|]]; [eauto|].
      destruct err; [eauto|].
      destruct (IHfuel (set_cell s (pick cf acc) l') ist1 ls' acc' H1) as (s' & E' & H' & I').
      exists s'. split; auto.
    + destruct (pl_finish (postlex cf) ist) as [[outs ist1] fin].
      destruct (consume want acc outs) as [acc' [st|]]; eauto.
    + destruct (contextual cf) as [rt|]; [|eauto].
      destruct (next_token_coh (ntfuel ls1) (lexconf cf rt) (cells (set_cell s (pick cf acc) l') rt) ls1 (H1 _))
        as (lr & Er & Hr). rewrite Er.
      eexists. split; [reflexivity|]. split; auto. now apply coherent_set_cell.
    + eauto.
    + eauto.
Qed.

Lemma start_ist_open (cf : iconf) (s : inst) : start_ist cf (open_stream cf s) = reset_state.
Proof. unfold start_ist, open_stream. destruct (postlex cf); reflexivity. Qed.

Lemma coherent_open (cf : iconf) (s : inst) : coherent cf s -> coherent cf (open_stream cf s).
Proof. unfold open_stream. destruct (postlex cf); auto. Qed.

Lemma coherent_close (cf : iconf) (s : inst) ist : coherent cf s -> coherent cf (close_stream cf s ist).
Proof. unfold close_stream. destruct (postlex cf); auto. Qed.

Lemma pull_stream_coh fuel cf want s ls : coherent cf s -> start_ist cf s = reset_state ->
  snd (pull_stream fuel cf want s ls) = pull_pure fuel cf want ls /\
  coherent cf (fst (pull_stream fuel cf want s ls)).
Proof.
  intros H S. unfold Instance.pull_stream, Instance.pull_pure. destruct (want []); [|auto].
  rewrite S. destruct (ppull_coh fuel cf want s reset_state ls [] H) as (s' & E & H' & _). rewrite E.
  destruct (ppull_pure fuel cf want reset_state ls []) as [[i' a'] e']. cbn. split; auto.
  now apply coherent_close.
Qed.

Lemma scan_loop_coh fuel pfuel cf wantm text : forall s pos j atts, coherent cf s ->
  snd (scan_loop fuel pfuel cf wantm s text pos j atts) = scan_pure fuel pfuel cf wantm text pos j atts /\
  coherent cf (fst (scan_loop fuel pfuel cf wantm s text pos j atts)).
Proof.
  induction fuel; intros s pos j atts H; cbn [Instance.scan_loop Instance.scan_pure].
  - auto.
  - destruct (force_search_coh (lexconf cf (pick cf [])) (cells s (pick cf [])) (H _)) as (l' & E & Hl).
    rewrite E. pose proof (coherent_set_cell cf s _ l' H Hl) as H1.
    destruct (search (mk_search (lexconf cf (pick cf []))) text pos) as [ms|]; [|auto].
    destruct (ppull_coh pfuel cf (sc_want text ms) _ reset_state (init_ls text ms) [] H1) as (s2 & E2 & H2 & _).
    rewrite E2. destruct (ppull_pure pfuel cf (sc_want text ms) reset_state (init_ls text ms) []) as [[i' toks] e].
    destruct (sc_end text ms toks e).
    + destruct (wantm (S j)); auto.
    + auto.
Qed.

(* Every operation, from every coherent state: the observation is the pure function of the
   configuration and the arguments, and the state stays coherent.  Since [want]/[wantm] are
   arbitrary this covers calls that fail and generators that are abandoned after any number of
   tokens or matches. *)
Lemma run_op_coh fuel cf s o : coherent cf s ->
  snd (run_op fuel cf s o) = op_pure fuel cf o /\ coherent cf (fst (run_op fuel cf s o)).
Proof.
  intros H. destruct o as [text want|text want|text want|text want|text wantm|]; cbn [Instance.run_op Instance.op_pure].
  - destruct (want []) eqn:W.
    + destruct (pull_stream_coh fuel cf want (open_stream cf s) (init_ls text 0) (coherent_open _ _ H)
                  (start_ist_open cf s)) as (A & B).
      destruct (pull_stream fuel cf want (open_stream cf s) (init_ls text 0)) as [s' [acc e]]. cbn in *.
      rewrite <- A. auto.
    + unfold Instance.pull_pure. rewrite W. auto.
  - destruct (lex_shared cf).
    + assert (Hs : coherent (lex_shared_cf cf) (open_stream cf s)) by (intros i; apply (coherent_open _ _ H i)).
      assert (St : start_ist (lex_shared_cf cf) (open_stream cf s) = reset_state) by apply (start_ist_open cf s).
      destruct (pull_stream_coh fuel (lex_shared_cf cf) want (open_stream cf s) (init_ls text 0) Hs St) as (A & B).
      destruct (pull_stream fuel (lex_shared_cf cf) want (open_stream cf s) (init_ls text 0)) as [s' [acc e]].
      cbn in *. rewrite <- A. split; [reflexivity|]. intros i. apply (B i).
    + set (p := mkInst (fun _ : nat => cell0 Sc CB) (ind (open_stream cf s))).
      assert (Hp : coherent (lex_private_cf cf) p) by (intros i; apply coherent1_cell0).
      assert (St : start_ist (lex_private_cf cf) p = reset_state).
      { unfold start_ist, p, open_stream; cbn. destruct (postlex cf); reflexivity. }
      destruct (pull_stream_coh fuel (lex_private_cf cf) want p (init_ls text 0) Hp St) as (A & B).
      destruct (pull_stream fuel (lex_private_cf cf) want p (init_ls text 0)) as [p' [acc e]].
      cbn in *. rewrite <- A. split; [reflexivity|]. intros i. apply (coherent_open _ _ H i).
  - set (p := mkInst (fun _ : nat => cell0 Sc CB) (ind (open_stream cf s))).
    assert (Hp : coherent (lex_all_cf cf) p) by (intros i; apply coherent1_cell0).
    assert (St : start_ist (lex_all_cf cf) p = reset_state).
    { unfold start_ist, p, open_stream; cbn. destruct (postlex cf); reflexivity. }
    destruct (pull_stream_coh fuel (lex_all_cf cf) want p (init_ls text 0) Hp St) as (A & B).
    destruct (pull_stream fuel (lex_all_cf cf) want p (init_ls text 0)) as [p' [acc e]].
    cbn in *. rewrite <- A. split; [reflexivity|]. intros i. apply (coherent_open _ _ H i).
  - destruct (want []) eqn:W.
    + destruct (pull_stream_coh fuel cf want (open_stream cf s) (init_ls text 0) (coherent_open _ _ H)
                  (start_ist_open cf s)) as (A & B).
      destruct (pull_stream fuel cf want (open_stream cf s) (init_ls text 0)) as [s' [acc e]]. cbn in *.
      rewrite <- A. auto.
    + unfold Instance.pull_pure. rewrite W. auto.
  - destruct (postlex cf); [auto|]. destruct (can_scan cf); [|auto]. destruct (wantm 0); [|auto].
    destruct (scan_loop_coh fuel fuel cf wantm text s 0 0 [] H) as (A & B).
    destruct (scan_loop fuel fuel cf wantm s text 0 0 []) as [s' [atts fin]]. cbn in *.
    rewrite <- A. auto.
  - auto.
Qed.

(* coherent_inv: the invariant holds after every history (every operation prefix included) *)
Theorem coherent_inv fuel cf h : forall s, coherent cf s -> coherent cf (run_hist fuel cf s h).
Proof.
  induction h as [|o r IH]; intros s H; cbn; auto.
  apply IH. now apply run_op_coh.
Qed.

(* the outcome of any call after any history is the pure function of configuration and arguments,
   hence equal to the outcome on a fresh instance *)
Theorem history_pure fuel cf h o :
  snd (run_op fuel cf (run_hist fuel cf (fresh Sc CB) h) o) = op_pure fuel cf o.
Proof. apply run_op_coh, coherent_inv, coherent_fresh. Qed.

Theorem history_independent fuel cf h o :
  snd (run_op fuel cf (run_hist fuel cf (fresh Sc CB) h) o) = snd (run_op fuel cf (fresh Sc CB) o).
Proof.
  rewrite history_pure. symmetry. apply run_op_coh, coherent_fresh.
Qed.

(* per-call state is fresh: the observation of a call does not even depend on which coherent
   state (e.g. of another instance with the same configuration) it starts from *)
Theorem any_coherent_state fuel cf s1 s2 o : coherent cf s1 -> coherent cf s2 ->
  snd (run_op fuel cf s1 o) = snd (run_op fuel cf s2 o).
Proof.
  intros H1 H2. destruct (run_op_coh fuel cf s1 o H1) as (A & _).
  destruct (run_op_coh fuel cf s2 o H2) as (B & _). congruence.
Qed.

End Proofs.
