(* Concrete instances used for non-vacuity examples and for the refutation of the no-reset
   variant of Indenter.process. *)
From Coq Require Import ZArith List Bool String Ascii Arith.
From LV Require Import Base.Prelude Sys.IndenterBase Gen.IndenterHoles Sys.Indenter Inst.IndSteps
     Inst.Instance Inst.MiniLex Inst.InstCheck.
Import ListNotations.
Local Open Scope string_scope.

Definition nls : string := String "010"%char EmptyString.
Definition lower : string := "abcdefghijklmnopqrstuvwxyz".

(* an indentation-sensitive lexer: NAME with a keyword inside it, a user callback on NAME,
   newline+indentation, brackets, ignored blanks; sorted the way BasicLexer.__init__ sorts *)
Definition ex_lconf : lconf :=
  mkLconf [ mkTerm "NAME" (PRe [(lower, QPlus)]) 0;
            mkTerm "_NL" (PRe [(nls, QOne); (" ", QStar)]) 0;
            mkTerm "WS" (PRe [(" ", QPlus)]) 0;
            mkTerm "IF" (PStr "if") 0;
            mkTerm "LPAR" (PStr "(") 0;
            mkTerm "RPAR" (PStr ")") 0 ]
          ["WS"]
          [("NAME", UUpper)].

Definition ex_icfg : icfg := mkCfg "_NL" ["LPAR"] ["RPAR"] "_INDENT" "_DEDENT" 8.
Definition ex_cf : iconf lconf := basic_conf ex_lconf (Some ex_icfg) false true.

Definition t_block : string := "a" ++ nls ++ "  if b" ++ nls ++ "c".

(* a history of a call that fails in the lexer, a stream abandoned inside an indented block, a
   parse stopped by the parser inside brackets, another instance, an interactive session never used *)
Definition ex_hist : list cop :=
  [ op_of (DParse ("a" ++ nls ++ "  b ?") None);
    op_of (DLex t_block (Some 3));
    op_of (DParse "( a ( b" (Some 4));
    op_of DOther;
    op_of (DInter "x" (Some 0)) ].

Definition ex_probe : cop := op_of (DLex t_block None).
