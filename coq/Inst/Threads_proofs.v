(* Proofs about Inst/Threads.v: safety of the publish-last lazy initialisation for every
   schedule and any number of threads (by an invariant, induction over the schedule), and a
   concrete failing schedule for the old publish-first order. *)
From Coq Require Import List Arith Bool String Lia.
From LV Require Import Inst.ThreadsBase Inst.Threads.
Import ListNotations.

(* ---------- the complete table contains the user callbacks ---------- *)
Lemma lookup_tset_same k v d : lookup k (tset k v d) = Some v.
Proof.
  induction d as [|[k' v'] r IH]; cbn.
  - now rewrite String.eqb_refl.
  - destruct (String.eqb k k') eqn:E; cbn; rewrite E; auto.
Qed.

Lemma lookup_tset_other k k' v d : k <> k' -> lookup k' (tset k v d) = lookup k' d.
Proof.
  intros N. induction d as [|[k2 v2] r IH]; cbn.
  - destruct (String.eqb k' k) eqn:E; auto. apply String.eqb_eq in E. congruence.
  - destruct (String.eqb k k2) eqn:E; cbn.
    + apply String.eqb_eq in E. subst k2.
      destruct (String.eqb k' k) eqn:E2; auto. apply String.eqb_eq in E2. congruence.
    + destruct (String.eqb k' k2); auto.
Qed.

Definition is_user_entry (o : option cbv) : Prop := o = Some CUser \/ o = Some CChain.

Lemma add_user_same d k : is_user_entry (lookup k (add_user d k)).
Proof.
  unfold add_user, is_user_entry. destruct (lookup k d); rewrite lookup_tset_same; auto.
Qed.

Lemma add_user_keeps d k k' : is_user_entry (lookup k' d) -> is_user_entry (lookup k' (add_user d k)).
Proof.
  intros H. destruct (String.eqb k k') eqn:E.
  - apply String.eqb_eq in E. subst. apply add_user_same.
  - apply String.eqb_neq in E. unfold add_user.
    destruct (lookup k d); rewrite lookup_tset_other; auto.
Qed.

Lemma fold_add_user_keeps ks : forall d k', is_user_entry (lookup k' d) ->
  is_user_entry (lookup k' (fold_left add_user ks d)).
Proof. induction ks; cbn; intros; auto. apply IHks. now apply add_user_keeps. Qed.

Lemma fold_add_user_in ks : forall d k, In k ks -> is_user_entry (lookup k (fold_left add_user ks d)).
Proof.
  induction ks; cbn; intros d k H; [contradiction|].
  destruct H as [->|H]; [|now apply IHks].
  apply fold_add_user_keeps, add_user_same.
Qed.

(* every user lexer_callback has an entry that calls it (alone, or chained after the Unless callback) *)
Lemma full_table_has_user c k : In k (user_keys c) ->
  lookup k (full_table c) = Some CUser \/ lookup k (full_table c) = Some CChain.
Proof. intros H. exact (fold_add_user_in _ _ _ H). Qed.

(* ---------- list update ---------- *)
Lemma Forall2_upd {A B} (P : A -> B -> Prop) la lb i a b :
  Forall2 P la lb -> nth_error la i = Some a -> P a b -> Forall2 P la (upd lb i b).
Proof.
  intros H; revert i. induction H; intros i E Pb.
  - destruct i; discriminate.
  - destruct i as [|i]; cbn in *.
    + inversion E; subst. constructor; auto.
    + constructor; auto.
Qed.

Lemma Forall2_nth {A B} (P : A -> B -> Prop) la lb i b :
  Forall2 P la lb -> nth_error lb i = Some b -> exists a, nth_error la i = Some a /\ P a b.
Proof.
  intros H; revert i. induction H; intros i E.
  - destruct i; discriminate.
  - destruct i as [|i]; cbn in *.
    + inversion E; subst. eauto.
    + eauto.
Qed.

Lemma Forall2_impl {A B} (P Q : A -> B -> Prop) la lb :
  (forall a b, P a b -> Q a b) -> Forall2 P la lb -> Forall2 Q la lb.
Proof. intros I H. induction H; constructor; auto. Qed.

(* ---------- the invariant (publish-last order) ---------- *)
Section Safe.
Variable c : tcfg.

Definition sh_ok (sh : shared) : Prop :=
  Forall (fun d => d = full_table c) (heap sh) /\
  (forall a, sh_cb sh = Some a -> a < List.length (heap sh)) /\
  (sh_scanner sh = true -> sh_cb sh <> None).

(* the shared cells only ever go from unset to set *)
Definition sh_le (sh sh' : shared) : Prop :=
  (sh_scanner sh = true -> sh_scanner sh' = true) /\ (sh_cb sh <> None -> sh_cb sh' <> None).

Lemma cb_table_complete sh : sh_ok sh -> sh_cb sh <> None -> cb_table sh = Some (full_table c).
Proof.
  intros (F & B & _) N. unfold cb_table. destruct (sh_cb sh) as [a|]; [|congruence].
  specialize (B a eq_refl). destruct (nth_error (heap sh) a) eqn:E.
  - rewrite Forall_forall in F. f_equal. apply F. eapply nth_error_In; eauto.
  - apply nth_error_None in E. lia.
Qed.

Definition pc_ok (sh : shared) (th : thread) : Prop :=
  match t_pc th with
  | PCheck | PCall => t_todo th <> []
  | PPublish d => d = full_table c /\ t_todo th <> []
  | PReturn => sh_cb sh <> None /\ t_todo th <> []
  | PRet | PTokA => sh_scanner sh = true /\ t_todo th <> []
  | PTokB => sh_scanner sh = true /\ t_todo th <> [] /\ expected c (cur th) <> TDropped
  | PTokC => sh_scanner sh = true /\ t_todo th <> [] /\ lookup (fst (cur th)) (full_table c) <> None
  | PDone => t_todo th = []
  | POldAlloc | POldAssert | POldTest _ | POldSet _ _ => False
  end.

Definition th_ok (sh : shared) (inp : list (key * bool)) (th : thread) : Prop :=
  t_res th ++ seq_results c (t_todo th) = seq_results c inp /\ pc_ok sh th.

Lemma th_ok_mono sh sh' inp th : sh_le sh sh' -> th_ok sh inp th -> th_ok sh' inp th.
Proof.
  intros (L1 & L2) (R & P). split; auto. unfold pc_ok in *.
  destruct (t_pc th); intuition.
Qed.

Lemma start_ok inp : th_ok sh0 inp (start inp).
Proof.
  unfold th_ok, start, pc_ok; cbn. split; auto. destruct inp; cbn; congruence.
Qed.

Lemma finish_ok sh inp th :
  t_res th ++ seq_results c (t_todo th) = seq_results c inp -> t_todo th <> [] ->
  th_ok sh inp (finish th (expected c (cur th))).
Proof.
  intros R N. unfold finish, cur, th_ok, pc_ok in *. destruct (t_todo th) as [|[k b] rest]; [congruence|].
  cbn in *. split.
  - rewrite <- app_assoc. exact R.
  - destruct rest; cbn; congruence.
Qed.

(* one step of one thread keeps everything *)
Lemma step_ok sh th inp sh' th' :
  sh_ok sh -> th_ok sh inp th -> step PublishLast c sh th = (sh', th') ->
  sh_ok sh' /\ sh_le sh sh' /\ th_ok sh' inp th'.
Proof.
  intros SO (R & P) S. unfold step in S. unfold pc_ok in P.
  destruct (t_pc th) eqn:EP; try contradiction.
  - (* PCheck *)
    destruct (sh_scanner sh) eqn:ES; inversion S; subst; (split; [auto|split; [split; auto|]]);
      split; auto; unfold pc_ok; cbn; auto.
  - (* PCall *)
    inversion S; subst. split; auto. split; [split; auto|]. split; auto. unfold pc_ok; cbn. auto.
  - (* PPublish *)
    destruct P as (-> & N). inversion S; subst; clear S. destruct SO as (F & B & I).
    split; [|split].
    + split; [|split]; cbn.
      * apply Forall_app. split; auto.
      * intros a E. inversion E; subst. rewrite app_length. cbn. lia.
      * intros _. congruence.
    + split; cbn; auto. intros _. congruence.
    + split; auto. unfold pc_ok; cbn. split; auto. congruence.
  - (* PReturn *)
    destruct P as (NC & N). inversion S; subst; clear S. destruct SO as (F & B & I).
    split; [|split].
    + split; [|split]; cbn; auto.
    + split; cbn; auto.
    + split; auto. unfold pc_ok; cbn. auto.
  - (* PRet *)
    inversion S; subst. split; auto. split; [split; auto|]. split; auto.
  - (* PTokA *)
    destruct P as (ES & N).
    assert (CT : cb_table sh = Some (full_table c)).
    { apply cb_table_complete; auto. destruct SO as (_ & _ & I). auto. }
    destruct (cur th) as [k ign] eqn:EC. rewrite CT in S.
    assert (SL : sh_le sh sh) by (split; auto).
    destruct ign.
    + destruct (lookup k (full_table c)) eqn:EL; inversion S; subst; (split; [auto|split; [auto|]]).
      * split; auto. unfold pc_ok; cbn. repeat split; auto. unfold goto, cur in *; cbn.
        rewrite EC. unfold expected; cbn. rewrite EL. congruence.
      * replace TDropped with (expected c (cur th)).
        -- apply finish_ok; auto.
        -- rewrite EC. unfold expected; cbn. now rewrite EL.
    + inversion S; subst. split; auto. split; auto. split; auto. unfold pc_ok; cbn.
      repeat split; auto. unfold goto, cur in *; cbn. rewrite EC. unfold expected; cbn.
      destruct (lookup k (full_table c)); congruence.
  - (* PTokB *)
    destruct P as (ES & N & ND).
    assert (CT : cb_table sh = Some (full_table c)).
    { apply cb_table_complete; auto. destruct SO as (_ & _ & I). auto. }
    destruct (cur th) as [k ign] eqn:EC. rewrite CT in S.
    assert (SL : sh_le sh sh) by (split; auto).
    destruct (lookup k (full_table c)) eqn:EL; inversion S; subst; (split; [auto|split; [auto|]]).
    + split; auto. unfold pc_ok; cbn. repeat split; auto. unfold goto, cur in *; cbn. rewrite EC. cbn. congruence.
    + replace TPlain with (expected c (cur th)).
      * apply finish_ok; auto.
      * rewrite EC in *. unfold expected in *; cbn in *. rewrite EL in *. destruct ign; congruence.
  - (* PTokC *)
    destruct P as (ES & N & NL).
    assert (CT : cb_table sh = Some (full_table c)).
    { apply cb_table_complete; auto. destruct SO as (_ & _ & I). auto. }
    destruct (cur th) as [k ign] eqn:EC. rewrite CT in S. cbn in NL.
    assert (SL : sh_le sh sh) by (split; auto).
    destruct (lookup k (full_table c)) eqn:EL; [|congruence]. inversion S; subst.
    split; auto. split; auto.
    replace (TApplied c0) with (expected c (cur th)).
    + apply finish_ok; auto.
    + rewrite EC. unfold expected; cbn. now rewrite EL.
  - (* PDone *)
    inversion S; subst. split; auto. split; [split; auto|]. split; auto. unfold pc_ok. now rewrite EP.
Qed.

Definition g_ok (inputs : list (list (key * bool))) (g : gstate) : Prop :=
  sh_ok (fst g) /\ Forall2 (th_ok (fst g)) inputs (snd g).

Lemma init_ok inputs : g_ok inputs (init inputs).
Proof.
  split; cbn.
  - split; [constructor|]. split; intros; discriminate.
  - induction inputs; cbn; constructor; auto. apply start_ok.
Qed.

Lemma gstep_ok inputs g i : g_ok inputs g -> g_ok inputs (gstep PublishLast c g i).
Proof.
  intros (SO & F). unfold gstep. destruct (nth_error (snd g) i) as [th|] eqn:E; [|split; auto].
  destruct (step PublishLast c (fst g) th) as [sh' th'] eqn:S.
  destruct (Forall2_nth _ _ _ _ _ F E) as (inp & EI & TO).
  destruct (step_ok _ _ _ _ _ SO TO S) as (SO' & LE & TO').
  split; cbn; auto.
  eapply Forall2_upd; eauto.
  eapply Forall2_impl; [|exact F]. intros a b. now apply th_ok_mono.
Qed.

Lemma run_ok sched : forall inputs g, g_ok inputs g -> g_ok inputs (run PublishLast c sched g).
Proof.
  induction sched; cbn; intros; auto. apply IHsched. now apply gstep_ok.
Qed.

(* Safety, every schedule, any number of threads:
   (1) what each thread has produced so far, followed by the sequential results of what it still
       has to lex, is the sequential result of its whole input (so its tokens are the sequential
       ones, no KeyError/AttributeError, no callback skipped);
   (2) a finished thread has produced exactly the sequential result;
   (3) whenever a thread is at one of next_token's reads of self.callback, the attribute holds
       the complete table. *)
Theorem lazy_init_safe_publish_last inputs sched :
  let g := run PublishLast c sched (init inputs) in
  Forall2 (fun inp th =>
             t_res th ++ seq_results c (t_todo th) = seq_results c inp /\
             (t_pc th = PDone -> t_res th = seq_results c inp) /\
             (t_pc th = PTokA \/ t_pc th = PTokB \/ t_pc th = PTokC ->
              cb_table (fst g) = Some (full_table c)))
          inputs (snd g).
Proof.
  intros g. destruct (run_ok sched inputs _ (init_ok inputs)) as (SO & F). fold g in SO, F.
  eapply Forall2_impl; [|exact F]. intros inp th (R & P). split; auto. split.
  - intros D. unfold pc_ok in P. rewrite D in P. rewrite P in R. cbn in R. now rewrite app_nil_r in R.
  - intros H. apply cb_table_complete; auto. destruct SO as (_ & _ & I). apply I.
    unfold pc_ok in P. destruct H as [H|[H|H]]; rewrite H in P; tauto.
Qed.

End Safe.

(* ---------- the old order: a schedule on which a user callback is skipped ---------- *)
Definition race_cfg : tcfg := mkTcfg [] ["WORD"%string].
Definition race_inputs : list (list (key * bool)) := [[("WORD"%string, false)]; [("WORD"%string, false)]].
(* thread 1 tests `_scanner is None`; thread 0 builds, publishes, starts lexing and stops in front of
   `if t.type in self.callback`; thread 1 enters _build_scanner and re-binds self.callback to a dict
   that does not contain the user callback yet; thread 0 continues. *)
Definition race_sched : list nat := [1; 0; 0; 0; 0; 0; 0; 0; 0; 0; 0; 1; 1; 0].

Lemma lazy_init_race_old_order_refuted :
  exists c inputs sched th,
    nth_error (snd (run PublishFirst c sched (init inputs))) 0 = Some th /\
    t_pc th = PDone /\ t_res th <> seq_results c (nth 0 inputs []).
Proof.
  exists race_cfg, race_inputs, race_sched.
  eexists. split; [vm_compute; reflexivity|]. split; [reflexivity|]. vm_compute. discriminate.
Qed.

(* the same schedule is harmless for the publish-last order *)
Example race_sched_publish_last :
  map t_res (snd (run PublishLast race_cfg (race_sched ++ [1;1;1;1;1;1;1;1]) (init race_inputs)))
  = [[("WORD"%string, TApplied CUser)]; [("WORD"%string, TApplied CUser)]].
Proof. vm_compute. reflexivity. Qed.
