(* The mutable state of a Lark instance and its operations as state transformers
   (lark/lark.py: lex/parse/parse_interactive/scan; lark/parser_frontends.py: ParsingFrontend,
   PostLexConnector, _scan; lark/lexer.py: BasicLexer's lazily built cells, ContextualLexer.lex;
   lark/indenter.py: Indenter.process).  Executable definitions only; proofs in Instance_proofs.v.

   What is state and what is not.  The only attributes written after construction are
     * per BasicLexer object: _scanner, callback (both set by the first use of the `scanner`
       property) and _search_scanner (first use of `search_scanner`);
     * on the user's post-lexer object: Indenter.paren_level / indent_level.
   Everything else a call needs (LexerState, LexerThread, ParseConf, ParserState, the Earley columns
   and caches, the forest transformer) is created inside the call; in this model it simply does not
   appear in [inst] - the harness checks that frame condition on the implementation by comparing
   object-graph snapshots, and the translator pins the functions that create the per-call objects.

   A call is driven by a consumer that pulls tokens one at a time and may stop after any number
   of them (a parser that fails, a generator the user abandons): [want acc] says whether the
   consumer asks for another token after having received [acc]. *)
From Coq Require Import ZArith List Bool String Arith.
From LV Require Import Base.Prelude Sys.IndenterBase Gen.IndenterHoles Sys.Indenter Inst.IndSteps.
Import ListNotations.

Set Implicit Arguments.

Section Generic.

(* the immutable part of one BasicLexer (terminals, flags, ignore set, user callbacks) ... *)
Variable Conf : Type.
(* ... and what its lazy cells are built from *)
Variables Sc CB : Type.
Variable mk_scanner : Conf -> Sc.      (* Scanner(terminals', ...) returned by _build_scanner *)
Variable mk_callback : Conf -> CB.     (* the completed callback table *)
Variable mk_search : Conf -> Sc.       (* Scanner(non-ignored terminals) of search_scanner *)

Variables LexSt Err Text : Type.       (* LexerState; lexer error; input text *)
Variable at_end : LexSt -> bool.       (* line_ctr.char_pos >= text.end *)
Variable ntfuel : LexSt -> nat.        (* bound on the rounds of next_token's while loop *)
Variable init_ls : Text -> nat -> LexSt.   (* fresh LexerState for the text from a position *)

Inductive iter_res :=
| IEmit (t : tok) (ls : LexSt)         (* return t *)
| ISkip (ls : LexSt)                   (* ignored terminal: next round *)
| IFail (e : Err).                     (* raise UnexpectedCharacters *)
(* one round of the loop of BasicLexer.next_token, given the values read from the cells *)
Variable iter : Conf -> Sc -> CB -> LexSt -> iter_res.
Variable search : Sc -> Text -> nat -> option nat.    (* Scanner.search *)

(* ------------------------------------------------------------------ one BasicLexer *)
Record lcell := mkCell { c_scanner : option Sc; c_callback : option CB; c_search : option Sc }.
Definition cell0 : lcell := mkCell None None None.

(* the `scanner` property, _build_scanner inlined (publish-last order):
     if self._scanner is None:
         ... self.callback = callback            (inside _build_scanner)
         self._scanner = Scanner(...)
     return self._scanner *)
Definition force_scanner (c : Conf) (l : lcell) : lcell * Sc :=
  match c_scanner l with
  | Some s => (l, s)
  | None =>
      let l1 := mkCell (c_scanner l) (Some (mk_callback c)) (c_search l) in
      let s := mk_scanner c in
      (mkCell (Some s) (c_callback l1) (c_search l1), s)
  end.

Definition force_search (c : Conf) (l : lcell) : lcell * Sc :=
  match c_search l with
  | Some s => (l, s)
  | None => let s := mk_search c in (mkCell (c_scanner l) (c_callback l) (Some s), s)
  end.

Inductive ntres :=
| NTok (t : tok) (ls : LexSt)
| NEof                                  (* raise EOFError: no cell is touched *)
| NErr (e : Err) (ls : LexSt)
| NAttr                                 (* self.callback does not exist: AttributeError *)
| NFuel.

(* BasicLexer.next_token: every round goes through self.match -> self.scanner and then reads
   self.callback *)
Fixpoint next_token (fuel : nat) (c : Conf) (l : lcell) (ls : LexSt) : lcell * ntres :=
  match fuel with
  | O => (l, NFuel)
  | S f =>
      if at_end ls then (l, NEof) else
      let '(l1, s) := force_scanner c l in
      match c_callback l1 with
      | None => (l1, NAttr)
      | Some cb =>
          match iter c s cb ls with
          | IEmit t ls' => (l1, NTok t ls')
          | ISkip ls' => next_token f c l1 ls'
          | IFail e => (l1, NErr e ls)
          end
      end
  end.

(* ------------------------------------------------------------------ the instance *)
Record inst := mkInst {
  cells : nat -> lcell;       (* the BasicLexer objects of the instance *)
  ind : istate }.             (* the Indenter post-lexer object (meaningless without postlex) *)

Definition set_cell (s : inst) (i : nat) (l : lcell) : inst :=
  mkInst (fun j => if Nat.eqb j i then l else cells s j) (ind s).
Definition set_ind (s : inst) (st : istate) : inst := mkInst (cells s) st.

(* state right after Lark(...) : no cell built; Indenter.__init__ *)
Definition fresh : inst := mkInst (fun _ => cell0) (mkSt 0%Z [0%Z]).

Record iconf := mkIconf {
  lexconf : nat -> Conf;      (* configuration of each BasicLexer *)
  pick : list tok -> nat;     (* which BasicLexer serves the next token, given the tokens the parser has been
                                 fed so far (ContextualLexer: self.lexers[parser_state.position]; BasicLexer: 0) *)
  contextual : option nat;    (* Some r: ContextualLexer whose root_lexer is cell r *)
  postlex : option icfg;      (* an Indenter post-lexer *)
  lex_shared : bool;          (* Lark.lex uses self.lexer (built with parser=None); otherwise it builds a new
                                 BasicLexer on every call *)
  lex_conf : Conf;            (* configuration of that new BasicLexer *)
  lexall_conf : Conf;         (* ... and of the one built by lex(text, dont_ignore=True): a private copy of the
                                 configuration whose ignore list is emptied; the instance's own is not touched *)
  can_scan : bool }.          (* parser='lalr' with a built-in lexer *)

Definition pl_feed (pl : option icfg) (st : istate) (t : tok) : list ystep * istate * option istatus :=
  match pl with
  | Some cfg => feed cfg st t
  | None => ([(t, st)], st, None)
  end.

Definition pl_finish (pl : option icfg) (st : istate) : list ystep * istate * istatus :=
  match pl with
  | Some cfg => finish_steps cfg st
  | None => ([], st, Done)
  end.

(* the consumer takes the yields one by one; Some st = it stopped asking while the generator was
   suspended at a yield with the post-lexer object in state st *)
Fixpoint consume (want : list tok -> bool) (acc : list tok) (outs : list ystep) : list tok * option istate :=
  match outs with
  | [] => (acc, None)
  | (t, st) :: r => let acc' := acc ++ [t] in
                    if want acc' then consume want acc' r else (acc', Some st)
  end.

Inductive pend :=
| EAbandoned                             (* the consumer stopped pulling *)
| EEof (s : istatus)                     (* stream exhausted (Done, or the Indenter's final assert) *)
| ELexErr (e : Err) (again : option tok) (* UnexpectedCharacters; contextual: what root_lexer.next_token returned *)
| EPostErr (e : istatus)                 (* DedentError etc. raised inside the post-lexer *)
| EAttr
| EFuel.

(* Pulling tokens through (ContextualLexer|BasicLexer).lex and PostLexConnector: the consumer wants
   at least one more token on entry; ist is the state of the post-lexer object at this resumption. *)
Fixpoint ppull (fuel : nat) (cf : iconf) (want : list tok -> bool) (s : inst) (ist : istate)
         (ls : LexSt) (acc : list tok) : inst * istate * list tok * pend :=
  match fuel with
  | O => (s, ist, acc, EFuel)
  | S f =>
      let i := pick cf acc in
      let '(l', r) := next_token (ntfuel ls) (lexconf cf i) (cells s i) ls in
      let s1 := set_cell s i l' in
      match r with
      | NTok t ls' =>
          let '(outs, ist1, err) := pl_feed (postlex cf) ist t in
          match consume want acc outs with
          | (acc', Some st) => (s1, st, acc', EAbandoned)
          | (acc', None) =>
              match err with
              | Some e => (s1, ist1, acc', EPostErr e)
              | None => ppull f cf want s1 ist1 ls' acc'
              end
          end
      | NEof =>
          let '(outs, ist1, fin) := pl_finish (postlex cf) ist in
          match consume want acc outs with
          | (acc', Some st) => (s1, st, acc', EAbandoned)
          | (acc', None) => (s1, ist1, acc', EEof fin)
          end
      | NErr e ls1 =>
          match contextual cf with
          | None => (s1, ist, acc, ELexErr e None)
          | Some rt =>
              (* ContextualLexer.lex: token = self.root_lexer.next_token(lexer_state, parser_state) *)
              let '(lr, r2) := next_token (ntfuel ls1) (lexconf cf rt) (cells s1 rt) ls1 in
              (set_cell s1 rt lr, ist, acc, ELexErr e (match r2 with NTok t _ => Some t | _ => None end))
          end
      | NAttr => (s1, ist, acc, EAttr)
      | NFuel => (s1, ist, acc, EFuel)
      end
  end.

Definition reset_state : istate := mkSt h_p0 [h_i0].

(* Indenter.process: `self.paren_level = 0; self.indent_level = [0]; return self._process(stream)` *)
Definition open_stream (cf : iconf) (s : inst) : inst :=
  match postlex cf with Some _ => set_ind s reset_state | None => s end.

(* the state the generator finds when first resumed / leaves behind when it stops *)
Definition start_ist (cf : iconf) (s : inst) : istate :=
  match postlex cf with Some _ => ind s | None => reset_state end.
Definition close_stream (cf : iconf) (s : inst) (ist : istate) : inst :=
  match postlex cf with Some _ => set_ind s ist | None => s end.

Definition pull_stream (fuel : nat) (cf : iconf) (want : list tok -> bool) (s : inst) (ls : LexSt)
  : inst * (list tok * pend) :=
  if want [] then
    let '(s1, ist, acc, e) := ppull fuel cf want s (start_ist cf s) ls [] in
    (close_stream cf s1 ist, (acc, e))
  else (s, ([], EAbandoned)).

(* ------------------------------------------------------------------ scan *)
(* the LALR side of ParsingFrontend._scan is abstract: whether the stunted parser is still alive
   after the tokens fed so far, and where the longest accepted prefix ends *)
Variable sc_want : Text -> nat -> list tok -> bool.
Variable sc_end : Text -> nat -> list tok -> pend -> option nat.

Definition attempt := (nat * list tok * pend)%type.

Fixpoint scan_loop (fuel pfuel : nat) (cf : iconf) (wantm : nat -> bool) (s : inst) (text : Text)
         (pos j : nat) (atts : list attempt) : inst * (list attempt * bool) :=
  match fuel with
  | O => (s, (atts, false))
  | S f =>
      let i0 := pick cf [] in
      let '(l', ss) := force_search (lexconf cf i0) (cells s i0) in     (* self.lexer.search_start(...) *)
      let s1 := set_cell s i0 l' in
      match search ss text pos with
      | None => (s1, (atts, true))
      | Some ms =>
          let '(s2, _, toks, e) := ppull pfuel cf (sc_want text ms) s1 reset_state (init_ls text ms) [] in
          let atts' := atts ++ [(ms, toks, e)] in
          match sc_end text ms toks e with
          | Some en =>                                                  (* yield ScanMatch(...) *)
              if wantm (S j) then scan_loop f pfuel cf wantm s2 text en (S j) atts'
              else (s2, (atts', false))
          | None => scan_loop f pfuel cf wantm s2 text (S ms) j atts'
          end
      end
  end.

(* ------------------------------------------------------------------ operations *)
Inductive op :=
| OParse (text : Text) (want : list tok -> bool)         (* Lark.parse; want = the parser's demand *)
| OLex (text : Text) (want : list tok -> bool)           (* Lark.lex, consumed as far as want says *)
| OLexAll (text : Text) (want : list tok -> bool)        (* Lark.lex(text, dont_ignore=True) *)
| OInteractive (text : Text) (want : list tok -> bool)   (* parse_interactive + iter_parse/exhaust_lexer *)
| OScan (text : Text) (wantm : nat -> bool)              (* Lark.scan; wantm j = resumed after j matches *)
| OOther.                                                (* another Lark instance is created and used *)

Inductive obs :=
| ObsStream (toks : list tok) (e : pend)
| ObsScan (atts : list attempt) (finished : bool)
| ObsConfigError
| ObsNone.

(* Lark.lex on an instance that has a parser: `lexer = self._build_lexer(dont_ignore)` - a new
   BasicLexer whose cells die with the call; the post-lexer object is the shared one *)
Definition lex_private_cf (cf : iconf) : iconf :=
  mkIconf (fun _ => lex_conf cf) (fun _ => 0) None (postlex cf) false (lex_conf cf) (lexall_conf cf) false.
Definition lex_shared_cf (cf : iconf) : iconf :=
  mkIconf (lexconf cf) (fun _ => 0) None (postlex cf) true (lex_conf cf) (lexall_conf cf) false.
(* dont_ignore=True always builds a new BasicLexer, also on an instance built with parser=None *)
Definition lex_all_cf (cf : iconf) : iconf :=
  mkIconf (fun _ => lexall_conf cf) (fun _ => 0) None (postlex cf) false (lex_conf cf) (lexall_conf cf) false.

Definition run_op (fuel : nat) (cf : iconf) (s : inst) (o : op) : inst * obs :=
  match o with
  | OParse text want | OInteractive text want =>
      (* the stream is opened (PostLexConnector.lex -> process) when the parser asks for its first token *)
      if want [] then
        let '(s', (acc, e)) := pull_stream fuel cf want (open_stream cf s) (init_ls text 0) in
        (s', ObsStream acc e)
      else (s, ObsStream [] EAbandoned)
  | OLex text want =>
      (* Lark.lex calls postlex.process(stream) before returning the generator *)
      let s0 := open_stream cf s in
      if lex_shared cf then
        let '(s', (acc, e)) := pull_stream fuel (lex_shared_cf cf) want s0 (init_ls text 0) in
        (s', ObsStream acc e)
      else
        let '(p', (acc, e)) := pull_stream fuel (lex_private_cf cf) want (mkInst (fun _ => cell0) (ind s0))
                                           (init_ls text 0) in
        (mkInst (cells s0) (ind p'), ObsStream acc e)
  | OLexAll text want =>
      let s0 := open_stream cf s in
      let '(p', (acc, e)) := pull_stream fuel (lex_all_cf cf) want (mkInst (fun _ => cell0) (ind s0))
                                         (init_ls text 0) in
      (mkInst (cells s0) (ind p'), ObsStream acc e)
  | OScan text wantm =>
      match postlex cf with
      | Some _ => (s, ObsConfigError)            (* raised by ParsingFrontend.scan before the generator exists *)
      | None =>
          if can_scan cf then
            if wantm 0 then
              let '(s', (atts, fin)) := scan_loop fuel fuel cf wantm s text 0 0 [] in (s', ObsScan atts fin)
            else (s, ObsScan [] false)
          else (s, ObsConfigError)
      end
  | OOther => (s, ObsNone)
  end.

Definition run_hist (fuel : nat) (cf : iconf) (s : inst) (h : list op) : inst :=
  fold_left (fun s o => fst (run_op fuel cf s o)) h s.

(* the same history, keeping the state after every operation (what the harness observes) *)
Fixpoint trace_hist (fuel : nat) (cf : iconf) (s : inst) (h : list op) : list (inst * obs) :=
  match h with
  | [] => []
  | o :: r => let '(s', ob) := run_op fuel cf s o in (s', ob) :: trace_hist fuel cf s' r
  end.

(* The mutant reading: process() without the two reset assignments. *)
Definition run_parse_noreset (fuel : nat) (cf : iconf) (s : inst) (text : Text) (want : list tok -> bool)
  : inst * obs :=
  if want [] then
    let '(s', (acc, e)) := pull_stream fuel cf want s (init_ls text 0) in (s', ObsStream acc e)
  else (s, ObsStream [] EAbandoned).

(* ------------------------------------------------------------------ the pure reference *)
(* What the same calls compute when every cell read is replaced by the value its builder
   returns: functions of the configuration and the arguments only. *)
Fixpoint nt_pure (fuel : nat) (c : Conf) (ls : LexSt) : ntres :=
  match fuel with
  | O => NFuel
  | S f =>
      if at_end ls then NEof else
      match iter c (mk_scanner c) (mk_callback c) ls with
      | IEmit t ls' => NTok t ls'
      | ISkip ls' => nt_pure f c ls'
      | IFail e => NErr e ls
      end
  end.

Fixpoint ppull_pure (fuel : nat) (cf : iconf) (want : list tok -> bool) (ist : istate)
         (ls : LexSt) (acc : list tok) : istate * list tok * pend :=
  match fuel with
  | O => (ist, acc, EFuel)
  | S f =>
      match nt_pure (ntfuel ls) (lexconf cf (pick cf acc)) ls with
      | NTok t ls' =>
          let '(outs, ist1, err) := pl_feed (postlex cf) ist t in
          match consume want acc outs with
          | (acc', Some st) => (st, acc', EAbandoned)
          | (acc', None) =>
              match err with
              | Some e => (ist1, acc', EPostErr e)
              | None => ppull_pure f cf want ist1 ls' acc'
              end
          end
      | NEof =>
          let '(outs, ist1, fin) := pl_finish (postlex cf) ist in
          match consume want acc outs with
          | (acc', Some st) => (st, acc', EAbandoned)
          | (acc', None) => (ist1, acc', EEof fin)
          end
      | NErr e ls1 =>
          match contextual cf with
          | None => (ist, acc, ELexErr e None)
          | Some rt =>
              (ist, acc, ELexErr e (match nt_pure (ntfuel ls1) (lexconf cf rt) ls1 with NTok t _ => Some t | _ => None end))
          end
      | NAttr => (ist, acc, EAttr)
      | NFuel => (ist, acc, EFuel)
      end
  end.

Definition pull_pure (fuel : nat) (cf : iconf) (want : list tok -> bool) (ls : LexSt) : list tok * pend :=
  if want [] then
    let '(_, acc, e) := ppull_pure fuel cf want reset_state ls [] in (acc, e)
  else ([], EAbandoned).

Fixpoint scan_pure (fuel pfuel : nat) (cf : iconf) (wantm : nat -> bool) (text : Text)
         (pos j : nat) (atts : list attempt) : list attempt * bool :=
  match fuel with
  | O => (atts, false)
  | S f =>
      match search (mk_search (lexconf cf (pick cf []))) text pos with
      | None => (atts, true)
      | Some ms =>
          let '(_, toks, e) := ppull_pure pfuel cf (sc_want text ms) reset_state (init_ls text ms) [] in
          let atts' := atts ++ [(ms, toks, e)] in
          match sc_end text ms toks e with
          | Some en => if wantm (S j) then scan_pure f pfuel cf wantm text en (S j) atts' else (atts', false)
          | None => scan_pure f pfuel cf wantm text (S ms) j atts'
          end
      end
  end.

Definition op_pure (fuel : nat) (cf : iconf) (o : op) : obs :=
  match o with
  | OParse text want | OInteractive text want =>
      let '(acc, e) := pull_pure fuel cf want (init_ls text 0) in ObsStream acc e
  | OLex text want =>
      let '(acc, e) := pull_pure fuel (if lex_shared cf then lex_shared_cf cf else lex_private_cf cf) want
                                 (init_ls text 0) in ObsStream acc e
  | OLexAll text want =>
      let '(acc, e) := pull_pure fuel (lex_all_cf cf) want (init_ls text 0) in ObsStream acc e
  | OScan text wantm =>
      match postlex cf with
      | Some _ => ObsConfigError
      | None =>
          if can_scan cf then
            if wantm 0 then let '(atts, fin) := scan_pure fuel fuel cf wantm text 0 0 [] in ObsScan atts fin
            else ObsScan [] false
          else ObsConfigError
      end
  | OOther => ObsNone
  end.

End Generic.
