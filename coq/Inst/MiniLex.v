(* A concrete, executable instantiation of the abstract BasicLexer of Inst/Instance.v for a small
   class of terminals: string literals and regexps that are sequences of character classes with
   quantifiers 1, + or * in which greedy matching never has to backtrack (adjacent classes are
   disjoint; the harness only generates such patterns).  Mirrors lark/lexer.py: _create_unless,
   Scanner.match (first alternative of the alternation that matches), UnlessCallback, CallChain,
   the callback loop of _build_scanner and the body of BasicLexer.next_token's loop.
   Used only by the correspondence check; the theorems of Instance_proofs.v are generic. *)
From Coq Require Import ZArith List Bool String Ascii Arith.
From LV Require Import Base.Prelude Sys.IndenterBase Inst.Instance.
Import ListNotations.
Local Open Scope string_scope.

Inductive quant := QOne | QPlus | QStar.
Inductive pat :=
| PStr (s : string)                                (* PatternStr *)
| PRe (items : list (string * quant)).             (* PatternRE: [class]q [class]q ... *)

Record term := mkTerm { tname : string; tpat : pat; tprio : Z }.

(* what a user lexer_callback does (the harness installs the matching Python function) *)
Inductive ucb :=
| UUpper                   (* t.update(value=t.value.upper()) *)
| UTag (suffix : string).  (* t.update(value=t.value + suffix) *)

Record lconf := mkLconf {
  terminals : list term;             (* BasicLexer.terminals, i.e. already sorted by __init__ *)
  ignore : list string;              (* ignore_types *)
  user_cbs : list (string * ucb) }.  (* user_callbacks, in dict order *)

(* ---- matching ---- *)
Fixpoint in_class (c : ascii) (cls : string) : bool :=
  match cls with
  | EmptyString => false
  | String d r => if Ascii.eqb c d then true else in_class c r
  end.

Fixpoint span (cls : string) (s : string) : nat :=
  match s with
  | EmptyString => 0
  | String c r => if in_class c cls then S (span cls r) else 0
  end.

Fixpoint drop (n : nat) (s : string) : string :=
  match n, s with
  | O, _ => s
  | S k, String _ r => drop k r
  | S _, EmptyString => EmptyString
  end.

Fixpoint take (n : nat) (s : string) : string :=
  match n, s with
  | O, _ => EmptyString
  | S k, String c r => String c (take k r)
  | S _, EmptyString => EmptyString
  end.

Fixpoint match_items (items : list (string * quant)) (s : string) : option nat :=
  match items with
  | [] => Some 0
  | (cls, q) :: r =>
      let n := span cls s in
      let k := match q with QOne => (if Nat.eqb n 0 then None else Some 1)
                          | QPlus => (if Nat.eqb n 0 then None else Some n)
                          | QStar => Some n end in
      match k with
      | None => None
      | Some k => match match_items r (drop k s) with Some m => Some (k + m) | None => None end
      end
  end.

(* length of the match of the pattern at the start of s *)
Definition match_pat (p : pat) (s : string) : option nat :=
  match p with
  | PStr lit => if String.prefix lit s then Some (String.length lit) else None
  | PRe items => match_items items s
  end.

Definition scanner := list term.

(* Scanner.match: `for mre in self._mres: m = mre.match(text, pos); if m: return m.group(0), m.lastgroup` *)
Fixpoint smatch (sc : scanner) (s : string) : option (string * string) :=
  match sc with
  | [] => None
  | t :: r => match match_pat (tpat t) s with
              | Some n => Some (take n s, tname t)
              | None => smatch r s
              end
  end.

(* Scanner.search on the suffixes: first position >= pos where some terminal matches *)
Fixpoint ssearch_from (fuel : nat) (sc : scanner) (s : string) (pos : nat) : option nat :=
  match smatch sc s with
  | Some _ => Some pos
  | None => match fuel, s with
            | S f, String _ r => ssearch_from f sc r (S pos)
            | _, _ => None
            end
  end.
Definition ssearch (sc : scanner) (text : string) (pos : nat) : option nat :=
  if Nat.ltb (String.length text) pos then None
  else ssearch_from (String.length text) sc (drop pos text) pos.

(* ---- _create_unless ---- *)
Definition is_str (t : term) : bool := match tpat t with PStr _ => true | PRe _ => false end.
Definition lit_of (t : term) : string := match tpat t with PStr s => s | PRe _ => EmptyString end.

(* the string terminals a regexp terminal fully matches (same priority) *)
Definition unless_of (ts : list term) (re : term) : list term :=
  filter (fun st => andb (is_str st)
                    (andb (Z.eqb (tprio st) (tprio re))
                          (match match_pat (tpat re) (lit_of st) with
                           | Some n => Nat.eqb n (String.length (lit_of st))
                           | None => false end))) ts.

Fixpoint mem_term (n : string) (l : list term) : bool :=
  match l with [] => false | t :: r => if String.eqb n (tname t) then true else mem_term n r end.

Definition re_terms (ts : list term) : list term := filter (fun t => negb (is_str t)) ts.
Definition embedded (ts : list term) : list term := flat_map (unless_of ts) (re_terms ts).
Definition new_terminals (ts : list term) : list term :=
  filter (fun t => negb (mem_term (tname t) (embedded ts))) ts.

(* callback-table entries *)
Inductive cbent :=
| CbUnless (alts : list (string * string))                 (* UnlessCallback: literal -> terminal name *)
| CbUser (u : ucb)
| CbChain (alts : list (string * string)) (u : ucb) (k : string).   (* CallChain(unless, user, t.type == k) *)
Definition cbtable := list (string * cbent).

Fixpoint cb_lookup (k : string) (d : cbtable) : option cbent :=
  match d with [] => None | (k', v) :: r => if String.eqb k k' then Some v else cb_lookup k r end.
Fixpoint cb_set (k : string) (v : cbent) (d : cbtable) : cbtable :=
  match d with
  | [] => [(k, v)]
  | (k', v') :: r => if String.eqb k k' then (k', v) :: r else (k', v') :: cb_set k v r
  end.

Definition unless_table (ts : list term) : cbtable :=
  flat_map (fun re => match unless_of ts re with
                      | [] => []
                      | us => [(tname re, CbUnless (map (fun st => (lit_of st, tname st)) us))]
                      end) (re_terms ts).

Definition add_user_cb (d : cbtable) (ku : string * ucb) : cbtable :=
  let '(k, u) := ku in
  match cb_lookup k d with
  | Some (CbUnless alts) => cb_set k (CbChain alts u k) d
  | Some _ => cb_set k (CbUser u) d     (* cannot happen: keys of user_callbacks are distinct *)
  | None => cb_set k (CbUser u) d
  end.

Definition mk_callback (c : lconf) : cbtable := fold_left add_user_cb (user_cbs c) (unless_table (terminals c)).
Definition mk_scanner (c : lconf) : scanner := new_terminals (terminals c).
Definition mk_search (c : lconf) : scanner :=
  filter (fun t => negb (mem_string (tname t) (ignore c))) (terminals c).

(* ---- callbacks applied to a token ---- *)
Definition upper_ascii (c : ascii) : ascii :=
  let n := nat_of_ascii c in if andb (Nat.leb 97 n) (Nat.leb n 122) then ascii_of_nat (n - 32) else c.
Fixpoint upper (s : string) : string :=
  match s with EmptyString => EmptyString | String c r => String (upper_ascii c) (upper r) end.

Definition apply_user (u : ucb) (t : tok) : tok :=
  match u with
  | UUpper => mkTok (ttype t) (upper (tval t))
  | UTag sfx => mkTok (ttype t) (tval t ++ sfx)
  end.

Fixpoint assoc (k : string) (l : list (string * string)) : option string :=
  match l with [] => None | (a, b) :: r => if String.eqb k a then Some b else assoc k r end.

Definition apply_unless (alts : list (string * string)) (t : tok) : tok :=
  match assoc (tval t) alts with Some n => mkTok n (tval t) | None => t end.

Definition apply_cb (e : cbent) (t : tok) : tok :=
  match e with
  | CbUnless alts => apply_unless alts t
  | CbUser u => apply_user u t
  | CbChain alts u k => let t2 := apply_unless alts t in
                        if String.eqb (ttype t2) k then apply_user u t2 else t2
  end.

(* ---- one round of next_token's loop; the LexerState is the text still to be lexed ---- *)
Definition lexst := string.
Definition lexerr := nat.     (* UnexpectedCharacters: number of characters left *)

Definition iter (c : lconf) (sc : scanner) (cb : cbtable) (ls : lexst) : iter_res lexst lexerr :=
  match smatch sc ls with
  | None => IFail _ (String.length ls)
  | Some (v, ty) =>
      let rest := drop (String.length v) ls in
      let ignored := mem_string ty (ignore c) in
      match cb_lookup ty cb with
      | Some e => let t := apply_cb e (mkTok ty v) in
                  if ignored then ISkip _ rest else IEmit _ t rest
      | None => if ignored then ISkip _ rest else IEmit _ (mkTok ty v) rest
      end
  end.

Definition at_end (ls : lexst) : bool := match ls with EmptyString => true | _ => false end.
Definition ntfuel (ls : lexst) : nat := S (String.length ls).
Definition init_ls (text : string) (pos : nat) : lexst := drop pos text.
