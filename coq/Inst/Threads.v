(* Small-step interleaving semantics of k threads lexing with one shared BasicLexer:
   the `scanner` property, `_build_scanner` and the reads of `self.callback` in `next_token`
   (lark/lexer.py).  Executable definitions only; proofs are in Threads_proofs.v.

   GRANULARITY (trusted base).  A step of the model is what one thread executes between two
   consecutive scheduling points.  The scheduling points are the line events of the source
   lines that mention one of the mutable shared attributes (self._scanner, self.callback) and
   the return event of _build_scanner (which separates the callee's last line from the store
   `self._scanner = <result>` of line `self._scanner = self._build_scanner()`).  Everything a
   thread does between two such points touches only thread-local objects or the immutable
   configuration, so it commutes with the other threads.  We assume CPython switches threads
   only between source lines (the harness's tracer-based scheduler has exactly this power).
   In the publish-last code every such line performs one load or store of a shared attribute,
   plus look-ups in a dict that nobody mutates once it is reachable from self.callback; each
   of these is a single GIL-protected byte-code, so for that code line-atomicity is the same
   as attribute-access atomicity. *)
From Coq Require Import List Arith Bool String.
From LV Require Import Inst.ThreadsBase.
Import ListNotations.

Definition key := string.

(* what a callback-table entry is *)
Inductive cbv := CUnless | CUser | CChain.
Definition table := list (key * cbv).

Fixpoint lookup (k : key) (d : table) : option cbv :=
  match d with
  | [] => None
  | (k', v) :: r => if String.eqb k k' then Some v else lookup k r
  end.

(* d[k] = v : replace in place, or append (dicts keep insertion order) *)
Fixpoint tset (k : key) (v : cbv) (d : table) : table :=
  match d with
  | [] => [(k, v)]
  | (k', v') :: r => if String.eqb k k' then (k', v) :: r else (k', v') :: tset k v r
  end.

(* the immutable configuration of the BasicLexer *)
Record tcfg := mkTcfg {
  unless_keys : list key;     (* keys of the dict returned by _create_unless *)
  user_keys : list key }.     (* keys of conf.callbacks (lexer_callbacks), in dict order *)

Definition unless_tbl (c : tcfg) : table := map (fun k => (k, CUnless)) (unless_keys c).

(* one round of `for type_, f in self.user_callbacks.items()` *)
Definition add_user (d : table) (k : key) : table :=
  match lookup k d with
  | Some _ => tset k CChain d
  | None => tset k CUser d
  end.

(* the complete table: what a sequential _build_scanner leaves in self.callback *)
Definition full_table (c : tcfg) : table := fold_left add_user (user_keys c) (unless_tbl c).

(* shared mutable memory: the two attributes and the heap of dict objects *)
Record shared := mkSh {
  sh_scanner : bool;          (* self._scanner is not None (all built scanners are equal) *)
  sh_cb : option nat;         (* self.callback: None = attribute not set yet, Some a = dict at address a *)
  heap : list table }.

Definition sh0 : shared := mkSh false None [].

Fixpoint hset (h : list table) (a : nat) (d : table) : list table :=
  match h, a with
  | [], _ => []
  | _ :: r, O => d :: r
  | x :: r, S a' => x :: hset r a' d
  end.

Definition cb_table (sh : shared) : option table :=
  match sh_cb sh with
  | None => None
  | Some a => nth_error (heap sh) a
  end.

(* result of lexing one token as far as the callback table is concerned *)
Inductive tokres :=
| TPlain                 (* no callback applied *)
| TApplied (v : cbv)     (* the entry that was called *)
| TDropped               (* ignored terminal without callback: no token object built *)
| TKeyError              (* `t.type in self.callback` held at one line, self.callback[t.type] failed at the next *)
| TAttrError.            (* self.callback did not exist *)

(* scheduling points (program counters) *)
Inductive pc :=
| PCheck                 (* scanner:  if self._scanner is None: *)
| PCall                  (* scanner:  self._scanner = self._build_scanner()   -- before the call *)
| POldAlloc              (* old 640:  terminals, self.callback = _create_unless(...) *)
| POldAssert             (* old 641:  assert all(self.callback.values()) *)
| POldTest (i : nat)     (* old 644:  if type_ in self.callback:   (i-th user callback) *)
| POldSet (i : nat) (chain : bool)   (* old 649/653: self.callback[type_] = ... *)
| PPublish (d : table)   (* new:      self.callback = callback      (d = the local dict) *)
| PReturn                (* return event of _build_scanner; then the store into self._scanner *)
| PRet                   (* scanner:  return self._scanner *)
| PTokA                  (* next_token: if not ignored or type_ in self.callback: *)
| PTokB                  (* next_token: if t.type in self.callback: *)
| PTokC                  (* next_token: t = self.callback[t.type](t) *)
| PDone.

Record thread := mkTh {
  t_pc : pc;
  t_todo : list (key * bool);            (* terminals still to be matched: (type, is it %ignored) *)
  t_res : list (key * tokres) }.         (* results so far, oldest first *)

Definition start (toks : list (key * bool)) : thread :=
  mkTh (match toks with [] => PDone | _ => PCheck end) toks [].

(* the current token is finished with result r *)
Definition finish (th : thread) (r : tokres) : thread :=
  match t_todo th with
  | [] => mkTh PDone [] (t_res th)
  | (k, _) :: rest =>
      mkTh (match rest with [] => PDone | _ => PCheck end) rest (t_res th ++ [(k, r)])
  end.

(* the thread dies with an exception while working on the current token *)
Definition crash (th : thread) (r : tokres) : thread :=
  match t_todo th with
  | [] => mkTh PDone [] (t_res th)
  | (k, _) :: rest => mkTh PDone rest (t_res th ++ [(k, r)])
  end.

Definition goto (th : thread) (p : pc) : thread := mkTh p (t_todo th) (t_res th).

Definition cur (th : thread) : key * bool :=
  match t_todo th with [] => (EmptyString, false) | x :: _ => x end.

Definition step (o : order) (c : tcfg) (sh : shared) (th : thread) : shared * thread :=
  match t_pc th with
  | PDone => (sh, th)
  | PCheck => if sh_scanner sh then (sh, goto th PRet) else (sh, goto th PCall)
  | PCall =>
      match o with
      | PublishLast => (sh, goto th (PPublish (full_table c)))   (* local lines build the whole table *)
      | PublishFirst => (sh, goto th POldAlloc)
      end
  | POldAlloc =>
      (mkSh (sh_scanner sh) (Some (List.length (heap sh))) (heap sh ++ [unless_tbl c]), goto th POldAssert)
  | POldAssert => (sh, goto th (POldTest 0))
  | POldTest i =>
      match nth_error (user_keys c) i with
      | None => (sh, goto th PReturn)
      | Some k =>
          match cb_table sh with
          | None => (sh, crash th TAttrError)
          | Some d => (sh, goto th (POldSet i (match lookup k d with Some _ => true | None => false end)))
          end
      end
  | POldSet i chain =>
      match nth_error (user_keys c) i, sh_cb sh with
      | Some k, Some a =>
          match nth_error (heap sh) a with
          | None => (sh, crash th TAttrError)
          | Some d =>
              if chain then
                match lookup k d with
                | None => (sh, crash th TKeyError)
                | Some _ => (mkSh (sh_scanner sh) (sh_cb sh) (hset (heap sh) a (tset k CChain d)), goto th (POldTest (S i)))
                end
              else (mkSh (sh_scanner sh) (sh_cb sh) (hset (heap sh) a (tset k CUser d)), goto th (POldTest (S i)))
          end
      | _, _ => (sh, crash th TAttrError)
      end
  | PPublish d =>
      (mkSh (sh_scanner sh) (Some (List.length (heap sh))) (heap sh ++ [d]), goto th PReturn)
  | PReturn => (mkSh true (sh_cb sh) (heap sh), goto th PRet)
  | PRet => (sh, goto th PTokA)
  | PTokA =>
      let '(k, ign) := cur th in
      if ign then
        match cb_table sh with
        | None => (sh, crash th TAttrError)
        | Some d => match lookup k d with
                    | Some _ => (sh, goto th PTokB)
                    | None => (sh, finish th TDropped)
                    end
        end
      else (sh, goto th PTokB)
  | PTokB =>
      let '(k, _) := cur th in
      match cb_table sh with
      | None => (sh, crash th TAttrError)
      | Some d => match lookup k d with
                  | Some _ => (sh, goto th PTokC)
                  | None => (sh, finish th TPlain)
                  end
      end
  | PTokC =>
      let '(k, _) := cur th in
      match cb_table sh with
      | None => (sh, crash th TAttrError)
      | Some d => match lookup k d with
                  | Some v => (sh, finish th (TApplied v))
                  | None => (sh, crash th TKeyError)
                  end
      end
  end.

(* global configurations and schedules *)
Fixpoint upd {A} (l : list A) (i : nat) (x : A) : list A :=
  match l, i with
  | [], _ => []
  | _ :: r, O => x :: r
  | y :: r, S j => y :: upd r j x
  end.

Definition gstate := (shared * list thread)%type.

Definition gstep (o : order) (c : tcfg) (g : gstate) (i : nat) : gstate :=
  match nth_error (snd g) i with
  | None => g
  | Some th => let '(sh', th') := step o c (fst g) th in (sh', upd (snd g) i th')
  end.

Definition run (o : order) (c : tcfg) (sched : list nat) (g : gstate) : gstate :=
  fold_left (gstep o c) sched g.

Definition init (inputs : list (list (key * bool))) : gstate := (sh0, map start inputs).

(* the sequential reference: what one thread alone on a fresh lexer produces *)
Definition expected (c : tcfg) (kb : key * bool) : tokres :=
  match lookup (fst kb) (full_table c) with
  | Some v => TApplied v
  | None => if snd kb then TDropped else TPlain
  end.

Definition seq_results (c : tcfg) (toks : list (key * bool)) : list (key * tokres) :=
  map (fun kb => (fst kb, expected c kb)) toks.

(* -- what the harness's scheduler observes at each granted step (before the step runs) -- *)
Definition pc_code (p : pc) : nat :=
  match p with
  | PCheck => 0 | PCall => 1 | PPublish _ => 2 | PReturn => 3 | PRet => 4
  | PTokA => 5 | PTokB => 6 | PTokC => 7
  | POldAlloc => 8 | POldAssert => 9 | POldTest _ => 10 | POldSet _ _ => 11 | PDone => 12
  end.

(* (thread, kind of scheduling point, `_scanner is not None`, keys of self.callback if set) *)
Definition event := (nat * nat * bool * option (list key))%type.

Definition observe (g : gstate) (i : nat) : option event :=
  match nth_error (snd g) i with
  | None => None
  | Some th => Some (i, pc_code (t_pc th), sh_scanner (fst g), option_map (map fst) (cb_table (fst g)))
  end.

Fixpoint run_log (o : order) (c : tcfg) (sched : list nat) (g : gstate) : list (option event) * gstate :=
  match sched with
  | [] => ([], g)
  | i :: r => let '(l, g') := run_log o c r (gstep o c g i) in (observe g i :: l, g')
  end.
