(* Comparison helpers for harness/props/C10.py: the concrete instance (MiniLex + Indenter) run on
   the histories / schedules the implementation ran, compared with what was observed there. *)
From Coq Require Import ZArith List Bool String Ascii Arith.
From LV Require Import Base.Prelude Sys.IndenterBase Gen.IndenterHoles Sys.Indenter Inst.IndSteps
     Inst.Instance Inst.MiniLex Inst.ThreadsBase Inst.Threads.
Import ListNotations.

(* ---------------- histories ---------------- *)
Definition cinst := inst scanner cbtable.
Definition cop := op string.

(* the abstract LALR side of scan is irrelevant for the cells: an attempt pulls its first token and
   the loop moves on *)
Definition c_sc_want (_ : string) (_ : nat) (_ : list tok) : bool := false.
Definition c_sc_end (_ : string) (_ : nat) (_ : list tok) (_ : pend lexerr) : option nat := None.

Definition c_run_op := run_op mk_scanner mk_callback mk_search at_end ntfuel init_ls iter ssearch c_sc_want c_sc_end.
Definition c_trace := trace_hist mk_scanner mk_callback mk_search at_end ntfuel init_ls iter ssearch c_sc_want c_sc_end.
Definition c_run_hist := run_hist mk_scanner mk_callback mk_search at_end ntfuel init_ls iter ssearch c_sc_want c_sc_end.

(* an instance with one BasicLexer (lexer='basic') *)
(* copy(lexer_conf) with ignore = () *)
Definition no_ignore (lc : lconf) : lconf := mkLconf (terminals lc) [] (user_cbs lc).

Definition basic_conf (lc : lconf) (pl : option icfg) (shared scan : bool) : iconf lconf :=
  mkIconf (fun _ => lc) (fun _ => 0) None pl shared lc (no_ignore lc) scan.

Definition upto (k : option nat) : list tok -> bool :=
  fun acc => match k with None => true | Some n => Nat.ltb (List.length acc) n end.
Definition upto_m (k : option nat) : nat -> bool :=
  fun j => match k with None => true | Some n => Nat.ltb j n end.

Inductive opd :=
| DParse (text : string) (k : option nat)
| DLex (text : string) (k : option nat)
| DLexAll (text : string) (k : option nat)
| DInter (text : string) (k : option nat)
| DScan (text : string) (k : option nat)
| DOther.

Definition op_of (d : opd) : cop :=
  match d with
  | DParse t k => OParse t (upto k)
  | DLex t k => OLex t (upto k)
  | DLexAll t k => OLexAll t (upto k)
  | DInter t k => OInteractive t (upto k)
  | DScan t k => OScan t (upto_m k)
  | DOther => OOther _
  end.

Definition pend_code (e : pend lexerr) : nat :=
  match e with
  | EAbandoned _ => 0
  | EEof _ Done => 1
  | EEof _ _ => 2
  | ELexErr _ _ => 3
  | EPostErr _ DedentErr => 4
  | EPostErr _ AssertErr => 5
  | EPostErr _ _ => 6
  | EAttr _ => 7
  | EFuel _ => 8
  end.

(* what the harness saw after an operation:
   cells of the shared BasicLexer (_scanner set?, _search_scanner set?, keys of callback if set),
   the Indenter object (paren_level, indent_level top first) if there is one,
   and for lex operations the tokens it received and how the stream ended *)
Definition expect := ((bool * bool * option (list string)) * option (Z * list Z) * option (list tok * nat))%type.

Definition is_some {A} (o : option A) : bool := match o with Some _ => true | None => false end.

Fixpoint list_eqb {A} (eqb : A -> A -> bool) (a b : list A) : bool :=
  match a, b with
  | [], [] => true
  | x :: r, y :: s => andb (eqb x y) (list_eqb eqb r s)
  | _, _ => false
  end.

Definition tok_eqb (a b : tok) : bool := andb (String.eqb (ttype a) (ttype b)) (String.eqb (tval a) (tval b)).

Definition opt_eqb {A} (eqb : A -> A -> bool) (a b : option A) : bool :=
  match a, b with
  | None, None => true
  | Some x, Some y => eqb x y
  | _, _ => false
  end.

Definition check_step (s : cinst) (ob : obs lexerr) (e : expect) : bool :=
  let '(cellx, indx, tokx) := e in
  let '(sc, se, keys) := cellx in
  let l := cells s 0 in
  andb (andb (Bool.eqb (is_some (c_scanner l)) sc) (Bool.eqb (is_some (c_search l)) se))
  (andb (opt_eqb (list_eqb String.eqb) (option_map (map fst) (c_callback l)) keys)
  (andb (match indx with
         | None => true
         | Some (p, st) => andb (Z.eqb (paren (ind s)) p) (list_eqb Z.eqb (stack (ind s)) st)
         end)
        (match tokx with
         | None => true
         | Some (toks, code) =>
             match ob with
             | ObsStream toks' e' => andb (list_eqb tok_eqb toks' toks) (Nat.eqb (pend_code e') code)
             | _ => false
             end
         end))).

Fixpoint check_trace (tr : list (cinst * obs lexerr)) (es : list expect) : bool :=
  match tr, es with
  | [], [] => true
  | (s, ob) :: r, e :: q => andb (check_step s ob e) (check_trace r q)
  | _, _ => false
  end.

Definition hcase := (nat * lconf * option icfg * bool * bool * list (opd * expect))%type.

Definition check_hist (c : hcase) : bool :=
  let '(fuel, lc, pl, shared, scan, steps) := c in
  let cf := basic_conf lc pl shared scan in
  check_trace (c_trace fuel cf (fresh _ _) (map (fun x => op_of (fst x)) steps)) (map snd steps).

(* ---------------- schedules ---------------- *)
Definition tokres_code (r : tokres) : nat :=
  match r with
  | TPlain => 0 | TApplied CUnless => 1 | TApplied CUser => 2 | TApplied CChain => 3
  | TDropped => 4 | TKeyError => 5 | TAttrError => 6
  end.

Definition event_eqb (a b : option event) : bool :=
  opt_eqb (fun x y : event =>
             let '(i, k, s, c) := x in let '(i', k', s', c') := y in
             andb (andb (Nat.eqb i i') (Nat.eqb k k'))
                  (andb (Bool.eqb s s') (opt_eqb (list_eqb String.eqb) c c'))) a b.

(* (order the code has, configuration, per-thread inputs, schedule, the scheduler's log,
    per-thread results as (terminal, tokres code)) *)
Definition scase := (order * tcfg * list (list (key * bool)) * list nat * list event * list (list (key * nat)))%type.

Definition check_sched (c : scase) : bool :=
  let '(o, cfg, inputs, sched, log, results) := c in
  let '(mlog, g) := run_log o cfg sched (init inputs) in
  andb (list_eqb event_eqb mlog (map Some log))
       (list_eqb (list_eqb (fun (a b : key * nat) => andb (String.eqb (fst a) (fst b)) (Nat.eqb (snd a) (snd b))))
                 (map (fun th => map (fun kr : key * tokres => (fst kr, tokres_code (snd kr))) (t_res th)) (snd g))
                 results).

(* constructors with fully known argument types: the harness emits its cases through these (faster to elaborate
   than nested anonymous tuples) *)
Definition mkX (sc se : bool) (keys : option (list string)) (indx : option (Z * list Z))
           (tokx : option (list tok * nat)) : expect := ((sc, se, keys), indx, tokx).
Definition mkS (d : opd) (e : expect) : opd * expect := (d, e).
Definition mkH (fuel : nat) (lc : lconf) (pl : option icfg) (shared scan : bool) (steps : list (opd * expect)) : hcase :=
  (fuel, lc, pl, shared, scan, steps).
Definition mkE (i k : nat) (s : bool) (keys : option (list key)) : event := (i, k, s, keys).
Definition mkR (k : key) (c : nat) : key * nat := (k, c).
Definition mkI (k : key) (ign : bool) : key * bool := (k, ign).
Definition mkSC (o : order) (cfg : tcfg) (inputs : list (list (key * bool))) (sched : list nat) (log : list event)
           (results : list (list (key * nat))) : scase := (o, cfg, inputs, sched, log, results).
Definition TOKS (l : list tok) (code : nat) : option (list tok * nat) := Some (l, code).
Definition IND (p : Z) (st : list Z) : option (Z * list Z) := Some (p, st).
