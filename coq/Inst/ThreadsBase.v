(* Types shared by the regenerated description of BasicLexer's lazy initialisation
   (Gen/InstOrder.v) and the interleaving model (Inst/Threads.v). *)

(* The order in which _build_scanner publishes the callback table:
   PublishFirst : `terminals, self.callback = _create_unless(...)` and then the user
                  lexer_callbacks are added to the shared dict in place (lark before fix F5);
   PublishLast  : the table is built in a local variable and `self.callback = callback`
                  is the last statement before `return Scanner(...)`. *)
Inductive order := PublishFirst | PublishLast.
