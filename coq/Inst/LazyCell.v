(* Line-level interleaving semantics of a lazily initialised attribute

       def get(self):
           if self.X is None:            (LTest)
               self.X = build(...)       (LStore: local lines may precede it; the store itself is one line)
           return self.X                 (LRet:  re-reads the attribute)

   run by k threads on ONE object, each thread calling get() a given number of times.  This is the shape of
   BasicLexer.scanner / search_scanner, PatternRE._get_width and Tree.meta (Gen/InstWrites.lazy_cells lists every such
   site of lark; Writes.lazy_ok checks that each is known and re-reads the cell).
   A built value has a content (what the builder computed: for the value cells a function of the immutable
   configuration, so every build gives [bval]) and an identity (which build produced it).
   Executable definitions only; proofs in LazyCell_proofs.v.  Granularity as in Inst/Threads.v: a thread switch happens
   only between source lines. *)
From Coq Require Import List Arith Bool.
Import ListNotations.

Record lval := mkV { v_val : nat; v_id : nat }.

Inductive lpc := LTest | LStore | LRet | LDone.

Record lthread := mkLT {
  lt_pc : lpc;
  lt_todo : nat;                    (* further calls after the current one *)
  lt_res : list (option lval) }.    (* what the calls so far returned, oldest first *)

Record lshared := mkLS {
  ls_cell : option lval;            (* self.X *)
  ls_builds : nat }.                (* number of stores so far = identity of the next built object *)

Definition lstart (calls : nat) : lthread :=
  match calls with O => mkLT LDone 0 [] | S n => mkLT LTest n [] end.

Definition lstep (bval : nat) (sh : lshared) (th : lthread) : lshared * lthread :=
  match lt_pc th with
  | LDone => (sh, th)
  | LTest =>
      match ls_cell sh with
      | None => (sh, mkLT LStore (lt_todo th) (lt_res th))
      | Some _ => (sh, mkLT LRet (lt_todo th) (lt_res th))
      end
  | LStore =>
      (mkLS (Some (mkV bval (ls_builds sh))) (S (ls_builds sh)), mkLT LRet (lt_todo th) (lt_res th))
  | LRet =>
      let res := lt_res th ++ [ls_cell sh] in
      match lt_todo th with
      | O => (sh, mkLT LDone 0 res)
      | S n => (sh, mkLT LTest n res)
      end
  end.

Fixpoint lupd {A} (l : list A) (i : nat) (x : A) : list A :=
  match l, i with
  | [], _ => []
  | _ :: r, O => x :: r
  | y :: r, S j => y :: lupd r j x
  end.

Definition lgstate := (lshared * list lthread)%type.

Definition lgstep (bval : nat) (g : lgstate) (i : nat) : lgstate :=
  match nth_error (snd g) i with
  | None => g
  | Some th => let '(sh', th') := lstep bval (fst g) th in (sh', lupd (snd g) i th')
  end.

Definition lrun (bval : nat) (sched : list nat) (g : lgstate) : lgstate := fold_left (lgstep bval) sched g.

Definition linit (calls : list nat) : lgstate := (mkLS None 0, map lstart calls).

(* -- what the harness's scheduler observes: before each granted step (thread, kind of line, cell set?) -- *)
Definition lpc_code (p : lpc) : nat := match p with LTest => 0 | LStore => 1 | LRet => 2 | LDone => 3 end.

Definition levent := (nat * nat * bool)%type.

Fixpoint lrun_log (bval : nat) (sched : list nat) (g : lgstate) : list levent * lgstate :=
  match sched with
  | [] => ([], g)
  | i :: r =>
      let ev := match nth_error (snd g) i with
                | Some th => (i, lpc_code (lt_pc th), match ls_cell (fst g) with Some _ => true | None => false end)
                | None => (i, 4, false)
                end in
      let '(l, g') := lrun_log bval r (lgstep bval g i) in (ev :: l, g')
  end.

(* one recorded schedule on the implementation: calls per thread, schedule, observed log, for every thread the
   identities (index of the build whose object was returned) of what its calls returned, identity of the final cell *)
Record lcase := mkLC {
  lc_calls : list nat; lc_sched : list nat; lc_log : list levent;
  lc_results : list (list nat); lc_final : option nat; lc_ids : bool }.

Definition levent_eqb (a b : levent) : bool :=
  let '(i, k, s) := a in let '(i', k', s') := b in Nat.eqb i i' && Nat.eqb k k' && Bool.eqb s s'.

Fixpoint list_eqb {A} (eq : A -> A -> bool) (a b : list A) : bool :=
  match a, b with
  | [], [] => true
  | x :: a', y :: b' => eq x y && list_eqb eq a' b'
  | _, _ => false
  end.

Definition res_id (r : option lval) : nat := match r with Some v => S (v_id v) | None => 0 end.

(* the model reproduces the observation; with [lc_ids] also which build each call returned (0 = None, k+1 = build k) *)
Definition check_lazy (c : lcase) : bool :=
  let '(log, g) := lrun_log 7 (lc_sched c) (linit (lc_calls c)) in
  list_eqb levent_eqb log (lc_log c) &&
  forallb (fun th => match lt_pc th with LDone => true | _ => false end) (snd g) &&
  (if lc_ids c
   then list_eqb (list_eqb Nat.eqb) (map (fun th => map res_id (lt_res th)) (snd g)) (lc_results c) &&
        Nat.eqb (res_id (ls_cell (fst g))) (match lc_final c with Some k => S k | None => 0 end)
   else list_eqb (list_eqb Nat.eqb) (map (fun th => map (fun r => match r with Some _ => 1 | None => 0 end) (lt_res th)) (snd g))
                 (map (map (fun k => match k with O => 0 | _ => 1 end)) (lc_results c))).
