(* The process: every Lark instance created so far plus the process-wide state of lark itself.
   lark's only process-wide mutable cell on the construction / call paths is the grammar-of-grammars
   parser (load_grammar._get_parser.cache), built by the first Lark(...) of the process and a constant
   of lark's source; translator/gen_instance.py lists every store into a class / module / function
   object or module-level variable made inside any function of lark/*.py and fails closed on a new one.
   Executable definitions only; proofs in World_proofs.v. *)
From Coq Require Import ZArith List Bool String Arith.
From LV Require Import Base.Prelude Sys.IndenterBase Gen.IndenterHoles Sys.Indenter Inst.IndSteps Inst.Instance.
Import ListNotations.

Set Implicit Arguments.

Section World.
Variables Conf Sc CB LexSt Err Text : Type.
Variable mk_scanner : Conf -> Sc.
Variable mk_callback : Conf -> CB.
Variable mk_search : Conf -> Sc.
Variable at_end : LexSt -> bool.
Variable ntfuel : LexSt -> nat.
Variable init_ls : Text -> nat -> LexSt.
Variable iter : Conf -> Sc -> CB -> LexSt -> iter_res LexSt Err.
Variable search : Sc -> Text -> nat -> option nat.
Variable sc_want : Text -> nat -> list tok -> bool.
Variable sc_end : Text -> nat -> list tok -> pend Err -> option nat.

(* construction: the grammar text and the options are compiled with the grammar-of-grammars parser *)
Variables GP Src : Type.
Variable mk_gp : GP.                          (* what _get_parser() builds: a constant of lark's source *)
Variable compile : GP -> Src -> option (iconf Conf).     (* None: GrammarError / ConfigurationError *)

Record world := mkWorld {
  w_gp : option GP;                                    (* _get_parser.cache *)
  w_insts : list (iconf Conf * inst Sc CB) }.          (* the instances, in order of creation *)

Definition world0 : world := mkWorld None [].

Inductive wevent :=
| WNew (src : Src)                       (* Lark(grammar, **options): succeeds or raises *)
| WCall (i : nat) (o : op Text).         (* a call on the i-th instance created *)

Inductive wobs :=
| WCreated (i : nat)
| WFailed
| WNoSuchInstance
| WResult (ob : obs Err).

Definition force_gp (w : world) : world * GP :=
  match w_gp w with
  | Some g => (w, g)
  | None => (mkWorld (Some mk_gp) (w_insts w), mk_gp)
  end.

Fixpoint upd_inst (l : list (iconf Conf * inst Sc CB)) (i : nat) (s : inst Sc CB) : list (iconf Conf * inst Sc CB) :=
  match l, i with
  | [], _ => []
  | (cf, _) :: r, O => (cf, s) :: r
  | x :: r, S j => x :: upd_inst r j s
  end.

Definition wstep (fuel : nat) (w : world) (e : wevent) : world * wobs :=
  match e with
  | WNew src =>
      let '(w1, g) := force_gp w in
      match compile g src with
      | None => (w1, WFailed)
      | Some cf => (mkWorld (w_gp w1) (w_insts w1 ++ [(cf, fresh Sc CB)]), WCreated (List.length (w_insts w1)))
      end
  | WCall i o =>
      match nth_error (w_insts w) i with
      | None => (w, WNoSuchInstance)
      | Some (cf, s) =>
          let '(s', ob) := run_op mk_scanner mk_callback mk_search at_end ntfuel init_ls iter search sc_want sc_end
                                  fuel cf s o in
          (mkWorld (w_gp w) (upd_inst (w_insts w) i s'), WResult ob)
      end
  end.

Definition wrun (fuel : nat) (w : world) (h : list wevent) : world :=
  fold_left (fun w e => fst (wstep fuel w e)) h w.

End World.
