(* Proofs about Inst/LazyCell.v: for every schedule and any number of threads every call returns a built value with
   the builder's content (never None), and makes the announced number of calls; the identity of the returned object
   is NOT schedule independent (two builds can happen, the first one is lost). *)
From Coq Require Import List Arith Bool Lia.
From LV Require Import Inst.LazyCell.
Import ListNotations.

Section Safe.
Variable bval : nat.

Definition good (r : option lval) : Prop := exists id, r = Some (mkV bval id).
Definition cell_ok (sh : lshared) : Prop := ls_cell sh = None \/ good (ls_cell sh).
Definition remaining (th : lthread) : nat := match lt_pc th with LDone => 0 | _ => S (lt_todo th) end.

Definition th_ok (sh : lshared) (c : nat) (th : lthread) : Prop :=
  Forall good (lt_res th) /\ (lt_pc th = LRet -> ls_cell sh <> None) /\ List.length (lt_res th) + remaining th = c.

Definition inv (calls : list nat) (g : lgstate) : Prop :=
  cell_ok (fst g) /\ Forall2 (th_ok (fst g)) calls (snd g).

Lemma inv_init calls : inv calls (linit calls).
Proof.
  split; [left; reflexivity|]. cbn. induction calls as [|c r IH]; cbn; constructor; auto.
  destruct c; cbn; repeat split; auto; try discriminate; constructor.
Qed.

(* the cell only goes from None to a good value *)
Definition grows (sh sh' : lshared) : Prop := ls_cell sh <> None -> ls_cell sh' <> None.

Lemma th_ok_grows sh sh' c th : grows sh sh' -> th_ok sh c th -> th_ok sh' c th.
Proof. intros G (A & B & C). repeat split; auto. Qed.

Lemma grows_refl sh : grows sh sh.
Proof. intros x; exact x. Qed.

Lemma lstep_ok sh c th : cell_ok sh -> th_ok sh c th ->
  let '(sh', th') := lstep bval sh th in cell_ok sh' /\ th_ok sh' c th' /\ grows sh sh'.
Proof.
  intros Hc (A & B & C). unfold lstep. unfold remaining in C. destruct (lt_pc th) eqn:P.
  - (* LTest *) destruct (ls_cell sh) eqn:E.
    + split; [exact Hc|]. split; [|apply grows_refl]. unfold th_ok, remaining; cbn.
      split; [exact A|]. split; [intros _; congruence|exact C].
    + split; [exact Hc|]. split; [|apply grows_refl]. unfold th_ok, remaining; cbn.
      split; [exact A|]. split; [discriminate|exact C].
  - (* LStore *) split; [right; eexists; reflexivity|]. split; [|intros _; cbn; discriminate].
    unfold th_ok, remaining; cbn. split; [exact A|]. split; [intros _; discriminate|exact C].
  - (* LRet *)
    assert (G : good (ls_cell sh)) by (destruct Hc as [Hc|Hc]; [exfalso; apply (B eq_refl Hc)|exact Hc]).
    destruct (lt_todo th) eqn:T.
    + split; [exact Hc|]. split; [|apply grows_refl]. unfold th_ok, remaining; cbn.
      split; [apply Forall_app; split; [exact A|constructor; [exact G|constructor]]|].
      split; [discriminate|]. rewrite app_length; cbn; lia.
    + split; [exact Hc|]. split; [|apply grows_refl]. unfold th_ok, remaining; cbn.
      split; [apply Forall_app; split; [exact A|constructor; [exact G|constructor]]|].
      split; [discriminate|]. rewrite app_length; cbn; lia.
  - (* LDone *) split; [exact Hc|]. split; [|apply grows_refl]. unfold th_ok, remaining. rewrite P.
    split; [exact A|]. split; [exact B|exact C].
Qed.

Lemma Forall2_lupd {A B} (P : A -> B -> Prop) l1 l2 i y :
  Forall2 P l1 l2 -> (forall x, nth_error l1 i = Some x -> P x y) -> Forall2 P l1 (lupd l2 i y).
Proof.
  intros H. revert i. induction H as [|a b l1 l2 Hab H IH]; intros i Hy; cbn; [constructor|].
  destruct i as [|j].
  - constructor; [apply Hy; reflexivity|exact H].
  - constructor; [exact Hab|]. apply IH. intros x Hx. apply Hy. exact Hx.
Qed.

Lemma Forall2_nth {A B} (P : A -> B -> Prop) l1 l2 i y :
  Forall2 P l1 l2 -> nth_error l2 i = Some y -> exists x, nth_error l1 i = Some x /\ P x y.
Proof.
  intros H. revert i. induction H as [|a b l1 l2 Hab H IH]; intros i Hy; destruct i; cbn in *; try discriminate.
  - inversion Hy; subst. eauto.
  - eauto.
Qed.

Lemma Forall2_weaken {A B} (P Q : A -> B -> Prop) l1 l2 :
  (forall a b, P a b -> Q a b) -> Forall2 P l1 l2 -> Forall2 Q l1 l2.
Proof. intros H F. induction F; constructor; auto. Qed.

Lemma inv_step calls g i : inv calls g -> inv calls (lgstep bval g i).
Proof.
  intros (Hc & Hall). unfold lgstep. destruct (nth_error (snd g) i) as [th|] eqn:E; [|split; auto].
  destruct (Forall2_nth _ _ _ _ _ Hall E) as (c & Ec & Hth).
  pose proof (lstep_ok (fst g) c th Hc Hth) as H. destruct (lstep bval (fst g) th) as [sh' th'].
  destruct H as (Hc' & Hth' & G). split; [exact Hc'|]. cbn.
  apply Forall2_lupd.
  - eapply Forall2_weaken; [|exact Hall]. intros a b. apply th_ok_grows. exact G.
  - intros x Ex. rewrite Ec in Ex. inversion Ex; subst. exact Hth'.
Qed.

Lemma inv_run calls sched : forall g, inv calls g -> inv calls (lrun bval sched g).
Proof. induction sched as [|i r IH]; intros g H; cbn; auto. apply IH. now apply inv_step. Qed.

(* Every schedule, any number of threads and of calls per thread: every call made so far returned a built value with the
   builder's content (never None, never a stale or foreign value); a thread that is done has made exactly the announced
   number of calls; the cell is unset or holds such a value. *)
Theorem lazy_value_safe (calls : list nat) (sched : list nat) :
  let g := lrun bval sched (linit calls) in
  (ls_cell (fst g) = None \/ exists id, ls_cell (fst g) = Some (mkV bval id)) /\
  Forall2 (fun c th => Forall (fun r => exists id, r = Some (mkV bval id)) (lt_res th) /\
                       (lt_pc th = LDone -> List.length (lt_res th) = c)) calls (snd g).
Proof.
  destruct (inv_run calls sched _ (inv_init calls)) as (Hc & Hall). split; [exact Hc|].
  eapply Forall2_weaken; [|exact Hall]. intros c th (A & _ & C). split; [exact A|].
  intros P. unfold remaining in C. rewrite P in C. lia.
Qed.
End Safe.

(* The identity of the returned object depends on the schedule: both threads pass the test, both build; thread 0
   returns the first object, which thread 1 then overwrites - thread 0 holds an object that is not (and never again
   will be) the content of the cell.  Harmless for a value cell (scanner, width), a lost update for Tree.meta when two
   threads of the USER share one result tree (not instance state: outside C10). *)
Theorem lazy_identity_race_refuted :
  exists sched, let g := lrun 7 sched (linit [1; 1]) in
    map lt_res (snd g) = [[Some (mkV 7 0)]; [Some (mkV 7 1)]] /\ ls_cell (fst g) = Some (mkV 7 1) /\
    Forall (fun th => lt_pc th = LDone) (snd g).
Proof. exists [0; 1; 0; 0; 1; 1]. vm_compute. repeat split; repeat constructor. Qed.
