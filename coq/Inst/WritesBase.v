(* Types of the regenerated write-set / escape facts (Gen/InstWrites.v, produced by translator/gen_instwrites.py
   from the ast of lark/**/*.py) and of their classification (Inst/Writes.v). *)
From Coq Require Import String List Bool.

(* where the access path of a store starts *)
Inductive root :=
| RSelf                    (* the receiver of the method *)
| RParam (p : string)      (* a parameter (of the function or of a nested function: "f.p") *)
| RCall (f : string)       (* the value returned by a call of f *)
| RFresh                   (* the tuple / dict the interpreter builds for *args / **kwargs *)
| RGlobal.                 (* a `global` declaration *)

(* one store a function can make:  root.path = v | root.path[i] = v | root.path op= v | del root.path |
   root.path.append(v) ... | setattr(root.path, ...) *)
Record store := mkStore {
  s_fn : string;            (* "lark/lexer.py:BasicLexer.scanner" *)
  s_cls : string;           (* class that defines the function ("" for a module-level function) *)
  s_family : list string;   (* that class and its subclasses in lark: what `self` may be an instance of *)
  s_ctor : bool;            (* __init__ / __new__ / __post_init__ *)
  s_root : root;
  s_path : string;          (* "callback", "indent_level", "[].children", "meta.line" *)
  s_attr : string;          (* first attribute of the path ("" when the path starts with an index) *)
  s_deep : bool;            (* the path goes through further attributes: the object written is not the root itself *)
  s_kind : string }.        (* "=", "=[]", "op=", "del", "del[]", ".append()", "<setattr>" ... *)

(* a container that a class builds for itself leaves one of its methods by reference *)
Record escape := mkEscape {
  x_fn : string; x_cls : string; x_family : list string; x_attr : string; x_kind : string;
  x_how : string }.         (* "arg:<callee>", "return", "yield", "stored" *)

(* `if self.X is None: self.X = E` *)
Record lazy := mkLazy {
  z_fn : string; z_cls : string; z_attr : string; z_builder : string;
  z_reread : bool;          (* the function ends with `return self.X` *)
  z_only : bool;            (* the store is the only statement under the test *)
  z_onpath : bool }.        (* the function is reachable from a parse entry point *)
