(* The Indenter generator of lark/indenter.py at the granularity of its yields: every emitted
   token is paired with the state the Indenter object is in while the generator is suspended
   at that yield (this is the state an abandoned stream leaves behind).  Built from the same
   regenerated conditions (Gen/IndenterHoles.v) as Sys/Indenter.v; IndSteps_proofs.v shows that
   forgetting the states gives exactly Sys/Indenter.run. *)
From Coq Require Import ZArith List Bool String Ascii.
From LV Require Import Base.Prelude Sys.IndenterBase Gen.IndenterHoles Sys.Indenter.
Import ListNotations.
Local Open Scope Z_scope.

Definition ystep := (tok * istate)%type.

(* while indent < self.indent_level[-1]: self.indent_level.pop(); yield DEDENT *)
Fixpoint pop_steps (cfg : icfg) (indent : Z) (istr : string) (paren : Z) (stk : list Z)
  : list ystep * list Z * option istatus :=
  match stk with
  | [] => ([], [], Some IndexErr)
  | top :: rest =>
      if h_lt indent top then
        let '(o, s, e) := pop_steps cfg indent istr paren rest in
        ((DEDENT cfg istr, mkSt paren rest) :: o, s, e)
      else if h_ne indent top then ([], stk, Some DedentErr)
      else ([], stk, None)
  end.

Definition nl_steps (cfg : icfg) (st : istate) (t : tok) : list ystep * istate * option istatus :=
  if h_inparen (paren st) then ([], st, None) else
  match after_last_nl (tval t) with
  | None => ([(t, st)], st, Some IndexErr)
  | Some istr =>
      let indent := h_indent cfg istr in
      match stack st with
      | [] => ([(t, st)], st, Some IndexErr)
      | top :: _ =>
          if h_gt indent top then
            let st' := mkSt (paren st) (indent :: stack st) in
            ([(t, st); (INDENT cfg istr, st')], st', None)
          else
            let '(o, s, e) := pop_steps cfg indent istr (paren st) (stack st) in
            ((t, st) :: o, mkSt (paren st) s, e)
      end
  end.

(* one round of `for token in stream:` : the yields, the state when the generator goes back to
   fetch the next token (after the paren bookkeeping), and the exception if one is raised *)
Definition feed (cfg : icfg) (st : istate) (t : tok) : list ystep * istate * option istatus :=
  let '(o1, st1, e1) :=
    if String.eqb (ttype t) (nl_type cfg) then nl_steps cfg st t else ([(t, st)], st, None) in
  match e1 with
  | Some err => (o1, st1, Some err)
  | None => let '(st2, e2) := step_paren cfg st1 t in (o1, st2, e2)
  end.

(* while len(self.indent_level) > 1: pop; yield DEDENT *)
Fixpoint final_steps (cfg : icfg) (paren : Z) (stk : list Z) : list ystep * list Z * option istatus :=
  match stk with
  | [] => if h_more [] then ([], [], Some IndexErr) else ([], [], None)
  | top :: rest =>
      if h_more stk then
        let '(o, s, e) := final_steps cfg paren rest in ((DEDENT cfg EmptyString, mkSt paren rest) :: o, s, e)
      else ([], stk, None)
  end.

Definition finish_steps (cfg : icfg) (st : istate) : list ystep * istate * istatus :=
  let '(o, s, e) := final_steps cfg (paren st) (stack st) in
  let st' := mkSt (paren st) s in
  match e with
  | Some err => (o, st', err)
  | None => (o, st', if list_Z_eqb s [h_bottom] then Done else AssertErr)
  end.

(* a whole stream, run to its end *)
Fixpoint run_steps (cfg : icfg) (st : istate) (ts : list tok) : list ystep * istate * istatus :=
  match ts with
  | [] => finish_steps cfg st
  | t :: rest =>
      let '(o1, st1, e1) := feed cfg st t in
      match e1 with
      | Some err => (o1, st1, err)
      | None => let '(o, s, e) := run_steps cfg st1 rest in (o1 ++ o, s, e)
      end
  end.
