(* Proofs about Inst/Writes.v: the finite checks over the regenerated facts hold for the source lark has; what
   they mean for an abstract aheap (frame condition); and the lifting to Inst/Instance.v: a consumer / parser
   that reads whatever the instance holds outside the writable cells behaves after any history as on the fresh
   instance. *)
From Coq Require Import String List Bool Arith Lia.
From LV Require Import Base.Prelude Sys.IndenterBase Inst.WritesBase Gen.InstWrites Inst.Writes
     Inst.IndSteps Inst.Instance Inst.Instance_proofs.
Import ListNotations.
Local Open Scope string_scope.

(* ------------------------------------------------------------------ the finite checks (proof obligations) *)
(* These four are the obligations a change of lark's source can break: a new store into an object the instance may
   hold, a new store through a parameter / call result nobody reviewed, a container of a held class escaping by
   reference, a new mutable default argument, a new lazily initialised cell. *)
Lemma stores_ok_holds : stores_ok = true.
Proof. vm_compute. reflexivity. Qed.

Lemma escapes_ok_holds : escapes_ok = true.
Proof. vm_compute. reflexivity. Qed.

Lemma defaults_ok_holds : defaults_ok = true.
Proof. vm_compute. reflexivity. Qed.

Lemma lazy_ok_holds : lazy_ok = true.
Proof. vm_compute. reflexivity. Qed.

(* exactly these cells of possibly held objects are written on some parse path *)
Lemma writable_held_cells_exact :
  writable_held_cells =
  [ ("Indenter", "indent_level"); ("Indenter", "paren_level"); ("BasicLexer", "callback"); ("BasicLexer", "_scanner");
    ("BasicLexer", "_search_scanner"); ("PatternRE", "_width"); ("Tree", "children"); ("Tree", "_meta") ].
Proof. vm_compute. reflexivity. Qed.

(* ------------------------------------------------------------------ helpers *)
Lemma mem_string_In x l : mem_string x l = true <-> In x l.
Proof.
  induction l as [|y r IH]; cbn; [split; [discriminate|tauto]|].
  destruct (String.eqb x y) eqn:E.
  - apply String.eqb_eq in E. subst. tauto.
  - apply String.eqb_neq in E. rewrite IH. split; [tauto|]. intros [H|H]; [congruence|auto].
Qed.

Lemma mem_pair_In x l : mem_pair x l = true <-> In x l.
Proof.
  unfold mem_pair. rewrite existsb_exists. split.
  - intros (y & Hy & E). unfold pair_eqb in E. apply andb_true_iff in E. destruct E as [E1 E2].
    apply String.eqb_eq in E1, E2. destruct x, y; cbn in *; subst. exact Hy.
  - intros H. exists x. split; auto. unfold pair_eqb. now rewrite !String.eqb_refl.
Qed.

Lemma loc_eqb_eq a b : loc_eqb a b = true <-> a = b.
Proof.
  unfold loc_eqb. destruct a as [o x], b as [o' y]; cbn. rewrite andb_true_iff, Nat.eqb_eq, String.eqb_eq.
  split; [intros [-> ->]; auto|intros H; inversion H; auto].
Qed.

(* what the check says about one fact *)
Lemma store_ok_self s :
  In s stores -> self_plain s = true -> family_held (s_family s) = true ->
  In (s_cls s, s_attr s) (modelled_cells ++ value_cells).
Proof.
  intros Hin Hp Hf.
  pose proof stores_ok_holds as H. unfold stores_ok in H. rewrite forallb_forall in H. specialize (H s Hin).
  unfold self_plain in Hp. unfold store_ok in H. destruct (s_root s); try discriminate.
  apply andb_true_iff in Hp. destruct Hp as [Hc Hd]. apply negb_true_iff in Hc. rewrite Hc, Hf in H.
  apply andb_true_iff in H. destruct H as [_ H]. apply orb_true_iff in H. apply in_or_app.
  destruct H as [H|H]; apply mem_pair_In in H; auto.
Qed.

(* ------------------------------------------------------------------ the frame condition *)
Section Frame.
Variable objs : nat -> obj.

Lemma licensed_frame e h o a :
  licensed objs e -> o_held (objs o) = true -> writable (o_cls (objs o)) a = false ->
  exec1 h e (o, a) = h (o, a).
Proof.
  intros (s & Hin & Hfn & Hl) Hh Hw. unfold exec1.
  destruct (loc_eqb (o, a) (w_obj e, w_attr e)) eqn:E; [|reflexivity].
  apply loc_eqb_eq in E. inversion E; subst o a. exfalso.
  destruct (self_plain s) eqn:Hp.
  - destruct Hl as [Hc Ha].
    assert (writable (o_cls (objs (w_obj e))) (w_attr e) = true); [|congruence].
    unfold writable. apply existsb_exists. exists s. split; auto.
    rewrite Hp. cbn. apply andb_true_iff. split; [now apply mem_string_In|].
    rewrite Ha. apply String.eqb_refl.
  - congruence.
Qed.

Lemma frame_eq_refl h : frame_eq objs h h.
Proof. intros o a _ _. reflexivity. Qed.

Lemma frame_eq_trans h1 h2 h3 : frame_eq objs h1 h2 -> frame_eq objs h2 h3 -> frame_eq objs h1 h3.
Proof. intros A B o a H W. rewrite (A o a H W). apply B; auto. Qed.

(* a call, i.e. any sequence of licensed stores, leaves every cell of every held object unchanged unless some parse path
   can write that cell *)
Theorem frame tr : forall h, Forall (licensed objs) tr -> frame_eq objs h (exec tr h).
Proof.
  induction tr as [|e r IH]; intros h H; [apply frame_eq_refl|].
  inversion H; subst. cbn. eapply frame_eq_trans; [|apply IH; auto].
  intros o a Hh Hw. symmetry. now apply licensed_frame.
Qed.

(* ... and the cells that can be written are the modelled ones: a held location that a call changes is a cell of the
   instance model or of a value object, of the class that defines the writing method or of a subclass *)
Theorem changed_is_modelled tr h o a :
  typed objs -> Forall (licensed objs) tr -> o_held (objs o) = true ->
  exec tr h (o, a) <> h (o, a) ->
  exists c, In (c, a) (modelled_cells ++ value_cells) /\
            exists s, In s stores /\ s_cls s = c /\ In (o_cls (objs o)) (s_family s).
Proof.
  intros Ht Hl Hh Hne.
  destruct (writable (o_cls (objs o)) a) eqn:W.
  2:{ exfalso. apply Hne. symmetry. apply (frame tr h Hl o a Hh W). }
  unfold writable in W. apply existsb_exists in W. destruct W as (s & Hin & W).
  apply andb_true_iff in W. destruct W as [W Ea]. apply andb_true_iff in W. destruct W as [Hp Hm].
  apply String.eqb_eq in Ea. apply mem_string_In in Hm.
  assert (Hf : family_held (s_family s) = true).
  { unfold family_held. apply existsb_exists. exists (o_cls (objs o)). split; auto.
    apply mem_string_In. now apply Ht. }
  exists (s_cls s). split.
  - rewrite Ea. now apply store_ok_self.
  - exists s. auto.
Qed.
End Frame.

(* ------------------------------------------------------------------ lifting to the instance model *)
(* In Inst/Instance.v a parser is an arbitrary consumer [want : list tok -> bool] inside the operation - a function that
   cannot see the instance.  Here the operation a caller performs (hence the consumer's demand, i.e. the parser's tables,
   callbacks and configuration) is read from the aheap when the call starts, and every call executes an arbitrary
   trace of licensed stores.  Because of the frame condition the probe's reading after any history is its reading of the
   initial aheap, so C10_history_pure applies. *)
Section Lift.
Variables Conf Sc CB LexSt Err Text : Type.
Variable mk_scanner : Conf -> Sc.
Variable mk_callback : Conf -> CB.
Variable mk_search : Conf -> Sc.
Variable at_end : LexSt -> bool.
Variable ntfuel : LexSt -> nat.
Variable init_ls : Text -> nat -> LexSt.
Variable iter : Conf -> Sc -> CB -> LexSt -> iter_res LexSt Err.
Variable search : Sc -> Text -> nat -> option nat.
Variable sc_want : Text -> nat -> list tok -> bool.
Variable sc_end : Text -> nat -> list tok -> pend Err -> option nat.
Variable objs : nat -> obj.

Notation run_op := (run_op mk_scanner mk_callback mk_search at_end ntfuel init_ls iter search sc_want sc_end).
Notation run_hist := (run_hist mk_scanner mk_callback mk_search at_end ntfuel init_ls iter search sc_want sc_end).
Notation op_pure := (op_pure mk_scanner mk_callback mk_search at_end ntfuel init_ls iter search sc_want sc_end).

Record hcall := mkHcall { hc_op : aheap -> op Text; hc_trace : list stev }.

(* depends only on what the instance holds outside the writable cells *)
Definition frame_only (f : aheap -> op Text) : Prop := forall h h', frame_eq objs h h' -> f h = f h'.

Fixpoint hrun (fuel : nat) (cf : iconf Conf) (s : inst Sc CB) (h : aheap) (cs : list hcall) : inst Sc CB * aheap :=
  match cs with
  | [] => (s, h)
  | c :: r => hrun fuel cf (fst (run_op fuel cf s (hc_op c h))) (exec (hc_trace c) h) r
  end.

Lemma hrun_is_hist fuel cf cs : forall s h, exists ops, fst (hrun fuel cf s h cs) = run_hist fuel cf s ops.
Proof.
  induction cs as [|c r IH]; intros s h; cbn.
  - exists []. reflexivity.
  - destruct (IH (fst (run_op fuel cf s (hc_op c h))) (exec (hc_trace c) h)) as (ops & E).
    exists (hc_op c h :: ops). rewrite E. reflexivity.
Qed.

Lemma hrun_frame fuel cf cs : forall s h,
  Forall (fun c => Forall (licensed objs) (hc_trace c)) cs -> frame_eq objs h (snd (hrun fuel cf s h cs)).
Proof.
  induction cs as [|c r IH]; intros s h H; cbn; [apply frame_eq_refl|].
  inversion H; subst. eapply frame_eq_trans; [apply frame; eauto|]. apply IH; auto.
Qed.

Theorem history_pure_heap fuel cf cs h0 probe :
  Forall (fun c => Forall (licensed objs) (hc_trace c)) cs -> frame_only probe ->
  snd (run_op fuel cf (fst (hrun fuel cf (fresh Sc CB) h0 cs)) (probe (snd (hrun fuel cf (fresh Sc CB) h0 cs))))
  = op_pure fuel cf (probe h0).
Proof.
  intros Hl Hp.
  rewrite <- (Hp h0 _ (hrun_frame fuel cf cs (fresh Sc CB) h0 Hl)).
  destruct (hrun_is_hist fuel cf cs (fresh Sc CB) h0) as (ops & E). rewrite E.
  apply history_pure.
Qed.
End Lift.

Lemma licensedb_sound objs e : licensedb objs e = true -> licensed objs e.
Proof.
  unfold licensedb. rewrite existsb_exists. intros (s & Hin & H). exists s. split; auto.
  unfold licensesb in H. apply andb_true_iff in H. destruct H as [Hf H]. apply String.eqb_eq in Hf.
  split; auto. destruct (self_plain s).
  - apply andb_true_iff in H. destruct H as [Hm Ha]. apply mem_string_In in Hm. apply String.eqb_eq in Ha. auto.
  - now apply negb_true_iff in H.
Qed.

(* the property-level statement: the four finite checks over the regenerated facts hold, and they mean that whatever a
   call changes in an object the instance holds is a modelled cell *)
Theorem parse_paths_write_only_per_call_objects :
  stores_ok = true /\ escapes_ok = true /\ defaults_ok = true /\ lazy_ok = true /\
  forall (objs : nat -> obj) (tr : list stev) (h : aheap) (o : nat) (a : string),
    typed objs -> Forall (licensed objs) tr -> o_held (objs o) = true ->
    exec tr h (o, a) <> h (o, a) ->
    exists c, In (c, a) (modelled_cells ++ value_cells) /\
              exists s, In s stores /\ s_cls s = c /\ In (o_cls (objs o)) (s_family s).
Proof.
  split; [exact stores_ok_holds|]. split; [exact escapes_ok_holds|]. split; [exact defaults_ok_holds|].
  split; [exact lazy_ok_holds|]. intros objs tr h o a. apply changed_is_modelled.
Qed.
