From Coq Require Import ZArith List Bool String Ascii.
From LV Require Import Base.Prelude Sys.IndenterBase Gen.IndenterHoles Sys.Indenter Inst.IndSteps.
Import ListNotations.
Local Open Scope Z_scope.

Definition forget {S E} (r : list ystep * S * E) : list tok * S * E :=
  let '(o, s, e) := r in (map fst o, s, e).

Lemma pop_steps_pop_while cfg indent istr paren stk :
  forget (pop_steps cfg indent istr paren stk) = pop_while cfg indent istr stk.
Proof.
  induction stk as [|top rest IH]; cbn; auto.
  destruct (h_lt indent top).
  - destruct (pop_steps cfg indent istr paren rest) as [[o s] e].
    destruct (pop_while cfg indent istr rest) as [[o' s'] e']. cbn in *. inversion IH; subst. reflexivity.
  - destruct (h_ne indent top); reflexivity.
Qed.

Lemma nl_steps_handle_NL cfg st t : forget (nl_steps cfg st t) = handle_NL cfg st t.
Proof.
  unfold nl_steps, handle_NL. destruct (h_inparen (paren st)); auto.
  destruct (after_last_nl (tval t)); auto. destruct (stack st) as [|top r] eqn:E; auto.
  destruct (h_gt (h_indent cfg s) top); auto.
  pose proof (pop_steps_pop_while cfg (h_indent cfg s) s (paren st) (top :: r)) as H.
  destruct (pop_steps cfg (h_indent cfg s) s (paren st) (top :: r)) as [[o s1] e1].
  destruct (pop_while cfg (h_indent cfg s) s (top :: r)) as [[o' s'] e']. cbn in *.
  inversion H; subst. reflexivity.
Qed.

Lemma final_steps_final_pops cfg paren stk : forget (final_steps cfg paren stk) = final_pops cfg stk.
Proof.
  induction stk as [|top rest IH]; cbn [final_steps final_pops].
  - destruct (h_more []); reflexivity.
  - destruct (h_more (top :: rest)); auto.
    destruct (final_steps cfg paren rest) as [[o s] e]. destruct (final_pops cfg rest) as [[o' s'] e'].
    cbn in *. inversion IH; subst. reflexivity.
Qed.

(* forgetting the per-yield states gives the regenerated whole-stream model of C18 *)
Lemma run_steps_run cfg ts : forall st, forget (run_steps cfg st ts) = run cfg st ts.
Proof.
  induction ts as [|t rest IH]; intros st.
  - cbn [run_steps run]. unfold finish_steps.
    pose proof (final_steps_final_pops cfg (paren st) (stack st)) as H.
    destruct (final_steps cfg (paren st) (stack st)) as [[o s] e].
    destruct (final_pops cfg (stack st)) as [[o' s'] e']. cbn in H. inversion H; subst.
    destruct e'; reflexivity.
  - cbn [run_steps run]. unfold feed.
    assert (H : forget (if String.eqb (ttype t) (nl_type cfg) then nl_steps cfg st t else ([(t, st)], st, None))
                = (if String.eqb (ttype t) (nl_type cfg) then handle_NL cfg st t else ([t], st, None))).
    { destruct (String.eqb (ttype t) (nl_type cfg)); [apply nl_steps_handle_NL|reflexivity]. }
    destruct (if String.eqb (ttype t) (nl_type cfg) then nl_steps cfg st t else ([(t, st)], st, None)) as [[o1 st1] e1].
    destruct (if String.eqb (ttype t) (nl_type cfg) then handle_NL cfg st t else ([t], st, None)) as [[o1' st1'] e1'].
    cbn in H. inversion H; subst. destruct e1'; [reflexivity|].
    destruct (step_paren cfg st1' t) as [st2 e2]. destruct e2; [reflexivity|].
    specialize (IH st2). destruct (run_steps cfg st2 rest) as [[o s] e]. destruct (run cfg st2 rest) as [[o' s'] e'].
    cbn in *. inversion IH; subst. now rewrite map_app.
Qed.
