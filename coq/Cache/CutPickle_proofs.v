(* C12 - a cut pickle under a consistent header.  If the body of a cache file is a strict prefix of what was
   written and the header has been recomputed for that prefix (so the digest check passes), the read is still a
   Miss: unpickling a strict prefix fails, and `except Exception` turns the failure into a rebuild.  This is the
   role of the second pickle hypothesis (dec fails on every strict prefix of enc x); it does not use any property
   of the digest.  The toy codec of CacheInstance.v satisfies the hypothesis (non-vacuity). *)
From Coq Require Import List Ascii Bool Arith Lia.
From LV Require Import Cache.Bytes Cache.PyRepr Gen.CacheKey Cache.Cache Cache.PyRepr_proofs Cache.Cache_proofs
  Cache.CacheInstance.
Import ListNotations.

Definition strict_prefix (p x : bytes) : Prop := exists s, s <> [] /\ x = p ++ s.

Definition prefix_fails {A} (enc : A -> bytes) (dec : bytes -> option (A * bytes)) : Prop :=
  forall x p, strict_prefix p (enc x) -> dec p = None.

Section CutPickle.
  Variable R : Type.
  Variable sha : bytes -> bytes.
  Variables D P : Type.
  Variable encU : ufiles -> bytes.
  Variable decU : bytes -> option (ufiles * bytes).
  Variable encD : D -> bytes.
  Variable decD : bytes -> option (D * bytes).
  Variable load : D -> cfg R -> option P.
  Hypothesis sha_no_nl : forall a, ~ In nl (sha a).
  Hypothesis decU_encU : forall u r, decU (encU u ++ r) = Some (u, r).
  Hypothesis decU_prefix : prefix_fails encU decU.
  Hypothesis decD_prefix : prefix_fails encD decD.

  Theorem cut_pickle_miss k u d n c e :
    n < length (encU u ++ encD d) ->
    read R sha D P decU decD load (mk_file sha k (firstn n (encU u ++ encD d))) c e = Miss.
  Proof.
    intros L. unfold read, mk_file.
    rewrite split_line_app.
    2:{ unfold header. intros H. apply in_app_or in H as [H | [H | H]];
        [now apply sha_no_nl in H | discriminate | now apply sha_no_nl in H]. }
    destruct (header_ok sha _ _ _); [|reflexivity].
    rewrite firstn_app. rewrite app_length in L.
    destruct (Nat.lt_ge_cases n (length (encU u))) as [Lt | Ge].
    - replace (n - length (encU u)) with 0 by lia. cbn [firstn]. rewrite app_nil_r.
      rewrite (decU_prefix u (firstn n (encU u))); [reflexivity|].
      exists (skipn n (encU u)). split; [|now rewrite firstn_skipn].
      intros E. apply (f_equal (@length _)) in E. rewrite skipn_length in E. cbn in E. lia.
    - rewrite firstn_all2 by lia. rewrite decU_encU.
      destruct (verify sha e u); [|reflexivity].
      rewrite (decD_prefix d (firstn (n - length (encU u)) (encD d))); [reflexivity|].
      exists (skipn (n - length (encU u)) (encD d)). split; [|now rewrite firstn_skipn].
      intros E. apply (f_equal (@length _)) in E. rewrite skipn_length in E. cbn in E. lia.
  Qed.
End CutPickle.

(* ---- the toy codec fails on strict prefixes --------------------------------------------------------- *)
Lemma cnt_spec f : let (n, r) := cnt f in f = repeat one n ++ r /\ (forall c t, r = c :: t -> c <> one).
Proof.
  induction f as [|c f IH]; cbn. { split; [reflexivity | discriminate]. }
  destruct (Ascii.eqb c one) eqn:E.
  - apply Ascii.eqb_eq in E. subst. destruct (cnt f) as [n r]. destruct IH as [-> H]. split; [reflexivity | exact H].
  - apply Ascii.eqb_neq in E. split; [reflexivity|]. intros ? ? X. inversion X; subst. exact E.
Qed.

Lemma repeat_one_split n m a b :
  repeat one n ++ zero :: a = repeat one m ++ b -> (forall c t, b = c :: t -> c <> one) -> b <> [] ->
  n = m /\ b = zero :: a.
Proof.
  revert m. induction n as [|n IH]; intros [|m] H Hb Ne; cbn in H.
  - auto.
  - now inversion H.
  - destruct b as [|c t]; [contradiction|]. inversion H; subst. exfalso. now apply (Hb one (repeat one n ++ zero :: a)).
  - inversion H as [H']. destruct (IH m H' Hb Ne) as [-> ->]. auto.
Qed.

Lemma dec_b_prefix : prefix_fails enc_b dec_b.
Proof.
  intros x p (s & Ns & E). unfold dec_b, enc_b in *.
  pose proof (cnt_spec p) as C. destruct (cnt p) as [n r]. destruct C as [-> Hr].
  destruct r as [|c y]; [reflexivity|].
  rewrite <- app_assoc in E.
  apply repeat_one_split in E as [En E]; [subst n| | discriminate].
  - cbn in E. inversion E; subst. rewrite Ascii.eqb_refl. cbn [andb].
    replace (length (y ++ s) <=? length y) with false; [reflexivity|].
    symmetry. apply Nat.leb_gt. rewrite app_length. destruct s; [contradiction | cbn; lia].
  - intros c' t X. destruct y as [|? ?]; cbn in X; inversion X; subst; eapply Hr; reflexivity.
Qed.

Lemma prefix_cases (p s x y : bytes) :
  p ++ s = x ++ y -> s <> [] -> strict_prefix p x \/ exists q, p = x ++ q /\ y = q ++ s.
Proof.
  intros E Ns. apply app_eq_app in E as [l [[E1 E2] | [E1 E2]]].
  - right. exists l. auto.
  - destruct l as [|c l].
    + right. exists []. rewrite app_nil_r in E1. cbn in *. subst. now rewrite app_nil_r.
    + left. exists (c :: l). split; [discriminate | assumption].
Qed.

Lemma dec_pairs_prefix u : forall p, strict_prefix p (flat_map enc_pair u) -> dec_pairs (length u) p = None.
Proof.
  induction u as [|[a h] u IH]; intros p (s & Ns & E); cbn [flat_map length dec_pairs] in *.
  - exfalso. symmetry in E. apply app_eq_nil in E as [_ E]. contradiction.
  - unfold enc_pair at 1 in E. cbn [fst snd] in E. rewrite <- app_assoc in E. symmetry in E.
    apply prefix_cases in E; [|assumption]. destruct E as [SP | (q & -> & E)].
    + now rewrite (dec_b_prefix a p SP).
    + rewrite dec_enc_b. symmetry in E.
      apply prefix_cases in E; [|assumption]. destruct E as [SP | (q' & -> & E)].
      * now rewrite (dec_b_prefix h q SP).
      * rewrite dec_enc_b. rewrite IH; [reflexivity|]. exists s. auto.
Qed.

Lemma t_decU_prefix : prefix_fails t_encU t_decU.
Proof.
  intros u p (s & Ns & E). unfold t_decU, t_encU in *.
  pose proof (cnt_spec p) as C. destruct (cnt p) as [n r]. destruct C as [-> Hr].
  destruct r as [|c y]; [reflexivity|].
  rewrite <- app_assoc in E.
  apply repeat_one_split in E as [En E]; [subst n| | discriminate].
  - cbn in E. inversion E; subst. rewrite Ascii.eqb_refl.
    apply dec_pairs_prefix. exists s. auto.
  - intros c' t X. destruct y as [|? ?]; cbn in X; inversion X; subst; eapply Hr; reflexivity.
Qed.

(* the instance also satisfies the prefix hypotheses: cut_pickle_miss is not vacuous *)
Lemma t_cut_pickle_miss k u d n c e :
  n < length (t_encU u ++ enc_b d) ->
  read bool t_sha bytes t_P t_decU dec_b t_load (mk_file t_sha k (firstn n (t_encU u ++ enc_b d))) c e = Miss.
Proof.
  apply cut_pickle_miss; [apply t_sha_no_nl | apply t_decU_encU | apply t_decU_prefix | apply dec_b_prefix].
Qed.
