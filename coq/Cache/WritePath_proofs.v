(* C12 - theorems about the write path Cache/WritePath.v: a single writer that dies anywhere leaves, under plain
   open(), a prefix of the complete file (possibly empty) or the old file, and under atomicwrites the old file; in
   both cases the invariant of Cache_proofs.v holds, so every later reader gets a Miss or the uncached parser, and the
   next construction repairs the file.  Histories of such events keep the invariant. *)
From Coq Require Import String List Ascii Bool Arith Lia.
From LV Require Import Cache.Bytes Cache.PyRepr Gen.CacheKey Cache.Cache Cache.PyRepr_proofs Cache.Cache_proofs
  Cache.WritePath.
Import ListNotations.

(* ---- the operating-system level, one writer ------------------------------------------------------------- *)
Lemma pwrite_end c b : pwrite c (length c) b = c ++ b.
Proof.
  destruct b as [|x b]; cbn [pwrite]; [now rewrite app_nil_r|].
  rewrite firstn_all, Nat.sub_diag. cbn [repeat app].
  rewrite skipn_all2 by lia. now rewrite app_nil_r.
Qed.

Lemma upd_same o w n : upd o w n w = n.
Proof. unfold upd. now rewrite Nat.eqb_refl. Qed.

Lemma exec_writes w bs : forall (c : bytes) (o : offsets), o w = length c ->
  exists o', exec (Some c, o) (map (AWrite w) bs) = (Some (c ++ concat bs), o') /\ o' w = length (c ++ concat bs).
Proof.
  induction bs as [|b bs IH]; intros c o Ho; cbn [map concat].
  - exists o. rewrite app_nil_r. auto.
  - unfold exec. cbn [fold_left exec1]. rewrite Ho, pwrite_end.
    destruct (IH (c ++ b) (upd o w (length c + length b))) as (o' & E & L).
    { rewrite upd_same, app_length. reflexivity. }
    exists o'. unfold exec in E. rewrite <- app_assoc in E, L. split; [exact E | exact L].
Qed.

Lemma exec_cons st a tr : exec st (a :: tr) = exec (exec1 st a) tr.
Proof. reflexivity. Qed.

Lemma exec_app st t1 t2 : exec st (t1 ++ t2) = exec (exec st t1) t2.
Proof. unfold exec. apply fold_left_app. Qed.

Lemma reached_spec calls : forall i j,
  reached calls i j = concat (firstn i calls) ++ match nth_error calls i with Some b => firstn j b | None => [] end.
Proof.
  induction calls as [|b r IH]; intros [|i] j; cbn [reached firstn concat nth_error app]; try reflexivity.
  rewrite IH, app_assoc. reflexivity.
Qed.

(* a plain writer that dies after the open leaves exactly the bytes of its own stream written so far ... *)
Lemma exec_trace1 fl o w calls i j : fst (exec (fl, o) (trace1 w calls i j)) = Some (reached calls i j).
Proof.
  unfold trace1. rewrite exec_cons. cbn [exec1]. rewrite exec_app.
  destruct (exec_writes w (firstn i calls) [] (upd o w 0)) as (o' & E & L); [now rewrite upd_same|].
  rewrite reached_spec. unfold bytes, file, offsets in *. rewrite E. cbn [app] in *.
  destruct (nth_error calls i) as [b|]; [|unfold exec; cbn [fold_left fst]; now rewrite app_nil_r].
  unfold exec. cbn [fold_left exec1 fst]. now rewrite L, pwrite_end.
Qed.

Lemma firstn_app_exact {A} (a y : list A) : firstn (length a) (a ++ y) = a.
Proof. rewrite firstn_app, Nat.sub_diag, firstn_all. cbn. apply app_nil_r. Qed.

(* ... which is a prefix of the concatenation of the write calls *)
Lemma reached_prefix calls : forall i j, exists n, reached calls i j = firstn n (concat calls).
Proof.
  induction calls as [|b r IH]; intros i j; cbn [reached concat].
  - exists 0. reflexivity.
  - destruct i as [|i].
    + exists (length (firstn j b)).
      rewrite <- (firstn_skipn j b) at 3. rewrite <- app_assoc. now rewrite firstn_app_exact.
    + destruct (IH i j) as [n E]. exists (length b + n). rewrite E. now rewrite firstn_app_2.
Qed.

Lemma done_plain fl o w calls : fst (exec (fl, o) (AOpen w :: map (AWrite w) calls)) = Some (concat calls).
Proof.
  rewrite exec_cons. cbn [exec1].
  destruct (exec_writes w calls [] (upd o w 0)) as (o' & E & L); [now rewrite upd_same|].
  unfold bytes, file, offsets in *. now rewrite E.
Qed.

Lemma done_file_eq s fl calls : done_file s fl calls = Some (concat calls).
Proof. destruct s; [apply done_plain | reflexivity]. Qed.

(* every state a dying writer can leave: the old file, or a prefix of the new one *)
Lemma crash_file_cases s fl calls cp :
  crash_file s fl calls cp = fl \/ exists n, crash_file s fl calls cp = Some (firstn n (concat calls)).
Proof.
  destruct cp as [|i j]; [now left|]. destruct s; [|now left]. right.
  unfold crash_file. rewrite exec_trace1. destruct (reached_prefix calls i j) as [n E]. exists n. now rewrite E.
Qed.

Lemma crash_file_atomic fl calls cp : crash_file Atomic fl calls cp = fl.
Proof. now destruct cp. Qed.

Lemma crash_file_plain fl calls i j : crash_file Plain fl calls (CInWrite i j) = Some (reached calls i j).
Proof. unfold crash_file. apply exec_trace1. Qed.

Section Proofs.
  Variable R : Type.
  Variable sha : bytes -> bytes.
  Variables D P : Type.
  Variable encU : ufiles -> bytes.
  Variable decU : bytes -> option (ufiles * bytes).
  Variable encD : D -> bytes.
  Variable decD : bytes -> option (D * bytes).
  Variable build : cfg R -> env -> option (built D P).
  Variable load : D -> cfg R -> option P.
  Variable okenv : env -> Prop.
  Hypothesis IO : ideal_oracles sha D encU decU encD decD.
  Hypothesis RL : rest_of_lark R sha D P build load okenv.

  Notation lookup := (lookup R sha D P decU decD load).
  Notation construct := (construct R sha D P encU decU encD decD build load).
  Notation write := (write sha D encU encD).
  Notation wcalls := (wcalls sha D encU encD).
  Notation key := (key R).
  Notation Inv := (Inv R sha D P encU encD build okenv).
  Notation valid_for := (valid_for R sha D P encU decU encD decD build load okenv).
  Notation uncached := (uncached R D P build).
  Notation step2 := (step2 R sha D P encU decU encD decD build load).
  Notation run2 := (run2 R sha D P encU decU encD decD build load).

  (* the regenerated sequence of write calls puts the file of the model on the path *)
  Lemma concat_wcalls k u d : concat (wcalls k u d) = write k u d.
  Proof.
    unfold WritePath.wcalls, write_calls, Cache.write, mk_file, header.
    cbn [concat B list_ascii_of_string]. rewrite <- ?app_assoc. cbn [app]. now rewrite app_nil_r.
  Qed.

  Lemma lookup_sound fl c e p : okenv e -> Inv fl -> lookup fl c e = Hit p -> uncached c e = Some p /\ valid_for c e fl.
  Proof. destruct IO, RL. eapply lookup_hit_sound; eauto. Qed.

  Lemma written_ok c e b : okenv e -> build c e = Some b ->
    valid_for c e (Some (write (key c) (bused D P b) (bdata D P b))).
  Proof. destruct IO, RL. eapply written_valid; eauto. Qed.

  Lemma crash_file_Inv s fl c e b cp :
    okenv e -> Inv fl -> build c e = Some b ->
    Inv (crash_file s fl (wcalls (key c) (bused D P b) (bdata D P b)) cp).
  Proof.
    intros Oe I Hb. destruct (crash_file_cases s fl (wcalls (key c) (bused D P b) (bdata D P b)) cp) as [-> | [n ->]].
    - exact I.
    - right. rewrite concat_wcalls. eexists _, n. split; [|reflexivity]. exists c, e, b. auto.
  Qed.

  (* A writer that dies at any point of the write block - before the open, between two write calls, inside one - under
     either kind of FS.open: the path keeps its invariant; every later reader gets a Miss or exactly the uncached
     parser; the next construction returns the uncached parser and leaves a valid cache. *)
  Theorem crash_anywhere_miss_or_correct s fl c e b cp :
    okenv e -> Inv fl -> build c e = Some b ->
    let fl' := crash_file s fl (wcalls (key c) (bused D P b) (bdata D P b)) cp in
    Inv fl' /\
    forall c' e', okenv e' ->
      match lookup fl' c' e' with Hit p => uncached c' e' = Some p | Miss => True end /\
      fst (construct fl' c' e') = uncached c' e' /\
      (uncached c' e' <> None -> valid_for c' e' (snd (construct fl' c' e'))).
  Proof.
    intros Oe I Hb fl'. assert (I' : Inv fl') by (eapply crash_file_Inv; eauto). split; [exact I'|].
    intros c' e' Oe'. split.
    - destruct (lookup fl' c' e') as [p|] eqn:El; [|exact Logic.I]. now apply (lookup_sound fl' c' e' p Oe' I').
    - destruct (construct_spec_b R sha D P encU decU encD decD build load okenv IO RL fl' c' e' Oe' I') as (A & _ & C).
      auto.
  Qed.

  (* under plain open() a writer that died leaves the old file or a prefix of the complete file, and a strict prefix is a
     Miss for every reader; under atomicwrites it leaves the old file *)
  Theorem crash_plain_prefix fl k u d cp :
    crash_file Plain fl (wcalls k u d) cp = fl \/
    exists n, crash_file Plain fl (wcalls k u d) cp = Some (firstn n (write k u d)).
  Proof. rewrite <- concat_wcalls. apply crash_file_cases. Qed.

  (* ---- histories --------------------------------------------------------------------------------------------- *)
  Definition event2_ok (ev : event2 R) (o : option (option P)) (fl' : file) : Prop :=
    Inv fl' /\
    match e2crash R ev with
    | None => o = Some (uncached (e2cfg R ev) (e2env R ev)) /\
              (uncached (e2cfg R ev) (e2env R ev) <> None -> valid_for (e2cfg R ev) (e2env R ev) fl')
    | Some _ => o = None \/ o = Some (uncached (e2cfg R ev) (e2env R ev))
    end.

  Lemma step2_spec fl ev :
    okenv (e2env R ev) -> Inv fl -> event2_ok ev (fst (step2 fl ev)) (snd (step2 fl ev)).
  Proof.
    intros Oe I. unfold WritePath.step2, event2_ok.
    destruct (lookup fl (e2cfg R ev) (e2env R ev)) as [p|] eqn:El.
    - destruct (lookup_sound _ _ _ _ Oe I El) as [U V]. cbn [fst snd]. split; [exact I|].
      destruct (e2crash R ev); [right; now rewrite U|]. split; [now rewrite U|]. intros _. exact V.
    - unfold Cache_proofs.uncached. destruct (build _ _) as [b|] eqn:Hb; cbn [option_map].
      + destruct (e2crash R ev) as [cp|]; cbn [fst snd].
        * split; [eapply crash_file_Inv; eauto | now left].
        * rewrite done_file_eq, concat_wcalls. pose proof (written_ok _ _ _ Oe Hb) as V.
          split; [|split; [reflexivity | intros _; exact V]].
          destruct IO, RL. eapply valid_Inv; eauto.
      + cbn [fst snd]. split; [exact I|]. destruct (e2crash R ev); [now right|]. split; [reflexivity | congruence].
  Qed.

  Theorem history2_inv h : Forall (fun ev => okenv (e2env R ev)) h -> forall fl, Inv fl ->
    Inv (snd (run2 fl h)) /\
    forall h1 ev h2, h = h1 ++ ev :: h2 ->
      let fl1 := snd (run2 fl h1) in
      Inv fl1 /\ event2_ok ev (fst (step2 fl1 ev)) (snd (step2 fl1 ev)).
  Proof.
    induction h as [|ev h IH]; intros F fl I.
    - split; [exact I|]. intros [|? ?] ? ? ?; discriminate.
    - inversion F as [|? ? Oe F']; subst.
      cbn [WritePath.run2]. pose proof (step2_spec fl ev Oe I) as S.
      destruct (step2 fl ev) as [o fl'] eqn:Es. cbn [fst snd] in S.
      destruct (IH F' fl' (proj1 S)) as [I' Hrest].
      destruct (run2 fl' h) as [os fl''] eqn:Er. cbn [snd] in *. split; [exact I'|].
      intros [|ev1 h1] ev2 h2 E; cbn in E; inversion E; subst.
      + cbn [WritePath.run2 snd]. split; [exact I|]. rewrite Es. exact S.
      + cbn [WritePath.run2]. rewrite Es. specialize (Hrest h1 ev2 h2 eq_refl).
        destruct (run2 fl' h1) as [os1 fl1]. exact Hrest.
  Qed.
End Proofs.
