(* C12 - the write path of the cache, as coded in lark/lark.py (Lark.__init__, last statement):

       with FS.open(cache_fn, 'wb') as f:          (lark/utils.py FS.open: atomicwrites.atomic_write(...) if the
           body_f = io.BytesIO() ...                package is installed, else open(name, 'wb'))
           body = body_f.getvalue()
           f.write(<header line>)                   the calls and their order are regenerated from the source:
           f.write(body)                            Gen/CacheKey.v write_calls

   Definitions only.  Two levels:
   1. the operating-system level: ONE regular file, any number of writers; every writer has its own file offset
      (an open file description), open(.., 'wb') truncates the file (O_TRUNC) and puts that writer's offset at 0,
      write(2) puts the bytes at the writer's own offset and extends the file, filling a gap with zero bytes when the
      offset is past the end (the file was truncated by somebody else in the meantime);
   2. one writer executing the write block, dying at a crash point: before the open, or after the open with i write
      calls finished and j bytes of the next one on the file (j = 0: between two calls, or while the body is still
      being pickled).  Under [Plain] the writes go to the path itself; under [Atomic] (atomicwrites) they go to a
      temporary file that is renamed over the path only when the block is left normally, so a crash leaves the path
      as it was. *)
From Coq Require Import String Ascii List Bool Arith.
From LV Require Import Cache.Bytes Cache.PyRepr Gen.CacheKey Cache.Cache.
Import ListNotations.

(* ---- 1. POSIX semantics of one regular file ------------------------------------------------------------- *)
Definition zero_byte : ascii := "000"%char.

(* write(2) of b at offset off into a file with content c (a zero-length write changes nothing) *)
Definition pwrite (c : bytes) (off : nat) (b : bytes) : bytes :=
  match b with
  | [] => c
  | _ => firstn off c ++ repeat zero_byte (off - length c) ++ b ++ skipn (off + length b) c
  end.

Inductive act :=
| AOpen (w : nat)                 (* writer w: open(path, 'wb') *)
| AWrite (w : nat) (b : bytes).   (* writer w: one write(2) of b at its own offset *)

Definition offsets := nat -> nat.
Definition upd (o : offsets) (w n : nat) : offsets := fun x => if Nat.eqb x w then n else o x.

Definition exec1 (st : file * offsets) (a : act) : file * offsets :=
  let (fl, o) := st in
  match a with
  | AOpen w => (Some [], upd o w 0)
  | AWrite w b =>
      match fl with
      | None => (None, o)          (* not reachable: a writer opens before it writes, and nobody unlinks *)
      | Some c => (Some (pwrite c (o w) b), upd o w (o w + length b))
      end
  end.

Definition exec (st : file * offsets) (tr : list act) : file * offsets := fold_left exec1 tr st.

(* ---- 2. one writer, crash points --------------------------------------------------------------------------- *)
Inductive fsem := Plain | Atomic.

Inductive cpoint :=
| CBeforeOpen                (* dies before FS.open(cache_fn, 'wb') *)
| CInWrite (i j : nat).      (* dies after the open: i write calls finished, j bytes of call number i written *)

(* what the writer did at the operating-system level before it died *)
Definition trace1 (w : nat) (calls : list bytes) (i j : nat) : list act :=
  AOpen w :: map (AWrite w) (firstn i calls) ++
  match nth_error calls i with Some b => [AWrite w (firstn j b)] | None => [] end.

(* the bytes of the writer's own stream that reached the file *)
Fixpoint reached (calls : list bytes) (i j : nat) : bytes :=
  match calls with
  | [] => []
  | b :: r => match i with O => firstn j b | S i' => b ++ reached r i' j end
  end.

Definition no_offsets : offsets := fun _ => 0.

Definition crash_file (s : fsem) (fl : file) (calls : list bytes) (cp : cpoint) : file :=
  match cp with
  | CBeforeOpen => fl
  | CInWrite i j =>
      match s with
      | Plain => fst (exec (fl, no_offsets) (trace1 0 calls i j))
      | Atomic => fl           (* the temporary file never replaces the path *)
      end
  end.

(* the block left normally: all calls done, file closed (Atomic: os.replace(tmp, path)) *)
Definition done_file (s : fsem) (fl : file) (calls : list bytes) : file :=
  match s with
  | Plain => fst (exec (fl, no_offsets) (AOpen 0 :: map (AWrite 0) calls))
  | Atomic => Some (concat calls)
  end.

Section Model.
  Variable R : Type.
  Variable sha : bytes -> bytes.
  Variables D P : Type.
  Variable encU : ufiles -> bytes.
  Variable decU : bytes -> option (ufiles * bytes).
  Variable encD : D -> bytes.
  Variable decD : bytes -> option (D * bytes).
  Variable build : cfg R -> env -> option (built D P).
  Variable load : D -> cfg R -> option P.

  (* the write calls of one construction *)
  Definition wcalls (k : bytes) (u : ufiles) (d : D) : list bytes :=
    let body := encU u ++ encD d in write_calls (sha k) (sha body) body.

  (* ---- histories with crash points and both kinds of FS.open --------------------------------------------- *)
  Record event2 := mkEv2 { e2cfg : cfg R; e2env : env; e2sem : fsem; e2crash : option cpoint }.

  (* result None: the process died *)
  Definition step2 (fl : file) (ev : event2) : option (option P) * file :=
    match lookup R sha D P decU decD load fl (e2cfg ev) (e2env ev) with
    | Hit p => (Some (Some p), fl)                 (* nothing is written on a hit *)
    | Miss =>
        match build (e2cfg ev) (e2env ev) with
        | None => (Some None, fl)                  (* the grammar does not build: the exception propagates *)
        | Some b =>
            let calls := wcalls (key R (e2cfg ev)) (bused D P b) (bdata D P b) in
            match e2crash ev with
            | None => (Some (Some (bparser D P b)), done_file (e2sem ev) fl calls)
            | Some cp => (None, crash_file (e2sem ev) fl calls cp)
            end
        end
    end.

  Fixpoint run2 (fl : file) (h : list event2) : list (option (option P)) * file :=
    match h with
    | [] => ([], fl)
    | ev :: r => let (o, fl') := step2 fl ev in
                 let (os, fl'') := run2 fl' r in (o :: os, fl'')
    end.
End Model.
