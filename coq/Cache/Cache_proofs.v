(* C12 - theorems about the cache protocol model Cache/Cache.v.

   Idealisations, stated as Section hypotheses (see DESIGN section 3):
     sha_prefix    no digest is a prefix of another digest's continuation: sha a ++ r = sha b ++ r' -> a = b.
                   This is "sha256 has no collisions" (the collision-free idealisation of a cryptographic hash)
                   together with "all digests have one length", in the only form that is satisfiable by a
                   function on all byte strings (an injective function into strings of ONE length cannot
                   exist, so stating the two separately would make every theorem vacuous; see the instance in
                   Props/C12.v).  sha_no_nl: a hex digest contains no newline
     decU_encU / decD_encD / encU_nonempty   pickle is a self-delimiting codec with non-empty output
   The hypotheses on the rest of lark, each one forced by the proof of history_inv (and each refuted on the
   implementation by a keyed exotic stream of harness/props/C12.py):
     okenv               the class of file-system states in which every import resolves to the path it resolved
                         to when the cache was written (a predicate on environments; histories stay inside it)
     resolution_stable   inside that class: if every file recorded by the cached construction still verifies,
                         constructing now gives the same result (outside the class it fails on the code:
                         F11 import-path shadowing, F16 source_path, a deleted import - verify_used_files skips
                         paths it cannot read)
     build_verifies      the used-files table written verifies against the files it was computed from
     runtime_reapplied   data built under one value of the unhashed options and loaded under another behaves
                         as if built under the latter (C11 round trip; fails for edit_terminals and
                         postlex.always_accept: F15) *)
From Coq Require Import String List Ascii Bool Arith Lia.
From LV Require Import Cache.Bytes Cache.PyRepr Gen.CacheKey Cache.Cache Cache.PyRepr_proofs.
Import ListNotations.

(* ---- lists of bytes ------------------------------------------------------------------------- *)
Lemma app_inv_len {A} (a a' x x' : list A) :
  length a = length a' -> a ++ x = a' ++ x' -> a = a' /\ x = x'.
Proof.
  revert a'. induction a as [|h a IH]; intros [|h' a'] L H; cbn in *; try discriminate; auto.
  inversion H; subst. destruct (IH a') as [-> ->]; auto.
Qed.

Lemma firstn_In {A} n (l : list A) x : In x (firstn n l) -> In x l.
Proof.
  revert l. induction n; intros [|y l]; cbn; try tauto. intros [->|H]; auto.
Qed.

Lemma split_line_nonl l : ~ In nl l -> split_line l = (l, []).
Proof.
  induction l as [|c l IH]; cbn; [reflexivity|]. intros H.
  destruct (Ascii.eqb c nl) eqn:E. { apply Ascii.eqb_eq in E. subst. tauto. }
  rewrite IH by tauto. reflexivity.
Qed.

Lemma split_line_app l b : ~ In nl l -> split_line (l ++ nl :: b) = (l, b).
Proof.
  induction l as [|c l IH]; cbn; intros H.
  - reflexivity.
  - destruct (Ascii.eqb c nl) eqn:E. { apply Ascii.eqb_eq in E. subst. tauto. }
    rewrite IH by tauto. reflexivity.
Qed.

Lemma split_line_pre x y :
  ~ In nl x -> split_line (x ++ y) = (x ++ fst (split_line y), snd (split_line y)).
Proof.
  induction x as [|c x IH]; cbn; intros H.
  - now destruct (split_line y).
  - destruct (Ascii.eqb c nl) eqn:E. { apply Ascii.eqb_eq in E. subst. tauto. }
    rewrite IH by tauto. reflexivity.
Qed.

(* the line returned by split_line never contains a newline and is a prefix of the file *)
Lemma split_line_spec f : let (l, b) := split_line f in
  ~ In nl l /\ (f = l /\ b = [] \/ f = l ++ nl :: b).
Proof.
  induction f as [|c f IH]; cbn. { auto. }
  destruct (Ascii.eqb c nl) eqn:E.
  - apply Ascii.eqb_eq in E. subst. split; auto.
  - destruct (split_line f) as [l b]. destruct IH as [N IH]. apply Ascii.eqb_neq in E. split.
    + cbn. intros [H|H]; auto.
    + destruct IH as [[-> ->] | ->]; auto.
Qed.

Lemma set_byte_length i b f : length (set_byte i b f) = length f.
Proof. revert i. induction f; intros [|i]; cbn; auto. Qed.

Lemma set_byte_app_l i b x y : i < length x -> set_byte i b (x ++ y) = set_byte i b x ++ y.
Proof.
  revert i. induction x as [|c x IH]; intros [|i] H; cbn in *; try lia; auto.
  rewrite IH by lia. reflexivity.
Qed.

Lemma set_byte_app_r i b x y : set_byte (length x + i) b (x ++ y) = x ++ set_byte i b y.
Proof. induction x; cbn; auto. now rewrite IHx. Qed.

Lemma set_byte_neq i b f d : i < length f -> b <> nth i f d -> set_byte i b f <> f.
Proof.
  revert i. induction f as [|c f IH]; intros [|i] L N; cbn in *; try lia.
  - intros H. inversion H. congruence.
  - intros H. inversion H. eapply IH; eauto. lia.
Qed.

Lemma set_byte_In i b f x : In x (set_byte i b f) -> x = b \/ In x f.
Proof.
  revert i. induction f as [|c f IH]; intros [|i]; cbn; try tauto.
  - intros [<-|H]; auto.
  - intros [<-|H]; auto. apply IH in H. tauto.
Qed.

Lemma set_byte_firstn i b f : firstn i (set_byte i b f) = firstn i f.
Proof. revert i. induction f; intros [|i]; cbn; auto. now rewrite IHf. Qed.

Lemma set_byte_split i b f : i < length f -> set_byte i b f = firstn i f ++ b :: skipn (S i) f.
Proof.
  revert i. induction f as [|c f IH]; intros [|i] L; cbn in *; try lia; auto.
  rewrite IH by lia. reflexivity.
Qed.

Section Proofs.
  Variable R : Type.
  Variable sha : bytes -> bytes.
  Variables D P : Type.
  Variable encU : ufiles -> bytes.
  Variable decU : bytes -> option (ufiles * bytes).
  Variable encD : D -> bytes.
  Variable decD : bytes -> option (D * bytes).
  Variable build : cfg R -> env -> option (built D P).
  Variable load : D -> cfg R -> option P.

  (* idealisations of sha256 and pickle *)
  Hypothesis sha_prefix : forall a b r r', sha a ++ r = sha b ++ r' -> a = b.
  Hypothesis sha_no_nl : forall a, ~ In nl (sha a).
  Hypothesis decU_encU : forall u r, decU (encU u ++ r) = Some (u, r).
  Hypothesis decD_encD : forall d r, decD (encD d ++ r) = Some (d, r).
  Hypothesis encU_nonempty : forall u, encU u <> [].

  Notation read := (read R sha D P decU decD load).
  Notation write := (write sha D encU encD).
  Notation verify := (verify sha).
  Notation lookup := (lookup R sha D P decU decD load).
  Notation construct := (construct R sha D P encU decU encD decD build load).
  Notation step := (step R sha D P encU decU encD decD build load).
  Notation run := (run R sha D P encU decU encD decD build load).
  Notation header := (header sha).
  Notation mk_file := (mk_file sha).
  Notation key := (key R).

  (* ---- the header -------------------------------------------------------------------------- *)
  Lemma header_no_nl k b : ~ In nl (header k b).
  Proof.
    unfold header. intros H. apply in_app_or in H as [H | [H | H]].
    - now apply sha_no_nl in H.
    - discriminate.
    - now apply sha_no_nl in H.
  Qed.

  Lemma sha_inj a b : sha a = sha b -> a = b.
  Proof. intros H. apply (sha_prefix a b [] []). now rewrite H. Qed.

  (* a header followed by anything determines the key and the body that were hashed *)
  Lemma header_prefix k b k' b' r r' : header k b ++ r = header k' b' ++ r' -> k = k' /\ b = b'.
  Proof.
    unfold header. rewrite <- !app_assoc. cbn [app]. intros H.
    pose proof (sha_prefix _ _ _ _ H) as ->. apply app_inv_head in H. inversion H as [H1].
    split; [reflexivity|]. exact (sha_prefix _ _ _ _ H1).
  Qed.

  Lemma header_inj k b k' b' : header k b = header k' b' -> k = k' /\ b = b'.
  Proof. intros H. apply (header_prefix k b k' b' [] []). now rewrite H. Qed.

  Lemma split_mk_file k b : split_line (mk_file k b) = (header k b, b).
  Proof. unfold Cache.mk_file. apply split_line_app, header_no_nl. Qed.

  (* ---- what a Hit means --------------------------------------------------------------------- *)
  Lemma read_hit_inv f c e p :
    read f c e = Hit p ->
    exists u rest d rest',
      fst (split_line f) = header (key c) (snd (split_line f)) /\
      decU (snd (split_line f)) = Some (u, rest) /\ verify e u = true /\
      decD rest = Some (d, rest') /\ load d c = Some p.
  Proof.
    unfold Cache.read. destruct (split_line f) as [line body]. unfold header_ok. cbn [fst snd].
    destruct (beqb line _) eqn:Eh; [|discriminate]. apply beqb_eq in Eh.
    destruct (decU body) as [[u rest]|] eqn:Eu; [|discriminate].
    destruct (Cache.verify sha e u) eqn:Ev; [|discriminate].
    destruct (decD rest) as [[d rest']|] eqn:Ed; [|discriminate].
    destruct (load d c) as [p'|] eqn:El; [|discriminate].
    intros H. inversion H; subst. exists u, rest, d, rest'. repeat split; auto.
  Qed.

  (* a file that is loaded is, byte for byte, header-of-its-own-body, newline, body *)
  Lemma hit_is_exact f c e p :
    In nl f -> read f c e = Hit p -> f = mk_file (key c) (snd (split_line f)).
  Proof.
    intros Hnl H. apply read_hit_inv in H as (u & rest & d & rest' & Hh & _).
    pose proof (split_line_spec f) as S. destruct (split_line f) as [l b]. cbn [fst snd] in *.
    destruct S as [N [[-> ->] | ->]]; [contradiction|]. unfold Cache.mk_file. now rewrite Hh.
  Qed.

  (* ---- reading back what was written ---------------------------------------------------------- *)
  Lemma read_write k u d c e :
    read (write k u d) c e =
    if beqb (header k (encU u ++ encD d)) (header (key c) (encU u ++ encD d)) then
      if verify e u then match load d c with Some p => Hit p | None => Miss end else Miss
    else Miss.
  Proof.
    unfold Cache.read, Cache.write. rewrite split_mk_file. unfold header_ok.
    destruct (beqb _ _); [|reflexivity].
    rewrite decU_encU. destruct (Cache.verify sha e u); [|reflexivity].
    rewrite <- (app_nil_r (encD d)), decD_encD. reflexivity.
  Qed.

  Lemma read_write_hit k u d c e p :
    key c = k -> verify e u = true -> load d c = Some p -> read (write k u d) c e = Hit p.
  Proof. intros <- V L. rewrite read_write, beqb_refl, V, L. reflexivity. Qed.

  (* ---- truncation ----------------------------------------------------------------------------- *)
  (* every strict prefix of a complete cache file is a Miss, for every reader *)
  Theorem trunc_safe k u d n c e :
    n < length (write k u d) -> read (firstn n (write k u d)) c e = Miss.
  Proof.
    unfold Cache.write, Cache.mk_file. set (Bd := encU u ++ encD d). set (H := header k Bd).
    assert (NE : Bd <> []).
    { unfold Bd. intros E. apply app_eq_nil in E as [E _]. now apply encU_nonempty in E. }
    intros L. rewrite app_length in L. cbn [length] in L.
    unfold Cache.read. rewrite firstn_app.
    destruct (Nat.le_gt_cases n (length H)) as [Le | Gt].
    - replace (n - length H) with 0 by lia. cbn [firstn]. rewrite app_nil_r.
      rewrite split_line_nonl by (intros X; apply firstn_In in X; now apply header_no_nl in X).
      unfold header_ok. destruct (beqb _ _) eqn:E; [|reflexivity]. exfalso.
      apply beqb_eq in E.
      assert (X : header (key c) [] ++ skipn n H = header k Bd ++ [])
        by (rewrite <- E, app_nil_r; apply firstn_skipn).
      apply header_prefix in X as [_ X]. auto.
    - rewrite firstn_all2 by lia. destruct (n - length H) as [|m] eqn:En; [lia|]. cbn [firstn].
      rewrite split_line_app by apply header_no_nl.
      unfold header_ok. destruct (beqb _ _) eqn:E; [|reflexivity]. exfalso.
      apply beqb_eq in E. apply header_inj in E as [_ E].
      apply (f_equal (@length _)) in E. rewrite firstn_length in E. lia.
  Qed.

  (* ---- a file written for another key ---------------------------------------------------------- *)
  Theorem key_mismatch_miss k u d c e : key c <> k -> read (write k u d) c e = Miss.
  Proof.
    intros N. rewrite read_write. destruct (beqb _ _) eqn:E; [|reflexivity].
    apply beqb_eq, header_inj in E as [E _]. congruence.
  Qed.

  (* the key separates configurations: another grammar, another hashed option list, another lark version
     or another interpreter version is a Miss *)
  Definition hashed (c : cfg R) :=
    (grammar R c, options_items (options R c), version R c, pyver R c).

  Theorem key_injective c c' : key c = key c' -> hashed c = hashed c'.
  Proof.
    unfold Cache.key, hashed. intros H. apply key_frame_injective in H as (-> & -> & -> & ->). reflexivity.
  Qed.

  Theorem stale_config_miss c0 u d c e : hashed c <> hashed c0 -> read (write (key c0) u d) c e = Miss.
  Proof. intros N. apply key_mismatch_miss. intros E. now apply key_injective in E. Qed.

  (* ---- an imported file changed ------------------------------------------------------------------ *)
  Theorem used_files_changed_miss k u d c e p h t :
    In (p, h) u -> e p = Some t -> sha t <> h -> read (write k u d) c e = Miss.
  Proof.
    intros I E N. rewrite read_write. destruct (beqb _ _); [|reflexivity].
    assert (V : verify e u = false).
    { destruct (Cache.verify sha e u) eqn:V; [|reflexivity]. exfalso. unfold Cache.verify in V.
      rewrite forallb_forall in V. specialize (V _ I). cbn in V. rewrite E in V. apply beqb_eq in V. auto. }
    rewrite V. reflexivity.
  Qed.

  Corollary import_edited_miss k u d c e p t0 t :
    In (p, sha t0) u -> e p = Some t -> t <> t0 -> read (write k u d) c e = Miss.
  Proof. intros I E N. eapply used_files_changed_miss; [exact I | exact E | intros X; now apply sha_inj in X]. Qed.

  (* ---- integrity of the bytes after the header (F4 repaired) -------------------------------------- *)
  (* If the first line of a file is the header that was written for (k, body) and the file is loaded, then the
     file is exactly the file that was written. *)
  Theorem body_integrity k Bd f c e p :
    In nl f -> fst (split_line f) = header k Bd -> read f c e = Hit p -> f = mk_file k Bd.
  Proof.
    intros Hnl Hl H. pose proof (hit_is_exact _ _ _ _ Hnl H) as X.
    apply read_hit_inv in H as (_ & _ & _ & _ & Hh & _).
    rewrite Hl in Hh. apply header_inj in Hh as [-> ->]. exact X.
  Qed.

  (* Any single-byte change of a complete cache file is a Miss for the configuration it was written for;
     a change after the header is a Miss for every configuration. *)
  Theorem byte_edit_miss k u d i b c e :
    i < length (write k u d) -> b <> nth i (write k u d) b ->
    (key c = k \/ length (header k (encU u ++ encD d)) <= i) ->
    read (set_byte i b (write k u d)) c e = Miss.
  Proof.
    unfold Cache.write, Cache.mk_file. set (Bd := encU u ++ encD d). set (H := header k Bd).
    intros L N K.
    destruct (read _ c e) as [p|] eqn:E; [exfalso|reflexivity].
    destruct (Nat.lt_ge_cases i (length H)) as [Lt | Ge].
    - (* inside the header *)
      destruct K as [K | K]; [|lia].
      rewrite set_byte_app_l in E by assumption.
      destruct (ascii_dec b nl) as [-> | Nb].
      + (* a newline written into the header: what is left of the first line is no header *)
        rewrite set_byte_split in E by assumption. rewrite <- app_assoc in E. cbn [app] in E.
        apply read_hit_inv in E as (_ & _ & _ & _ & Hh & _).
        rewrite split_line_app in Hh
          by (intros X; apply firstn_In in X; now apply header_no_nl in X).
        cbn [fst snd] in Hh.
        assert (X : header (key c) (skipn (S i) H ++ nl :: Bd) ++ skipn i H = header k Bd ++ [])
          by (rewrite <- Hh, app_nil_r; apply firstn_skipn).
        apply header_prefix in X as [_ X].
        apply (f_equal (@length _)) in X. rewrite app_length in X. cbn [length] in X. lia.
      + apply read_hit_inv in E as (_ & _ & _ & _ & Hh & _).
        rewrite split_line_app in Hh.
        * cbn [fst snd] in Hh. rewrite K in Hh. fold H in Hh.
          eapply set_byte_neq; [exact Lt | | exact Hh].
          intros X. apply N. rewrite app_nth1 by assumption. exact X.
        * intros X. apply set_byte_In in X as [X | X]; [congruence | now apply header_no_nl in X].
    - replace i with (length H + (i - length H)) in E by lia.
      rewrite set_byte_app_r in E.
      destruct (i - length H) as [|m] eqn:Em.
      + (* the newline itself is overwritten: the first line runs on into the body *)
        cbn [set_byte] in E.
        assert (Nb : b <> nl).
        { intros ->. apply N. rewrite app_nth2 by lia. replace (i - length H) with 0 by lia. reflexivity. }
        apply read_hit_inv in E as (_ & _ & _ & _ & Hh & _).
        rewrite split_line_pre in Hh by apply header_no_nl.
        cbn [split_line] in Hh. rewrite (proj2 (Ascii.eqb_neq _ _) Nb) in Hh.
        destruct (split_line Bd) as [l0 b0]. cbn [fst snd] in Hh. unfold H in Hh.
        rewrite <- (app_nil_r (header (key c) b0)) in Hh. pose proof Hh as Hh'.
        apply header_prefix in Hh' as [-> ->]. apply app_inv_head in Hh. discriminate.
      + (* inside the body: the digest in the header no longer matches *)
        cbn [set_byte] in E.
        apply read_hit_inv in E as (_ & _ & _ & _ & Hh & _).
        rewrite split_line_app in Hh by apply header_no_nl. cbn [fst snd] in Hh.
        apply header_inj in Hh as [_ Hh].
        assert (Lm : m < length Bd).
        { rewrite app_length in L. cbn [length] in L. lia. }
        eapply set_byte_neq; [exact Lm | | symmetry; exact Hh].
        intros X. apply N. rewrite app_nth2 by lia. rewrite Em. cbn [nth]. exact X.
  Qed.

  (* ---- histories ------------------------------------------------------------------------------------ *)
  Variable okenv : env -> Prop.
  Hypothesis resolution_stable : forall c e0 b e, okenv e0 -> okenv e ->
    build c e0 = Some b -> verify e (bused D P b) = true -> build c e = Some b.
  Hypothesis build_verifies : forall c e b, okenv e -> build c e = Some b -> verify e (bused D P b) = true.
  Hypothesis runtime_reapplied : forall c0 c e b0,
    build c0 e = Some b0 -> hashed c0 = hashed c ->
    exists b, build c e = Some b /\ load (bdata D P b0) c = Some (bparser D P b).

  Definition uncached (c : cfg R) (e : env) : option P := option_map (bparser D P) (build c e).

  (* the file is the complete image of some successful construction *)
  Definition complete_file (f : bytes) : Prop :=
    exists c0 e0 b0, okenv e0 /\ build c0 e0 = Some b0 /\ f = write (key c0) (bused D P b0) (bdata D P b0).

  (* invariant of the path: no file, or a prefix (a crash) of a complete file for some key *)
  Definition Inv (fl : file) : Prop :=
    fl = None \/ exists f n, complete_file f /\ fl = Some (firstn n f).

  (* the file is a valid cache for (c, e): the same construction again would be served from it, correctly *)
  Definition valid_for (c : cfg R) (e : env) (fl : file) : Prop :=
    exists f p, fl = Some f /\ complete_file f /\ read f c e = Hit p /\ uncached c e = Some p.

  Lemma firstn_complete n (f : bytes) : firstn n f = f \/ n < length f.
  Proof. destruct (Nat.le_gt_cases (length f) n); [left; now apply firstn_all2 | right; assumption]. Qed.

  (* a hit under the invariant returns what the uncached construction returns *)
  Lemma lookup_hit_sound fl c e p :
    okenv e -> Inv fl -> lookup fl c e = Hit p -> uncached c e = Some p /\ valid_for c e fl.
  Proof.
    intros Oe [-> | (f & n & Cf & ->)]; cbn [Cache.lookup]; [discriminate|].
    intros H. destruct Cf as (c0 & e0 & b0 & Oe0 & Hb & ->).
    destruct (firstn_complete n (write (key c0) (bused D P b0) (bdata D P b0))) as [E | Lt];
      [|rewrite trunc_safe in H by assumption; discriminate].
    rewrite E in *. pose proof H as H0. rewrite read_write in H.
    destruct (beqb _ _) eqn:Eh; [|discriminate]. apply beqb_eq, header_inj in Eh as [Ek _].
    destruct (Cache.verify sha e _) eqn:V; [|discriminate].
    destruct (load _ c) as [p'|] eqn:El; [|discriminate]. inversion H; subst p'.
    pose proof (resolution_stable _ _ _ _ Oe0 Oe Hb V) as Hb'.
    destruct (runtime_reapplied c0 c e b0 Hb' (key_injective _ _ Ek)) as (b & Hbc & Hl).
    assert (U : uncached c e = Some p).
    { unfold uncached. rewrite Hbc. cbn. congruence. }
    split; [exact U|]. exists (write (key c0) (bused D P b0) (bdata D P b0)), p.
    repeat split; auto. exists c0, e0, b0. auto.
  Qed.

  (* what is written after a miss is a valid cache for the present construction *)
  Lemma written_valid c e b :
    okenv e -> build c e = Some b -> valid_for c e (Some (write (key c) (bused D P b) (bdata D P b))).
  Proof.
    intros Oe Hb. destruct (runtime_reapplied c c e b Hb eq_refl) as (b' & Hb' & Hl).
    assert (b' = b) by congruence. subst b'.
    exists (write (key c) (bused D P b) (bdata D P b)), (bparser D P b). repeat split.
    - exists c, e, b. auto.
    - apply read_write_hit; auto. eapply build_verifies; eauto.
    - unfold uncached. now rewrite Hb.
  Qed.

  Lemma valid_Inv c e fl : valid_for c e fl -> Inv fl.
  Proof.
    intros (f & p & -> & Cf & _). right. exists f, (length f). split; auto. now rewrite firstn_all.
  Qed.

  (* one construction without a crash: the result is the uncached result; if the grammar builds, the file
     left is a valid cache for this construction (a damaged or stale file has been replaced) *)
  Theorem construct_spec fl c e :
    okenv e -> Inv fl ->
    fst (construct fl c e) = uncached c e /\
    Inv (snd (construct fl c e)) /\
    (uncached c e <> None -> valid_for c e (snd (construct fl c e))).
  Proof.
    intros Oe I. unfold Cache.construct. fold (lookup fl c e).
    destruct (lookup fl c e) as [p|] eqn:El.
    - destruct (lookup_hit_sound _ _ _ _ Oe I El) as [U V]. cbn [fst snd]. auto.
    - unfold uncached. destruct (build c e) as [b|] eqn:Hb; cbn [fst snd option_map].
      + pose proof (written_valid _ _ _ Oe Hb) as V. split; [reflexivity|]. split; [|auto].
        eapply valid_Inv; eauto.
      + split; [reflexivity|]. split; [assumption|congruence].
  Qed.

  (* one event, possibly a crash *)
  Definition event_ok (fl : file) (ev : event R) (o : option (option P)) (fl' : file) : Prop :=
    Inv fl' /\
    match crash R ev with
    | None => o = Some (uncached (ecfg R ev) (eenv R ev)) /\
              (uncached (ecfg R ev) (eenv R ev) <> None -> valid_for (ecfg R ev) (eenv R ev) fl')
    | Some _ => o = None \/ o = Some (uncached (ecfg R ev) (eenv R ev))
    end.

  Lemma step_spec fl ev :
    okenv (eenv R ev) -> Inv fl -> event_ok fl ev (fst (step fl ev)) (snd (step fl ev)).
  Proof.
    intros Oe I. unfold Cache.step, event_ok. destruct (crash R ev) as [n|].
    - fold (lookup fl (ecfg R ev) (eenv R ev)).
      destruct (lookup fl (ecfg R ev) (eenv R ev)) as [p|] eqn:El.
      + destruct (lookup_hit_sound _ _ _ _ Oe I El) as [U V]. cbn [fst snd]. split; [assumption|].
        right. now rewrite U.
      + unfold uncached. destruct (build _ _) as [b|] eqn:Hb; cbn [fst snd].
        * split; [|auto]. right. eexists _, n. split; [|reflexivity]. eexists _, _, b. eauto.
        * split; [assumption|]. right. reflexivity.
    - pose proof (construct_spec fl (ecfg R ev) (eenv R ev) Oe I) as (A & B & C).
      destruct (construct fl (ecfg R ev) (eenv R ev)) as [p fl'] eqn:Ec. cbn [fst snd] in *.
      subst p. auto.
  Qed.

  (* every history of constructions and crashes on one path *)
  Theorem history_inv h : Forall (fun ev => okenv (eenv R ev)) h -> forall fl, Inv fl ->
    Inv (snd (run fl h)) /\
    forall h1 ev h2, h = h1 ++ ev :: h2 ->
      let fl1 := snd (run fl h1) in
      Inv fl1 /\ event_ok fl1 ev (fst (step fl1 ev)) (snd (step fl1 ev)).
  Proof.
    induction h as [|ev h IH]; intros F fl I.
    - split; [exact I|]. intros [|? ?] ? ? ?; discriminate.
    - inversion F as [|? ? Oe F']; subst.
      cbn [Cache.run]. pose proof (step_spec fl ev Oe I) as S.
      destruct (step fl ev) as [o fl'] eqn:Es. cbn [fst snd] in S.
      destruct (IH F' fl' (proj1 S)) as [I' Hrest].
      destruct (run fl' h) as [os fl''] eqn:Er. cbn [snd] in *. split; [exact I'|].
      intros [|ev1 h1] ev2 h2 E; cbn in E; inversion E; subst.
      + cbn [Cache.run snd]. split; [exact I|]. rewrite Es. exact S.
      + cbn [Cache.run]. rewrite Es. specialize (Hrest h1 ev2 h2 eq_refl).
        destruct (run fl' h1) as [os1 fl1]. exact Hrest.
  Qed.
End Proofs.

(* ---- the hypotheses, bundled (for the statements in Props/C12.v) -------------------------------------- *)
Record ideal_oracles (sha : bytes -> bytes) (D : Type)
       (encU : ufiles -> bytes) (decU : bytes -> option (ufiles * bytes))
       (encD : D -> bytes) (decD : bytes -> option (D * bytes)) : Prop := {
  io_sha_prefix : forall a b r r', sha a ++ r = sha b ++ r' -> a = b;
  io_sha_no_nl : forall a, ~ In nl (sha a);
  io_decU_encU : forall u r, decU (encU u ++ r) = Some (u, r);
  io_decD_encD : forall d r, decD (encD d ++ r) = Some (d, r);
  io_encU_nonempty : forall u, encU u <> [] }.

Record rest_of_lark (R : Type) (sha : bytes -> bytes) (D P : Type)
       (build : cfg R -> env -> option (built D P)) (load : D -> cfg R -> option P)
       (okenv : env -> Prop) : Prop := {
  rl_resolution_stable : forall c e0 b e, okenv e0 -> okenv e ->
    build c e0 = Some b -> verify sha e (bused D P b) = true -> build c e = Some b;
  rl_build_verifies : forall c e b, okenv e -> build c e = Some b -> verify sha e (bused D P b) = true;
  rl_runtime_reapplied : forall c0 c e b0,
    build c0 e = Some b0 -> hashed R c0 = hashed R c ->
    exists b, build c e = Some b /\ load (bdata D P b0) c = Some (bparser D P b) }.

Section Bundled.
  Variable R : Type.
  Variable sha : bytes -> bytes.
  Variables D P : Type.
  Variable encU : ufiles -> bytes.
  Variable decU : bytes -> option (ufiles * bytes).
  Variable encD : D -> bytes.
  Variable decD : bytes -> option (D * bytes).
  Variable build : cfg R -> env -> option (built D P).
  Variable load : D -> cfg R -> option P.
  Variable okenv : env -> Prop.
  Hypothesis IO : ideal_oracles sha D encU decU encD decD.

  Notation read := (read R sha D P decU decD load).
  Notation write := (write sha D encU encD).

  Lemma trunc_safe_b k u d n c e :
    n < length (write k u d) -> read (firstn n (write k u d)) c e = Miss.
  Proof. destruct IO. eapply trunc_safe; eauto. Qed.

  Lemma key_mismatch_miss_b k u d c e : key R c <> k -> read (write k u d) c e = Miss.
  Proof. destruct IO. eapply key_mismatch_miss; eauto. Qed.

  Lemma stale_config_miss_b c0 u d c e :
    hashed R c <> hashed R c0 -> read (write (key R c0) u d) c e = Miss.
  Proof. destruct IO. eapply stale_config_miss; eauto. Qed.

  Lemma used_files_changed_miss_b k u d c e p t0 t :
    In (p, sha t0) u -> e p = Some t -> t <> t0 -> read (write k u d) c e = Miss.
  Proof. destruct IO. eapply import_edited_miss; eauto. Qed.

  Lemma body_integrity_b k Bd f c e p :
    In nl f -> fst (split_line f) = header sha k Bd -> read f c e = Hit p -> f = mk_file sha k Bd.
  Proof. destruct IO. eapply body_integrity; eauto. Qed.

  Lemma byte_edit_miss_b k u d i b c e :
    i < length (write k u d) -> b <> nth i (write k u d) b ->
    (key R c = k \/ length (header sha k (encU u ++ encD d)) <= i) ->
    read (set_byte i b (write k u d)) c e = Miss.
  Proof. destruct IO. eapply byte_edit_miss; eauto. Qed.

  Lemma read_write_hit_b k u d c e p :
    key R c = k -> verify sha e u = true -> load d c = Some p -> read (write k u d) c e = Hit p.
  Proof. destruct IO. eapply read_write_hit; eauto. Qed.

  Hypothesis RL : rest_of_lark R sha D P build load okenv.

  Lemma history_inv_b h : Forall (fun ev => okenv (eenv R ev)) h ->
    forall fl, Inv R sha D P encU encD build okenv fl ->
    Inv R sha D P encU encD build okenv (snd (run R sha D P encU decU encD decD build load fl h)) /\
    forall h1 ev h2, h = h1 ++ ev :: h2 ->
      let fl1 := snd (run R sha D P encU decU encD decD build load fl h1) in
      Inv R sha D P encU encD build okenv fl1 /\
      event_ok R sha D P encU decU encD decD build load okenv fl1 ev
        (fst (step R sha D P encU decU encD decD build load fl1 ev))
        (snd (step R sha D P encU decU encD decD build load fl1 ev)).
  Proof. destruct IO, RL. eapply history_inv; eauto. Qed.

  Lemma construct_spec_b fl c e :
    okenv e -> Inv R sha D P encU encD build okenv fl ->
    fst (construct R sha D P encU decU encD decD build load fl c e) = uncached R D P build c e /\
    Inv R sha D P encU encD build okenv (snd (construct R sha D P encU decU encD decD build load fl c e)) /\
    (uncached R D P build c e <> None ->
     valid_for R sha D P encU decU encD decD build load okenv c e
               (snd (construct R sha D P encU decU encD decD build load fl c e))).
  Proof. destruct IO, RL. eapply construct_spec; eauto. Qed.
End Bundled.

(* ---- the option sets regenerated from the source ---------------------------------------------------- *)
Lemma unhashable_objects : forall n, In n unhashable ->
  In n ["transformer"; "postlex"; "lexer_callbacks"; "edit_terminals"; "_plugins"]%string.
Proof.
  unfold unhashable. intros n H.
  repeat (destruct H as [<- | H]; [cbn; tauto|]). destruct H.
Qed.

Lemma unhashable_not_reapplied : exists n, In n unhashable /\ ~ In n load_allowed.
Proof.
  exists "edit_terminals"%string. split; [cbn; tauto|].
  unfold load_allowed. intros H. repeat (destruct H as [H | H]; [discriminate|]). destruct H.
Qed.
