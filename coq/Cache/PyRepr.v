(* Python's repr() of ASCII str objects, of lists of pairs of str, as used by the cache key
   (lark/lark.py: s = repr((grammar, options_items, __version__, sys.version_info[:2]))).
   Definitions only.  Faithful for code points < 128 (CPython unicode_repr: quote choice, backslash
   escapes, \t \n \r, \xNN for other control characters and DEL); code points >= 128 depend on the
   Unicode database and are outside the model (the harness keeps the byte-level tie on ASCII). *)
From Coq Require Import List Ascii String Bool Arith.
From LV Require Import Cache.Bytes.
Import ListNotations.

Definition squote : ascii := "'"%char.
Definition dquote : ascii := """"%char.
Definition bslash : ascii := "\"%char.
Definition tab : ascii := "009"%char.
Definition cr : ascii := "013"%char.

(* CPython: use double quotes iff the string has a single quote and no double quote *)
Definition quote_of (s : bytes) : ascii :=
  if mem_ascii squote s && negb (mem_ascii dquote s) then dquote else squote.

Definition esc (q c : ascii) : bytes :=
  if Ascii.eqb c q || Ascii.eqb c bslash then [bslash; c]
  else if Ascii.eqb c tab then [bslash; "t"%char]
  else if Ascii.eqb c nl then [bslash; "n"%char]
  else if Ascii.eqb c cr then [bslash; "r"%char]
  else let n := nat_of_ascii c in
       if (n <? 32) || (127 <=? n) then [bslash; "x"%char; hexd (n / 16); hexd (n mod 16)]
       else [c].

Definition body (q : ascii) (s : bytes) : bytes := flat_map (esc q) s.

Definition srepr (s : bytes) : bytes :=
  let q := quote_of s in q :: body q s ++ [q].

(* repr of a 2-tuple of str *)
Definition item (kv : bytes * bytes) : bytes :=
  B "(" ++ srepr (fst kv) ++ B ", " ++ srepr (snd kv) ++ B ")".

(* what follows the first element of a non-empty list repr *)
Fixpoint ltail (l : list (bytes * bytes)) : bytes :=
  match l with
  | [] => B "]"
  | x :: r => B ", " ++ item x ++ ltail r
  end.

(* repr of a list of 2-tuples of str *)
Definition lrepr (l : list (bytes * bytes)) : bytes :=
  match l with
  | [] => B "[]"
  | x :: r => B "[" ++ item x ++ ltail r
  end.

(* decoder of one escaped character (used by the proofs and by the harness' sanity examples) *)
Definition unhex (c : ascii) : nat :=
  let n := nat_of_ascii c in
  if (48 <=? n) && (n <=? 57) then n - 48 else n - 87.

Definition unesc (f : bytes) : option (ascii * bytes) :=
  match f with
  | [] => None
  | c :: r =>
      if Ascii.eqb c bslash then
        match r with
        | [] => None
        | d :: r' =>
            if Ascii.eqb d "x"%char then
              match r' with
              | h1 :: h2 :: r'' => Some (ascii_of_nat (unhex h1 * 16 + unhex h2), r'')
              | _ => None
              end
            else if Ascii.eqb d "t"%char then Some (tab, r')
            else if Ascii.eqb d "n"%char then Some (nl, r')
            else if Ascii.eqb d "r"%char then Some (cr, r')
            else Some (d, r')
        end
      else Some (c, r)
  end.
