(* Python's repr() of str objects, of lists of pairs of str, as used by the cache key
   (lark/lark.py: s = repr((grammar, options_items, __version__, sys.version_info[:2]))).
   Definitions only.

   A Python str is represented by its UTF-8 encoding (errors='surrogatepass': a lone surrogate is the three-byte
   sequence of its code point), so the byte string computed here is exactly s.encode('utf8'), the input of sha256.
   CPython unicode_repr, per code point:
     quote: double quotes iff the string has a single quote and no double quote;
     the quote and the backslash: backslash-escaped;  TAB LF CR: \t \n \r;
     other code points below 32, and 127: \xNN;  other ASCII: verbatim;
     code points >= 128: verbatim if str.isprintable (Gen/Printable.v, regenerated from the running interpreter),
     else \xNN (up to 255), \uNNNN (up to 65535), \UNNNNNNNN; hex digits in lower case.
   A byte >= 128 that does not start a well-formed sequence (no str has such an encoding) is copied, which keeps the
   function injective on all byte strings. *)
From Coq Require Import List Ascii String Bool Arith NArith.
From LV Require Import Cache.Bytes Gen.Printable.
Import ListNotations.

Definition squote : ascii := "'"%char.
Definition dquote : ascii := """"%char.
Definition bslash : ascii := "\"%char.
Definition tab : ascii := "009"%char.
Definition cr : ascii := "013"%char.

(* CPython: use double quotes iff the string has a single quote and no double quote *)
Definition quote_of (s : bytes) : ascii :=
  if mem_ascii squote s && negb (mem_ascii dquote s) then dquote else squote.

Definition esc (q c : ascii) : bytes :=
  if Ascii.eqb c q || Ascii.eqb c bslash then [bslash; c]
  else if Ascii.eqb c tab then [bslash; "t"%char]
  else if Ascii.eqb c nl then [bslash; "n"%char]
  else if Ascii.eqb c cr then [bslash; "r"%char]
  else let n := nat_of_ascii c in
       if (n <? 32) || (127 <=? n) then [bslash; "x"%char; hexd (n / 16); hexd (n mod 16)]
       else [c].

(* ---- code points >= 128: UTF-8 (Unicode Table 3-7, plus surrogates) ------------------------------------ *)
(* a continuation byte 10xxxxxx: its payload and the rest *)
Definition cont (r : bytes) : option (N * bytes) :=
  match r with
  | c :: r' => let n := N_of_ascii c in
               if (128 <=? n)%N && (n <? 192)%N then Some ((n - 128)%N, r') else None
  | [] => None
  end.

(* the code point of the well-formed sequence that starts with the lead byte c and continues in r, and the number
   of continuation bytes; None: c does not start a well-formed sequence (overlong forms and values above 10FFFF
   are ill-formed) *)
Definition utf8_lead (c : ascii) (r : bytes) : option (N * nat) :=
  let n := N_of_ascii c in
  if (194 <=? n)%N && (n <? 224)%N then
    match cont r with
    | Some (x, _) => Some (((n - 192) * 64 + x)%N, 1)
    | None => None
    end
  else if (224 <=? n)%N && (n <? 240)%N then
    match cont r with
    | Some (x, r1) =>
        match cont r1 with
        | Some (y, _) => let cp := ((n - 224) * 4096 + x * 64 + y)%N in
                         if (2048 <=? cp)%N then Some (cp, 2) else None
        | None => None
        end
    | None => None
    end
  else if (240 <=? n)%N && (n <? 245)%N then
    match cont r with
    | Some (x, r1) =>
        match cont r1 with
        | Some (y, r2) =>
            match cont r2 with
            | Some (z, _) => let cp := ((n - 240) * 262144 + x * 4096 + y * 64 + z)%N in
                             if (65536 <=? cp)%N && (cp <=? 1114111)%N then Some (cp, 3) else None
            | None => None
            end
        | None => None
        end
    | None => None
    end
  else None.

(* w lower-case hex digits, most significant first *)
Fixpoint hexw (w : nat) (n : N) : bytes :=
  match w with
  | O => []
  | S w' => hexw w' (n / 16)%N ++ [hexd (N.to_nat (n mod 16)%N)]
  end.

(* escape of a non-printable code point >= 128 (for code points below 256 this is esc: \xNN) *)
Definition uesc (q : ascii) (cp : N) : bytes :=
  if (cp <? 256)%N then esc q (ascii_of_N cp)
  else if (cp <? 65536)%N then bslash :: "u"%char :: hexw 4 cp
  else bslash :: "U"%char :: hexw 8 cp.

(* the units repr() works on *)
Inductive tok :=
| TA (c : ascii)                 (* an ASCII character *)
| TR (c : ascii)                 (* a byte >= 128 that is copied: part of a printable character (or ill-formed) *)
| TN (cp : N) (raw : bytes).     (* a non-printable character >= 128 and its encoding *)

(* skip: continuation bytes of an escaped character still to be dropped *)
Fixpoint toks (skip : nat) (s : bytes) : list tok :=
  match s with
  | [] => []
  | c :: r =>
      match skip with
      | S k => toks k r
      | O => if (N_of_ascii c <? 128)%N then TA c :: toks 0 r
             else match utf8_lead c r with
                  | Some (cp, k) => if printable cp then TR c :: toks 0 r
                                    else TN cp (c :: firstn k r) :: toks k r
                  | None => TR c :: toks 0 r
                  end
      end
  end.

Definition etok (q : ascii) (t : tok) : bytes :=
  match t with
  | TA c => esc q c
  | TR c => [c]
  | TN cp _ => uesc q cp
  end.

Definition raw_of (t : tok) : bytes :=
  match t with TA c => [c] | TR c => [c] | TN _ raw => raw end.

Definition body (q : ascii) (s : bytes) : bytes := flat_map (etok q) (toks 0 s).

Definition srepr (s : bytes) : bytes :=
  let q := quote_of s in q :: body q s ++ [q].

(* repr of a 2-tuple of str *)
Definition item (kv : bytes * bytes) : bytes :=
  B "(" ++ srepr (fst kv) ++ B ", " ++ srepr (snd kv) ++ B ")".

(* what follows the first element of a non-empty list repr *)
Fixpoint ltail (l : list (bytes * bytes)) : bytes :=
  match l with
  | [] => B "]"
  | x :: r => B ", " ++ item x ++ ltail r
  end.

(* repr of a list of 2-tuples of str *)
Definition lrepr (l : list (bytes * bytes)) : bytes :=
  match l with
  | [] => B "[]"
  | x :: r => B "[" ++ item x ++ ltail r
  end.

(* decoder of one escaped character (used by the proofs and by the harness' sanity examples) *)
Definition unhex (c : ascii) : nat :=
  let n := nat_of_ascii c in
  if (48 <=? n) && (n <=? 57) then n - 48 else n - 87.

Definition unesc (f : bytes) : option (ascii * bytes) :=
  match f with
  | [] => None
  | c :: r =>
      if Ascii.eqb c bslash then
        match r with
        | [] => None
        | d :: r' =>
            if Ascii.eqb d "x"%char then
              match r' with
              | h1 :: h2 :: r'' => Some (ascii_of_nat (unhex h1 * 16 + unhex h2), r'')
              | _ => None
              end
            else if Ascii.eqb d "t"%char then Some (tab, r')
            else if Ascii.eqb d "n"%char then Some (nl, r')
            else if Ascii.eqb d "r"%char then Some (cr, r')
            else Some (d, r')
        end
      else Some (c, r)
  end.
