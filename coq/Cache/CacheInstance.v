(* A concrete instance of every oracle of Cache/Cache.v that satisfies all hypotheses of Cache_proofs.v:
   shows that the hypotheses are jointly satisfiable (the theorems are not vacuous) by a system in which the
   grammar really imports a file, the result really depends on a run-time option, and hits and misses occur.
     digest   t_sha x   = 8 characters '0'/'1' per byte, then '.'   (a prefix code without newline)
     pickle   unary length prefix, then the payload                  (self-delimiting, never empty)
     build    reads the file "imp"; used = [("imp", sha text)]; data = grammar ++ text;
              parser = (run-time option of this call, data);  load d c = (run-time option of c, d)
     okenv    the file "imp" can be read *)
From Coq Require Import String List Ascii Bool Arith Lia.
From LV Require Import Cache.Bytes Cache.PyRepr Gen.CacheKey Cache.Cache Cache.PyRepr_proofs Cache.Cache_proofs.
Import ListNotations.

(* ---- digest --------------------------------------------------------------------------------- *)
Definition bit (b : bool) : ascii := if b then "1"%char else "0"%char.
Definition bits (c : ascii) : bytes :=
  match c with Ascii b0 b1 b2 b3 b4 b5 b6 b7 => [bit b0; bit b1; bit b2; bit b3; bit b4; bit b5; bit b6; bit b7] end.
Definition t_sha (x : bytes) : bytes := flat_map bits x ++ ["."%char].

Lemma bit_inj a b : bit a = bit b -> a = b.
Proof. destruct a, b; cbn; congruence. Qed.

Lemma bits_prefix c c' r r' : bits c ++ r = bits c' ++ r' -> c = c' /\ r = r'.
Proof.
  destruct c, c'; cbn. intros H. inversion H.
  repeat match goal with H : bit _ = bit _ |- _ => apply bit_inj in H; subst end. auto.
Qed.

Lemma bits_head c r : exists b t, bits c ++ r = bit b :: t.
Proof. destruct c; cbn; eauto. Qed.

Lemma t_sha_prefix a : forall b r r', t_sha a ++ r = t_sha b ++ r' -> a = b.
Proof.
  unfold t_sha. induction a as [|c a IH]; intros [|c' b] r r'; cbn; rewrite <- ?app_assoc; intros H.
  - reflexivity.
  - exfalso. destruct (bits_head c' (flat_map bits b ++ ["."%char] ++ r')) as (x & t & E).
    rewrite E in H. destruct x; discriminate.
  - exfalso. destruct (bits_head c (flat_map bits a ++ ["."%char] ++ r)) as (x & t & E).
    rewrite E in H. destruct x; discriminate.
  - apply bits_prefix in H as [-> H]. f_equal. eapply IH. rewrite <- !app_assoc. exact H.
Qed.

Lemma t_sha_no_nl a : ~ In nl (t_sha a).
Proof.
  unfold t_sha. intros H. apply in_app_or in H as [H | [H | []]]; [|discriminate].
  apply in_flat_map in H as (c & _ & H). destruct c as [b0 b1 b2 b3 b4 b5 b6 b7]. cbn [bits In] in H.
  repeat (destruct H as [H | H]; [match type of H with bit ?b = _ => destruct b; discriminate end|]). exact H.
Qed.

(* ---- pickle ----------------------------------------------------------------------------------- *)
Definition one : ascii := "1"%char.
Definition zero : ascii := "0"%char.

Fixpoint cnt (f : bytes) : nat * bytes :=
  match f with
  | c :: r => if Ascii.eqb c one then let (n, r') := cnt r in (S n, r') else (0, f)
  | [] => (0, [])
  end.

Definition enc_b (x : bytes) : bytes := repeat one (length x) ++ zero :: x.
Definition dec_b (f : bytes) : option (bytes * bytes) :=
  let (n, r) := cnt f in
  match r with
  | c :: y => if Ascii.eqb c zero && (n <=? length y) then Some (firstn n y, skipn n y) else None
  | [] => None
  end.

Lemma cnt_repeat n y : cnt (repeat one n ++ zero :: y) = (n, zero :: y).
Proof. induction n; cbn; [reflexivity|]. now rewrite IHn. Qed.

Lemma dec_enc_b x r : dec_b (enc_b x ++ r) = Some (x, r).
Proof.
  unfold dec_b, enc_b. rewrite <- app_assoc. cbn [app]. rewrite cnt_repeat. cbn.
  rewrite app_length. replace (length x <=? length x + length r) with true
    by (symmetry; apply Nat.leb_le; lia).
  rewrite firstn_app, Nat.sub_diag, firstn_all, skipn_app, Nat.sub_diag, skipn_all. cbn.
  now rewrite app_nil_r.
Qed.

Definition enc_pair (ph : bytes * bytes) : bytes := enc_b (fst ph) ++ enc_b (snd ph).
Definition t_encU (u : ufiles) : bytes := repeat one (length u) ++ zero :: flat_map enc_pair u.

Fixpoint dec_pairs (n : nat) (f : bytes) : option (ufiles * bytes) :=
  match n with
  | O => Some ([], f)
  | S n' => match dec_b f with
            | None => None
            | Some (p, r1) => match dec_b r1 with
                              | None => None
                              | Some (h, r2) => match dec_pairs n' r2 with
                                                | None => None
                                                | Some (u, r3) => Some ((p, h) :: u, r3)
                                                end
                              end
            end
  end.

Definition t_decU (f : bytes) : option (ufiles * bytes) :=
  let (n, r) := cnt f in
  match r with
  | c :: y => if Ascii.eqb c zero then dec_pairs n y else None
  | [] => None
  end.

Lemma dec_pairs_enc u r : dec_pairs (length u) (flat_map enc_pair u ++ r) = Some (u, r).
Proof.
  induction u as [|[p h] u IH]; [reflexivity|]. cbn [length flat_map dec_pairs].
  unfold enc_pair at 1. cbn [fst snd]. rewrite <- !app_assoc, dec_enc_b, dec_enc_b, IH. reflexivity.
Qed.

Lemma t_decU_encU u r : t_decU (t_encU u ++ r) = Some (u, r).
Proof.
  unfold t_decU, t_encU. rewrite <- app_assoc. cbn [app]. rewrite cnt_repeat. cbn. apply dec_pairs_enc.
Qed.

Lemma t_encU_nonempty u : t_encU u <> [].
Proof. unfold t_encU. destruct u; cbn; discriminate. Qed.

Lemma t_ideal : ideal_oracles t_sha bytes t_encU t_decU enc_b dec_b.
Proof.
  constructor.
  - intros a b r r'. apply t_sha_prefix.
  - apply t_sha_no_nl.
  - apply t_decU_encU.
  - apply dec_enc_b.
  - apply t_encU_nonempty.
Qed.

(* ---- the rest of the system -------------------------------------------------------------------------- *)
Definition imp : bytes := B "imp"%string.
Definition t_P := (bool * bytes)%type.

Definition t_build (c : cfg bool) (e : env) : option (built bytes t_P) :=
  match e imp with
  | None => None
  | Some t => let d := grammar bool c ++ t in
              Some (mkBuilt bytes t_P [(imp, t_sha t)] d (ropts bool c, d))
  end.

Definition t_load (d : bytes) (c : cfg bool) : option t_P := Some (ropts bool c, d).

Definition t_okenv (e : env) : Prop := e imp <> None.

Lemma t_rest : rest_of_lark bool t_sha bytes t_P t_build t_load t_okenv.
Proof.
  constructor.
  - intros c e0 b e O0 O. unfold t_build, t_okenv in *.
    destruct (e0 imp) as [t0|]; [|contradiction]. destruct (e imp) as [t|] eqn:E; [|contradiction].
    intros H; inversion H; subst; clear H. cbn -[imp]. rewrite E, andb_true_r. intros V.
    apply beqb_eq in V. assert (t = t0) by (apply (t_sha_prefix t t0 [] []); now rewrite V). now subst.
  - intros c e b O. unfold t_build, t_okenv in *. destruct (e imp) as [t|] eqn:E; [|contradiction].
    intros H; inversion H; subst. cbn -[imp]. now rewrite E, beqb_refl.
  - intros c0 c e b0. unfold t_build. destruct (e imp) as [t|]; [|discriminate].
    intros H Hh; inversion H; subst; clear H. unfold hashed in Hh. inversion Hh as [[Hg Ho Hv Hp]].
    eexists. split; [reflexivity|]. cbn. unfold t_load. now rewrite Hg.
Qed.

(* ---- a concrete history: build, hit under another run-time option, stale after the import changed, a crash
        in the middle of the rewrite, recovery ----------------------------------------------------------- *)
Definition t_cfg (g : string) (keep : string) (r : bool) : cfg bool :=
  mkCfg bool (B g) [("parser"%string, B "lalr"); ("transformer"%string, B "<T>"); ("keep_all_tokens"%string, B keep)]
        r (B "1.3.1"%string) (B "(3, 12)"%string).
Definition t_env (t : string) : env := fun p => if beqb p imp then Some (B t) else None.

Definition t_history : list (event bool) := [
  mkEv bool (t_cfg "start: X"%string "False"%string false) (t_env "X: ""x"""%string) None;        (* absent file: build, write *)
  mkEv bool (t_cfg "start: X"%string "False"%string true)  (t_env "X: ""x"""%string) None;        (* hit, other transformer *)
  mkEv bool (t_cfg "start: X"%string "True"%string true)   (t_env "X: ""x"""%string) None;        (* other hashed option: rebuild *)
  mkEv bool (t_cfg "start: X"%string "True"%string true)   (t_env "X: ""y"""%string) (Some 40);   (* import edited; crash while writing *)
  mkEv bool (t_cfg "start: X"%string "True"%string false)  (t_env "X: ""y"""%string) None ].      (* truncated file: rebuild *)

Definition t_run := run bool t_sha bytes t_P t_encU t_decU enc_b dec_b t_build t_load None t_history.

Definition parser_of (g t : string) (r : bool) : option (option t_P) := Some (Some (r, B g ++ B t)).
