(* Comparison functions used by the generated correspondence cases for C12 (no proofs).
   The model Cache/Cache.v is instantiated with: sha := the executable SHA-256 of Cache/Sha256.v; the pickle
   codec := a dictionary of the real pickle byte strings located in the implementation's files (a value is
   decoded iff one of the known encodings is a prefix of the input); parser data = its pickle bytes;
   load = identity; build = the (used files, data) pair the implementation wrote for that event. *)
From Coq Require Import List Ascii String Bool Arith ZArith Uint63.
From LV Require Import Cache.Bytes Cache.PyRepr Gen.CacheKey Cache.Cache Cache.Sha256.
Import ListNotations.

Definition ccfg := cfg unit.
Definition mk (g : string) (opts : list (string * string)) (ver pyv : string) : ccfg :=
  mkCfg unit (B g) (map (fun kv => (fst kv, B (snd kv))) opts) tt (B ver) (B pyv).

(* binary data is handed over as (length, big-endian 7-byte groups in primitive integers): number literals are
   parsed natively, string literals of that size are not *)
Definition blob := (nat * list int)%type.

Fixpoint bytes_of_int (x : int) (k : nat) : bytes :=
  match k with
  | O => []
  | S k' => ascii_of_nat (Z.to_nat (to_Z ((x >> (8 * of_Z (Z.of_nat k'))) land 255)%uint63)) :: bytes_of_int x k'
  end.

Fixpoint unpack (len : nat) (l : list int) : bytes :=
  match l with
  | [] => []
  | x :: r => let k := Nat.min len 7 in bytes_of_int x k ++ unpack (len - k) r
  end.

Definition XB (b : blob) : bytes := unpack (fst b) (snd b).

Fixpoint ufiles_eqb (a b : ufiles) : bool :=
  match a, b with
  | [], [] => true
  | (p, h) :: a', (q, k) :: b' => beqb p q && beqb h k && ufiles_eqb a' b'
  | _, _ => false
  end.

(* dictionary codecs *)
Definition tblU := list (bytes * ufiles).
Definition tblD := list bytes.

Fixpoint dec_U (t : tblU) (f : bytes) : option (ufiles * bytes) :=
  match t with
  | [] => None
  | (e, u) :: r => if is_prefix e f then Some (u, skipn (List.length e) f) else dec_U r f
  end.

Fixpoint enc_U (t : tblU) (u : ufiles) : bytes :=
  match t with
  | [] => []
  | (e, u') :: r => if ufiles_eqb u u' then e else enc_U r u
  end.

Fixpoint dec_D (t : tblD) (f : bytes) : option (bytes * bytes) :=
  match t with
  | [] => None
  | e :: r => if is_prefix e f then Some (e, skipn (List.length e) f) else dec_D r f
  end.

Definition env_of (l : list (bytes * bytes)) : env :=
  fun p => match find (fun kv => beqb (fst kv) p) l with Some kv => Some (snd kv) | None => None end.

Definition sU (l : list (string * string)) : ufiles := map (fun ph => (B (fst ph), B (snd ph))) l.
Definition sE (l : list (string * string)) : list (bytes * bytes) := map (fun ph => (B (fst ph), B (snd ph))) l.
(* used-files table: (the pickle, [(path, hex digest)]) *)
Definition sTU (l : list (blob * list (string * string))) : tblU := map (fun eu => (XB (fst eu), sU (snd eu))) l.

Definition c_read (tu : tblU) (td : tblD) (f : bytes) (c : ccfg) (e : env) : bool :=
  match read unit sha256_hex bytes bytes (dec_U tu) (dec_D td) (fun d _ => Some d) f c e with
  | Hit _ => true
  | Miss => false
  end.

(* ---- 1. the file written: header line = sha256 hex of the framed key, space, sha256 hex of the body,
          newline, then the two pickles *)
(* the file is handed over as its first line (text), and the two pickles found after the newline *)
Definition check_write (x : ccfg * string * blob * blob) : bool :=
  let '(c, hdr, pu, pd) := x in
  beqb (B hdr ++ nl :: XB pu ++ XB pd) (mk_file sha256_hex (key unit c) (XB pu ++ XB pd)).

(* hex digest of the framed key alone (compared with the first 64 bytes of the header) *)
Definition key_digest (c : ccfg) : string := string_of_list_ascii (sha256_hex (key unit c)).

(* a file of the history: raw bytes, or header line + newline + the pickles number iu / id of the tables, cut *)
Inductive fileref := FRaw (b : blob) | FParts (hdr : string) (iu id : nat) (cut : option nat).

Definition file_of (tu : tblU) (td : tblD) (r : fileref) : bytes :=
  match r with
  | FRaw b => XB b
  | FParts h iu id cut =>
      let f := B h ++ nl :: fst (nth iu tu ([], [])) ++ nth id td [] in
      match cut with None => f | Some n => firstn n f end
  end.

(* ---- 2. reads of damaged / foreign files: (cfg, used-files table, data table, env, file, edits, observed) *)
(* Rehash n: the body cut to n bytes under a header recomputed for it (a consistent header over a truncated
   pickle: exercises the decode failures that `except Exception` turns into a rebuild) *)
Inductive edit := Trunc (n : nat) | Flip (i : nat) (b : ascii) | Whole | Rehash (n : nat).

Definition apply_edit (c : ccfg) (f : bytes) (e : edit) : bytes :=
  match e with
  | Trunc n => firstn n f
  | Flip i b => set_byte i b f
  | Whole => f
  | Rehash n => mk_file sha256_hex (key unit c) (firstn n (snd (split_line f)))
  end.

Definition check_reads
  (x : ccfg * list (blob * list (string * string)) * list blob * list (string * string) * fileref
       * list (edit * bool)) : bool :=
  let '(c, tu, td, e, fl, obs) := x in
  let tu' := sTU tu in let td' := map XB td in let e' := env_of (sE e) in let f := file_of tu' td' fl in
  forallb (fun eo => Bool.eqb (c_read tu' td' (apply_edit c f (fst eo)) c e') (snd eo)) obs.

(* ---- 3. histories on one path ------------------------------------------------------------------- *)
(* one event: configuration, env, crash offset, what the implementation built when it missed
   (index of the used-files pickle in the table, index of the data pickle), observed hit?, observed file after *)
Record hev := mkHev {
  h_cfg : ccfg; h_env : list (string * string); h_crash : option nat;
  h_built : option (nat * nat); h_hit : bool; h_after : option fileref }.

Definition file_eqb (a b : option bytes) : bool :=
  match a, b with
  | None, None => true
  | Some x, Some y => beqb x y
  | _, _ => false
  end.

Fixpoint check_events (tu : tblU) (td : tblD) (fl : file) (l : list hev) : bool :=
  match l with
  | [] => true
  | ev :: r =>
      let bld := match h_built ev with
                 | None => None
                 | Some (iu, id) => Some (mkBuilt bytes (bool * bytes) (snd (nth iu tu ([], []))) (nth id td [])
                                                  (false, nth id td []))
                 end in
      let e := env_of (sE (h_env ev)) in
      (* parser = (served from the cache?, data) so that the outcome of [step] tells a hit from a rebuild *)
      let '(o, fl') := step unit sha256_hex bytes (bool * bytes) (enc_U tu) (dec_U tu) (fun d => d) (dec_D td)
                            (fun _ _ => bld) (fun d _ => Some (true, d)) fl
                            (mkEv unit (h_cfg ev) e (h_crash ev)) in
      let hit := match o with Some (Some (true, _)) => true | _ => false end in
      Bool.eqb hit (h_hit ev) && file_eqb fl' (option_map (file_of tu td) (h_after ev)) && check_events tu td fl' r
  end.

Definition check_hist
  (x : list (blob * list (string * string)) * list blob * option fileref * list hev) : bool :=
  let '(tu, td, f0, evs) := x in
  let tu' := sTU tu in let td' := map XB td in
  check_events tu' td' (option_map (file_of tu' td') f0) evs.

(* sanity of the executable digest (FIPS 180-4 test vectors) *)
Example sha256_abc :
  string_of_list_ascii (sha256_hex (B "abc")) =
  "ba7816bf8f01cfea414140de5dae2223b00361a396177a9cb410ff61f20015ad"%string.
Proof. vm_compute. reflexivity. Qed.

Example sha256_two_blocks :
  string_of_list_ascii (sha256_hex (B "abcdbcdecdefdefgefghfghighijhijkijkljklmklmnlmnomnopnopq")) =
  "248d6a61d20638b8e5c026930c3e6039a33ce45964ff2167f6ecedd419db06c1"%string.
Proof. vm_compute. reflexivity. Qed.

(* ---- 4. histories with crash points of the write block, under plain open() and under atomicwrites (round 12) --- *)
From LV Require Import Cache.WritePath.

Record hev2 := mkHev2 {
  h2_cfg : ccfg; h2_env : list (string * string); h2_sem : fsem; h2_cp : option cpoint;
  h2_built : option (nat * nat); h2_hit : bool; h2_after : option fileref }.

Fixpoint check_events2 (tu : tblU) (td : tblD) (fl : file) (l : list hev2) : bool :=
  match l with
  | [] => true
  | ev :: r =>
      let bld := match h2_built ev with
                 | None => None
                 | Some (iu, id) => Some (mkBuilt bytes (bool * bytes) (snd (nth iu tu ([], []))) (nth id td [])
                                                  (false, nth id td []))
                 end in
      let e := env_of (sE (h2_env ev)) in
      let '(o, fl') := step2 unit sha256_hex bytes (bool * bytes) (enc_U tu) (dec_U tu) (fun d => d) (dec_D td)
                             (fun _ _ => bld) (fun d _ => Some (true, d)) fl
                             (mkEv2 unit (h2_cfg ev) e (h2_sem ev) (h2_cp ev)) in
      let hit := match o with Some (Some (true, _)) => true | _ => false end in
      Bool.eqb hit (h2_hit ev) && file_eqb fl' (option_map (file_of tu td) (h2_after ev)) && check_events2 tu td fl' r
  end.

Definition check_hist2
  (x : list (blob * list (string * string)) * list blob * option fileref * list hev2) : bool :=
  let '(tu, td, f0, evs) := x in
  let tu' := sTU tu in let td' := map XB td in
  check_events2 tu' td' (option_map (file_of tu' td') f0) evs.

(* ---- 5. repr() of str, byte for byte (round 12): (UTF-8 of the string, UTF-8 of Python's repr of it) ------------ *)
Definition check_repr (x : string * string) : bool := beqb (srepr (B (fst x))) (B (snd x)).

(* the real cache key: configuration and the hex digest found at the start of the header the implementation wrote *)
Definition check_keyd (x : ccfg * string) : bool := String.eqb (key_digest (fst x)) (snd x).
