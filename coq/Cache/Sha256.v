(* Executable SHA-256 (FIPS 180-4) over byte lists, hex output.  Used only to instantiate the digest oracle
   when the harness evaluates the model on real cache files (Cache/CacheCheck.v); the theorems are about an
   abstract injective digest.  Checked against hashlib on every run through the header comparison. *)
From Coq Require Import List Ascii String Bool Arith NArith ZArith Uint63.
From LV Require Import Cache.Bytes.
Import ListNotations.
Local Open Scope uint63_scope.

(* 32-bit words live in primitive 63-bit integers (machine operations under vm_compute) *)
Definition mask32 : int := 0xFFFFFFFF.
Definition m32 (x : int) : int := x land mask32.
Definition add32 (a b : int) : int := m32 (a + b).
Definition rotr (n x : int) : int := (x >> n) lor (m32 (x << (32 - n))).
Definition not32 (x : int) : int := x lxor mask32.

Definition Ch (x y z : int) := (x land y) lxor ((not32 x) land z).
Definition Maj (x y z : int) := ((x land y) lxor (x land z)) lxor (y land z).
Definition S0 (x : int) := ((rotr 2 x) lxor (rotr 13 x)) lxor (rotr 22 x).
Definition S1 (x : int) := ((rotr 6 x) lxor (rotr 11 x)) lxor (rotr 25 x).
Definition s0 (x : int) := ((rotr 7 x) lxor (rotr 18 x)) lxor (x >> 3).
Definition s1 (x : int) := ((rotr 17 x) lxor (rotr 19 x)) lxor (x >> 10).

Definition K : list int := [
  0x428a2f98; 0x71374491; 0xb5c0fbcf; 0xe9b5dba5; 0x3956c25b; 0x59f111f1; 0x923f82a4; 0xab1c5ed5;
  0xd807aa98; 0x12835b01; 0x243185be; 0x550c7dc3; 0x72be5d74; 0x80deb1fe; 0x9bdc06a7; 0xc19bf174;
  0xe49b69c1; 0xefbe4786; 0x0fc19dc6; 0x240ca1cc; 0x2de92c6f; 0x4a7484aa; 0x5cb0a9dc; 0x76f988da;
  0x983e5152; 0xa831c66d; 0xb00327c8; 0xbf597fc7; 0xc6e00bf3; 0xd5a79147; 0x06ca6351; 0x14292967;
  0x27b70a85; 0x2e1b2138; 0x4d2c6dfc; 0x53380d13; 0x650a7354; 0x766a0abb; 0x81c2c92e; 0x92722c85;
  0xa2bfe8a1; 0xa81a664b; 0xc24b8b70; 0xc76c51a3; 0xd192e819; 0xd6990624; 0xf40e3585; 0x106aa070;
  0x19a4c116; 0x1e376c08; 0x2748774c; 0x34b0bcb5; 0x391c0cb3; 0x4ed8aa4a; 0x5b9cca4f; 0x682e6ff3;
  0x748f82ee; 0x78a5636f; 0x84c87814; 0x8cc70208; 0x90befffa; 0xa4506ceb; 0xbef9a3f7; 0xc67178f2].

Definition H0 : list int := [
  0x6a09e667; 0xbb67ae85; 0x3c6ef372; 0xa54ff53a; 0x510e527f; 0x9b05688c; 0x1f83d9ab; 0x5be0cd19].

(* message schedule, most recent word first: wrev = [W(t-1); W(t-2); ...] *)
Fixpoint extend (n : nat) (wrev : list int) : list int :=
  match n with
  | O => wrev
  | S n' =>
      let w := add32 (add32 (s1 (nth 1 wrev 0)) (nth 6 wrev 0)) (add32 (s0 (nth 14 wrev 0)) (nth 15 wrev 0)) in
      extend n' (w :: wrev)
  end.

Definition round (st : list int) (kw : int * int) : list int :=
  match st with
  | [a; b; c; d; e; f; g; h] =>
      let t1 := add32 (add32 (add32 h (S1 e)) (add32 (Ch e f g) (fst kw))) (snd kw) in
      let t2 := add32 (S0 a) (Maj a b c) in
      [add32 t1 t2; a; b; c; add32 d t1; e; f; g]
  | _ => st
  end.

Fixpoint add_state (a b : list int) : list int :=
  match a, b with
  | x :: a', y :: b' => add32 x y :: add_state a' b'
  | _, _ => []
  end.

(* one 512-bit block given as 16 big-endian words *)
Definition compress (st : list int) (block : list int) : list int :=
  let w := rev (extend 48 (rev block)) in
  add_state st (fold_left round (combine K w) st).

Fixpoint words (l : list int) (fuel : nat) : list int :=   (* bytes -> big-endian 32-bit words *)
  match fuel with
  | O => []
  | S fuel' =>
      match l with
      | a :: b :: c :: d :: r => ((a << 24) + (b << 16) + (c << 8) + d) :: words r fuel'
      | _ => []
      end
  end.

Fixpoint blocks (ws : list int) (fuel : nat) (st : list int) : list int :=
  match fuel with
  | O => st
  | S fuel' =>
      match ws with
      | [] => st
      | _ => blocks (skipn 16 ws) fuel' (compress st (firstn 16 ws))
      end
  end.

Definition be64 (n : int) : list int :=
  map (fun i => (n >> (8 * i)) land 255) [7; 6; 5; 4; 3; 2; 1; 0].

Definition int_of_ascii (c : ascii) : int := of_Z (Z.of_N (N_of_ascii c)).

Definition pad (msg : list int) : list int :=
  let len := List.length msg in
  let zeros := ((119 - (len mod 64)) mod 64)%nat in
  msg ++ 128 :: repeat 0 zeros ++ be64 (8 * of_Z (Z.of_nat len)).

Definition sha256_words (msg : bytes) : list int :=
  let p := pad (map int_of_ascii msg) in
  let n := List.length p in
  blocks (words p n) n H0.

Definition hex_word (w : int) : bytes :=
  map (fun i => hexd (Z.to_nat (to_Z ((w >> (4 * i)) land 15)))) [7; 6; 5; 4; 3; 2; 1; 0].

(* hashlib.sha256(msg).hexdigest() *)
Definition sha256_hex (msg : bytes) : bytes := flat_map hex_word (sha256_words msg).
