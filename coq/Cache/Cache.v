(* C12 - model of the grammar-cache protocol of lark/lark.py (Lark.__init__, cache section).
   Definitions only.  The shapes transcribed here are pinned by the templates of
   translator/gen_cache.py; the key framing and the option sets come from Gen/CacheKey.v.

   Oracles (Section variables; the hypotheses about them are stated in Cache_proofs.v):
     sha         hex sha256 of a byte string (sha256_digest / _bytes_digest)
     encU/decU   pickle of the used-files table       encD/decD   pickle of {'data','memo'}
     build       load_grammar + compile + LALR construction + memo_serialize (None = it raises)
     load        Lark._load of unpickled data under the options of the present call *)
From Coq Require Import List Ascii String Bool Arith.
From LV Require Import Cache.Bytes Cache.PyRepr Gen.CacheKey.
Import ListNotations.

(* ---- configuration of one Lark(...) call ------------------------------------------------- *)
Section Model.
  Variable R : Type.            (* values of the options that cannot be hashed (callables, objects) *)

  Record cfg := mkCfg {
    grammar : bytes;                       (* grammar text *)
    options : list (string * bytes);       (* options passed as kwargs, in call order: (name, str(value)) *)
    ropts   : R;                           (* transformer, postlex, lexer_callbacks, edit_terminals, _plugins *)
    version : bytes;                       (* lark.__version__ *)
    pyver   : bytes                        (* repr(sys.version_info[:2]) *)
  }.

  (* options_items = [(k, str(v)) for k, v in options.items() if k not in unhashable] *)
  Definition options_items (o : list (string * bytes)) : list (bytes * bytes) :=
    map (fun kv => (B (fst kv), snd kv))
        (filter (fun kv => negb (existsb (String.eqb (fst kv)) unhashable)) o).

  (* the string that is hashed *)
  Definition key (c : cfg) : bytes :=
    key_frame (grammar c) (options_items (options c)) (version c) (pyver c).

  (* ---- oracles ---------------------------------------------------------------------------- *)
  Variable sha : bytes -> bytes.

  (* imported grammar files: path -> current text (None: the path cannot be read) *)
  Definition env := bytes -> option bytes.
  Definition ufiles := list (bytes * bytes).     (* used_files: path -> sha of the text when imported *)

  Variables D P : Type.                          (* pickled parser data; parser behaviour *)
  Variable encU : ufiles -> bytes.
  Variable decU : bytes -> option (ufiles * bytes).
  Variable encD : D -> bytes.
  Variable decD : bytes -> option (D * bytes).

  Record built := mkBuilt { bused : ufiles; bdata : D; bparser : P }.
  Variable build : cfg -> env -> option built.
  Variable load : D -> cfg -> option P.

  (* ---- verify_used_files ------------------------------------------------------------------- *)
  Definition verify (e : env) (u : ufiles) : bool :=
    forallb (fun ph => match e (fst ph) with
                       | None => true                         (* text is None: continue *)
                       | Some t => beqb (sha t) (snd ph)      (* old != current -> False *)
                       end) u.

  (* ---- the file ---------------------------------------------------------------------------- *)
  (* cache_sha256.encode('utf8') + b' ' + _bytes_digest(body) *)
  Definition header (k body : bytes) : bytes := sha k ++ sp :: sha body.

  Definition mk_file (k body : bytes) : bytes := header k body ++ nl :: body.

  Definition write (k : bytes) (u : ufiles) (d : D) : bytes := mk_file k (encU u ++ encD d).

  Inductive outcome := Hit (p : P) | Miss.

  (* the header check: nothing is unpickled unless the whole first line matches *)
  Definition header_ok (line body k : bytes) : bool := beqb line (header k body).

  (* the body of the `with FS.open(cache_fn, 'rb')` block; every exception (EOFError, UnpicklingError,
     KeyError ... from pickle.load or _load) is caught by `except Exception` and means Miss *)
  Definition read (f : bytes) (c : cfg) (e : env) : outcome :=
    let (line, body) := split_line f in
    if header_ok line body (key c) then
      match decU body with
      | None => Miss
      | Some (u, rest) =>
          if verify e u then
            match decD rest with
            | None => Miss
            | Some (d, _) => match load d c with Some p => Hit p | None => Miss end
            end
          else Miss
      end
    else Miss.

  (* ---- Lark(grammar, cache=path, ...) ------------------------------------------------------ *)
  Definition file := option bytes.                (* None: FileNotFoundError *)

  Definition lookup (fl : file) (c : cfg) (e : env) : outcome :=
    match fl with None => Miss | Some f => read f c e end.

  (* result: the parser (None = the uncached construction raises, and so does this one) and the file left *)
  Definition construct (fl : file) (c : cfg) (e : env) : option P * file :=
    match lookup fl c e with
    | Hit p => (Some p, fl)
    | Miss => match build c e with
              | None => (None, fl)
              | Some b => (Some (bparser b), Some (write (key c) (bused b) (bdata b)))
              end
    end.

  (* ---- histories with crashes -------------------------------------------------------------- *)
  (* one construction against the path; crash = Some n: the process dies while writing, after n bytes
     reached the file (open(..., 'wb') truncates first, so a prefix of the new content is left) *)
  Record event := mkEv { ecfg : cfg; eenv : env; crash : option nat }.

  Definition step (fl : file) (ev : event) : option (option P) * file :=
    match crash ev with
    | None => let (p, fl') := construct fl (ecfg ev) (eenv ev) in (Some p, fl')
    | Some n =>
        match lookup fl (ecfg ev) (eenv ev) with
        | Hit p => (Some (Some p), fl)                  (* nothing is written on a hit *)
        | Miss => match build (ecfg ev) (eenv ev) with
                  | None => (Some None, fl)
                  | Some b => (None, Some (firstn n (write (key (ecfg ev)) (bused b) (bdata b))))
                  end
        end
    end.

  Fixpoint run (fl : file) (h : list event) : list (option (option P)) * file :=
    match h with
    | [] => ([], fl)
    | ev :: r => let (o, fl') := step fl ev in
                 let (os, fl'') := run fl' r in (o :: os, fl'')
    end.
End Model.

Arguments Hit {P} p.
Arguments Miss {P}.
