(* Byte strings for the cache-file model (C12).  Definitions only, no proofs. *)
From Coq Require Import List Ascii String Bool Arith NArith.
Import ListNotations.

Definition bytes := list ascii.

Definition B (s : string) : bytes := list_ascii_of_string s.

Definition nl : ascii := "010"%char.
Definition sp : ascii := " "%char.

Fixpoint beqb (a b : bytes) : bool :=
  match a, b with
  | [], [] => true
  | x :: a', y :: b' => Ascii.eqb x y && beqb a' b'
  | _, _ => false
  end.

Fixpoint mem_ascii (c : ascii) (l : bytes) : bool :=
  match l with [] => false | d :: r => Ascii.eqb c d || mem_ascii c r end.

(* f.readline().rstrip(b'\n') and f.read(): the bytes before the first newline, and the
   bytes after it; without a newline the whole file is the line and the rest is empty *)
Fixpoint split_line (f : bytes) : bytes * bytes :=
  match f with
  | [] => ([], [])
  | c :: r => if Ascii.eqb c nl then ([], r)
              else let (l, b) := split_line r in (c :: l, b)
  end.

Fixpoint is_prefix (p f : bytes) : bool :=
  match p, f with
  | [], _ => true
  | x :: p', y :: f' => Ascii.eqb x y && is_prefix p' f'
  | _ :: _, [] => false
  end.

(* replace the byte at offset i *)
Fixpoint set_byte (i : nat) (b : ascii) (f : bytes) : bytes :=
  match f with
  | [] => []
  | c :: r => match i with O => b :: r | S i' => c :: set_byte i' b r end
  end.

Definition hexd (n : nat) : ascii :=
  nth n (B "0123456789abcdef") "0"%char.

(* two lower-case hex digits per byte: an injective, newline- and space-free encoding; used as the
   idealised (collision-free) digest in the non-vacuity examples *)
Definition hex_byte (c : ascii) : bytes :=
  let n := nat_of_ascii c in [hexd (n / 16); hexd (n mod 16)].
Definition hex_bytes (l : bytes) : bytes := flat_map hex_byte l.

Definition all_ascii : list ascii := map ascii_of_nat (seq 0 256).
