(* repr() of str / list of pairs of str is a prefix code, hence the framed cache key is injective.
   The str repr covers all of Unicode (Cache/PyRepr.v); nothing here depends on the contents of the printable table. *)
From Coq Require Import List Ascii String Bool Arith NArith Lia.
From LV Require Import Cache.Bytes Gen.Printable Cache.PyRepr Gen.CacheKey.
Import ListNotations.

Lemma beqb_refl a : beqb a a = true.
Proof. induction a; cbn; [reflexivity|]. now rewrite Ascii.eqb_refl. Qed.

Lemma beqb_eq a b : beqb a b = true <-> a = b.
Proof.
  split; [|intros ->; apply beqb_refl].
  revert b; induction a; destruct b; cbn; try discriminate; auto.
  intros H; apply andb_true_iff in H as [H1 H2]. apply Ascii.eqb_eq in H1. f_equal; auto.
Qed.

Lemma beqb_neq a b : beqb a b = false <-> a <> b.
Proof.
  split.
  - intros H E. apply beqb_eq in E. congruence.
  - intros H. destruct (beqb a b) eqn:E; [apply beqb_eq in E; contradiction | reflexivity].
Qed.

Definition is_quote (q : ascii) : Prop := q = squote \/ q = dquote.

Lemma quote_of_is_quote s : is_quote (quote_of s).
Proof. unfold quote_of, is_quote. destruct (_ && _); auto. Qed.

(* one escaped character is decoded back, whatever follows *)
Lemma unesc_esc q c r : is_quote q -> unesc (esc q c ++ r) = Some (c, r).
Proof.
  intros [-> | ->]; destruct c as [[] [] [] [] [] [] [] []]; reflexivity.
Qed.

(* an escaped character never starts with the closing quote *)
Lemma esc_not_quote q c : is_quote q -> hd_error (esc q c) <> Some q.
Proof.
  intros Hq. unfold esc.
  assert (Hb : bslash <> q) by (destruct Hq as [-> | ->]; discriminate).
  destruct (Ascii.eqb c q) eqn:Ecq; cbn [orb].
  { cbn. congruence. }
  destruct (Ascii.eqb c bslash); cbn [orb]. { cbn; congruence. }
  destruct (Ascii.eqb c tab). { cbn; congruence. }
  destruct (Ascii.eqb c nl). { cbn; congruence. }
  destruct (Ascii.eqb c cr). { cbn; congruence. }
  destruct (_ || _). { cbn; congruence. }
  cbn. apply Ascii.eqb_neq in Ecq. congruence.
Qed.

Lemma esc_nonempty q c : esc q c <> [].
Proof.
  unfold esc. repeat match goal with |- context [if ?b then _ else _] => destruct b end; discriminate.
Qed.

(* ---- code points >= 128 ---------------------------------------------------------------------------- *)
Local Open Scope N_scope.

Lemma N_of_ascii_inj a b : N_of_ascii a = N_of_ascii b -> a = b.
Proof. intros H. rewrite <- (ascii_N_embedding a), <- (ascii_N_embedding b). now rewrite H. Qed.

Lemma app_inv_len0 {A} (a a' x x' : list A) :
  List.length a = List.length a' -> a ++ x = a' ++ x' -> a = a' /\ x = x'.
Proof.
  revert a'. induction a as [|h a IH]; intros [|h' a'] L H; cbn in *; try discriminate; auto.
  inversion H; subst. destruct (IH a') as [-> ->]; auto.
Qed.

(* continuation byte *)
Definition cb (c : ascii) : Prop := 128 <= N_of_ascii c < 192.

Lemma cont_inv r x r1 : cont r = Some (x, r1) -> exists c, r = c :: r1 /\ cb c /\ x = N_of_ascii c - 128.
Proof.
  unfold cont. destruct r as [|c r']; [discriminate|].
  destruct (_ && _) eqn:E; [|discriminate]. intros H; inversion H; subst.
  apply andb_true_iff in E as [E1 E2]. apply N.leb_le in E1. apply N.ltb_lt in E2.
  exists c. unfold cb. auto.
Qed.

(* the three shapes of a well-formed sequence *)
Definition shape2 (c : ascii) (r : bytes) (cp : N) (k : nat) : Prop :=
  exists c1 r1, r = c1 :: r1 /\ cb c1 /\ k = 1%nat /\ 194 <= N_of_ascii c < 224 /\
    cp = (N_of_ascii c - 192) * 64 + (N_of_ascii c1 - 128).
Definition shape3 (c : ascii) (r : bytes) (cp : N) (k : nat) : Prop :=
  exists c1 c2 r2, r = c1 :: c2 :: r2 /\ cb c1 /\ cb c2 /\ k = 2%nat /\ 224 <= N_of_ascii c < 240 /\
    cp = (N_of_ascii c - 224) * 4096 + (N_of_ascii c1 - 128) * 64 + (N_of_ascii c2 - 128) /\ 2048 <= cp.
Definition shape4 (c : ascii) (r : bytes) (cp : N) (k : nat) : Prop :=
  exists c1 c2 c3 r3, r = c1 :: c2 :: c3 :: r3 /\ cb c1 /\ cb c2 /\ cb c3 /\ k = 3%nat /\ 240 <= N_of_ascii c < 245 /\
    cp = (N_of_ascii c - 240) * 262144 + (N_of_ascii c1 - 128) * 4096 + (N_of_ascii c2 - 128) * 64 + (N_of_ascii c3 - 128) /\
    65536 <= cp <= 1114111.

Lemma utf8_lead_inv c r cp k :
  utf8_lead c r = Some (cp, k) -> shape2 c r cp k \/ shape3 c r cp k \/ shape4 c r cp k.
Proof.
  unfold utf8_lead. set (n := N_of_ascii c).
  destruct ((194 <=? n) && (n <? 224)) eqn:E2.
  { apply andb_true_iff in E2 as [A B']. apply N.leb_le in A. apply N.ltb_lt in B'.
    destruct (cont r) as [[x r1]|] eqn:C1; [|discriminate]. intros H; inversion H; subst.
    apply cont_inv in C1 as (c1 & -> & Hc1 & ->). unfold cb in *. left. exists c1, r1. repeat split; auto; lia. }
  destruct ((224 <=? n) && (n <? 240)) eqn:E3.
  { apply andb_true_iff in E3 as [A B']. apply N.leb_le in A. apply N.ltb_lt in B'.
    destruct (cont r) as [[x r1]|] eqn:C1; [|discriminate].
    destruct (cont r1) as [[y r2]|] eqn:C2; [|discriminate].
    destruct (2048 <=? _) eqn:L; [|discriminate]. apply N.leb_le in L. intros H; inversion H; subst.
    apply cont_inv in C1 as (c1 & -> & Hc1 & ->). apply cont_inv in C2 as (c2 & -> & Hc2 & ->).
    unfold cb in *. right; left. exists c1, c2, r2. repeat split; auto; lia. }
  destruct ((240 <=? n) && (n <? 245)) eqn:E4; [|discriminate].
  apply andb_true_iff in E4 as [A B']. apply N.leb_le in A. apply N.ltb_lt in B'.
  destruct (cont r) as [[x r1]|] eqn:C1; [|discriminate].
  destruct (cont r1) as [[y r2]|] eqn:C2; [|discriminate].
  destruct (cont r2) as [[z r3]|] eqn:C3; [|discriminate].
  destruct ((65536 <=? _) && _) eqn:L; [|discriminate]. apply andb_true_iff in L as [L1 L2].
  apply N.leb_le in L1. apply N.leb_le in L2. intros H; inversion H; subst.
  apply cont_inv in C1 as (c1 & -> & Hc1 & ->). apply cont_inv in C2 as (c2 & -> & Hc2 & ->).
  apply cont_inv in C3 as (c3 & -> & Hc3 & ->).
  unfold cb in *. right; right. exists c1, c2, c3, r3. repeat split; auto; lia.
Qed.

Lemma utf8_lead_range c r cp k : utf8_lead c r = Some (cp, k) -> 128 <= cp <= 1114111 /\ (k <= List.length r)%nat.
Proof.
  intros H. apply utf8_lead_inv in H as [H | [H | H]].
  - destruct H as (c1 & r1 & -> & [? ?] & -> & [? ?] & ->). cbn [List.length]. split; lia.
  - destruct H as (c1 & c2 & r2 & -> & [? ?] & [? ?] & -> & [? ?] & -> & ?). cbn [List.length]. split; lia.
  - destruct H as (c1 & c2 & c3 & r3 & -> & [? ?] & [? ?] & [? ?] & -> & [? ?] & -> & ?). cbn [List.length]. split; lia.
Qed.

(* decoding is injective: a code point has one well-formed encoding *)
Lemma utf8_lead_inj c r c' r' cp k k' :
  utf8_lead c r = Some (cp, k) -> utf8_lead c' r' = Some (cp, k') ->
  c = c' /\ k = k' /\ firstn k r = firstn k' r'.
Proof.
  intros H H'. apply utf8_lead_inv in H. apply utf8_lead_inv in H'.
  unfold shape2, shape3, shape4, cb in *.
  destruct H as [H | [H | H]], H' as [H' | [H' | H']];
    repeat match goal with
           | H : exists _, _ |- _ => destruct H
           | H : _ /\ _ |- _ => destruct H
           end; subst; try (exfalso; lia).
  - assert (N_of_ascii c = N_of_ascii c') by lia. assert (N_of_ascii x = N_of_ascii x1) by lia.
    repeat match goal with H : N_of_ascii _ = N_of_ascii _ |- _ => apply N_of_ascii_inj in H; subst end. auto.
  - assert (N_of_ascii c = N_of_ascii c') by lia. assert (N_of_ascii x = N_of_ascii x2) by lia.
    assert (N_of_ascii x0 = N_of_ascii x3) by lia.
    repeat match goal with H : N_of_ascii _ = N_of_ascii _ |- _ => apply N_of_ascii_inj in H; subst end. auto.
  - assert (N_of_ascii c = N_of_ascii c') by lia. assert (N_of_ascii x = N_of_ascii x3) by lia.
    assert (N_of_ascii x0 = N_of_ascii x4) by lia. assert (N_of_ascii x1 = N_of_ascii x5) by lia.
    repeat match goal with H : N_of_ascii _ = N_of_ascii _ |- _ => apply N_of_ascii_inj in H; subst end. auto.
Qed.

(* ---- hex digits ------------------------------------------------------------------------------------- *)
Lemma hexd_inj a b : (a < 16)%nat -> (b < 16)%nat -> hexd a = hexd b -> a = b.
Proof.
  intros Ha Hb.
  do 16 (destruct a as [|a];
         [do 16 (destruct b as [|b]; [cbn; intros H; try reflexivity; discriminate H|]); exfalso; lia|]).
  exfalso; lia.
Qed.

Fixpoint pow16 (w : nat) : N := match w with O => 1 | S w' => 16 * pow16 w' end.

Lemma hexw_length w : forall n, List.length (hexw w n) = w.
Proof. induction w; intros n; cbn [hexw]; [reflexivity|]. rewrite app_length, IHw. cbn. lia. Qed.

Lemma hexw_inj w : forall n n', n < pow16 w -> n' < pow16 w -> hexw w n = hexw w n' -> n = n'.
Proof.
  induction w as [|w IH]; intros n n' L L' H; cbn [pow16 hexw] in *. { lia. }
  apply app_inj_tail in H as [H1 H2].
  assert (D : n / 16 = n' / 16).
  { apply IH; [apply N.div_lt_upper_bound; lia | apply N.div_lt_upper_bound; lia | exact H1]. }
  apply hexd_inj in H2.
  - rewrite (N.div_mod n 16), (N.div_mod n' 16) by lia. lia.
  - pose proof (N.mod_lt n 16). lia.
  - pose proof (N.mod_lt n' 16). lia.
Qed.

Lemma hexw_prefix w n n' r r' :
  n < pow16 w -> n' < pow16 w -> hexw w n ++ r = hexw w n' ++ r' -> n = n' /\ r = r'.
Proof.
  intros L L' H. apply app_inv_len0 in H as [H ->]; [|now rewrite !hexw_length].
  split; [eapply hexw_inj; eauto | reflexivity].
Qed.

(* ---- tokens ------------------------------------------------------------------------------------------ *)
Definition valid (t : tok) : Prop :=
  match t with
  | TA c => N_of_ascii c < 128
  | TR c => 128 <= N_of_ascii c
  | TN cp raw => exists c r k, raw = c :: firstn k r /\ utf8_lead c r = Some (cp, k)
  end.

Lemma toks_valid s : forall k, Forall valid (toks k s).
Proof.
  induction s as [|c r IH]; intros k; cbn [toks]; [constructor|].
  destruct k as [|k]; [|apply IH].
  destruct (N_of_ascii c <? 128) eqn:E.
  { constructor; [apply N.ltb_lt in E; exact E | apply IH]. }
  apply N.ltb_ge in E.
  destruct (utf8_lead c r) as [[cp k]|] eqn:U; [|constructor; [exact E | apply IH]].
  destruct (printable cp); constructor; try apply IH; [exact E|].
  exists c, r, k. auto.
Qed.

Lemma toks_raw s : forall k, (k <= List.length s)%nat -> List.concat (map raw_of (toks k s)) = skipn k s.
Proof.
  induction s as [|c r IH]; intros k L; cbn [toks].
  - destruct k; reflexivity.
  - destruct k as [|k]; [|cbn [skipn]; apply IH; cbn in L; lia].
    cbn [skipn]. assert (I0 : List.concat (map raw_of (toks 0 r)) = r) by (apply (IH 0%nat); lia).
    destruct (N_of_ascii c <? 128); [cbn; now rewrite I0|].
    destruct (utf8_lead c r) as [[cp k]|] eqn:U; [|cbn; now rewrite I0].
    destruct (printable cp); [cbn; now rewrite I0|].
    cbn [map List.concat raw_of]. rewrite IH by (apply utf8_lead_range in U; lia).
    cbn. now rewrite firstn_skipn.
Qed.

Lemma esc_head_ascii q c : N_of_ascii c < 128 -> exists h t, esc q c = h :: t /\ N_of_ascii h < 128.
Proof.
  intros L. unfold esc.
  repeat match goal with |- context [if ?b then _ else _] => destruct b end;
    eexists _, _; (split; [reflexivity|]); try exact L; cbn; lia.
Qed.

(* above 126 the escape is \xNN *)
Lemma esc_high q c : is_quote q -> 127 <= N_of_ascii c -> exists t, esc q c = bslash :: t.
Proof.
  intros Hq L. unfold esc.
  destruct (Ascii.eqb c q || Ascii.eqb c bslash); [eauto|].
  destruct (Ascii.eqb c tab) eqn:E1; [apply Ascii.eqb_eq in E1; subst; cbn in L; lia|].
  destruct (Ascii.eqb c nl) eqn:E2; [apply Ascii.eqb_eq in E2; subst; cbn in L; lia|].
  destruct (Ascii.eqb c cr) eqn:E3; [apply Ascii.eqb_eq in E3; subst; cbn in L; lia|].
  destruct (_ || _) eqn:E4; [eauto|]. exfalso.
  apply orb_false_iff in E4 as [_ E4]. apply Nat.leb_gt in E4.
  unfold nat_of_ascii in E4. lia.
Qed.

Lemma uesc_head q cp : is_quote q -> 128 <= cp -> exists t, uesc q cp = bslash :: t.
Proof.
  intros Hq L. unfold uesc. destruct (cp <? 256) eqn:E; [|destruct (cp <? 65536); eauto].
  apply N.ltb_lt in E. apply esc_high; [assumption|]. rewrite N_ascii_embedding by lia. lia.
Qed.

Lemma unesc_u X : unesc (bslash :: "u"%char :: X) = Some ("u"%char, X).
Proof. reflexivity. Qed.
Lemma unesc_U X : unesc (bslash :: "U"%char :: X) = Some ("U"%char, X).
Proof. reflexivity. Qed.

Lemma esc_letter q c : is_quote q -> c = "u"%char \/ c = "U"%char -> esc q c = [c].
Proof. intros [-> | ->] [-> | ->]; reflexivity. Qed.

(* a token's escape followed by anything determines the token (for tokens the tokenizer can produce) *)
Lemma etok_prefix q t t' r r' :
  is_quote q -> valid t -> valid t' -> etok q t ++ r = etok q t' ++ r' -> t = t' /\ r = r'.
Proof.
  intros Hq V V' H.
  (* what unesc says about the escape of a non-printable code point *)
  assert (UN : forall cp X, 128 <= cp ->
            (cp < 256 /\ unesc (uesc q cp ++ X) = Some (ascii_of_N cp, X)) \/
            (256 <= cp /\ exists l Y, unesc (uesc q cp ++ X) = Some (l, Y) /\ (l = "u"%char \/ l = "U"%char))).
  { intros cp X L. unfold uesc. destruct (cp <? 256) eqn:E.
    - apply N.ltb_lt in E. left. split; [exact E|]. now apply unesc_esc.
    - apply N.ltb_ge in E. right. split; [exact E|].
      destruct (cp <? 65536); cbn [app]; [rewrite unesc_u | rewrite unesc_U]; eauto. }
  destruct t as [c|c|cp raw], t' as [c'|c'|cp' raw']; cbn [etok valid] in *.
  - (* TA / TA *)
    pose proof (f_equal unesc H) as U. rewrite !unesc_esc in U by assumption. inversion U; subst. auto.
  - (* TA / TR *)
    exfalso. destruct (esc_head_ascii q c V) as (h & t & E & Lh). rewrite E in H. cbn in H. inversion H; subst. lia.
  - (* TA / TN *)
    exfalso. destruct V' as (c0 & r0 & k0 & -> & U0). pose proof (proj1 (utf8_lead_range _ _ _ _ U0)) as [L0 _].
    pose proof (f_equal unesc H) as U. rewrite unesc_esc in U by assumption.
    destruct (UN cp' r' L0) as [[Lt E] | [Ge (l & Y & E & Hl)]]; rewrite E in U; inversion U; subst.
    + rewrite N_ascii_embedding in V by lia. lia.
    + rewrite (esc_letter q l Hq Hl) in H. destruct (uesc_head q cp' Hq L0) as [t Et]. rewrite Et in H.
      cbn in H. inversion H. destruct Hl; subst; discriminate.
  - (* TR / TA *)
    exfalso. destruct (esc_head_ascii q c' V') as (h & t & E & Lh). rewrite E in H. cbn in H. inversion H; subst. lia.
  - (* TR / TR *)
    cbn in H. inversion H; subst. auto.
  - (* TR / TN *)
    exfalso. destruct V' as (c0 & r0 & k0 & -> & U0). pose proof (proj1 (utf8_lead_range _ _ _ _ U0)) as [L0 _].
    destruct (uesc_head q cp' Hq L0) as [t Et]. rewrite Et in H. cbn in H. inversion H; subst. cbn in V. lia.
  - (* TN / TA *)
    exfalso. destruct V as (c0 & r0 & k0 & -> & U0). pose proof (proj1 (utf8_lead_range _ _ _ _ U0)) as [L0 _].
    pose proof (f_equal unesc H) as U. rewrite (unesc_esc q c') in U by assumption.
    destruct (UN cp r L0) as [[Lt E] | [Ge (l & Y & E & Hl)]]; rewrite E in U; inversion U; subst.
    + rewrite N_ascii_embedding in V' by lia. lia.
    + rewrite (esc_letter q c' Hq Hl) in H. destruct (uesc_head q cp Hq L0) as [t Et]. rewrite Et in H.
      cbn in H. inversion H. destruct Hl; subst; discriminate.
  - (* TN / TR *)
    exfalso. destruct V as (c0 & r0 & k0 & -> & U0). pose proof (proj1 (utf8_lead_range _ _ _ _ U0)) as [L0 _].
    destruct (uesc_head q cp Hq L0) as [t Et]. rewrite Et in H. cbn in H. inversion H; subst. cbn in V'. lia.
  - (* TN / TN *)
    destruct V as (c0 & r0 & k0 & -> & U0), V' as (c1 & r1 & k1 & -> & U1).
    pose proof (proj1 (utf8_lead_range _ _ _ _ U0)) as [L0 M0].
    pose proof (proj1 (utf8_lead_range _ _ _ _ U1)) as [L1 M1].
    assert (E : cp = cp' /\ r = r').
    { pose proof (f_equal unesc H) as U.
      destruct (UN cp r L0) as [[Lt E] | [Ge (l & Y & E & Hl)]],
               (UN cp' r' L1) as [[Lt' E'] | [Ge' (l' & Y' & E' & Hl')]]; rewrite E, E' in U; inversion U as [[X1 X2]].
      - split; [|reflexivity].
        rewrite <- (N_ascii_embedding cp), <- (N_ascii_embedding cp') by lia. congruence.
      - exfalso. apply (f_equal N_of_ascii) in X1. rewrite N_ascii_embedding in X1 by lia.
        destruct Hl' as [-> | ->]; cbn in X1; lia.
      - exfalso. apply (f_equal N_of_ascii) in X1. rewrite N_ascii_embedding in X1 by lia.
        destruct Hl as [-> | ->]; cbn in X1; lia.
      - clear E E' U. unfold uesc in H.
        replace (cp <? 256) with false in H by (symmetry; apply N.ltb_ge; lia).
        replace (cp' <? 256) with false in H by (symmetry; apply N.ltb_ge; lia).
        destruct (cp <? 65536) eqn:A, (cp' <? 65536) eqn:A'; cbn [app] in H.
        + assert (H0 : hexw 4 cp ++ r = hexw 4 cp' ++ r') by congruence.
          apply N.ltb_lt in A. apply N.ltb_lt in A'. apply (hexw_prefix 4) in H0; [exact H0 | exact A | exact A'].
        + exfalso. congruence.
        + exfalso. congruence.
        + assert (H0 : hexw 8 cp ++ r = hexw 8 cp' ++ r') by congruence.
          apply (hexw_prefix 8) in H0; [exact H0 | cbn; lia | cbn; lia]. }
    destruct E as [<- <-]. split; [|reflexivity].
    destruct (utf8_lead_inj _ _ _ _ _ _ _ U0 U1) as (-> & -> & ->). reflexivity.
Qed.

Lemma etok_not_quote q t : is_quote q -> valid t -> exists h x, etok q t = h :: x /\ h <> q.
Proof.
  intros Hq V. destruct t as [c|c|cp raw]; cbn [etok valid] in *.
  - pose proof (esc_not_quote q c Hq) as N. destruct (esc q c) as [|h x] eqn:E; [now apply esc_nonempty in E|].
    exists h, x. split; [reflexivity|]. cbn in N. congruence.
  - exists c, []. split; [reflexivity|]. intros ->. destruct Hq as [-> | ->]; cbn in V; lia.
  - destruct V as (c0 & r0 & k0 & -> & U0). pose proof (proj1 (utf8_lead_range _ _ _ _ U0)) as [L0 _].
    destruct (uesc_head q cp Hq L0) as [t Et]. exists bslash, t. split; [exact Et|].
    destruct Hq as [-> | ->]; discriminate.
Qed.

Lemma flat_etok_inj q : is_quote q -> forall l l' r r',
  Forall valid l -> Forall valid l' ->
  flat_map (etok q) l ++ q :: r = flat_map (etok q) l' ++ q :: r' -> l = l' /\ r = r'.
Proof.
  intros Hq. induction l as [|t l IH]; intros [|t' l'] r r' V V' H; cbn [flat_map] in H.
  - inversion H; auto.
  - exfalso. inversion V' as [|? ? Vt _]; subst. destruct (etok_not_quote q t' Hq Vt) as (h & x & E & N).
    rewrite E in H. cbn in H. inversion H; subst. congruence.
  - exfalso. inversion V as [|? ? Vt _]; subst. destruct (etok_not_quote q t Hq Vt) as (h & x & E & N).
    rewrite E in H. cbn in H. inversion H; subst. congruence.
  - inversion V as [|? ? Vt Vl]; inversion V' as [|? ? Vt' Vl']; subst.
    rewrite <- !app_assoc in H. apply etok_prefix in H as [-> H]; auto.
    apply IH in H as [-> ->]; auto.
Qed.

Local Close Scope N_scope.

Lemma body_inj q s s' r r' :
  is_quote q -> body q s ++ q :: r = body q s' ++ q :: r' -> s = s' /\ r = r'.
Proof.
  intros Hq H. unfold body in H.
  apply flat_etok_inj in H as [E ->]; auto using toks_valid.
  split; [|reflexivity].
  pose proof (toks_raw s 0 (Nat.le_0_l _)) as A. pose proof (toks_raw s' 0 (Nat.le_0_l _)) as A'.
  cbn [skipn] in A, A'. rewrite <- A, <- A', E. reflexivity.
Qed.

Lemma srepr_prefix s s' r r' : srepr s ++ r = srepr s' ++ r' -> s = s' /\ r = r'.
Proof.
  unfold srepr. cbn. intros H. inversion H as [[Hq H']]. rewrite Hq in H'.
  rewrite <- ?app_assoc in H'. cbn in H'.
  eapply body_inj; [apply quote_of_is_quote | exact H'].
Qed.

Lemma srepr_inj s s' : srepr s = srepr s' -> s = s'.
Proof.
  intros H. assert (H' : srepr s ++ [] = srepr s' ++ []) by now rewrite H.
  now apply srepr_prefix in H'.
Qed.

Lemma strip1 (a : ascii) x y : a :: x = a :: y -> x = y.
Proof. now inversion 1. Qed.

Lemma item_prefix x x' r r' : item x ++ r = item x' ++ r' -> x = x' /\ r = r'.
Proof.
  destruct x as [k v], x' as [k' v']. unfold item. cbn [fst snd B list_ascii_of_string].
  rewrite <- ?app_assoc. cbn [app]. intros H. apply strip1 in H.
  apply srepr_prefix in H as [-> H]. do 2 apply strip1 in H.
  apply srepr_prefix in H as [-> H]. apply strip1 in H. auto.
Qed.

Lemma item_head x : exists t, item x = "("%char :: t.
Proof. unfold item. cbn. eauto. Qed.

Lemma ltail_prefix l l' r r' : ltail l ++ r = ltail l' ++ r' -> l = l' /\ r = r'.
Proof.
  revert l'. induction l as [|x l IH]; intros [|x' l'] H; cbn [ltail B list_ascii_of_string app] in H.
  - apply strip1 in H. auto.
  - discriminate.
  - discriminate.
  - do 2 apply strip1 in H. rewrite <- ?app_assoc in H.
    apply item_prefix in H as [-> H]. apply IH in H as [-> ->]. auto.
Qed.

Lemma lrepr_prefix l l' r r' : lrepr l ++ r = lrepr l' ++ r' -> l = l' /\ r = r'.
Proof.
  destruct l as [|x l], l' as [|x' l']; cbn [lrepr B list_ascii_of_string app]; intros H.
  - do 2 apply strip1 in H. auto.
  - exfalso. destruct (item_head x') as [t E]. rewrite E in H. cbn in H. discriminate.
  - exfalso. destruct (item_head x) as [t E]. rewrite E in H. cbn in H. discriminate.
  - apply strip1 in H. rewrite <- ?app_assoc in H.
    apply item_prefix in H as [-> H]. apply ltail_prefix in H as [-> ->]. auto.
Qed.

(* The framing the code uses now: repr of the tuple.  Different (grammar, options_items, version,
   interpreter version) never give the same string to hash. *)
Theorem key_frame_injective g o v p g' o' v' p' :
  key_frame g o v p = key_frame g' o' v' p' -> g = g' /\ o = o' /\ v = v' /\ p = p'.
Proof.
  unfold key_frame. cbn [B list_ascii_of_string]. rewrite <- ?app_assoc. cbn [app].
  intros H. apply strip1 in H.
  apply srepr_prefix in H as [-> H]. do 2 apply strip1 in H.
  apply lrepr_prefix in H as [-> H]. do 2 apply strip1 in H.
  apply srepr_prefix in H as [-> H]. do 2 apply strip1 in H.
  apply app_inv_tail in H. auto.
Qed.

(* The framing the code used before the repair of F3 (plain concatenation) is not injective. *)
Definition key_concat (g : bytes) (o : list (bytes * bytes)) (v p : bytes) : bytes :=
  g ++ flat_map (fun kv => fst kv ++ snd kv) o ++ v ++ p.

Lemma key_concat_not_injective :
  exists g o g' o' v p, (g, o) <> (g', o') /\ key_concat g o v p = key_concat g' o' v p.
Proof.
  exists (B "start: ""a"" ""b"" //"), [(B "keep_all_tokens", B "True")],
         (B "start: ""a"" ""b"" //keep_all_tokensTrue"), [], (B "1.3.1"), (B "(3, 12)").
  split; [discriminate | reflexivity].
Qed.
