(* repr() of str / list of pairs of str is a prefix code, hence the framed cache key is injective. *)
From Coq Require Import List Ascii String Bool Arith Lia.
From LV Require Import Cache.Bytes Cache.PyRepr Gen.CacheKey.
Import ListNotations.

Lemma beqb_refl a : beqb a a = true.
Proof. induction a; cbn; [reflexivity|]. now rewrite Ascii.eqb_refl. Qed.

Lemma beqb_eq a b : beqb a b = true <-> a = b.
Proof.
  split; [|intros ->; apply beqb_refl].
  revert b; induction a; destruct b; cbn; try discriminate; auto.
  intros H; apply andb_true_iff in H as [H1 H2]. apply Ascii.eqb_eq in H1. f_equal; auto.
Qed.

Lemma beqb_neq a b : beqb a b = false <-> a <> b.
Proof.
  split.
  - intros H E. apply beqb_eq in E. congruence.
  - intros H. destruct (beqb a b) eqn:E; [apply beqb_eq in E; contradiction | reflexivity].
Qed.

Definition is_quote (q : ascii) : Prop := q = squote \/ q = dquote.

Lemma quote_of_is_quote s : is_quote (quote_of s).
Proof. unfold quote_of, is_quote. destruct (_ && _); auto. Qed.

(* one escaped character is decoded back, whatever follows *)
Lemma unesc_esc q c r : is_quote q -> unesc (esc q c ++ r) = Some (c, r).
Proof.
  intros [-> | ->]; destruct c as [[] [] [] [] [] [] [] []]; reflexivity.
Qed.

(* an escaped character never starts with the closing quote *)
Lemma esc_not_quote q c : is_quote q -> hd_error (esc q c) <> Some q.
Proof.
  intros Hq. unfold esc.
  assert (Hb : bslash <> q) by (destruct Hq as [-> | ->]; discriminate).
  destruct (Ascii.eqb c q) eqn:Ecq; cbn [orb].
  { cbn. congruence. }
  destruct (Ascii.eqb c bslash); cbn [orb]. { cbn; congruence. }
  destruct (Ascii.eqb c tab). { cbn; congruence. }
  destruct (Ascii.eqb c nl). { cbn; congruence. }
  destruct (Ascii.eqb c cr). { cbn; congruence. }
  destruct (_ || _). { cbn; congruence. }
  cbn. apply Ascii.eqb_neq in Ecq. congruence.
Qed.

Lemma esc_nonempty q c : esc q c <> [].
Proof.
  unfold esc. repeat match goal with |- context [if ?b then _ else _] => destruct b end; discriminate.
Qed.

Lemma body_inj q s s' r r' :
  is_quote q -> body q s ++ q :: r = body q s' ++ q :: r' -> s = s' /\ r = r'.
Proof.
  intros Hq. revert s'. induction s as [|c s IH]; intros [|c' s'] H; cbn in H.
  - inversion H; auto.
  - exfalso. pose proof (esc_not_quote q c' Hq) as N. rewrite <- app_assoc in H.
    destruct (esc q c') as [|x l] eqn:E; [now apply esc_nonempty in E|].
    cbn in H, N. inversion H; subst. congruence.
  - exfalso. pose proof (esc_not_quote q c Hq) as N. rewrite <- app_assoc in H.
    destruct (esc q c) as [|x l] eqn:E; [now apply esc_nonempty in E|].
    cbn in H, N. inversion H; subst. congruence.
  - rewrite <- ?app_assoc in H.
    pose proof (f_equal unesc H) as U. rewrite !unesc_esc in U by assumption.
    inversion U; subst. apply IH in H2 as [-> ->]. auto.
Qed.

Lemma srepr_prefix s s' r r' : srepr s ++ r = srepr s' ++ r' -> s = s' /\ r = r'.
Proof.
  unfold srepr. cbn. intros H. inversion H as [[Hq H']]. rewrite Hq in H'.
  rewrite <- ?app_assoc in H'. cbn in H'.
  eapply body_inj; [apply quote_of_is_quote | exact H'].
Qed.

Lemma srepr_inj s s' : srepr s = srepr s' -> s = s'.
Proof.
  intros H. assert (H' : srepr s ++ [] = srepr s' ++ []) by now rewrite H.
  now apply srepr_prefix in H'.
Qed.

Lemma strip1 (a : ascii) x y : a :: x = a :: y -> x = y.
Proof. now inversion 1. Qed.

Lemma item_prefix x x' r r' : item x ++ r = item x' ++ r' -> x = x' /\ r = r'.
Proof.
  destruct x as [k v], x' as [k' v']. unfold item. cbn [fst snd B list_ascii_of_string].
  rewrite <- ?app_assoc. cbn [app]. intros H. apply strip1 in H.
  apply srepr_prefix in H as [-> H]. do 2 apply strip1 in H.
  apply srepr_prefix in H as [-> H]. apply strip1 in H. auto.
Qed.

Lemma item_head x : exists t, item x = "("%char :: t.
Proof. unfold item. cbn. eauto. Qed.

Lemma ltail_prefix l l' r r' : ltail l ++ r = ltail l' ++ r' -> l = l' /\ r = r'.
Proof.
  revert l'. induction l as [|x l IH]; intros [|x' l'] H; cbn [ltail B list_ascii_of_string app] in H.
  - apply strip1 in H. auto.
  - discriminate.
  - discriminate.
  - do 2 apply strip1 in H. rewrite <- ?app_assoc in H.
    apply item_prefix in H as [-> H]. apply IH in H as [-> ->]. auto.
Qed.

Lemma lrepr_prefix l l' r r' : lrepr l ++ r = lrepr l' ++ r' -> l = l' /\ r = r'.
Proof.
  destruct l as [|x l], l' as [|x' l']; cbn [lrepr B list_ascii_of_string app]; intros H.
  - do 2 apply strip1 in H. auto.
  - exfalso. destruct (item_head x') as [t E]. rewrite E in H. cbn in H. discriminate.
  - exfalso. destruct (item_head x) as [t E]. rewrite E in H. cbn in H. discriminate.
  - apply strip1 in H. rewrite <- ?app_assoc in H.
    apply item_prefix in H as [-> H]. apply ltail_prefix in H as [-> ->]. auto.
Qed.

(* The framing the code uses now: repr of the tuple.  Different (grammar, options_items, version,
   interpreter version) never give the same string to hash. *)
Theorem key_frame_injective g o v p g' o' v' p' :
  key_frame g o v p = key_frame g' o' v' p' -> g = g' /\ o = o' /\ v = v' /\ p = p'.
Proof.
  unfold key_frame. cbn [B list_ascii_of_string]. rewrite <- ?app_assoc. cbn [app].
  intros H. apply strip1 in H.
  apply srepr_prefix in H as [-> H]. do 2 apply strip1 in H.
  apply lrepr_prefix in H as [-> H]. do 2 apply strip1 in H.
  apply srepr_prefix in H as [-> H]. do 2 apply strip1 in H.
  apply app_inv_tail in H. auto.
Qed.

(* The framing the code used before the repair of F3 (plain concatenation) is not injective. *)
Definition key_concat (g : bytes) (o : list (bytes * bytes)) (v p : bytes) : bytes :=
  g ++ flat_map (fun kv => fst kv ++ snd kv) o ++ v ++ p.

Lemma key_concat_not_injective :
  exists g o g' o' v p, (g, o) <> (g', o') /\ key_concat g o v p = key_concat g' o' v p.
Proof.
  exists (B "start: ""a"" ""b"" //"), [(B "keep_all_tokens", B "True")],
         (B "start: ""a"" ""b"" //keep_all_tokensTrue"), [], (B "1.3.1"), (B "(3, 12)").
  split; [discriminate | reflexivity].
Qed.
