(* C14 - the oracles of the scan-loop model (Scan/Scan.v) instantiated with the models of the other blocks:

     lex_from      := the lexer of Pos/LexCoords.v (BasicLexer.next_token / lex over a regex oracle [scan],
                      contextual through the token-type history) read position-wise: [rawlex]
     feed_ok,
     end_choice,
     end_trial     := LR/Driver.v (ParserState.feed_token over an abstract parse table), through the token loop
                      of Pos/TreeShift.v ([run_tokens])
     parse_tokens  := Pos/TreeShift.parse_tokens (driver + '$END' + tree building with PropagatePositions)
     search        := Scan.search_of over a table [starts] of the search scanner's matches
     parse(text[s:e]) := Pos/TreeShift.parse_slice on the window [s, e) of the same buffer
                         (= the re-based parse of the extracted substring by C15_parse_window_shift)

   Terminals are numbered ([term := nat]).  Executable definitions only; proofs in ScanInst_proofs.v. *)
From Coq Require Import List Arith Bool ZArith.
From LV Require Import Cfg.Grammar Gen.ScanHoles Scan.Scan.
From LV Require Pos.PosBase Pos.Coord Pos.LexCoords Pos.TreeShift Shape.Chain LR.Driver.
Import ListNotations.

(* how a raw lexing run ends: end of window, no terminal matches at p, (model only) fuel *)
Inductive rend := RDone | RErr (p : nat) | RFuel.

Section RawLex.
  Context {A : Type}.
  (* LexCoords' oracle: [scan hist T pos e] = Scanner.match(TextSlice(T, _, e), pos) of the sub-lexer selected by
     the parser state reached after the token types [hist] (most recent first) *)
  Variable scan : list nat -> list A -> Z -> Z -> option (nat * nat).
  Variable ignore : nat -> bool.
  Variable T : list A.

  (* every scanner match from p to e, ignored ones included and flagged; the history only grows by the
     tokens that are yielded to the parser *)
  Fixpoint rawlex (fuel : nat) (hist : list nat) (p e : nat) : list tok * rend :=
    match fuel with
    | 0 => ([], RFuel)
    | S f =>
        if p <? e then
          match scan hist T (Z.of_nat p) (Z.of_nat e) with
          | None => ([], RErr p)
          | Some (n, ty) =>
              let ig := ignore ty in
              let r := rawlex f (if ig then hist else ty :: hist) (p + n) e in
              (mkTok ty p (p + n) ig :: fst r, snd r)
          end
        else ([], RDone)
    end.

  (* lex_from of the scan model: the window [m, wb) *)
  Definition lex_fromI (wb m : nat) : list tok := fst (rawlex (S (wb - m)) [] m wb).
End RawLex.

Definition nonign (t : tok) : bool := negb (tk_ign t).

Section Inst.
  Context {A : Type}.
  Variable eqb : A -> A -> bool.
  Variable nl : A.
  Variable scan : list nat -> list A -> Z -> Z -> option (nat * nat).
  Variable ignore newline_types : nat -> bool.
  Variable T : list A.                     (* the buffer *)
  Variable wa wb : nat.                    (* text_slice.start, text_slice.end *)
  Variable starts : nat -> bool.           (* a terminal of the search scanner matches at this offset *)
  Variable rr : rule -> Chain.rrec.
  Variable mp : bool.
  Variable tnum : nat -> nat.              (* terminal -> the table's terminal number *)
  Variable end_term : nat.                 (* '$END' *)
  Variable P : Driver.ptable.
  Variable fuel : nat.                     (* driver fuel (one unit per reduction) *)

  Notation ltoken := (LexCoords.token A nat).

  Definition isnlI (i : nat) : bool :=
    match nth_error T i with Some x => eqb x nl | None => false end.

  (* the Token object behind a token of the scan model: value and coordinates are those of the buffer *)
  Definition retok (t : tok) : ltoken :=
    LexCoords.mkTok (tk_type t) (firstn (tk_end t - tk_start t) (skipn (tk_start t) T))
      (Z.of_nat (tk_start t))
      (Coord.line_of eqb nl T (tk_start t)) (Coord.col_of eqb nl T (tk_start t))
      (Coord.line_of eqb nl T (tk_end t)) (Coord.col_of eqb nl T (tk_end t))
      (Z.of_nat (tk_end t)).

  (* for token in matched: ip.feed_token(token) *)
  Definition drive (l : list tok) :=
    TreeShift.run_tokens tnum P fuel (Driver.init_config P) (map retok l).

  Definition feed_okI (l : list tok) : bool :=
    match fst (drive l) with Driver.Shifted _ => true | _ => false end.

  Definition end_tokenI (l : list tok) : ltoken :=
    TreeShift.end_token end_term (TreeShift.last_tok (map retok l)).

  (* '$END' in choices(): the current row has an entry for $END *)
  Definition end_choiceI (l : list tok) : bool :=
    match fst (drive l) with
    | Driver.Shifted c =>
        match Driver.sstack c with
        | q :: _ => match Driver.pt_action P q (Grammar.T (tnum end_term)) with Some _ => true | None => false end
        | [] => false
        end
    | _ => false
    end.

  (* tmp_state.feed_token(Token.new_borrow_pos('$END', '', token), is_end=True) returns *)
  Definition end_trialI (l : list tok) : bool :=
    match fst (drive l) with
    | Driver.Shifted c =>
        match Driver.feed ltoken (TreeShift.ttype tnum) P fuel c (end_tokenI l) true with
        | Driver.Accepted _ => true
        | _ => false
        end
    | _ => false
    end.

  (* the replay: feed the tokens to a fresh parser with the real callbacks, then feed_eof *)
  Definition parse_tokensI (l : list tok) : TreeShift.presult A nat :=
    TreeShift.parse_tokens rr mp tnum end_term P fuel (map retok l, LexCoords.Done).

  Definition searchI : nat -> option nat := search_of starts wb.
  Definition lexI : nat -> list tok := lex_fromI scan ignore T wb.

  (* the tokens of lexing + feeding the window [s, e) alone *)
  Definition snip_tokensI (s e : nat) : option (list tok) :=
    match rawlex scan ignore T (S (e - s)) [] s e with
    | (ts, RDone) => let l := filter nonign ts in if feed_okI l then Some l else None
    | _ => None
    end.

  (* the F8 exclusion: lexing the rest of the text from s has a token boundary at e *)
  Definition boundaryb (s e : nat) : bool := existsb (fun t => Nat.eqb (tk_end t) e) (lexI s).

  Definition snip_tokensB (s e : nat) : option (list tok) :=
    if (e <=? wb) && boundaryb s e then snip_tokensI s e else None.

  (* list(Lark.scan(TextSlice(T, wa, wb))) *)
  Definition itersI := scan_iters isnlI wa wb searchI lexI feed_okI end_choiceI end_trialI.
  Definition scanI : list (nat * nat * TreeShift.presult A nat) :=
    Scan.scan (TreeShift.presult A nat) isnlI wa wb searchI lexI feed_okI end_choiceI end_trialI parse_tokensI.

  (* Lark.parse(TextSlice(T, s, e)) *)
  Definition parse_windowI (s e : nat) : TreeShift.presult A nat :=
    TreeShift.parse_slice rr mp tnum end_term P eqb nl scan ignore newline_types fuel T (Z.of_nat s) (Z.of_nat e).
End Inst.
