(* C14 - table-driven instantiation of the scan-loop model, used
   (1) by the correspondence harness: the oracles are the tables recorded from the running code
       (search scanner inputs, lexer matches, feed / $END trial outcomes) and [check_case] says whether the
       model loop reproduces the recorded sequence of search positions, match starts, line-counter snapshots,
       numbers of matched / replayed tokens and reported ranges;
   (2) by Props/C14.v for the concrete instances (non-vacuity, refutations without H_stable / H_head).
   No proofs here. *)
From Coq Require Import List Arith Bool.
From LV Require Import Gen.ScanHoles Scan.Scan.
Import ListNotations.

Fixpoint list_nat_eqb (a b : list nat) : bool :=
  match a, b with
  | [], [] => true
  | x :: a', y :: b' => Nat.eqb x y && list_nat_eqb a' b'
  | _, _ => false
  end.

Definition tok_eqb (a b : tok) : bool :=
  Nat.eqb (tk_type a) (tk_type b) && Nat.eqb (tk_start a) (tk_start b) && Nat.eqb (tk_end a) (tk_end b)
  && Bool.eqb (tk_ign a) (tk_ign b).

Fixpoint toks_eqb (a b : list tok) : bool :=
  match a, b with
  | [], [] => true
  | x :: a', y :: b' => tok_eqb x y && toks_eqb a' b'
  | _, _ => false
  end.

Fixpoint is_prefix (a b : list tok) : bool :=
  match a, b with
  | [], _ => true
  | x :: a', y :: b' => tok_eqb x y && is_prefix a' b'
  | _ :: _, [] => false
  end.

Definition mem_nat (x : nat) (l : list nat) : bool := existsb (Nat.eqb x) l.

Fixpoint assoc_nat {A} (k : nat) (l : list (nat * A)) : option A :=
  match l with
  | [] => None
  | (k', v) :: r => if Nat.eqb k k' then Some v else assoc_nat k r
  end.

Fixpoint assoc_types {A} (k : list nat) (l : list (list nat * A)) : option A :=
  match l with
  | [] => None
  | (k', v) :: r => if list_nat_eqb k k' then Some v else assoc_types k r
  end.

(* chain as a boolean *)
Fixpoint chainb (wb lo : nat) (l : list tok) : bool :=
  match l with
  | [] => true
  | t :: r => Nat.leb lo (tk_start t) && Nat.ltb (tk_start t) (tk_end t) && Nat.leb (tk_end t) wb
              && chainb wb (tk_end t) r
  end.

(* ---- the tables ------------------------------------------------------------------------------ *)
Definition flags := (bool * bool * bool)%type.       (* feed ok, '$END' in choices, $END trial ok *)

Record tables := mkTables {
  t_wa : nat; t_wb : nat;
  t_nls : list nat;                                  (* offsets of the newline characters of the text *)
  t_starts : list nat;                               (* offsets where a non-ignored terminal of the start lexer matches *)
  t_streams : list (nat * list tok);                 (* position -> everything the lexer matched from there (ignored included) *)
  t_parser : list (list nat * flags)                 (* terminal sequence -> parser outcome *)
}.

Definition tb_isnl (T : tables) (i : nat) : bool := mem_nat i (t_nls T).
Definition tb_starts (T : tables) (p : nat) : bool := mem_nat p (t_starts T).
Definition tb_search (T : tables) : nat -> option nat := search_of (tb_starts T) (t_wb T).
Definition tb_lex (T : tables) (m : nat) : list tok :=
  match assoc_nat m (t_streams T) with Some l => l | None => [] end.
Definition tb_flags (T : tables) (l : list tok) : flags :=
  match assoc_types (map tk_type l) (t_parser T) with Some f => f | None => (false, false, false) end.
Definition tb_feed (T : tables) (l : list tok) : bool :=
  match l with [] => true | _ => fst (fst (tb_flags T l)) end.
Definition tb_choice (T : tables) (l : list tok) : bool := snd (fst (tb_flags T l)).
Definition tb_trial (T : tables) (l : list tok) : bool := snd (tb_flags T l).

(* the value of a match is the replayed token list itself *)
Definition tb_iters (T : tables) : list iter * option nat :=
  scan_iters (tb_isnl T) (t_wa T) (t_wb T) (tb_search T) (tb_lex T) (tb_feed T) (tb_choice T) (tb_trial T).
Definition tb_scan (T : tables) : list (nat * nat * list tok) :=
  scan (list tok) (tb_isnl T) (t_wa T) (t_wb T) (tb_search T) (tb_lex T) (tb_feed T) (tb_choice T) (tb_trial T)
       (fun l => l).

(* ---- well-formedness of recorded tables (the hypotheses of the unconditional theorems) -------- *)
Fixpoint parser_functional (l : list (list nat * flags)) : bool :=
  match l with
  | [] => true
  | (k, (a, b, c)) :: r =>
      match assoc_types k r with
      | Some (a', b', c') => Bool.eqb a a' && Bool.eqb b b' && Bool.eqb c c'
      | None => true
      end && parser_functional r
  end.

Definition tables_wf (T : tables) : bool :=
  Nat.leb (t_wa T) (t_wb T)
  && forallb (fun ms => chainb (t_wb T) (fst ms) (snd ms)) (t_streams T)
  && parser_functional (t_parser T).

(* ---- one recorded run ------------------------------------------------------------------------- *)
(* a turn as observed: search position, match_start, line and line_start_pos handed to the mid-text parse,
   len(matched_tokens), number of replayed tokens *)
Definition obs_turn := (nat * nat * (nat * nat) * nat * nat)%type.

Record scase := mkCase {
  c_tables : tables;
  c_turns : list obs_turn;
  c_final : nat;                  (* position of the last search (the one that returned None) *)
  c_matches : list (nat * nat)    (* ranges yielded *)
}.

Definition turn_of (it : iter) : obs_turn :=
  (it_pos it, it_m it, (lc_line (it_lc it), lc_lsp (it_lc it)), length (it_fed it), length (it_acc it)).

Definition turn_eqb (a b : obs_turn) : bool :=
  let '(p, m, (l, s), n, k) := a in
  let '(p', m', (l', s'), n', k') := b in
  Nat.eqb p p' && Nat.eqb m m' && Nat.eqb l l' && Nat.eqb s s' && Nat.eqb n n' && Nat.eqb k k'.

Fixpoint turns_eqb (a b : list obs_turn) : bool :=
  match a, b with
  | [], [] => true
  | x :: a', y :: b' => turn_eqb x y && turns_eqb a' b'
  | _, _ => false
  end.

Fixpoint ranges_eqb (a : list (nat * nat * list tok)) (b : list (nat * nat)) : bool :=
  match a, b with
  | [], [] => true
  | (s, e, _) :: a', (s', e') :: b' => Nat.eqb s s' && Nat.eqb e e' && ranges_eqb a' b'
  | _, _ => false
  end.

Definition check_case (c : scase) : bool :=
  let T := c_tables c in
  let '(its, fin) := tb_iters T in
  tables_wf T
  && turns_eqb (map turn_of its) (c_turns c)
  && match fin with Some p => Nat.eqb p (c_final c) | None => false end
  && ranges_eqb (tb_scan T) (c_matches c).

(* ---- bounded, boolean forms of the stability hypotheses (for the concrete instances) ---------- *)
Section Bounded.
  Variable T : tables.
  Variable snips : list (nat * nat * list tok).     (* (s, e) -> tokens of text[s:e] lexed and fed alone; absent = error *)

  Fixpoint snip_lookup (s e : nat) (l : list (nat * nat * list tok)) : option (list tok) :=
    match l with
    | [] => None
    | (s', e', ts) :: r => if Nat.eqb s s' && Nat.eqb e e' then Some ts else snip_lookup s e r
    end.
  Definition tb_snip (s e : nat) : option (list tok) := snip_lookup s e snips.

  Definition tb_main (m : nat) : list tok := main_stream (tb_lex T) m.
  Definition tb_accepts (l : list tok) : bool := accepts_end (tb_choice T) (tb_trial T) l.

  Definition tb_parse_snip (s e : nat) : option (list tok) :=
    match tb_snip s e with
    | Some l => if tb_accepts l then Some l else None
    | None => None
    end.

  Definition positions : list nat := seq 0 (t_wb T + 2).

  Definition tightb (s e : nat) (l : list tok) : bool :=
    match l with
    | [] => false
    | t :: r => Nat.eqb (tk_start t) s && Nat.eqb (tk_end (last_tok t r)) e
    end.

  Definition b_chain : bool := forallb (fun m => chainb (t_wb T) m (tb_lex T m)) positions.

  Definition b_head : bool :=
    forallb (fun p => match tb_search T p with
                      | Some m => match tb_main m with t :: _ => Nat.eqb (tk_start t) m | [] => true end
                      | None => true
                      end) positions.

  Definition b_skip : bool :=
    forallb (fun p => match tb_search T p with
                      | Some m => match tb_main m with
                                  | t :: r => toks_eqb (tb_main (tk_start t)) (t :: r)
                                  | [] => true
                                  end
                      | None => true
                      end) positions.

  Definition b_starts : bool :=
    forallb (fun se => match se with
                       | (s, _, t :: _) => if Nat.eqb (tk_start t) s then tb_starts T s else true
                       | _ => true
                       end) snips.

  (* snippet -> prefix (the half that F8 breaks) *)
  Definition b_stable_snippet_to_prefix : bool :=
    forallb (fun se => let '(s, e, l) := se in
                       if tightb s e l && tb_accepts l then tb_feed T l && is_prefix l (tb_main s) else true) snips.

  (* prefix -> snippet *)
  Definition b_stable_prefix_to_snippet : bool :=
    forallb (fun m =>
      forallb (fun k => match firstn (S k) (tb_main m) with
                        | t :: r => if tb_feed T (t :: r)
                                    then match tb_snip (tk_start t) (tk_end (last_tok t r)) with
                                         | Some l' => toks_eqb l' (t :: r)
                                         | None => false
                                         end
                                    else true
                        | [] => true
                        end) (seq 0 (length (tb_main m)))) positions.

  Definition b_feed_prefix_closed : bool :=
    forallb (fun m =>
      forallb (fun k => if tb_feed T (firstn (S k) (tb_main m)) then tb_feed T (firstn k (tb_main m)) else true)
              (seq 0 (length (tb_main m)))) positions
    && forallb (fun se => let '(_, _, l) := se in
         forallb (fun k => if tb_feed T (firstn (S k) l) then tb_feed T (firstn k l) else true) (seq 0 (length l))) snips.

  (* the conclusion of scan_no_miss, as a boolean: every accepted tight snippet start is covered by a match *)
  Definition b_no_miss : bool :=
    forallb (fun se => let '(s, e, l) := se in
      if tightb s e l && tb_accepts l && Nat.leb (t_wa T) s && Nat.leb e (t_wb T)
      then existsb (fun m => let '(s', e', _) := m in Nat.leb s' s && Nat.ltb s e') (tb_scan T)
      else true) snips.
End Bounded.
