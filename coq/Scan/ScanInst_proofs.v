(* C14 - proofs about the instantiation Scan/ScanInst.v: the hypotheses of the abstract scan theorems are
   derived from the lexer / driver models and a few stated properties of the regex oracle. *)
From Coq Require Import List Arith Bool Lia ZArith.
From LV Require Import Cfg.Grammar Gen.ScanHoles Scan.Scan Scan.Scan_proofs Scan.ScanInst.
From LV Require Pos.PosBase Gen.LineCounter Gen.LexStep Pos.Coord Pos.LineCounter_proofs Pos.LexCoords
  Pos.LexCoords_proofs Pos.Repr_proofs Pos.Current Pos.TreeShift Pos.TreeShift_proofs Shape.Chain LR.Driver.
Import ListNotations.

(* ------------------------------------------------------------------------------------------ *)
(* list helpers *)
Lemma filter_prefix_split {X} (f : X -> bool) raw : forall l rest, l <> [] -> filter f raw = l ++ rest ->
  exists raw1 raw2, raw = raw1 ++ raw2 /\ filter f raw1 = l /\ raw1 <> [] /\ forall d, last raw1 d = last l d.
Proof.
  induction raw as [|x raw IH]; intros l rest Hl E; cbn [filter] in E.
  - destruct l; [contradiction | discriminate].
  - destruct (f x) eqn:Fx.
    + destruct l as [|y l]; [contradiction|]. cbn [app] in E. injection E as -> E.
      destruct l as [|z l].
      * exists [y], raw. cbn [app filter]. rewrite Fx. repeat split; auto; discriminate.
      * destruct (IH (z :: l) rest ltac:(discriminate) E) as (r1 & r2 & -> & F1 & N1 & L1).
        exists (y :: r1), r2. cbn [app filter]. rewrite Fx, F1. repeat split; auto; try discriminate.
        intros d. destruct r1 as [|a r1]; [contradiction|].
        change (last (a :: r1) d = last (z :: l) d). apply L1.
    + destruct (IH l rest Hl E) as (r1 & r2 & -> & F1 & N1 & L1).
      exists (x :: r1), r2. cbn [app filter]. rewrite Fx. repeat split; auto; try discriminate.
      intros d. destruct r1 as [|a r1]; [contradiction|].
      change (last (x :: a :: r1) d) with (last (a :: r1) d). apply L1.
Qed.

Lemma existsb_split {X} (f : X -> bool) l : existsb f l = true ->
  exists l1 x l2, l = l1 ++ x :: l2 /\ f x = true.
Proof.
  intros E. apply existsb_exists in E. destruct E as (x & I & Fx).
  apply in_split in I. destruct I as (l1 & l2 & ->). eauto.
Qed.

(* ------------------------------------------------------------------------------------------ *)
(* the position-wise lexer *)
Section RawLexProofs.
  Context {A : Type}.
  Variable scan : list nat -> list A -> Z -> Z -> option (nat * nat).
  Variable ignore : nat -> bool.
  Variable T : list A.
  Notation rawlex := (rawlex scan ignore T).

  (* properties of the regex oracle *)
  (* zero-width terminals are rejected when the lexer is built *)
  Definition scan_positive : Prop := forall h p e n ty,
    scan h T (Z.of_nat p) (Z.of_nat e) = Some (n, ty) -> 0 < n.
  (* the engine honours endpos *)
  Definition scan_bounded : Prop := forall h p e n ty,
    scan h T (Z.of_nat p) (Z.of_nat e) = Some (n, ty) -> p + n <= e.
  (* no look-ahead: cutting the text anywhere after the end of a match does not change the match *)
  Definition scan_endfree : Prop := forall h p e e' n ty,
    scan h T (Z.of_nat p) (Z.of_nat e') = Some (n, ty) -> p + n <= e -> e <= e' ->
    scan h T (Z.of_nat p) (Z.of_nat e) = Some (n, ty).

  Lemma rawlex_step f h p e :
    rawlex (S f) h p e =
    if p <? e then
      match scan h T (Z.of_nat p) (Z.of_nat e) with
      | None => ([], RErr p)
      | Some (n, ty) =>
          (mkTok ty p (p + n) (ignore ty)
             :: fst (rawlex f (if ignore ty then h else ty :: h) (p + n) e),
           snd (rawlex f (if ignore ty then h else ty :: h) (p + n) e))
      end
    else ([], RDone).
  Proof. cbn [ScanInst.rawlex]. destruct (p <? e); [|reflexivity]. destruct (scan _ _ _ _) as [[n ty]|]; reflexivity. Qed.

  Hypothesis Hpos : scan_positive.
  Hypothesis Hbnd : scan_bounded.

  (* the tokens tile [p, ...) inside the window: the chain hypothesis of the abstract theorems *)
  Lemma rawlex_chain e f : forall h p, p <= e -> chain e p (fst (rawlex f h p e)).
  Proof.
    induction f as [|f IH]; intros h p L; [exact I|].
    rewrite rawlex_step. destruct (p <? e) eqn:Lt; [|exact I].
    destruct (scan h T (Z.of_nat p) (Z.of_nat e)) as [[n ty]|] eqn:Es; [|exact I].
    pose proof (Hpos _ _ _ _ _ Es). pose proof (Hbnd _ _ _ _ _ Es).
    cbn [fst chain tk_start tk_end]. repeat split; try lia. apply IH. lia.
  Qed.

  Lemma chain_mono_wb wb wb' lo l : wb <= wb' -> chain wb lo l -> chain wb' lo l.
  Proof.
    intros L. revert lo. induction l as [|t l IH]; intros lo; cbn [chain]; [tauto|].
    intros (H1 & H2 & H3 & H4). repeat split; auto; lia.
  Qed.

  (* enough fuel is enough *)
  Lemma rawlex_fuel e f1 : forall f2 h p, e - p < f1 -> e - p < f2 -> rawlex f1 h p e = rawlex f2 h p e.
  Proof.
    induction f1 as [|f1 IH]; intros f2 h p L1 L2; [lia|]. destruct f2 as [|f2]; [lia|].
    rewrite !rawlex_step. destruct (p <? e) eqn:Lt; [|reflexivity].
    destruct (scan h T (Z.of_nat p) (Z.of_nat e)) as [[n ty]|] eqn:Es; [|reflexivity].
    pose proof (Hpos _ _ _ _ _ Es). apply Nat.ltb_lt in Lt.
    rewrite (IH f2); [reflexivity | lia | lia].
  Qed.

  (* lexing from the start of the first non-ignored token gives the same stream without the ignored prefix *)
  Lemma rawlex_skip e pre : forall f h p t rest o, e - p < f ->
    rawlex f h p e = (pre ++ t :: rest, o) -> Forall (fun u => tk_ign u = true) pre ->
    forall f', e - tk_start t < f' -> rawlex f' h (tk_start t) e = (t :: rest, o).
  Proof.
    induction pre as [|x pre IH]; intros f h p t rest o Lf E Fp f' Lf'.
    - destruct f as [|f]; [lia|]. pose proof E as E0. rewrite rawlex_step in E.
      destruct (p <? e); [|discriminate]. destruct (scan h T (Z.of_nat p) (Z.of_nat e)) as [[n ty]|] eqn:Es; [|discriminate].
      cbn [app] in E. assert (St : tk_start t = p) by (injection E as <- _ _; reflexivity).
      rewrite St in *. cbn [app] in E0. rewrite <- E0. apply rawlex_fuel; lia.
    - destruct f as [|f]; [lia|]. rewrite rawlex_step in E.
      destruct (p <? e) eqn:Lt; [|discriminate]. apply Nat.ltb_lt in Lt.
      destruct (scan h T (Z.of_nat p) (Z.of_nat e)) as [[n ty]|] eqn:Es; [|discriminate].
      pose proof (Hpos _ _ _ _ _ Es).
      cbn [app] in E. injection E as Ex E1 E2.
      pose proof (Forall_inv Fp) as Gx. pose proof (Forall_inv_tail Fp) as Fp'. cbn beta in Gx.
      rewrite <- Ex in Gx. cbn [tk_ign] in Gx. rewrite Gx in E1, E2.
      apply (IH f h (p + n) t rest o); auto; [lia|].
      destruct (rawlex f h (p + n) e) as [a b]. cbn [fst snd] in *. congruence.
  Qed.

  Hypothesis Hend : scan_endfree.

  (* if e is a token boundary of lexing [p, wb), then lexing [p, e) gives exactly the tokens up to e *)
  Lemma rawlex_restrict wb e l1 : forall f h p l2 o, wb - p < f -> p <= e -> e <= wb ->
    rawlex f h p wb = (l1 ++ l2, o) ->
    (l1 = [] -> e = p) -> (forall d, l1 <> [] -> tk_end (last l1 d) = e) ->
    forall f', e - p < f' -> rawlex f' h p e = (l1, RDone).
  Proof.
    induction l1 as [|t l1 IH]; intros f h p l2 o Lf L1 L2 E N0 N1 f' Lf'.
    - rewrite (N0 eq_refl). destruct f' as [|f']; [lia|]. rewrite rawlex_step, Nat.ltb_irrefl. reflexivity.
    - destruct f as [|f]; [lia|].
      pose proof (rawlex_chain wb (S f) h p ltac:(lia)) as C. rewrite E in C. cbn [fst] in C.
      rewrite rawlex_step in E.
      destruct (p <? wb) eqn:Lt; [|discriminate]. apply Nat.ltb_lt in Lt.
      destruct (scan h T (Z.of_nat p) (Z.of_nat wb)) as [[n ty]|] eqn:Es; [|discriminate].
      pose proof (Hpos _ _ _ _ _ Es) as Hn.
      cbn [app] in E. injection E as Et E1 E2.
      (* the first token ends before e *)
      assert (Le : p + n <= e).
      { change (t :: l1 ++ l2) with ((t :: l1) ++ l2) in C. apply chain_app_l in C. apply chain_last in C.
        specialize (N1 t ltac:(discriminate)). rewrite last_cons in N1.
        assert (tk_end t = p + n) by (rewrite <- Et; reflexivity). lia. }
      pose proof (Hend _ _ _ _ _ _ Es Le L2) as Es'.
      destruct f' as [|f']; [lia|]. rewrite rawlex_step.
      assert (Lt' : p <? e = true) by (apply Nat.ltb_lt; lia). rewrite Lt', Es'.
      assert (R : rawlex f' (if ignore ty then h else ty :: h) (p + n) e = (l1, RDone)).
      { apply (IH f _ (p + n) l2 o); try lia.
        - destruct (rawlex f (if ignore ty then h else ty :: h) (p + n) wb) as [a b]. cbn [fst snd] in *. congruence.
        - intros ->. specialize (N1 t ltac:(discriminate)). cbn [last] in N1.
          assert (tk_end t = p + n) by (rewrite <- Et; reflexivity). lia.
        - intros d Nl. specialize (N1 d ltac:(discriminate)). destruct l1 as [|a l1]; [contradiction|].
          change (last (t :: a :: l1) d) with (last (a :: l1) d) in N1. exact N1. }
      rewrite R. cbn [fst snd]. rewrite Et. reflexivity.
  Qed.
End RawLexProofs.

(* ------------------------------------------------------------------------------------------ *)
(* the driver side: pure facts about LR/Driver through TreeShift.run_tokens *)
Section DriverFacts.
  Context {A : Type}.
  Variable tnum : nat -> nat.
  Variable P : Driver.ptable.
  Variable fuel : nat.
  Notation ltoken := (LexCoords.token A nat).
  Notation run := (TreeShift.run_tokens (A := A) tnum P fuel).

  Definition shifted (o : Driver.outcome ltoken) : bool :=
    match o with Driver.Shifted _ => true | _ => false end.

  (* feeding is prefix-closed: if x ++ y can be fed, so can x; and feeding x ++ y is feeding y from where
     x left the parser (the parser a trial was made on is a value: a trial cannot disturb it) *)
  Lemma run_tokens_app x : forall c y,
    run c (x ++ y) =
    match run c x with
    | (Driver.Shifted c', _) => run c' y
    | r => r
    end.
  Proof.
    induction x as [|k x IH]; intros c y; [reflexivity|].
    cbn [app TreeShift.run_tokens].
    destruct (Driver.feed ltoken (TreeShift.ttype tnum) P fuel c k false); try reflexivity. apply IH.
  Qed.

  Lemma run_tokens_prefix x y c : shifted (fst (run c (x ++ y))) = true -> shifted (fst (run c x)) = true.
  Proof.
    rewrite run_tokens_app. destruct (run c x) as [[c'| | | | |] k]; cbn [fst shifted]; auto.
  Qed.

  (* an accepted $END has an entry in the current row *)
  Lemma feed_end_accepted c k d :
    Driver.feed ltoken (TreeShift.ttype tnum) P fuel c k true = Driver.Accepted d ->
    exists q ss a, Driver.sstack c = q :: ss /\ Driver.pt_action P q (Grammar.T (TreeShift.ttype tnum k)) = Some a.
  Proof.
    destruct fuel as [|f]; cbn [Driver.feed]; [discriminate|].
    destruct (Driver.sstack c) as [|q ss]; [discriminate|].
    destruct (Driver.pt_action P q (Grammar.T (TreeShift.ttype tnum k))) as [a|] eqn:Ea; [|discriminate].
    intros _. exists q, ss, a. split; [reflexivity | exact Ea].
  Qed.
End DriverFacts.

(* ------------------------------------------------------------------------------------------ *)
Section InstProofs.
  Context {A : Type}.
  Variable eqb : A -> A -> bool.
  Variable nl : A.
  Variable scan : list nat -> list A -> Z -> Z -> option (nat * nat).
  Variable ignore newline_types : nat -> bool.
  Variable T : list A.
  Variable wa wb : nat.
  Variable starts : nat -> bool.
  Variable rr : rule -> Chain.rrec.
  Variable mp : bool.
  Variable tnum : nat -> nat.
  Variable end_term : nat.
  Variable P : Driver.ptable.
  Variable fuel : nat.

  Notation ltoken := (LexCoords.token A nat).
  Notation presult := (TreeShift.presult A nat).
  Notation rawlex := (ScanInst.rawlex scan ignore T).
  Notation lexI := (ScanInst.lexI scan ignore T wb).
  Notation retok := (ScanInst.retok eqb nl T).
  Notation drive := (ScanInst.drive eqb nl T tnum P fuel).
  Notation feed_okI := (ScanInst.feed_okI eqb nl T tnum P fuel).
  Notation end_tokenI := (ScanInst.end_tokenI eqb nl T end_term).
  Notation end_choiceI := (ScanInst.end_choiceI eqb nl T tnum end_term P fuel).
  Notation end_trialI := (ScanInst.end_trialI eqb nl T tnum end_term P fuel).
  Notation parse_tokensI := (ScanInst.parse_tokensI eqb nl T rr mp tnum end_term P fuel).
  Notation searchI := (ScanInst.searchI wb starts).
  Notation snip_tokensI := (ScanInst.snip_tokensI eqb nl scan ignore T tnum P fuel).
  Notation boundaryb := (ScanInst.boundaryb scan ignore T wb).
  Notation snip_tokensB := (ScanInst.snip_tokensB eqb nl scan ignore T wb tnum P fuel).
  Notation isnlI := (ScanInst.isnlI eqb nl T).
  Notation itersI := (ScanInst.itersI eqb nl scan ignore T wa wb starts tnum end_term P fuel).
  Notation scanI := (ScanInst.scanI eqb nl scan ignore T wa wb starts rr mp tnum end_term P fuel).
  Notation parse_windowI := (ScanInst.parse_windowI eqb nl scan ignore newline_types T rr mp tnum end_term P fuel).
  Notation acceptsI := (accepts_end end_choiceI end_trialI).

  Hypothesis Hpos : scan_positive scan T.
  Hypothesis Hbnd : scan_bounded scan T.

  (* ---- (1) the chain / bounds hypotheses ---------------------------------------------------- *)
  Lemma lexI_chain m : chain wb m (lexI m).
  Proof.
    unfold ScanInst.lexI, lex_fromI. destruct (le_lt_dec m wb) as [L|L].
    - apply rawlex_chain; auto.
    - rewrite rawlex_step. assert (E : m <? wb = false) by (apply Nat.ltb_ge; lia). rewrite E. exact I.
  Qed.

  Lemma searchI_range p m : searchI p = Some m -> p <= m /\ m <= wb.
  Proof. apply search_of_range. Qed.

  Lemma searchI_lt p m : searchI p = Some m -> m < wb /\ starts m = true.
  Proof.
    unfold ScanInst.searchI, search_of. intros E. apply find_from_some in E. split; [lia | tauto].
  Qed.

  (* ---- (2) the driver hypotheses -------------------------------------------------------------- *)
  Lemma feed_okI_prefix_closed : H_feed_prefix_closed feed_okI.
  Proof.
    intros x y. unfold ScanInst.feed_okI, ScanInst.drive. rewrite map_app. intros H.
    pose proof (run_tokens_prefix tnum P fuel (map retok x) (map retok y) (Driver.init_config P)) as Q.
    unfold shifted in Q.
    destruct (fst (TreeShift.run_tokens tnum P fuel (Driver.init_config P) (map retok x ++ map retok y)));
      try discriminate.
    specialize (Q eq_refl).
    destruct (fst (TreeShift.run_tokens tnum P fuel (Driver.init_config P) (map retok x))); try discriminate.
    reflexivity.
  Qed.

  Lemma end_token_type l : TreeShift.ttype tnum (end_tokenI l) = tnum end_term.
  Proof. unfold ScanInst.end_tokenI, TreeShift.end_token, TreeShift.ttype. destruct (TreeShift.last_tok _); reflexivity. Qed.

  (* '$END' in choices() is implied by a successful trial: the guard only saves work *)
  Lemma acceptsI_trial l : acceptsI l = end_trialI l.
  Proof.
    unfold accepts_end, ScanInst.end_choiceI, ScanInst.end_trialI.
    destruct (fst (drive l)) as [c| | | | |]; try reflexivity.
    destruct (Driver.feed ltoken (TreeShift.ttype tnum) P fuel c (end_tokenI l) true) as [|d| | | |] eqn:E;
      try apply andb_false_r.
    apply feed_end_accepted in E. destruct E as (q & ss & a & -> & Ea).
    rewrite end_token_type in Ea. rewrite Ea. reflexivity.
  Qed.

  (* ---- (3) stability of lexing ------------------------------------------------------------------ *)
  Hypothesis Hend : scan_endfree scan T.

  Lemma main_stream_filter m : main_stream lexI m = filter nonign (lexI m).
  Proof. reflexivity. Qed.

  Lemma lexI_raw m : exists o, rawlex (S (wb - m)) [] m wb = (lexI m, o).
  Proof. unfold ScanInst.lexI, lex_fromI. destruct (rawlex (S (wb - m)) [] m wb) as [a b]. eauto. Qed.

  Lemma nonign_false_ign pre : Forall (fun y => nonign y = false) pre -> Forall (fun u => tk_ign u = true) pre.
  Proof. apply Forall_impl. intros u. unfold nonign. destruct (tk_ign u); [reflexivity | discriminate]. Qed.

  (* prefix -> snippet: needs only that the regex oracle has no look-ahead *)
  Lemma stable_prefix_to_snippet : H_stable_prefix_to_snippet lexI feed_okI snip_tokensI.
  Proof.
    intros m l rest t r Em El Fl. rewrite main_stream_filter in Em.
    destruct (filter_prefix_split nonign (lexI m) l rest ltac:(rewrite El; discriminate) Em)
      as (raw1 & raw2 & Eraw & F1 & N1 & L1).
    rewrite El in F1. destruct (filter_cons_split _ _ _ _ F1) as (pre & post & -> & Fpre & Ft & Fpost).
    apply nonign_false_ign in Fpre.
    destruct (lexI_raw m) as (o & Er). rewrite Eraw, <- app_assoc in Er. cbn [app] in Er.
    (* bounds of t and of the last token *)
    pose proof (lexI_chain m) as C. rewrite Eraw in C.
    assert (It : In t (lexI m)) by (rewrite Eraw; apply in_or_app; left; apply in_or_app; right; left; reflexivity).
    rewrite <- Eraw in C. pose proof (chain_in_bounds _ _ _ _ C It) as Bt.
    set (s := tk_start t) in *.
    pose proof (rawlex_skip scan ignore T Hpos wb pre (S (wb - m)) [] m t (post ++ raw2) o ltac:(lia) Er Fpre
                  (S (wb - s)) ltac:(lia)) as Es. fold s in Es.
    pose proof (rawlex_chain scan ignore T Hpos Hbnd wb (S (wb - s)) [] s ltac:(lia)) as Cs.
    rewrite Es in Cs. cbn [fst] in Cs.
    change (t :: post ++ raw2) with ((t :: post) ++ raw2) in Cs, Es.
    pose proof (chain_app_l _ _ _ _ Cs) as Cl. apply chain_last in Cl.
    (* the end of the snippet is the end of the last raw token of the prefix *)
    assert (Elast : last post t = last_tok t r).
    { unfold last_tok. specialize (L1 t). rewrite El in L1. rewrite last_app_nonempty in L1 by discriminate.
      rewrite !last_cons in L1. exact L1. }
    set (e := tk_end (last_tok t r)) in *.
    pose proof (rawlex_restrict scan ignore T Hpos Hbnd Hend wb e (t :: post) (S (wb - s)) [] s raw2 o
                  ltac:(lia) ltac:(unfold e; rewrite <- Elast; lia) ltac:(unfold e; rewrite <- Elast; lia) Es
                  ltac:(discriminate) ltac:(intros d _; rewrite last_cons, Elast; reflexivity)
                  (S (e - s)) ltac:(lia)) as Rr.
    unfold ScanInst.snip_tokensI. fold s e. rewrite Rr. cbn [filter]. rewrite Ft, Fpost, <- El, Fl. reflexivity.
  Qed.

  (* snippet -> prefix, for the snippets whose end is a token boundary of lexing the rest of the text (F8 exclusion) *)
  Lemma stable_snippet_to_prefix : H_stable_snippet_to_prefix lexI feed_okI end_choiceI end_trialI snip_tokensB.
  Proof.
    intros s e l Es Ti _. unfold ScanInst.snip_tokensB in Es.
    destruct ((e <=? wb) && boundaryb s e) eqn:G; [|discriminate]. apply andb_true_iff in G. destruct G as (Le & Bd).
    apply Nat.leb_le in Le. unfold ScanInst.boundaryb in Bd.
    destruct (existsb_split _ _ Bd) as (a & x & l2 & Eraw & Ex). apply Nat.eqb_eq in Ex.
    pose proof (lexI_chain s) as C.
    assert (Ix : In x (lexI s)) by (rewrite Eraw; apply in_or_app; right; left; reflexivity).
    pose proof (chain_in_bounds _ _ _ _ C Ix) as Bx.
    destruct (lexI_raw s) as (o & Er). rewrite Eraw in Er.
    replace (a ++ x :: l2) with ((a ++ [x]) ++ l2) in Er, Eraw by (rewrite <- app_assoc; reflexivity).
    pose proof (rawlex_restrict scan ignore T Hpos Hbnd Hend wb e (a ++ [x]) (S (wb - s)) [] s l2 o
                  ltac:(lia) ltac:(lia) Le Er
                  ltac:(intros E0; destruct a; discriminate) ltac:(intros d _; rewrite last_last; exact Ex)
                  (S (e - s)) ltac:(lia)) as Rr.
    unfold ScanInst.snip_tokensI in Es. rewrite Rr in Es.
    destruct (feed_okI (filter nonign (a ++ [x]))) eqn:Fo; [|discriminate]. injection Es as <-.
    split; [exact Fo|]. exists (filter nonign l2). rewrite main_stream_filter, Eraw. apply filter_app.
  Qed.

  (* lexing from the first token's start gives the same stream (the lexer is memoryless in the start state) *)
  Lemma skipI : H_skip searchI lexI.
  Proof.
    intros p m t r _ Em. rewrite main_stream_filter in Em.
    destruct (filter_cons_split _ _ _ _ Em) as (pre & post & Eraw & Fpre & Ft & Fpost).
    apply nonign_false_ign in Fpre.
    destruct (lexI_raw m) as (o & Er). rewrite Eraw in Er.
    pose proof (lexI_chain m) as C.
    assert (It : In t (lexI m)) by (rewrite Eraw; apply in_or_app; right; left; reflexivity).
    pose proof (chain_in_bounds _ _ _ _ C It) as Bt.
    pose proof (rawlex_skip scan ignore T Hpos wb pre (S (wb - m)) [] m t post o ltac:(lia) Er Fpre
                  (S (wb - tk_start t)) ltac:(lia)) as Es.
    rewrite main_stream_filter. unfold ScanInst.lexI, lex_fromI. rewrite Es. cbn [fst filter]. rewrite Ft, Fpost.
    reflexivity.
  Qed.

  (* ---- the F28 exclusion and the search scanner ---------------------------------------------- *)
  (* wherever the search scanner matches, the lexer's scanner yields a non-ignored terminal *)
  Definition H_nonignored_wins : Prop := forall m, m < wb -> starts m = true ->
    exists n ty, scan [] T (Z.of_nat m) (Z.of_nat wb) = Some (n, ty) /\ ignore ty = false.
  (* the search scanner knows every non-ignored terminal the start-state lexer can produce *)
  Definition H_search_covers : Prop := forall s e n ty, e <= wb ->
    scan [] T (Z.of_nat s) (Z.of_nat e) = Some (n, ty) -> ignore ty = false -> starts s = true.

  Lemma headI : H_nonignored_wins -> H_head searchI lexI.
  Proof.
    intros Hw p m t r Sr Em. destruct (searchI_lt _ _ Sr) as (Lm & Sm).
    destruct (Hw m Lm Sm) as (n & ty & Es & Ig).
    rewrite main_stream_filter in Em. unfold ScanInst.lexI, lex_fromI in Em. rewrite rawlex_step in Em.
    assert (E : m <? wb = true) by (apply Nat.ltb_lt; lia). rewrite E, Es, Ig in Em.
    cbn [fst filter nonign tk_ign negb] in Em. injection Em as <- _. reflexivity.
  Qed.

  Lemma startsI : H_search_covers -> H_starts starts snip_tokensB.
  Proof.
    intros Hc s e t r Es St. unfold ScanInst.snip_tokensB in Es.
    destruct ((e <=? wb) && boundaryb s e) eqn:G; [|discriminate]. apply andb_true_iff in G. destruct G as (Le & _).
    apply Nat.leb_le in Le. unfold ScanInst.snip_tokensI in Es.
    destruct (rawlex (S (e - s)) [] s e) as [ts o] eqn:Er. destruct o; try discriminate.
    destruct (feed_okI (filter nonign ts)); [|discriminate]. injection Es as Ef.
    rewrite rawlex_step in Er. destruct (s <? e) eqn:Lt; [|injection Er as <-; discriminate].
    apply Nat.ltb_lt in Lt.
    destruct (scan [] T (Z.of_nat s) (Z.of_nat e)) as [[n ty]|] eqn:Esc; [|discriminate].
    pose proof (Hpos _ _ _ _ _ Esc) as Hn.
    injection Er as Ets _.
    pose proof (rawlex_chain scan ignore T Hpos Hbnd e (e - s) (if ignore ty then [] else [ty]) (s + n)
                  ltac:(pose proof (Hbnd _ _ _ _ _ Esc); lia)) as C.
    rewrite <- Ets in Ef. cbn [filter] in Ef. unfold nonign at 1 in Ef. cbn [tk_ign] in Ef.
    destruct (ignore ty) eqn:Ig; cbn [negb] in Ef.
    - (* the first raw token is ignored: t comes later and cannot start at s *)
      exfalso. assert (It : In t (filter nonign (fst (rawlex (e - s) [] (s + n) e)))) by (rewrite Ef; left; reflexivity).
      apply filter_In in It. destruct It as (It & _).
      pose proof (chain_in_bounds _ _ _ _ C It). lia.
    - eapply Hc; eauto.
  Qed.

  (* ---- (4) the link with parse() on a window: Pos/LexCoords + Pos/TreeShift ------------------ *)
  Hypothesis HwbT : wb <= length T.

  Definition outI (r : rend) : LexCoords.outcome :=
    match r with
    | RDone => LexCoords.Done
    | RErr q => LexCoords.Unexpected (Z.of_nat q) (Coord.line_of eqb nl T q) (Coord.col_of eqb nl T q)
    | RFuel => LexCoords.OutOfFuel
    end.

  (* the lexer of Pos/LexCoords, run from a counter with exact coordinates, is [rawlex] with the ignored tokens
     dropped and every token carrying the coordinates of the buffer *)
  Lemma lex_loop_rawlex e (He : e <= length T) f : forall h p c, p <= e -> Coord.at_coord eqb nl T p c ->
    LexCoords.lex_loop eqb nl scan ignore newline_types f h T (Z.of_nat e) c =
    (map retok (filter nonign (fst (rawlex f h p e))), outI (snd (rawlex f h p e))).
  Proof.
    induction f as [|f IH]; intros h p c Lp Hc; [reflexivity|].
    cbn [LexCoords.lex_loop]. unfold LexCoords.lex_step. rewrite rawlex_step.
    pose proof Hc as (Hcp & Hln & Hcol & _). rewrite Hcp. unfold LexStep.h_more.
    destruct (Nat.ltb_spec p e) as [Lt|Ge]; destruct (Z.ltb_spec (Z.of_nat p) (Z.of_nat e)) as [Lt'|Ge']; try lia;
      [|reflexivity].
    destruct (scan h T (Z.of_nat p) (Z.of_nat e)) as [[n ty]|] eqn:Es.
    2:{ cbn [fst snd filter map outI]. rewrite Hcp, Hln, Hcol. reflexivity. }
    pose proof (Hbnd _ _ _ _ _ Es) as Hb.
    rewrite LexCoords_proofs.slice_len.
    set (value := firstn n (skipn p T)).
    assert (Hc' : Coord.at_coord eqb nl T (p + n)
                    (LineCounter.feed eqb nl c value (LexStep.h_testnl newline_types ty))).
    { apply LineCounter_proofs.feed_tracks_coord; [lia | exact Hc | left; apply Current.h_testnl_true]. }
    set (c' := LineCounter.feed eqb nl c value (LexStep.h_testnl newline_types ty)) in *. clearbody c'.
    destruct (ignore ty) eqn:Ig.
    - rewrite (IH h (p + n) c' ltac:(lia) Hc'). cbn [fst snd filter nonign tk_ign negb]. reflexivity.
    - cbn [LexCoords.t_type]. rewrite (IH (ty :: h) (p + n) c' ltac:(lia) Hc').
      cbn [fst snd filter nonign tk_ign negb map]. f_equal. f_equal.
      destruct Hc' as (Hcp' & Hln' & Hcol' & _).
      unfold ScanInst.retok. cbn [tk_type tk_start tk_end].
      replace (p + n - p) with n by lia. fold value. f_equal; congruence.
  Qed.

  Lemma lex_slice_rawlex s e snap : s <= e -> e <= length T ->
    (snap = None \/ snap = Some (Coord.line_of eqb nl T s, Coord.line_start_of eqb nl T s)) ->
    LexCoords.lex_slice eqb nl scan ignore newline_types T (Z.of_nat s) (Z.of_nat e) snap =
    (map retok (filter nonign (fst (rawlex (S (e - s)) [] s e))), outI (snd (rawlex (S (e - s)) [] s e))).
  Proof.
    intros L1 L2 Hs. unfold LexCoords.lex_slice.
    replace (Z.to_nat (Z.of_nat e - Z.of_nat s)) with (e - s) by lia.
    apply lex_loop_rawlex; [exact L2 | exact L1 |].
    apply LineCounter_proofs.from_text_slice_coord; [lia | exact Hs].
  Qed.

  (* parse() on the window of a snippet that lexes and feeds is the replay of its tokens *)
  Lemma parse_window_snip s e l : s <= e -> e <= length T ->
    snip_tokensI s e = Some l -> parse_windowI s e = parse_tokensI l.
  Proof.
    intros L1 L2 Es. unfold ScanInst.parse_windowI, TreeShift.parse_slice.
    rewrite (lex_slice_rawlex s e None L1 L2 (or_introl eq_refl)).
    unfold ScanInst.snip_tokensI in Es.
    destruct (rawlex (S (e - s)) [] s e) as [ts o]. destruct o; try discriminate.
    destruct (feed_okI (filter nonign ts)); [|discriminate]. injection Es as <-. reflexivity.
  Qed.

  Lemma parse_tokens_tree_trial l v : parse_tokensI l = TreeShift.RTree v -> end_trialI l = true.
  Proof.
    unfold ScanInst.parse_tokensI, TreeShift.parse_tokens, ScanInst.end_trialI, ScanInst.drive, ScanInst.end_tokenI.
    destruct (TreeShift.run_tokens tnum P fuel (Driver.init_config P) (map retok l)) as [[c| | | | |] k];
      cbn [fst]; try (destruct k; discriminate).
    destruct (Driver.feed ltoken (TreeShift.ttype tnum) P fuel c
                (TreeShift.end_token end_term (TreeShift.last_tok (map retok l))) true); try discriminate.
    reflexivity.
  Qed.

  (* what a match value is: the tree built from the accepted derivation (RCrash iff a callback failed) *)
  Lemma parse_tokens_accepted l : end_trialI l = true ->
    exists d, parse_tokensI l = match TreeShift.tree_of rr mp d with
                                | Some v => TreeShift.RTree v
                                | None => TreeShift.RCrash
                                end.
  Proof.
    unfold ScanInst.parse_tokensI, TreeShift.parse_tokens, ScanInst.end_trialI, ScanInst.drive, ScanInst.end_tokenI.
    destruct (TreeShift.run_tokens tnum P fuel (Driver.init_config P) (map retok l)) as [[c| | | | |] k];
      cbn [fst]; try discriminate.
    destruct (Driver.feed ltoken (TreeShift.ttype tnum) P fuel c
                (TreeShift.end_token end_term (TreeShift.last_tok (map retok l))) true) as [|d| | | |];
      try discriminate.
    intros _. exists d. reflexivity.
  Qed.

  Hypothesis Hwin : wa <= wb.

  Lemma ordered_in (value : Type) lo (l : list (nat * nat * value)) s e v :
    ordered value wb lo l -> In (s, e, v) l -> lo <= s /\ s < e /\ e <= wb.
  Proof.
    revert lo. induction l as [|[[s' e'] v'] l IH]; intros lo; cbn [ordered In]; [tauto|].
    intros (H1 & H2 & H3 & H4) [[= -> -> ->]|I]; [lia|]. specialize (IH _ H4 I). lia.
  Qed.

  (* ---- the line counter of the scan model is the coordinate specification of Pos/Coord ------------------ *)
  Lemma skipn_nth_some {X} (l : list X) : forall lo x, nth_error l lo = Some x -> skipn lo l = x :: skipn (S lo) l.
  Proof.
    induction l as [|y l IH]; intros lo x; destruct lo as [|lo]; cbn [nth_error skipn]; try discriminate.
    - intros [= ->]. reflexivity.
    - intros E. rewrite (IH lo x E). reflexivity.
  Qed.

  Lemma skipn_nth_none {X} (l : list X) lo : nth_error l lo = None -> skipn lo l = [].
  Proof. intros E. apply nth_error_None in E. apply skipn_all2. exact E. Qed.

  Lemma count_nl_bridge n : forall lo,
    Scan.count_nl isnlI lo n = PosBase.count_nl eqb nl (firstn n (skipn lo T)).
  Proof.
    induction n as [|n IH]; intros lo; [reflexivity|].
    cbn [Scan.count_nl]. unfold ScanInst.isnlI at 1. rewrite IH.
    destruct (nth_error T lo) as [x|] eqn:E.
    - rewrite (skipn_nth_some T lo x E). cbn [firstn PosBase.count_nl]. reflexivity.
    - rewrite (skipn_nth_none T lo E). rewrite (skipn_nth_none T (S lo)).
      + rewrite !firstn_nil. reflexivity.
      + apply nth_error_None. apply nth_error_None in E. lia.
  Qed.

  Lemma last_nl_bridge n : forall lo,
    Scan.last_nl isnlI lo n = option_map (fun i => lo + i) (PosBase.rindex_nl eqb nl (firstn n (skipn lo T))).
  Proof.
    induction n as [|n IH]; intros lo; [reflexivity|].
    cbn [Scan.last_nl]. rewrite IH. unfold ScanInst.isnlI.
    destruct (nth_error T lo) as [x|] eqn:E.
    - rewrite (skipn_nth_some T lo x E). cbn [firstn PosBase.rindex_nl].
      destruct (PosBase.rindex_nl eqb nl (firstn n (skipn (S lo) T))) as [i|]; cbn [option_map].
      + f_equal. lia.
      + destruct (eqb x nl); cbn [option_map]; [f_equal; lia | reflexivity].
    - rewrite (skipn_nth_none T lo E). rewrite (skipn_nth_none T (S lo)).
      + rewrite !firstn_nil. reflexivity.
      + apply nth_error_None. apply nth_error_None in E. lia.
  Qed.

  Lemma coord_bridge p : p <= length T ->
    Z.of_nat (Scan.line_of isnlI p) = Coord.line_of eqb nl T p /\
    Z.of_nat (Scan.lsp_of isnlI p) = Coord.line_start_of eqb nl T p.
  Proof.
    intros Lp. unfold Scan.line_of, Scan.lsp_of, Coord.line_of, Coord.line_start_of.
    rewrite count_nl_bridge, last_nl_bridge. cbn [skipn]. split; [reflexivity|].
    set (b := firstn p T). assert (Lb : length b = p) by (apply firstn_length_le; exact Lp).
    destruct (Nat.eq_dec (PosBase.count_nl eqb nl b) 0) as [Z0|N0].
    - rewrite (LineCounter_proofs.tail_len_nonl eqb nl b Z0), Lb.
      destruct (PosBase.rindex_nl eqb nl b) as [i|] eqn:E; cbn [option_map]; [|lia].
      exfalso. destruct (LineCounter_proofs.rindex_nl_split eqb nl b i E) as (b1 & x & b2 & Eb & _ & X & _).
      rewrite Eb, LineCounter_proofs.count_nl_app in Z0. cbn [PosBase.count_nl] in Z0. rewrite X in Z0. lia.
    - destruct (LineCounter_proofs.rindex_tail eqb nl b N0) as (i & -> & Li & ->). cbn [option_map]. lia.
  Qed.

  (* the mid-text lexer the loop starts - with the line-counter snapshot the loop itself computed - is the lexer
     model of Pos/LexCoords on the window [match_start, wb), and yields exactly the main stream of the turn with
     the coordinates of the full text *)
  Theorem loop_lexer_exact it : In it (fst itersI) ->
    let m := it_m it in
    (Z.of_nat (lc_line (it_lc it)), Z.of_nat (lc_lsp (it_lc it)))
      = (Coord.line_of eqb nl T m, Coord.line_start_of eqb nl T m) /\
    LexCoords.lex_slice eqb nl scan ignore newline_types T (Z.of_nat m) (Z.of_nat wb)
      (Some (Z.of_nat (lc_line (it_lc it)), Z.of_nat (lc_lsp (it_lc it)))) =
    (map retok (main_stream lexI m), outI (snd (rawlex (S (wb - m)) [] m wb))).
  Proof.
    intros I m.
    pose proof (scan_positions_global isnlI wa wb searchI lexI feed_okI end_choiceI end_trialI
                  searchI_range lexI_chain Hwin) as G.
    rewrite Forall_forall in G. specialize (G it I).
    pose proof (scan_longest_wrt_tokens isnlI wa wb searchI lexI feed_okI end_choiceI end_trialI) as K.
    rewrite Forall_forall in K. destruct (K it I) as (Sr & _). apply searchI_range in Sr. fold m in Sr, G.
    destruct (coord_bridge m ltac:(lia)) as (B1 & B2).
    assert (E : (Z.of_nat (lc_line (it_lc it)), Z.of_nat (lc_lsp (it_lc it)))
                = (Coord.line_of eqb nl T m, Coord.line_start_of eqb nl T m)).
    { rewrite G. cbn [Scan.coord lc_line lc_lsp]. rewrite B1, B2. reflexivity. }
    split; [exact E|]. rewrite E.
    rewrite (lex_slice_rawlex m wb _ ltac:(lia) HwbT (or_intror eq_refl)). reflexivity.
  Qed.

  (* ---- the instantiated theorems ------------------------------------------------------------------ *)
  Theorem scan_value_eq_parse_inst s e v : In (s, e, v) scanI ->
    wa <= s /\ s < e /\ e <= wb /\
    parse_windowI s e = v /\
    exists l d, snip_tokensI s e = Some l /\ end_trialI l = true /\
                v = match TreeShift.tree_of rr mp d with Some t => TreeShift.RTree t | None => TreeShift.RCrash end.
  Proof.
    intros I.
    pose proof (scan_ordered presult isnlI wa wb searchI lexI feed_okI end_choiceI end_trialI parse_tokensI
                  searchI_range lexI_chain Hwin) as (O & _).
    destruct (ordered_in _ _ _ _ _ _ O I) as (B1 & B2 & B3).
    pose proof (scan_value_eq_parse presult isnlI wa wb searchI lexI feed_okI end_choiceI end_trialI parse_tokensI
                  Hwin snip_tokensI stable_prefix_to_snippet s e v I) as Pv.
    unfold parse_snip in Pv. destruct (snip_tokensI s e) as [l|] eqn:Es; [|discriminate].
    destruct (acceptsI l) eqn:Ac; [|discriminate]. injection Pv as <-.
    rewrite acceptsI_trial in Ac.
    repeat split; auto.
    - apply parse_window_snip; auto; lia.
    - destruct (parse_tokens_accepted l Ac) as (d & Ed). exists l, d. auto.
  Qed.

  (* ... and, when the terminals have no look-around on the window (H_ctxfree of C15), it is the parse of the
     extracted substring text[s:e] with offsets shifted by s and line / column looked up in the full text *)
  Theorem scan_value_eq_parse_substring_inst s e v : In (s, e, v) scanI ->
    (forall h (p : nat), s <= p < e ->
       scan h T (Z.of_nat p) (Z.of_nat e) =
       scan h (Repr_proofs.sub T s e) (Z.of_nat (p - s)) (Z.of_nat (e - s))) ->
    let ln := Repr_proofs.lnT eqb nl T in
    let col := Repr_proofs.colT eqb nl T in
    let zs := Z.of_nat s in
    v = TreeShift.map_presult (LexCoords.shift_tok zs ln col) (TreeShift.shift_trip zs ln col)
          (fun p => ((p + zs)%Z, ln (p + zs)%Z, col (p + zs)%Z))
          (TreeShift.parse_slice rr mp tnum end_term P eqb nl scan ignore newline_types fuel
             (Repr_proofs.sub T s e) 0%Z (Z.of_nat (e - s))).
  Proof.
    intros I Hcf. destruct (scan_value_eq_parse_inst s e v I) as (B1 & B2 & B3 & <- & _).
    unfold ScanInst.parse_windowI.
    apply (TreeShift_proofs.parse_window_shift eqb nl scan ignore newline_types rr mp tnum end_term P T s e fuel);
      try lia; [|exact Hcf].
    intros h p n ty. apply Hbnd.
  Qed.

  (* ---- the stunted parse as the code runs it: one parser state threaded through the loop, the $END trial made
     on (a copy of) that very state.  In the driver model a state is a value, so the trial cannot disturb it;
     the loop below is the abstract [stunted] with the oracles [feed_okI] / [end_choiceI] / [end_trialI], which
     re-run the parser from the start state.  (At the level of the heap - shallow copy of the value stack,
     callbacks = {} - the same fact is C13's trial_feed_pure / hfeed_ctrl.) *)
  Fixpoint stunted_inc (c : Driver.config ltoken) (fed : list tok) (longest : nat) (rest : list tok)
    : list tok * nat :=
    match rest with
    | [] => (fed, longest)
    | t :: rest' =>
        match Driver.feed ltoken (TreeShift.ttype tnum) P fuel c (retok t) false with
        | Driver.Shifted c' =>
            let fed' := fed ++ [t] in
            let choice := match Driver.sstack c' with
                          | q :: _ => match Driver.pt_action P q (Grammar.T (tnum end_term)) with
                                      | Some _ => true | None => false end
                          | [] => false
                          end in
            let trial := match Driver.feed ltoken (TreeShift.ttype tnum) P fuel c' (end_tokenI fed') true with
                         | Driver.Accepted _ => true | _ => false end in
            stunted_inc c' fed' (if choice && trial then length fed' else longest) rest'
        | _ => (fed, longest)
        end
    end.

  Lemma drive_snoc fed t c : fst (drive fed) = Driver.Shifted c ->
    fst (drive (fed ++ [t])) = match Driver.feed ltoken (TreeShift.ttype tnum) P fuel c (retok t) false with
                               | Driver.Shifted c' => Driver.Shifted c'
                               | o => o
                               end.
  Proof.
    unfold ScanInst.drive. rewrite map_app, run_tokens_app.
    destruct (TreeShift.run_tokens tnum P fuel (Driver.init_config P) (map retok fed)) as [o k]. cbn [fst].
    intros ->. cbn [map TreeShift.run_tokens].
    destruct (Driver.feed ltoken (TreeShift.ttype tnum) P fuel c (retok t) false); reflexivity.
  Qed.

  Theorem stunted_incremental rest : forall c fed longest, fst (drive fed) = Driver.Shifted c ->
    stunted_inc c fed longest rest = stunted feed_okI end_choiceI end_trialI fed longest rest.
  Proof.
    induction rest as [|t rest IH]; intros c fed longest Hc; [reflexivity|].
    cbn [stunted_inc stunted]. pose proof (drive_snoc fed t c Hc) as D.
    unfold ScanInst.feed_okI at 1. rewrite D.
    destruct (Driver.feed ltoken (TreeShift.ttype tnum) P fuel c (retok t) false) as [c'| | | | |] eqn:F; try reflexivity.
    rewrite (IH c' (fed ++ [t]) _ D). f_equal.
    unfold accepts_end, ScanInst.end_choiceI, ScanInst.end_trialI. rewrite D. reflexivity.
  Qed.

  Theorem scan_longest_inst s e v : In (s, e, v) scanI ->
    forall e' l' v', e' <= wb -> boundaryb s e' = true ->
      snip_tokensI s e' = Some l' -> tight s e' l' -> parse_windowI s e' = TreeShift.RTree v' -> e' <= e.
  Proof.
    intros I e' l' v' Le Bd Es Ti Pw.
    assert (Ac : acceptsI l' = true).
    { rewrite acceptsI_trial. apply (parse_tokens_tree_trial l' v').
      rewrite <- (parse_window_snip s e' l'); auto; [|lia].
      destruct Ti as (t & r & -> & <- & <-). pose proof (lexI_chain (tk_start t)).
      unfold ScanInst.boundaryb in Bd. destruct (existsb_split _ _ Bd) as (a & x & l2 & Eraw & Ex).
      apply Nat.eqb_eq in Ex. assert (Ix : In x (lexI (tk_start t))) by (rewrite Eraw; apply in_or_app; right; left; reflexivity).
      pose proof (chain_in_bounds _ _ _ _ H Ix). lia. }
    apply (scan_longest presult isnlI wa wb searchI lexI feed_okI end_choiceI end_trialI parse_tokensI
             searchI_range lexI_chain Hwin snip_tokensB feed_okI_prefix_closed stable_snippet_to_prefix skipI
             s e v I e' l'); auto.
    unfold ScanInst.snip_tokensB. rewrite Bd. assert (E : e' <=? wb = true) by (apply Nat.leb_le; exact Le).
    rewrite E. exact Es.
  Qed.

  Theorem scan_no_miss_inst : H_nonignored_wins -> H_search_covers ->
    forall p e l v', wa <= p -> e <= wb -> boundaryb p e = true ->
      snip_tokensI p e = Some l -> tight p e l -> parse_windowI p e = TreeShift.RTree v' ->
    exists s' e' v, In (s', e', v) scanI /\ s' <= p < e'.
  Proof.
    intros Hw Hc p e l v' Lp Le Bd Es Ti Pw.
    assert (Lpe : p <= e).
    { destruct Ti as (t & r & -> & <- & <-). pose proof (lexI_chain (tk_start t)).
      unfold ScanInst.boundaryb in Bd. destruct (existsb_split _ _ Bd) as (a & x & l2 & Eraw & Ex).
      apply Nat.eqb_eq in Ex. assert (Ix : In x (lexI (tk_start t))) by (rewrite Eraw; apply in_or_app; right; left; reflexivity).
      pose proof (chain_in_bounds _ _ _ _ H Ix). lia. }
    assert (Ac : acceptsI l = true).
    { rewrite acceptsI_trial. apply (parse_tokens_tree_trial l v').
      rewrite <- (parse_window_snip p e l); auto. lia. }
    apply (scan_no_miss presult isnlI wa wb searchI lexI feed_okI end_choiceI end_trialI parse_tokensI
             searchI_range lexI_chain Hwin starts snip_tokensB feed_okI_prefix_closed stable_snippet_to_prefix
             (headI Hw) (search_of_least starts wb) (search_of_none starts wb) (startsI Hc) p e l); auto.
    unfold ScanInst.snip_tokensB. rewrite Bd. assert (E : e <=? wb = true) by (apply Nat.leb_le; exact Le).
    rewrite E. exact Es.
  Qed.
End InstProofs.
