(* C14 - proofs about the scan-loop model Scan/Scan.v. *)
From Coq Require Import List Arith Bool Lia.
From LV Require Import Gen.ScanHoles Scan.Scan.
Import ListNotations.

(* ------------------------------------------------------------------------------------------ *)
(* facts about the regenerated constants: if lark's source changes them, these break           *)
Lemma fail_step_is_1 : scan_fail_step = 1. Proof. reflexivity. Qed.
Lemma longest_init_is_0 : scan_longest_init = 0. Proof. reflexivity. Qed.
Lemma after_nl_is_1 : lc_after_nl = 1. Proof. reflexivity. Qed.
Lemma lc_init_is : (lc_init_pos, lc_init_line, lc_init_lsp) = (0, 1, 0). Proof. reflexivity. Qed.

(* ------------------------------------------------------------------------------------------ *)
(* list helpers                                                                               *)
Lemma last_cons {A} (t : A) r d : last (t :: r) d = last r t.
Proof.
  revert t d. induction r as [|x r IH]; intros t d; [reflexivity|].
  change (last (t :: x :: r) d) with (last (x :: r) d).
  rewrite (IH x d), (IH x t). reflexivity.
Qed.

Lemma last_app_nonempty {A} (l1 l2 : list A) d : l2 <> [] -> last (l1 ++ l2) d = last l2 d.
Proof.
  intros H. induction l1 as [|x l1 IH]; [reflexivity|].
  cbn [app]. destruct (l1 ++ l2) as [|a l] eqn:E.
  - destruct l1; cbn in E; [subst; contradiction | discriminate].
  - change (last (x :: a :: l) d) with (last (a :: l) d). exact IH.
Qed.

Lemma app_eq_prefix {A} (l1 r1 l2 r2 : list A) :
  l1 ++ r1 = l2 ++ r2 -> length l1 <= length l2 -> exists mid, l2 = l1 ++ mid /\ r1 = mid ++ r2.
Proof.
  revert l2. induction l1 as [|x l1 IH]; intros l2 E L.
  - exists l2. split; [reflexivity | exact E].
  - destruct l2 as [|y l2]; [cbn in L; lia|].
    cbn in E. injection E as -> E. cbn in L.
    destruct (IH l2 E ltac:(lia)) as (mid & -> & ->). exists mid. split; reflexivity.
Qed.

Lemma filter_cons_split {A} (f : A -> bool) l x r :
  filter f l = x :: r ->
  exists pre post, l = pre ++ x :: post /\ Forall (fun y => f y = false) pre /\ f x = true /\ filter f post = r.
Proof.
  induction l as [|y l IH]; cbn [filter]; [discriminate|].
  destruct (f y) eqn:Fy; intros E.
  - injection E as -> <-. exists [], l. repeat split; auto.
  - destruct (IH E) as (pre & post & -> & Hpre & Hx & Hpost).
    exists (y :: pre), post. repeat split; auto.
Qed.

Lemma firstn_app_exact {A} (l1 l2 : list A) : firstn (length l1) (l1 ++ l2) = l1.
Proof. induction l1; cbn; [destruct l2; reflexivity | f_equal; assumption]. Qed.

(* ------------------------------------------------------------------------------------------ *)
(* the line counter                                                                           *)
Section LineCounterProofs.
  Variable isnl : nat -> bool.
  Notation count_nl := (count_nl isnl).
  Notation last_nl := (last_nl isnl).

  Lemma count_nl_app lo n1 n2 : count_nl lo (n1 + n2) = count_nl lo n1 + count_nl (lo + n1) n2.
  Proof.
    revert lo. induction n1 as [|n1 IH]; intros lo; cbn [Scan.count_nl plus].
    - rewrite Nat.add_0_r. reflexivity.
    - rewrite IH. replace (S lo + n1) with (lo + S n1) by lia. lia.
  Qed.

  Lemma last_nl_app lo n1 n2 :
    last_nl lo (n1 + n2) = match last_nl (lo + n1) n2 with Some i => Some i | None => last_nl lo n1 end.
  Proof.
    revert lo. induction n1 as [|n1 IH]; intros lo; cbn [Scan.last_nl plus].
    - rewrite Nat.add_0_r. destruct (last_nl lo n2); reflexivity.
    - rewrite IH. replace (S lo + n1) with (lo + S n1) by lia.
      destruct (last_nl (lo + S n1) n2); reflexivity.
  Qed.

  Lemma count_zero_last_none lo n : count_nl lo n = 0 <-> last_nl lo n = None.
  Proof.
    revert lo. induction n as [|n IH]; intros lo; cbn [Scan.count_nl Scan.last_nl]; [tauto|].
    specialize (IH (S lo)). destruct (isnl lo), (last_nl (S lo) n); split; intros H; try discriminate; try lia.
    - apply IH. lia.
    - reflexivity.
    - cbn [plus]. apply IH. reflexivity.
  Qed.

  (* rindex returns a newline position inside the range *)
  Lemma last_nl_range lo n i : last_nl lo n = Some i -> lo <= i < lo + n /\ isnl i = true.
  Proof.
    revert lo. induction n as [|n IH]; intros lo; cbn [Scan.last_nl]; [discriminate|].
    destruct (last_nl (S lo) n) eqn:E.
    - intros [= ->]. destruct (IH _ E). split; [lia | assumption].
    - destruct (isnl lo) eqn:N; [|discriminate]. intros [= <-]. split; [lia | assumption].
  Qed.

  (* advancing a counter that is right about [q] to a later [p] makes it right about [p] *)
  Lemma advance_to_coord q p : q <= p -> advance_to isnl (coord isnl q) p = coord isnl p.
  Proof.
    intros L. unfold advance_to, coord. cbn [lc_pos lc_line lc_lsp].
    assert (Ep : p = q + (p - q)) by lia.
    pose proof (count_nl_app 0 q (p - q)) as C. pose proof (last_nl_app 0 q (p - q)) as R.
    rewrite <- Ep in C, R. cbn [plus] in C, R.
    unfold line_of, lsp_of. rewrite C, R.
    destruct (0 <? count_nl q (p - q)) eqn:K.
    - apply Nat.ltb_lt in K. destruct (last_nl q (p - q)) eqn:E.
      + rewrite after_nl_is_1. f_equal; lia.
      + apply count_zero_last_none in E. lia.
    - apply Nat.ltb_ge in K. assert (Z0 : count_nl q (p - q) = 0) by lia.
      rewrite Z0. apply count_zero_last_none in Z0. rewrite Z0. f_equal. lia.
  Qed.

  Lemma lc_init_coord : lc_init = coord isnl 0.
  Proof. reflexivity. Qed.

  Lemma from_text_slice_coord a : from_text_slice isnl a = coord isnl a.
  Proof.
    unfold from_text_slice. destruct (0 <? a) eqn:K.
    - rewrite lc_init_coord. apply advance_to_coord. lia.
    - apply Nat.ltb_ge in K. assert (a = 0) by lia. subst. apply lc_init_coord.
  Qed.

  (* line_of / lsp_of really are "1 + number of newlines before p" and "just after the last newline
     before p": the column lc_pos - lc_lsp + 1 counts the characters since that newline *)
  Lemma lsp_of_le p : lsp_of isnl p <= p.
  Proof.
    unfold lsp_of. destruct (last_nl 0 p) eqn:E; [|lia].
    apply last_nl_range in E. lia.
  Qed.

  Lemma lsp_of_after_newline p : lsp_of isnl p = 0 \/ isnl (lsp_of isnl p - 1) = true.
  Proof.
    unfold lsp_of. destruct (last_nl 0 p) eqn:E; [|left; reflexivity].
    right. apply last_nl_range in E. cbn [Nat.sub]. rewrite Nat.sub_0_r. tauto.
  Qed.

  Lemma lsp_of_no_newline_after p i : lsp_of isnl p <= i -> i < p -> isnl i = false.
  Proof.
    unfold lsp_of. intros L1 L2.
    assert (Ep : p = i + (p - i)) by lia.
    pose proof (last_nl_app 0 i (p - i)) as R. rewrite <- Ep in R. cbn [plus] in R.
    destruct (last_nl i (p - i)) eqn:E.
    - rewrite R in L1. apply last_nl_range in E. destruct E as [E1 E2].
      assert (n = i \/ i < n) as [->|Hn] by lia; [lia|lia].
    - apply count_zero_last_none in E.
      destruct (p - i) as [|k] eqn:D; [lia|]. cbn [Scan.count_nl] in E.
      destruct (isnl i); [lia | reflexivity].
  Qed.
End LineCounterProofs.

(* ------------------------------------------------------------------------------------------ *)
(* the search over a table of start positions                                                 *)
Section SearchProofs.
  Variable starts : nat -> bool.
  Variable wb : nat.

  Lemma find_from_some n p m : find_from starts n p = Some m ->
    p <= m < p + n /\ starts m = true /\ forall q, p <= q < m -> starts q = false.
  Proof.
    revert p. induction n as [|n IH]; intros p; cbn [find_from]; [discriminate|].
    destruct (starts p) eqn:Sr.
    - intros [= <-]. repeat split; try lia; auto; intros q Hq; lia.
    - intros E. destruct (IH _ E) as (R & T & Lst). repeat split; try lia; auto.
      intros q Hq. assert (q = p \/ S p <= q) as [->|Hq'] by lia; [assumption | apply Lst; lia].
  Qed.

  Lemma find_from_none n p : find_from starts n p = None -> forall q, p <= q < p + n -> starts q = false.
  Proof.
    revert p. induction n as [|n IH]; intros p; cbn [find_from]; [intros _ q Hq; lia|].
    destruct (starts p) eqn:Sr; [discriminate|].
    intros E q Hq. assert (q = p \/ S p <= q) as [->|Hq'] by lia; [assumption | apply (IH _ E); lia].
  Qed.

  Lemma search_of_range p m : search_of starts wb p = Some m -> p <= m /\ m <= wb.
  Proof. unfold search_of. intros E. apply find_from_some in E. lia. Qed.

  Lemma search_of_start p m : search_of starts wb p = Some m -> starts m = true.
  Proof. unfold search_of. intros E. apply find_from_some in E. tauto. Qed.

  Lemma search_of_least p m : search_of starts wb p = Some m -> forall q, p <= q < m -> starts q = false.
  Proof. unfold search_of. intros E. apply find_from_some in E. tauto. Qed.

  Lemma search_of_none p : search_of starts wb p = None -> forall q, p <= q < wb -> starts q = false.
  Proof. unfold search_of. intros E q Hq. apply (find_from_none _ _ E). lia. Qed.
End SearchProofs.

(* ------------------------------------------------------------------------------------------ *)
(* token chains: consecutive, non-empty, inside the window                                    *)
Fixpoint chain (wb lo : nat) (l : list tok) : Prop :=
  match l with
  | [] => True
  | t :: r => lo <= tk_start t /\ tk_start t < tk_end t /\ tk_end t <= wb /\ chain wb (tk_end t) r
  end.

Lemma chain_weaken wb lo lo' l : lo' <= lo -> chain wb lo l -> chain wb lo' l.
Proof. destruct l; cbn; [tauto|]. intros L (A & B & C & D). repeat split; auto; lia. Qed.

Lemma chain_filter wb f lo l : chain wb lo l -> chain wb lo (filter f l).
Proof.
  revert lo. induction l as [|t l IH]; intros lo; cbn [filter chain]; [tauto|].
  intros (A & B & C & D). destruct (f t).
  - cbn [chain]. repeat split; auto.
  - apply (chain_weaken wb (tk_end t)); [lia | auto].
Qed.

Lemma chain_app_l wb lo l1 l2 : chain wb lo (l1 ++ l2) -> chain wb lo l1.
Proof.
  revert lo. induction l1 as [|t l1 IH]; intros lo; cbn [app chain]; [tauto|].
  intros (A & B & C & D). repeat split; auto.
Qed.

Lemma chain_last wb lo t r : chain wb lo (t :: r) ->
  lo <= tk_start t /\ tk_end t <= tk_end (last r t) /\ tk_start t < tk_end (last r t) /\ tk_end (last r t) <= wb.
Proof.
  revert lo t. induction r as [|x r IH]; intros lo t.
  - cbn [chain last]. intros (A & B & C & _). lia.
  - rewrite last_cons. cbn [chain]. intros (A & B & C & D).
    change (chain wb (tk_end t) (x :: r)) in D. destruct (IH _ _ D) as (A' & B' & C' & D'). lia.
Qed.

Lemma chain_app_last_le_aux wb r : forall lo t l2, chain wb lo (t :: r ++ l2) ->
  tk_end (last r t) <= tk_end (last (r ++ l2) t).
Proof.
  induction r as [|x r IH]; intros lo t l2 C.
  - cbn [app] in *. apply chain_last in C. cbn [last]. lia.
  - cbn [app]. rewrite !last_cons. cbn [chain] in C. destruct C as (_ & _ & _ & C).
    apply (IH _ _ _ C).
Qed.

Lemma chain_app_last_le wb lo l1 l2 d : chain wb lo (l1 ++ l2) -> l1 <> [] ->
  tk_end (last l1 d) <= tk_end (last (l1 ++ l2) d).
Proof.
  intros C N. destruct l1 as [|t r]; [contradiction|].
  cbn [app] in *. rewrite !last_cons. eapply chain_app_last_le_aux. exact C.
Qed.

Lemma chain_in_bounds wb lo l u : chain wb lo l -> In u l -> lo <= tk_start u /\ tk_start u < tk_end u /\ tk_end u <= wb.
Proof.
  revert lo. induction l as [|t l IH]; intros lo; cbn [chain In]; [tauto|].
  intros (A & B & C & D) [<-|I]; [lia|]. specialize (IH _ D I). lia.
Qed.

(* two tokens of one chain are equal or disjoint *)
Lemma chain_disjoint wb lo l u t : chain wb lo l -> In u l -> In t l ->
  u = t \/ tk_end u <= tk_start t \/ tk_end t <= tk_start u.
Proof.
  revert lo. induction l as [|x l IH]; intros lo; cbn [chain In]; [tauto|].
  intros (A & B & C & D) [<-|Iu] [<-|It]; auto.
  - right; left. pose proof (chain_in_bounds _ _ _ _ D It). lia.
  - right; right. pose proof (chain_in_bounds _ _ _ _ D Iu). lia.
  - eapply IH; eauto.
Qed.

(* ------------------------------------------------------------------------------------------ *)
(* the loop                                                                                   *)
Section LoopProofs.
  Variable value : Type.
  Variable isnl : nat -> bool.
  Variable wa wb : nat.
  Variable search : nat -> option nat.
  Variable lex_from : nat -> list tok.
  Variable feed_ok : list tok -> bool.
  Variable end_choice end_trial : list tok -> bool.
  Variable parse_tokens : list tok -> value.

  Notation main_stream := (main_stream lex_from).
  Notation accepts_end := (accepts_end end_choice end_trial).
  Notation stunted := (stunted feed_ok end_choice end_trial).
  Notation loop := (loop isnl search lex_from feed_ok end_choice end_trial).
  Notation scan_iters := (scan_iters isnl wa wb search lex_from feed_ok end_choice end_trial).
  Notation scan_fuel := (scan_fuel wa wb).
  Notation match_of := (match_of value parse_tokens).
  Notation matches_of := (matches_of value parse_tokens).
  Notation scan := (scan value isnl wa wb search lex_from feed_ok end_choice end_trial parse_tokens).

  (* ---- the stunted parse --------------------------------------------------------------- *)
  Lemma stunted_spec rest : forall fed longest fed' k,
    stunted fed longest rest = (fed', k) ->
    exists mid tail, rest = mid ++ tail /\ fed' = fed ++ mid /\
      (forall j, 0 < j <= length mid -> feed_ok (fed ++ firstn j mid) = true) /\
      (tail = [] \/ exists t tl, tail = t :: tl /\ feed_ok (fed' ++ [t]) = false) /\
      ((k = longest /\ forall j, 0 < j <= length mid -> accepts_end (fed ++ firstn j mid) = false)
       \/ (exists j, 0 < j <= length mid /\ k = length fed + j /\ accepts_end (fed ++ firstn j mid) = true /\
             forall j', j < j' <= length mid -> accepts_end (fed ++ firstn j' mid) = false)).
  Proof.
    induction rest as [|t rest IH]; intros fed longest fed' k; cbn [Scan.stunted].
    - intros [= <- <-]. exists [], []. split; [reflexivity|]. split; [symmetry; apply app_nil_r|].
      split; [cbn; intros j Hj; lia|]. split; [left; reflexivity|].
      left. split; [reflexivity|]. cbn; intros j Hj; lia.
    - destruct (feed_ok (fed ++ [t])) eqn:F.
      + intros E. apply IH in E. destruct E as (mid & tail & -> & -> & Hfed & Htail & Hk).
        exists (t :: mid), tail.
        assert (Sh : forall j, (fed ++ [t]) ++ firstn j mid = fed ++ firstn (S j) (t :: mid)).
        { intros j. rewrite <- app_assoc. reflexivity. }
        split; [reflexivity|]. split; [rewrite <- app_assoc; reflexivity|].
        split; [|split].
        * intros j Hj. destruct j as [|j]; [lia|]. cbn [length] in Hj.
          destruct j as [|j].
          -- cbn [firstn]. exact F.
          -- rewrite <- Sh. apply Hfed. lia.
        * destruct Htail as [->|(t' & tl & -> & Ht')]; [left; reflexivity|].
          right. exists t', tl. split; [reflexivity|]. rewrite <- app_assoc in Ht'. rewrite <- app_assoc. exact Ht'.
        * destruct Hk as [(-> & Hno)|(j & Hj & -> & Hacc & Hno)].
          -- destruct (accepts_end (fed ++ [t])) eqn:A.
             ++ right. exists 1. cbn [length firstn]. repeat split; try lia.
                ** rewrite app_length. cbn. lia.
                ** exact A.
                ** intros j' Hj'. destruct j' as [|j']; [lia|]. rewrite <- Sh. apply Hno. lia.
             ++ left. split; [reflexivity|]. intros j Hj. destruct j as [|j]; [lia|].
                destruct j as [|j]; [exact A|]. rewrite <- Sh. apply Hno. cbn [length] in Hj. lia.
          -- right. exists (S j). cbn [length]. repeat split; try lia.
             ++ rewrite app_length. cbn. lia.
             ++ rewrite <- Sh. exact Hacc.
             ++ intros j' Hj'. destruct j' as [|j']; [lia|]. rewrite <- Sh. apply Hno. lia.
      + intros [= <- <-]. exists [], (t :: rest). split; [reflexivity|]. split; [symmetry; apply app_nil_r|].
        split; [cbn; intros j Hj; lia|]. split; [right; exists t, rest; split; [reflexivity | exact F]|].
        left. split; [reflexivity|]. cbn; intros j Hj; lia.
  Qed.

  (* ---- what one turn of the loop establishes ------------------------------------------- *)
  Definition iter_ok (it : iter) : Prop :=
    search (it_pos it) = Some (it_m it) /\
    exists tail k,
      main_stream (it_m it) = it_fed it ++ tail /\
      (forall j, 0 < j <= length (it_fed it) -> feed_ok (firstn j (it_fed it)) = true) /\
      (tail = [] \/ exists t tl, tail = t :: tl /\ feed_ok (it_fed it ++ [t]) = false) /\
      it_acc it = firstn k (it_fed it) /\ k <= length (it_fed it) /\
      (k = 0 \/ accepts_end (firstn k (it_fed it)) = true) /\
      (forall j, k < j <= length (it_fed it) -> accepts_end (firstn j (it_fed it)) = false).

  (* consecutive turns: each starts searching where the previous one said *)
  Fixpoint linked (pos : nat) (its : list iter) : Prop :=
    match its with
    | [] => True
    | it :: r => it_pos it = pos /\ linked (next_pos (it_m it) (it_acc it)) r
    end.

  Lemma loop_step fuel pos lc :
    loop (S fuel) pos lc =
    match search pos with
    | None => ([], Some pos)
    | Some m =>
        let lc' := advance_to isnl lc m in
        let fk := stunted [] scan_longest_init (main_stream m) in
        let acc := firstn (snd fk) (fst fk) in
        let r := loop fuel (next_pos m acc) lc' in
        (mkIter pos m lc' (fst fk) acc :: fst r, snd r)
    end.
  Proof.
    cbn [Scan.loop]. destruct (search pos); [|reflexivity].
    destruct (stunted [] scan_longest_init (main_stream n)) as [fed k]. cbn [fst snd].
    destruct (loop fuel (next_pos n (firstn k fed)) (advance_to isnl lc n)). reflexivity.
  Qed.

  Lemma stunted_iter_ok pos m lc' :
    search pos = Some m ->
    let fk := stunted [] scan_longest_init (main_stream m) in
    iter_ok (mkIter pos m lc' (fst fk) (firstn (snd fk) (fst fk))).
  Proof.
    intros Sr fk. destruct fk as [fed k] eqn:E. unfold fk in E. rewrite longest_init_is_0 in E.
    apply stunted_spec in E. cbn [app length] in E.
    destruct E as (mid & tail & Hm & -> & Hfed & Htail & Hk).
    unfold iter_ok. cbn [it_pos it_m it_fed it_acc fst snd]. split; [exact Sr|].
    exists tail, k. split; [exact Hm|]. split; [exact Hfed|]. split; [exact Htail|].
    split; [reflexivity|].
    destruct Hk as [(-> & Hno)|(j & Hj & -> & Hacc & Hno)].
    - split; [lia|]. split; [left; reflexivity|]. intros j Hj. apply Hno. lia.
    - cbn [plus]. split; [lia|]. split; [right; exact Hacc|]. exact Hno.
  Qed.

  Lemma loop_iters_ok fuel : forall pos lc, Forall iter_ok (fst (loop fuel pos lc)).
  Proof.
    induction fuel as [|fuel IH]; intros pos lc; [constructor|].
    rewrite loop_step. destruct (search pos) as [m|] eqn:Sr; [|constructor].
    cbn zeta. cbn [fst]. constructor; [apply stunted_iter_ok; exact Sr | apply IH].
  Qed.

  Lemma loop_linked fuel : forall pos lc, linked pos (fst (loop fuel pos lc)).
  Proof.
    induction fuel as [|fuel IH]; intros pos lc; [exact I|].
    rewrite loop_step. destruct (search pos) as [m|] eqn:Sr; [|exact I].
    cbn zeta. cbn [fst linked it_pos it_m it_acc]. split; [reflexivity | apply IH].
  Qed.

  (* ---- hypotheses about the oracles (checked on the recorded tables at run time) ---------- *)
  Hypothesis H_search_range : forall p m, search p = Some m -> p <= m /\ m <= wb.
  Hypothesis H_chain : forall m, chain wb m (lex_from m).

  Lemma main_chain m : chain wb m (main_stream m).
  Proof. apply chain_filter, H_chain. Qed.

  Lemma iter_acc_chain it : iter_ok it -> chain wb (it_m it) (it_acc it) /\ it_pos it <= it_m it /\ it_m it <= wb.
  Proof.
    intros (Sr & tail & k & Hm & _ & _ & Ha & _). split; [|apply H_search_range; exact Sr].
    pose proof (main_chain (it_m it)) as C. rewrite Hm in C. apply chain_app_l in C.
    rewrite <- (firstn_skipn k (it_fed it)) in C. apply chain_app_l in C. rewrite Ha. exact C.
  Qed.

  Lemma iter_next_pos it : iter_ok it ->
    it_m it < next_pos (it_m it) (it_acc it) /\ next_pos (it_m it) (it_acc it) <= wb + 1.
  Proof.
    intros OK. destruct (iter_acc_chain it OK) as (C & L1 & L2).
    unfold next_pos. destruct (it_acc it) as [|t r]; [rewrite fail_step_is_1; lia|].
    apply chain_last in C. unfold last_tok. lia.
  Qed.

  (* ---- termination: the fuel [wb + 2 - pos] is never exhausted ---------------------------- *)
  Lemma loop_terminates fuel : forall pos lc, wb + 2 - pos <= fuel -> pos <= wb + 1 ->
    snd (loop fuel pos lc) <> None.
  Proof.
    induction fuel as [|fuel IH]; intros pos lc F L; [lia|].
    rewrite loop_step. destruct (search pos) as [m|] eqn:Sr; [|discriminate].
    cbn zeta. cbn [snd].
    pose proof (stunted_iter_ok pos m (advance_to isnl lc m) Sr) as OK. cbn zeta in OK.
    pose proof (iter_next_pos _ OK) as N. cbn [it_m it_acc] in N.
    pose proof (H_search_range _ _ Sr).
    apply IH; lia.
  Qed.

  (* above the bound the amount of fuel is irrelevant *)
  Lemma loop_fuel_irrelevant f1 : forall f2 pos lc, wb + 2 - pos <= f1 -> wb + 2 - pos <= f2 -> pos <= wb + 1 ->
    loop f1 pos lc = loop f2 pos lc.
  Proof.
    induction f1 as [|f1 IH]; intros f2 pos lc F1 F2 L; [lia|].
    destruct f2 as [|f2]; [lia|].
    rewrite !loop_step. destruct (search pos) as [m|] eqn:Sr; [|reflexivity].
    cbn zeta.
    pose proof (stunted_iter_ok pos m (advance_to isnl lc m) Sr) as OK. cbn zeta in OK.
    pose proof (iter_next_pos _ OK) as N. cbn [it_m it_acc] in N.
    pose proof (H_search_range _ _ Sr).
    rewrite (IH f2); [reflexivity|lia|lia|lia].
  Qed.

  Hypothesis H_window : wa <= wb.

  Theorem scan_terminates : exists final, snd scan_iters = Some final.
  Proof.
    destruct (snd scan_iters) eqn:E; [eauto|]. exfalso. revert E.
    apply loop_terminates; unfold scan_fuel; lia.
  Qed.

  (* ---- ordering ------------------------------------------------------------------------- *)
  Fixpoint ordered (lo : nat) (l : list (nat * nat * value)) : Prop :=
    match l with
    | [] => True
    | (s, e, _) :: r => lo <= s /\ s < e /\ e <= wb /\ ordered e r
    end.

  Lemma ordered_weaken lo lo' l : lo' <= lo -> ordered lo l -> ordered lo' l.
  Proof. destruct l as [|[[s e] v] l]; cbn; [tauto|]. intros L (A & B & C & D). repeat split; auto; lia. Qed.

  (* search positions strictly increase from turn to turn *)
  Fixpoint turns_increase (lo : nat) (its : list iter) : Prop :=
    match its with
    | [] => True
    | it :: r => lo <= it_pos it /\ it_pos it <= it_m it /\ it_m it < next_pos (it_m it) (it_acc it)
                 /\ next_pos (it_m it) (it_acc it) <= wb + 1
                 /\ turns_increase (next_pos (it_m it) (it_acc it)) r
    end.

  Lemma linked_turns_increase its : forall pos, linked pos its -> Forall iter_ok its -> turns_increase pos its.
  Proof.
    induction its as [|it its IH]; intros pos; cbn [linked turns_increase]; [tauto|].
    intros (<- & Lk) F. inversion F as [|? ? OK F']; subst.
    destruct (iter_acc_chain _ OK) as (_ & L1 & _). destruct (iter_next_pos _ OK).
    repeat split; auto.
  Qed.

  Lemma linked_ordered its : forall pos, linked pos its -> Forall iter_ok its -> ordered pos (matches_of its).
  Proof.
    induction its as [|it its IH]; intros pos; cbn [linked]; [intros; exact I|].
    intros (<- & Lk) F. inversion F as [|? ? OK F']; subst.
    specialize (IH _ Lk F').
    destruct (iter_acc_chain _ OK) as (C & L1 & L2). destruct (iter_next_pos _ OK) as (N1 & N2).
    unfold Scan.matches_of. cbn [flat_map]. unfold Scan.match_of at 1.
    unfold next_pos in IH, N1. destruct (it_acc it) as [|t r] eqn:Ea.
    - cbn [app]. eapply ordered_weaken; [|exact IH]. lia.
    - cbn [app ordered]. apply chain_last in C. unfold last_tok in *.
      repeat split; try lia. exact IH.
  Qed.

  Theorem scan_ordered : ordered wa scan /\ turns_increase wa (fst scan_iters).
  Proof.
    split.
    - apply linked_ordered; [apply loop_linked | apply loop_iters_ok].
    - apply linked_turns_increase; [apply loop_linked | apply loop_iters_ok].
  Qed.

  (* ---- coordinates ------------------------------------------------------------------------ *)
  Fixpoint lc_threaded (lc : lcount) (its : list iter) : Prop :=
    match its with
    | [] => True
    | it :: r => it_lc it = advance_to isnl lc (it_m it) /\ lc_threaded (it_lc it) r
    end.

  Lemma linked_coords its : forall pos lc q,
    lc = coord isnl q -> q <= pos -> linked pos its -> Forall iter_ok its -> lc_threaded lc its ->
    Forall (fun it => it_lc it = coord isnl (it_m it)) its.
  Proof.
    induction its as [|it its IH]; intros pos lc q -> L Lk F G; [constructor|].
    cbn [linked] in Lk. destruct Lk as (<- & Lk). inversion F as [|? ? OK F']; subst.
    cbn [lc_threaded] in G. destruct G as (G1 & G2).
    destruct (iter_acc_chain _ OK) as (_ & L1 & _). destruct (iter_next_pos _ OK) as (N1 & _).
    assert (A : it_lc it = coord isnl (it_m it)) by (rewrite G1; apply advance_to_coord; lia).
    constructor; [exact A|].
    apply (IH (next_pos (it_m it) (it_acc it)) (it_lc it) (it_m it)); auto. lia.
  Qed.

  Lemma loop_lc_threaded fuel : forall pos lc, lc_threaded lc (fst (loop fuel pos lc)).
  Proof.
    induction fuel as [|fuel IH]; intros pos lc; [exact I|].
    rewrite loop_step. destruct (search pos) as [m|] eqn:Sr; [|exact I].
    cbn zeta. cbn [fst lc_threaded it_lc it_m]. split; [reflexivity | apply IH].
  Qed.

  Theorem scan_positions_global :
    Forall (fun it => it_lc it = coord isnl (it_m it)) (fst scan_iters).
  Proof.
    unfold Scan.scan_iters.
    apply (linked_coords _ wa (from_text_slice isnl wa) wa).
    - apply from_text_slice_coord.
    - lia.
    - apply loop_linked.
    - apply loop_iters_ok.
    - apply loop_lc_threaded.
  Qed.

  (* ---- longest accepted prefix of the token stream -------------------------------------- *)
  Theorem scan_longest_wrt_tokens : Forall iter_ok (fst scan_iters).
  Proof. apply loop_iters_ok. Qed.

  (* ---- edges ------------------------------------------------------------------------------ *)
  Lemma filter_prefix_in {A} (f : A -> bool) (l acc rest : list A) x :
    filter f l = acc ++ rest -> In x acc -> In x l /\ f x = true.
  Proof.
    intros E I. assert (I' : In x (filter f l)) by (rewrite E; apply in_or_app; auto).
    apply filter_In in I'. exact I'.
  Qed.

  Theorem scan_no_ignored_edges : forall it, In it (fst scan_iters) -> forall t r, it_acc it = t :: r ->
    let s := tk_start t in let e := tk_end (last_tok t r) in
    match_of it = [(s, e, parse_tokens (it_acc it))] /\
    (exists rest, main_stream (it_m it) = it_acc it ++ rest) /\
    Forall (fun u => tk_ign u = false) (it_acc it) /\
    In t (lex_from (it_m it)) /\ In (last_tok t r) (lex_from (it_m it)) /\
    (exists pre post, lex_from (it_m it) = pre ++ t :: post /\ Forall (fun u => tk_ign u = true) pre) /\
    (forall u, In u (lex_from (it_m it)) -> tk_ign u = true ->
       tk_end u <= s \/ (s <= tk_start u /\ tk_end u <= e) \/ e <= tk_start u).
  Proof.
    intros it I t r Ea s e.
    pose proof scan_longest_wrt_tokens as F. rewrite Forall_forall in F. specialize (F _ I).
    destruct F as (Sr & tail & k & Hm & _ & _ & Ha & _).
    assert (Hpre : main_stream (it_m it) = it_acc it ++ (skipn k (it_fed it) ++ tail)).
    { rewrite Hm, Ha, app_assoc, firstn_skipn. reflexivity. }
    assert (Hin : forall x, In x (it_acc it) -> In x (lex_from (it_m it)) /\ tk_ign x = false).
    { intros x Ix. destruct (filter_prefix_in _ _ _ _ x Hpre Ix) as (I1 & I2).
      split; [exact I1|]. destruct (tk_ign x); [discriminate | reflexivity]. }
    assert (It : In t (it_acc it)) by (rewrite Ea; left; reflexivity).
    assert (Il : In (last_tok t r) (it_acc it)).
    { rewrite Ea. unfold last_tok. rewrite <- (last_cons t r t).
      destruct (exists_last (l := t :: r) ltac:(discriminate)) as (l' & a & E). rewrite E.
      rewrite last_last. apply in_or_app. right. left. reflexivity. }
    split; [unfold Scan.match_of; rewrite Ea; reflexivity|].
    split; [eexists; exact Hpre|].
    split; [rewrite Forall_forall; intros x Ix; apply Hin; exact Ix|].
    split; [apply Hin; exact It|]. split; [apply Hin; exact Il|].
    split.
    - unfold Scan.main_stream in Hpre. rewrite Ea in Hpre. cbn [app] in Hpre.
      apply filter_cons_split in Hpre. destruct Hpre as (pre & post & E & P & _).
      exists pre, post. split; [exact E|]. rewrite Forall_forall in *. intros x Ix. specialize (P _ Ix).
      destruct (tk_ign x); [reflexivity | discriminate].
    - intros u Iu Gu. pose proof (H_chain (it_m it)) as C.
      destruct (Hin _ It) as (It' & Gt). destruct (Hin _ Il) as (Il' & Gl).
      assert (Bt : tk_start t < tk_end t) by (pose proof (chain_in_bounds _ _ _ _ C It'); lia).
      destruct (chain_disjoint _ _ _ u t C Iu It') as [->|[D|D]]; [congruence | left; exact D |].
      destruct (chain_disjoint _ _ _ u (last_tok t r) C Iu Il') as [->|[D'|D']]; [congruence | | right; right; exact D'].
      pose proof (chain_in_bounds _ _ _ _ C Il') as Bl.
      right; left. unfold s, e. split; lia.
  Qed.

  (* ======================================================================================== *)
  (* relation to parse() on snippets, under the stability hypotheses                          *)
  Variable starts : nat -> bool.                      (* a non-ignored start-state terminal matches here *)
  Variable snip_tokens : nat -> nat -> option (list tok).
      (* tokens (positions in the full text) that lexing + feeding text[s:e] *alone* produces;
         None when the lexer or a feed raises before the end of the snippet *)

  (* parse(text[s:e]) *)
  Definition parse_snip (s e : nat) : option value :=
    match snip_tokens s e with
    | Some l => if accepts_end l then Some (parse_tokens l) else None
    | None => None
    end.

  (* the snippet begins and ends with a (non-ignored) token *)
  Definition tight (s e : nat) (l : list tok) : Prop :=
    exists t r, l = t :: r /\ tk_start t = s /\ tk_end (last_tok t r) = e.

  Definition H_feed_prefix_closed : Prop := forall x y, feed_ok (x ++ y) = true -> feed_ok x = true.
  (* lexing the snippet alone yields the corresponding prefix of lexing the rest of the text ... *)
  Definition H_stable_prefix_to_snippet : Prop :=
    forall m l rest t r, main_stream m = l ++ rest -> l = t :: r -> feed_ok l = true ->
      snip_tokens (tk_start t) (tk_end (last_tok t r)) = Some l.
  (* ... and conversely (this is the half that greedy tokens crossing the snippet end break: F8) *)
  Definition H_stable_snippet_to_prefix : Prop :=
    forall s e l, snip_tokens s e = Some l -> tight s e l -> accepts_end l = true ->
      feed_ok l = true /\ exists rest, main_stream s = l ++ rest.
  (* lexing from the first token's start gives the same stream as lexing from match_start *)
  Definition H_skip : Prop :=
    forall p m t r, search p = Some m -> main_stream m = t :: r -> main_stream (tk_start t) = t :: r.
  (* at a search result the lexer's first token is a non-ignored one (no ignored terminal wins there) *)
  Definition H_head : Prop :=
    forall p m t r, search p = Some m -> main_stream m = t :: r -> tk_start t = m.
  Definition H_search_least : Prop :=
    forall p m, search p = Some m -> forall q, p <= q < m -> starts q = false.
  Definition H_search_none : Prop :=
    forall p, search p = None -> forall q, p <= q < wb -> starts q = false.
  Definition H_starts : Prop :=
    forall s e t r, snip_tokens s e = Some (t :: r) -> tk_start t = s -> starts s = true.

  Lemma head_skip : H_head -> H_skip.
  Proof. intros Hh p m t r Sr E. rewrite (Hh _ _ _ _ Sr E). exact E. Qed.

  Theorem scan_value_eq_parse : H_stable_prefix_to_snippet ->
    forall s e v, In (s, e, v) scan -> parse_snip s e = Some v.
  Proof.
    intros Ha s e v I. unfold Scan.scan, Scan.matches_of in I. apply in_flat_map in I.
    destruct I as (it & Iit & Im).
    pose proof scan_longest_wrt_tokens as F. rewrite Forall_forall in F. specialize (F _ Iit).
    destruct F as (Sr & tail & k & Hm & Hfed & _ & Hacc & Hk & Hend & _).
    unfold Scan.match_of in Im. destruct (it_acc it) as [|t r] eqn:Ea; [contradiction|].
    destruct Im as [[= <- <- <-]|[]].
    assert (K : 0 < k) by (destruct k; [cbn in Hacc; discriminate | lia]).
    destruct Hend as [->|Hend]; [lia|].
    unfold parse_snip.
    rewrite (Ha (it_m it) (t :: r) (skipn k (it_fed it) ++ tail) t r).
    - rewrite <- Hacc in Hend. rewrite Hend. reflexivity.
    - rewrite Hm, Hacc, app_assoc, firstn_skipn. reflexivity.
    - reflexivity.
    - rewrite Hacc. apply Hfed. lia.
  Qed.

  (* a fed-ok prefix of the main stream is a prefix of matched_tokens *)
  Lemma prefix_within_fed it l rest : H_feed_prefix_closed -> iter_ok it ->
    main_stream (it_m it) = l ++ rest -> feed_ok l = true ->
    l = firstn (length l) (it_fed it) /\ length l <= length (it_fed it).
  Proof.
    intros Hp (Sr & tail & k & Hm & _ & Htail & _) E F.
    rewrite Hm in E.
    destruct (le_lt_dec (length l) (length (it_fed it))) as [L|L].
    - destruct (app_eq_prefix l rest (it_fed it) tail (eq_sym E) L) as (mid & Emid & _).
      split; [rewrite Emid; symmetry; apply firstn_app_exact | exact L].
    - exfalso. destruct (app_eq_prefix (it_fed it) tail l rest E ltac:(lia)) as (mid & El & Et).
      rewrite El in L, F. rewrite app_length in L.
      destruct Htail as [Ht|(t & tl & Ht & Hf)].
      + rewrite Ht in Et. destruct mid; [cbn in L; lia | discriminate].
      + destruct mid as [|x mid]; [cbn in L; lia|].
        rewrite Ht in Et. cbn [app] in Et. injection Et as <- _.
        replace (it_fed it ++ t :: mid) with ((it_fed it ++ [t]) ++ mid) in F by (rewrite <- app_assoc; reflexivity).
        apply Hp in F. congruence.
  Qed.

  Theorem scan_longest : H_feed_prefix_closed -> H_stable_snippet_to_prefix -> H_skip ->
    forall s e v, In (s, e, v) scan ->
    forall e' l', snip_tokens s e' = Some l' -> tight s e' l' -> accepts_end l' = true -> e' <= e.
  Proof.
    intros Hp Hb Hs s e v I e' l' Sn T A. unfold Scan.scan, Scan.matches_of in I. apply in_flat_map in I.
    destruct I as (it & Iit & Im).
    pose proof scan_longest_wrt_tokens as F. rewrite Forall_forall in F. specialize (F _ Iit).
    pose proof F as OK.
    destruct F as (Sr & tail & k & Hm & Hfed & _ & Hacc & Hk & Hend & Hno).
    unfold Scan.match_of in Im. destruct (it_acc it) as [|t r] eqn:Ea; [contradiction|].
    destruct Im as [[= <- <- <-]|[]].
    assert (Hpre : main_stream (it_m it) = (t :: r) ++ (skipn k (it_fed it) ++ tail)).
    { rewrite Hm, Hacc, app_assoc, firstn_skipn. reflexivity. }
    destruct (Hb _ _ _ Sn T A) as (Fl & rest & El).
    cbn [app] in Hpre. rewrite (Hs _ _ _ _ Sr Hpre) in El. rewrite <- Hpre in El.
    destruct (prefix_within_fed it l' rest Hp OK El Fl) as (E1 & E2).
    set (j := length l') in *.
    assert (J : j <= k).
    { destruct (le_lt_dec j k); [assumption|]. rewrite E1 in A. rewrite (Hno j) in A; [discriminate | lia]. }
    destruct T as (t' & r' & El' & _ & <-).
    (* l' = firstn j fed = firstn j (firstn k fed) = firstn j acc *)
    assert (E3 : l' = firstn j (t :: r)).
    { rewrite Hacc, firstn_firstn, Nat.min_l by exact J. exact E1. }
    pose proof (iter_acc_chain _ OK) as (C & _). rewrite Ea in C.
    rewrite <- (firstn_skipn j (t :: r)) in C. rewrite <- E3 in C.
    pose proof (chain_app_last_le _ _ _ _ t C ltac:(rewrite El'; discriminate)) as Le.
    rewrite E3, firstn_skipn in Le. rewrite <- E3 in Le.
    rewrite El' in Le. rewrite !last_cons in Le. unfold last_tok.
    (* last r' t' versus last (t'::r') t *)
    replace (last r' t) with (last r' t') in Le.
    - exact Le.
    - assert (t' = t) as -> by (rewrite El' in E3; cbn in E3; destruct j; [discriminate | injection E3; auto]).
      reflexivity.
  Qed.

  Lemma no_miss_loop : H_feed_prefix_closed -> H_stable_snippet_to_prefix -> H_head ->
    H_search_least -> H_search_none -> H_starts ->
    forall fuel pos lc, wb + 2 - pos <= fuel -> pos <= wb + 1 ->
    forall p e l, pos <= p -> e <= wb -> snip_tokens p e = Some l -> tight p e l -> accepts_end l = true ->
    exists s' e' v, In (s', e', v) (matches_of (fst (loop fuel pos lc))) /\ s' <= p < e'.
  Proof.
    intros Hp Hb Hh Hl Hn Hst.
    induction fuel as [|fuel IH]; intros pos lc F L p e l Lp Le Sn T A; [lia|].
    assert (St : starts p = true /\ p < e).
    { destruct T as (t & r & -> & T1 & T2). split; [eapply Hst; eauto|].
      destruct (Hb _ _ _ Sn (ex_intro _ t (ex_intro _ r (conj eq_refl (conj T1 T2)))) A) as (_ & rest & E).
      pose proof (main_chain p) as C. rewrite E in C. apply chain_app_l in C. apply chain_last in C.
      unfold last_tok in T2. lia. }
    destruct St as (St & Lpe).
    rewrite loop_step. destruct (search pos) as [m|] eqn:Sr.
    2:{ exfalso. rewrite (Hn _ Sr p) in St; [discriminate | lia]. }
    cbn zeta. cbn [fst].
    pose proof (stunted_iter_ok pos m (advance_to isnl lc m) Sr) as OK. cbn zeta in OK.
    pose proof (iter_next_pos _ OK) as (N1 & N2). pose proof (iter_acc_chain _ OK) as (C & L1 & L2).
    cbn [it_m it_acc it_pos] in N1, N2, C, L1, L2.
    set (fk := stunted [] scan_longest_init (main_stream m)) in *.
    set (it := mkIter pos m (advance_to isnl lc m) (fst fk) (firstn (snd fk) (fst fk))) in *.
    assert (Mp : m <= p).
    { destruct (le_lt_dec m p); [assumption|]. rewrite (Hl _ _ Sr p) in St; [discriminate | lia]. }
    unfold Scan.matches_of. cbn [flat_map].
    assert (Rec : next_pos m (firstn (snd fk) (fst fk)) <= p ->
       exists s' e' v, In (s', e', v) (match_of it ++ flat_map match_of
          (fst (loop fuel (next_pos m (firstn (snd fk) (fst fk))) (advance_to isnl lc m)))) /\ s' <= p < e').
    { intros Lnp. destruct (IH (next_pos m (firstn (snd fk) (fst fk))) (advance_to isnl lc m)
                               ltac:(lia) N2 p e l Lnp Le Sn T A) as (s' & e' & v & I & R).
      exists s', e', v. split; [apply in_or_app; right; exact I | exact R]. }
    destruct (Nat.eq_dec p m) as [->|Np].
    - (* a snippet parses from match_start itself: the stunted parse must have accepted a prefix *)
      destruct (Hb _ _ _ Sn T A) as (Fl & rest & El).
      destruct (prefix_within_fed it l rest Hp OK El Fl) as (E1 & E2).
      destruct OK as (_ & tail & k & Hm & Hfed & _ & Hacc & Hk & Hend & Hno).
      unfold it in *. cbn [it_m it_fed it_acc] in *.
      assert (Lk : length l <= k).
      { destruct (le_lt_dec (length l) k); [assumption|]. rewrite E1 in A.
        rewrite (Hno (length l)) in A; [discriminate | lia]. }
      assert (L0 : 0 < length l) by (destruct T as (t & r & -> & _); cbn; lia).
      destruct (firstn k (fst fk)) as [|t r] eqn:Ea.
      { exfalso. apply (f_equal (@length _)) in Ea. rewrite firstn_length in Ea. cbn in Ea. lia. }
      assert (Hpre : main_stream m = (t :: r) ++ (skipn k (fst fk) ++ tail)).
      { rewrite Hm, <- Ea, app_assoc, firstn_skipn. reflexivity. }
      pose proof (Hh _ _ _ _ Sr Hpre) as Hd.
      exists (tk_start t), (tk_end (last_tok t r)), (parse_tokens (t :: r)). split.
      + apply in_or_app. left. unfold Scan.match_of. cbn [it_acc]. rewrite Hacc. left. reflexivity.
      + rewrite Hacc in C. apply chain_last in C. unfold last_tok. lia.
    - (* p > match_start: either inside the reported match or after the next search position *)
      unfold it in *. unfold next_pos in Rec, N1. unfold Scan.match_of at 1. cbn [it_acc].
      unfold Scan.match_of in Rec at 1. cbn [it_acc] in Rec.
      destruct (firstn (snd fk) (fst fk)) as [|t r] eqn:Ea.
      + apply Rec. rewrite fail_step_is_1. lia.
      + destruct (le_lt_dec (tk_end (last_tok t r)) p) as [Lq|Lq]; [apply Rec; exact Lq|].
        exists (tk_start t), (tk_end (last_tok t r)), (parse_tokens (t :: r)). split; [left; reflexivity|].
        destruct OK as (_ & tail & k & Hm & _ & _ & Hacc & _). cbn [it_m it_fed it_acc] in *.
        assert (Hpre : main_stream m = (t :: r) ++ (skipn k (fst fk) ++ tail)).
        { rewrite Hm, Hacc, app_assoc, firstn_skipn. reflexivity. }
        rewrite (Hh _ _ _ _ Sr Hpre). lia.
  Qed.

  Theorem scan_no_miss : H_feed_prefix_closed -> H_stable_snippet_to_prefix -> H_head ->
    H_search_least -> H_search_none -> H_starts ->
    forall p e l, wa <= p -> e <= wb -> snip_tokens p e = Some l -> tight p e l -> accepts_end l = true ->
    exists s' e' v, In (s', e', v) scan /\ s' <= p < e'.
  Proof.
    intros Hp Hb Hh Hl Hn Hst p e l Lp Le Sn T A.
    apply (no_miss_loop Hp Hb Hh Hl Hn Hst scan_fuel wa (from_text_slice isnl wa)
             ltac:(unfold scan_fuel; lia) ltac:(lia) p e l Lp Le Sn T A).
  Qed.
End LoopProofs.
