(* C14 - model of ParsingFrontend._scan (lark/parser_frontends.py) over abstract oracles.
   Executable definitions only; proofs are in Scan_proofs.v, comparison helpers in ScanCheck.v.

   The lexer, the LALR driver and Python's regex engine are *not* modelled here: they enter as
   Section variables (oracles).  What is modelled is the loop itself: where the next search starts,
   how the longest accepted token prefix is selected, which tokens are replayed, what range is
   reported, and how the line counter handed to each mid-text parse is maintained.

     while True:
         match_start = search_start(pos)                     -> [search]
         if match_start is None: return
         line_ctr.advance_to(text, match_start)              -> [advance_to]
         for token in lex(from match_start):                 -> [main_stream] = non-ignored part of [lex_from]
             feed_token(token)      (exception: stop)        -> [feed_ok]
             matched_tokens.append(token)
             if '$END' in choices() and trial-feed $END ok:  -> [end_choice], [end_trial]
                 longest_match = len(matched_tokens)
         if longest_match:
             matched = matched_tokens[:longest_match]; replay; feed_eof   -> [parse_tokens]
             yield (matched[0].start_pos, matched[-1].end_pos), value
             pos = matched[-1].end_pos
         else:
             pos = match_start + 1                           -> [scan_fail_step], regenerated
*)
From Coq Require Import List Arith Bool.
From LV Require Import Gen.ScanHoles.
Import ListNotations.

(* a token as the scan loop sees it: terminal (numbered), [start_pos, end_pos) in the full text,
   and whether its terminal is %ignore'd (such tokens are consumed by the lexer, never yielded) *)
Record tok := mkTok { tk_type : nat; tk_start : nat; tk_end : nat; tk_ign : bool }.

(* LineCounter: char_pos, line, line_start_pos (column is derived: char_pos - line_start_pos + 1) *)
Record lcount := mkLC { lc_pos : nat; lc_line : nat; lc_lsp : nat }.

Definition lc_column (c : lcount) : nat := lc_pos c - lc_lsp c + 1.

Section LineCounter.
  Variable isnl : nat -> bool.          (* text[i] is the newline character *)

  (* text.count(nl, lo, lo+n) *)
  Fixpoint count_nl (lo n : nat) : nat :=
    match n with
    | 0 => 0
    | S n' => (if isnl lo then 1 else 0) + count_nl (S lo) n'
    end.

  (* text.rindex(nl, lo, lo+n) *)
  Fixpoint last_nl (lo n : nat) : option nat :=
    match n with
    | 0 => None
    | S n' => match last_nl (S lo) n' with
              | Some i => Some i
              | None => if isnl lo then Some lo else None
              end
    end.

  Definition lc_init : lcount := mkLC lc_init_pos lc_init_line lc_init_lsp.

  (* LineCounter.advance_to(text, pos) *)
  Definition advance_to (c : lcount) (pos : nat) : lcount :=
    let newlines := count_nl (lc_pos c) (pos - lc_pos c) in
    if 0 <? newlines
    then mkLC pos (lc_line c + newlines)
              (match last_nl (lc_pos c) (pos - lc_pos c) with
               | Some i => i + lc_after_nl
               | None => lc_lsp c      (* unreachable: rindex raises iff count = 0 *)
               end)
    else mkLC pos (lc_line c) (lc_lsp c).

  (* LineCounter.from_text_slice for a plain TextSlice starting at [a] *)
  Definition from_text_slice (a : nat) : lcount :=
    if 0 <? a then advance_to lc_init a else lc_init.

  (* the specification: line number and start of line of an absolute offset *)
  Definition line_of (p : nat) : nat := 1 + count_nl 0 p.
  Definition lsp_of (p : nat) : nat := match last_nl 0 p with Some i => S i | None => 0 end.
  Definition coord (p : nat) : lcount := mkLC p (line_of p) (lsp_of p).
End LineCounter.

(* Scanner.search over the non-ignored terminals of the start state's lexer:
   the least position in [p, b) at which one of them matches *)
Section Search.
  Variable starts : nat -> bool.
  Variable wb : nat.
  Fixpoint find_from (n p : nat) : option nat :=
    match n with
    | 0 => None
    | S n' => if starts p then Some p else find_from n' (S p)
    end.
  Definition search_of (p : nat) : option nat := find_from (wb - p) p.
End Search.

Section Model.
  Variable value : Type.
  Variable isnl : nat -> bool.
  Variable wa wb : nat.                       (* text_slice.start, text_slice.end *)
  Variable search : nat -> option nat.        (* lexer.search_start(text_slice, start_state, pos) *)
  Variable lex_from : nat -> list tok.        (* everything the lexer matches from a position on, ignored included *)
  Variable feed_ok : list tok -> bool.        (* feeding exactly these tokens from the start state raises nothing *)
  Variable end_choice : list tok -> bool.     (* '$END' in choices() after these tokens *)
  Variable end_trial : list tok -> bool.      (* feeding $END to a copy of the state then succeeds *)
  Variable parse_tokens : list tok -> value.  (* replay with the real callbacks + feed_eof *)

  Definition main_stream (m : nat) : list tok := filter (fun t => negb (tk_ign t)) (lex_from m).

  Definition accepts_end (l : list tok) : bool := end_choice l && end_trial l.

  (* the stunted parse: [fed] = matched_tokens so far, [longest] = longest_match *)
  Fixpoint stunted (fed : list tok) (longest : nat) (rest : list tok) : list tok * nat :=
    match rest with
    | [] => (fed, longest)
    | t :: rest' =>
        let fed' := fed ++ [t] in
        if feed_ok fed'
        then stunted fed' (if accepts_end fed' then length fed' else longest) rest'
        else (fed, longest)
    end.

  Definition last_tok (t : tok) (r : list tok) : tok := last r t.

  (* where the next search starts *)
  Definition next_pos (m : nat) (acc : list tok) : nat :=
    match acc with
    | [] => m + scan_fail_step
    | t :: r => tk_end (last_tok t r)
    end.

  (* one turn of the while loop *)
  Record iter := mkIter {
    it_pos : nat;            (* position the search started from *)
    it_m : nat;              (* match_start *)
    it_lc : lcount;          (* line counter snapshot handed to the mid-text parse *)
    it_fed : list tok;       (* matched_tokens when the stunted parse stopped *)
    it_acc : list tok        (* matched_tokens[:longest_match] *)
  }.

  (* result: the turns, and the position of the final unsuccessful search (None = out of fuel) *)
  Fixpoint loop (fuel pos : nat) (lc : lcount) : list iter * option nat :=
    match fuel with
    | 0 => ([], None)
    | S f =>
        match search pos with
        | None => ([], Some pos)
        | Some m =>
            let lc' := advance_to isnl lc m in
            let '(fed, k) := stunted [] scan_longest_init (main_stream m) in
            let acc := firstn k fed in
            let '(its, fin) := loop f (next_pos m acc) lc' in
            (mkIter pos m lc' fed acc :: its, fin)
        end
    end.

  Definition scan_fuel : nat := wb + 2 - wa.
  Definition scan_iters : list iter * option nat := loop scan_fuel wa (from_text_slice isnl wa).

  Definition match_of (it : iter) : list (nat * nat * value) :=
    match it_acc it with
    | [] => []
    | t :: r => [(tk_start t, tk_end (last_tok t r), parse_tokens (it_acc it))]
    end.

  Definition matches_of (its : list iter) : list (nat * nat * value) := flat_map match_of its.

  (* list(Lark.scan(text)) *)
  Definition scan : list (nat * nat * value) := matches_of (fst scan_iters).
End Model.
