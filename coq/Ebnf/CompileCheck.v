(* Boolean comparison of the model's compiled rules with the rules read back from lark
   (harness stream compile-structure): equality up to a renaming of helper rules, found by a
   simultaneous traversal from the start rule; alternatives are compared in order. *)
From Coq Require Import ZArith List Bool Arith String Ascii.
From LV Require Import Base.Prelude Cfg.Grammar Ebnf.Compile.
Import ListNotations.

Definition alts_in (g : grammar) (a : nat) : list (list symbol) :=
  map rhs (filter (fun r => Nat.eqb (lhs r) a) g).

Definition pmap := list (nat * nat).     (* model rule number -> lark rule number *)

Fixpoint find_l (m : nat) (mp : pmap) : option nat :=
  match mp with [] => None | (a, b) :: r => if Nat.eqb a m then Some b else find_l m r end.

Definition in_range (l : nat) (mp : pmap) : bool := existsb (fun p => Nat.eqb (snd p) l) mp.

Fixpoint match_syms (mp : pmap) (xs ys : list symbol) : option pmap :=
  match xs, ys with
  | [], [] => Some mp
  | T a :: xs', T b :: ys' => if Nat.eqb a b then match_syms mp xs' ys' else None
  | NT m :: xs', NT l :: ys' =>
      match find_l m mp with
      | Some l' => if Nat.eqb l l' then match_syms mp xs' ys' else None
      | None => if in_range l mp then None else match_syms (mp ++ [(m, l)]) xs' ys'
      end
  | _, _ => None
  end.

Fixpoint match_alts (mp : pmap) (xs ys : list (list symbol)) : option pmap :=
  match xs, ys with
  | [], [] => Some mp
  | x :: xs', y :: ys' =>
      match match_syms mp x y with Some mp' => match_alts mp' xs' ys' | None => None end
  | _, _ => None
  end.

Fixpoint iso (gm gl : grammar) (fuel i : nat) (mp : pmap) : bool :=
  match fuel with
  | O => false
  | S f =>
      match nth_error mp i with
      | None => forallb (fun r => in_range (lhs r) mp) gl
      | Some (m, l) =>
          match match_alts mp (alts_in gm m) (alts_in gl l) with
          | Some mp' => iso gm gl f (S i) mp'
          | None => false
          end
      end
  end.

Definition mk_grammar (l : list (nat * list symbol)) : grammar := map (fun p => mkRule (fst p) (snd p)) l.

(* case = (expression, rules of lark: NT 0 = start, NT (S i) = helper named with counter i) *)
Definition compile_check (c : expr * list (nat * list symbol)) : bool :=
  let gl := mk_grammar (snd c) in
  match compile_pruned (fst c) with
  | Ok gm => Nat.eqb (List.length gm) (List.length gl) && iso gm gl (S (S (List.length gl))) 0 [(0, 0)]
  | _ => false
  end.

(* lark's rules as text (long list literals are slow to read): "0:t0 n2 t1 ;0:;1:t2 ;" - every rule is
   lhs ':' symbols ';', every symbol is 't' or 'n' followed by its number and a space *)
Fixpoint parse_rules (s : string) (lhs kind num : nat) (cur : list symbol)
         (acc : list (nat * list symbol)) : list (nat * list symbol) :=
  match s with
  | EmptyString => rev acc
  | String c s' =>
      let n := nat_of_ascii c in
      if (48 <=? n) && (n <=? 57) then parse_rules s' lhs kind (10 * num + (n - 48)) cur acc
      else if n =? 58 (* : *) then parse_rules s' num 0 0 [] acc
      else if n =? 116 (* t *) then parse_rules s' lhs 1 0 cur acc
      else if n =? 110 (* n *) then parse_rules s' lhs 2 0 cur acc
      else if n =? 32 then
        parse_rules s' lhs 0 0 (match kind with 1 => T num :: cur | 2 => NT num :: cur | _ => cur end) acc
      else if n =? 59 (* ; *) then parse_rules s' 0 0 0 [] ((lhs, rev cur) :: acc)
      else parse_rules s' lhs kind num cur acc
  end.

Definition compile_check_s (c : expr * string) : bool :=
  compile_check (fst c, parse_rules (snd c) 0 0 0 [] []).

(* the case where lark refuses the range *)
Definition compile_fails (e : expr) : bool :=
  match compile e with AssertFail => true | _ => false end.
