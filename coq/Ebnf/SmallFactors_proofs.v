(* small_factors (as regenerated from lark/utils.py): total, and its result folds back to n. *)
From Coq Require Import ZArith List Bool Lia.
From LV Require Import Base.Prelude Gen.SmallFactors.
Import ListNotations.
Local Open Scope Z_scope.

Definition sf_value (l : list (Z * Z)) : Z := fold_left (fun n p => n * fst p + snd p) l 1.

(* first pair is (n0, 0) with n0 <= mf; all later pairs have 2 <= a, 0 <= b < a, a + b <= mf *)
Definition sf_tail_ok (mf : Z) (l : list (Z * Z)) : Prop :=
  Forall (fun p => 2 <= fst p /\ 0 <= snd p < fst p /\ fst p + snd p <= mf) l.
Definition sf_wf (mf n : Z) (l : list (Z * Z)) : Prop :=
  exists a0 rest, l = (a0, 0) :: rest /\ 0 <= a0 <= mf /\ (1 <= n -> 1 <= a0) /\ sf_tail_ok mf rest.

Lemma for_desc_spec {A} (k : nat) : forall (a : Z) (body : Z -> option A) (d : A),
  (for_desc k a body d = d /\ forall i, (i < k)%nat -> body (a - Z.of_nat i) = None) \/
  (exists i r, (i < k)%nat /\ body (a - Z.of_nat i) = Some r /\ for_desc k a body d = r).
Proof.
  induction k as [|k IH]; intros a body d.
  - left. split; [reflexivity|]. intros i Hi. lia.
  - cbn [for_desc]. destruct (body a) as [r|] eqn:Hb.
    + right. exists 0%nat, r. split; [lia|]. split; [|reflexivity].
      replace (a - Z.of_nat 0) with a by lia. exact Hb.
    + destruct (IH (a - 1) body d) as [[Hd Hall]|(i & r & Hi & Hbi & Hr)].
      * left. split; auto. intros i Hi. destruct i as [|i].
        -- replace (a - Z.of_nat 0) with a by lia. exact Hb.
        -- replace (a - Z.of_nat (S i)) with (a - 1 - Z.of_nat i) by lia. apply Hall. lia.
      * right. exists (S i), r. split; [lia|]. split; [|exact Hr].
        replace (a - Z.of_nat (S i)) with (a - 1 - Z.of_nat i) by lia. exact Hbi.
Qed.

Lemma sf_value_app l a b : sf_value (l ++ [(a, b)]) = sf_value l * a + b.
Proof. unfold sf_value. rewrite fold_left_app. reflexivity. Qed.

Lemma small_factors_correct : forall (m : nat) (n mf : Z) (fuel : nat),
  (Z.to_nat n <= m)%nat -> 0 <= n -> 2 < mf -> (m < fuel)%nat ->
  exists l, small_factors fuel n mf = Ok l /\ sf_value l = n /\ sf_wf mf n l.
Proof.
  induction m as [m IH] using lt_wf_ind. intros n mf fuel Hm Hn Hmf Hfuel.
  destruct fuel as [|f]; [lia|]. cbn [small_factors].
  destruct (n <=? mf) eqn:Hle.
  - apply Z.leb_le in Hle. exists [(n, 0)]. split; [reflexivity|]. split.
    + unfold sf_value. cbn [fold_left fst snd]. lia.
    + exists n, []. repeat split; auto; try lia. constructor.
  - apply Z.leb_gt in Hle.
    match goal with |- context [for_desc ?k ?a ?body ?d] =>
      destruct (for_desc_spec k a body d) as [[_ Hall]|(i & r & Hi & Hbi & Hr)] end.
    + (* impossible: a = 2 always qualifies *)
      exfalso. specialize (Hall (Z.to_nat (mf - 2))). cbv beta in Hall.
      rewrite Z2Nat.id in Hall by lia. replace (mf - (mf - 2)) with 2 in Hall by lia.
      assert (Hb : 0 <= n mod 2 < 2) by (apply Z.mod_pos_bound; lia).
      replace (2 + n mod 2 <=? mf) with true in Hall by (symmetry; apply Z.leb_le; lia).
      assert (Hk : (Z.to_nat (mf - 2) < Z.to_nat (mf - 1))%nat) by lia.
      specialize (Hall Hk). discriminate.
    + rewrite Hr. clear Hr. cbv beta in Hbi.
      set (a := mf - Z.of_nat i) in *.
      assert (Ha : 2 <= a <= mf) by (unfold a; lia).
      destruct (a + n mod a <=? mf) eqn:Hc; [|discriminate].
      apply Z.leb_le in Hc. inversion Hbi; subst r; clear Hbi.
      assert (Hb : 0 <= n mod a < a) by (apply Z.mod_pos_bound; lia).
      assert (Hq : 1 <= n / a < n).
      { split.
        - apply Z.div_le_lower_bound; lia.
        - apply Z.div_lt; lia. }
      destruct (IH (m - 1)%nat ltac:(lia) (n / a) mf f ltac:(lia) ltac:(lia) Hmf ltac:(lia))
        as (l & Hl & Hv & Hwf).
      rewrite Hl. cbn [rbind]. exists (l ++ [(a, n mod a)]). split; [reflexivity|]. split.
      * rewrite sf_value_app, Hv. rewrite Z.mul_comm. symmetry. apply Z.div_mod. lia.
      * destruct Hwf as (a0 & rest & El & Ha0 & Hone & Htail).
        exists a0, (rest ++ [(a, n mod a)]). repeat split; try lia.
        -- rewrite El. reflexivity.
        -- unfold sf_tail_ok. apply Forall_app. split; auto.
           constructor; [|constructor]. simpl. lia.
Qed.

Theorem small_factors_spec n mf :
  0 <= n -> 2 < mf ->
  exists l, small_factors (S (Z.to_nat n)) n mf = Ok l /\ sf_value l = n /\ sf_wf mf n l.
Proof.
  intros Hn Hmf. apply (small_factors_correct (Z.to_nat n)); auto; lia.
Qed.
