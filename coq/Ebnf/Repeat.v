(* Executable model of EBNF_to_BNF's repetition operators (lark/load_grammar.py):
   _add_repeat_rule, _add_repeat_opt_rule, _generate_repeats, and expr for ? + *.
   Helper rules are embedded as sub-expressions (each helper is used as a symbol of the
   rule that refers to it), so a compiled fragment is a finite tree.
   small_factors and both thresholds come from Gen/ (regenerated from source). *)
From Coq Require Import ZArith List Bool.
From LV Require Import Base.Prelude Gen.Consts Gen.SmallFactors.
Import ListNotations.

Inductive rexp :=
| Atom                      (* the repeated item x *)
| Eps                       (* expansion [] *)
| Void                      (* expansions [] (no alternative) *)
| Cat (a b : rexp)
| Or (a b : rexp)
| Rec (e : rexp).           (* helper r : e | r e   (_add_recurse_rule) *)

Definition seq_of (l : list rexp) : rexp := fold_right Cat Eps l.   (* ST('expansion', l) *)
Definition alt_of (l : list rexp) : rexp := fold_right Or Void l.   (* ST('expansions', l) *)

(* tree = ST('expansions', [ST('expansion', [target] * a + [atom] * b)]) *)
Definition add_repeat_rule (a b : nat) (target atom : rexp) : rexp :=
  alt_of [seq_of (repeat target a ++ repeat atom b)].

(* [target]*i + [target_opt] for i in range(a);  [target]*a + [atom]*i for i in range(b) *)
Definition add_repeat_opt_rule (a b : nat) (target target_opt atom : rexp) : rexp :=
  alt_of (map (fun i => seq_of (repeat target i ++ [target_opt])) (seq 0 a)
          ++ map (fun i => seq_of (repeat target a ++ repeat atom i)) (seq 0 b)).

Definition natpair (p : Z * Z) : nat * nat := (Z.to_nat (fst p), Z.to_nat (snd p)).

Definition mn_step (rule : rexp) (t : rexp) (p : nat * nat) : rexp :=
  add_repeat_rule (fst p) (snd p) t rule.

Definition diff_step (rule : rexp) (s : rexp * rexp) (p : nat * nat) : rexp * rexp :=
  (add_repeat_rule (fst p) (snd p) (fst s) rule,
   add_repeat_opt_rule (fst p) (snd p) (fst s) (snd s) rule).

Definition sf_fuel (n : Z) : nat := S (Z.to_nat n).

Definition generate_repeats (rule : rexp) (mn mx : Z) : res rexp :=
  if (mx <? REPEAT_BREAK_THRESHOLD)%Z then
    Ok (alt_of (map (fun n => seq_of (repeat rule n)) (seq (Z.to_nat mn) (Z.to_nat (mx + 1 - mn)))))
  else
    rbind (small_factors (sf_fuel mn) mn SMALL_FACTOR_THRESHOLD) (fun fs =>
    let mn_target := fold_left (mn_step rule) (map natpair fs) rule in
    if (mx =? mn)%Z then Ok mn_target else
    let diff := (mx - mn + 1)%Z in
    rbind (small_factors (sf_fuel diff) diff SMALL_FACTOR_THRESHOLD) (fun dfs =>
    let dfs' := map natpair dfs in
    let s := fold_left (diff_step rule) (removelast dfs') (rule, seq_of []) in
    let p := last dfs' (0%nat, 0%nat) in
    let dopt := add_repeat_opt_rule (fst p) (snd p) (fst s) (snd s) rule in
    Ok (alt_of [seq_of [mn_target; dopt]]))).

(* expr: rule op *)
Definition op_opt (rule : rexp) : rexp := alt_of [rule; seq_of []].
Definition op_plus (rule : rexp) : rexp := Rec rule.
Definition op_star (rule : rexp) : rexp := alt_of [Rec rule; seq_of []].

(* ---- structural comparison for the correspondence check ---- *)
Fixpoint rexp_eqb (x y : rexp) : bool :=
  match x, y with
  | Atom, Atom | Eps, Eps | Void, Void => true
  | Cat a b, Cat c d | Or a b, Or c d => rexp_eqb a c && rexp_eqb b d
  | Rec a, Rec b => rexp_eqb a b
  | _, _ => false
  end.

Definition res_rexp_eqb (r : res rexp) (e : rexp) : bool :=
  match r with Ok x => rexp_eqb x e | _ => false end.

Fixpoint pairs_eqb (a b : list (Z * Z)) : bool :=
  match a, b with
  | [], [] => true
  | (x, y) :: a', (u, v) :: b' => Z.eqb x u && Z.eqb y v && pairs_eqb a' b'
  | _, _ => false
  end.

Definition sf_check (c : Z * Z * list (Z * Z)) : bool :=
  let '(n, mf, expected) := c in
  match small_factors (sf_fuel n) n mf with Ok l => pairs_eqb l expected | _ => false end.

Definition repeat_check (c : Z * Z * rexp) : bool :=
  let '(mn, mx, expected) := c in res_rexp_eqb (generate_repeats Atom mn mx) expected.
