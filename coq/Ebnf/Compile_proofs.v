(* The EBNF-to-BNF compilation preserves the language with the stated repetition counts (C09).
   CFG notion: Cfg/Grammar.v (symbol, rule, derives) with tokens = numbers of the user's symbols and
   tmatch = Nat.eqb, i.e. the language over the symbols of the original rule body. *)
From Coq Require Import ZArith List Bool Arith Lia.
From LV Require Import Base.Prelude Gen.Consts Gen.SmallFactors Cfg.Grammar Ebnf.Repeat
  Ebnf.SmallFactors_proofs Ebnf.Repeat_proofs Ebnf.Compile.
Import ListNotations.

(* ---- induction principles for the nested types ------------------------------------------------- *)
Section BtInd.
  Variable P : bt -> Prop.
  Hypothesis HSy : forall s, P (Sy s).
  Hypothesis HSq : forall l, Forall P l -> P (Sq l).
  Hypothesis HAl : forall l, Forall P l -> P (Al l).
  Fixpoint bt_ind' (t : bt) : P t :=
    match t with
    | Sy s => HSy s
    | Sq l => HSq l ((fix go (l : list bt) : Forall P l :=
                        match l with [] => Forall_nil P | x :: r => Forall_cons x (bt_ind' x) (go r) end) l)
    | Al l => HAl l ((fix go (l : list bt) : Forall P l :=
                        match l with [] => Forall_nil P | x :: r => Forall_cons x (bt_ind' x) (go r) end) l)
    end.
End BtInd.

Section ExprInd.
  Variable P : expr -> Prop.
  Hypothesis HSym : forall s, P (Sym s).
  Hypothesis HSeq : forall l, Forall P l -> P (Seq l).
  Hypothesis HAlt : forall l, Forall P l -> P (Alt l).
  Hypothesis HOpt : forall e, P e -> P (Opt e).
  Hypothesis HStar : forall e, P e -> P (Star e).
  Hypothesis HPlus : forall e, P e -> P (Plus e).
  Hypothesis HRep : forall e mn mx, P e -> P (Rep e mn mx).
  Fixpoint expr_ind' (e : expr) : P e :=
    match e with
    | Sym s => HSym s
    | Seq l => HSeq l ((fix go (l : list expr) : Forall P l :=
                          match l with [] => Forall_nil P | x :: r => Forall_cons x (expr_ind' x) (go r) end) l)
    | Alt l => HAlt l ((fix go (l : list expr) : Forall P l :=
                          match l with [] => Forall_nil P | x :: r => Forall_cons x (expr_ind' x) (go r) end) l)
    | Opt e => HOpt e (expr_ind' e)
    | Star e => HStar e (expr_ind' e)
    | Plus e => HPlus e (expr_ind' e)
    | Rep e mn mx => HRep e mn mx (expr_ind' e)
    end.
End ExprInd.

(* ---- decidable equality of trees and keys ------------------------------------------------------- *)
Fixpoint bts_eqb (l m : list bt) : bool :=
  match l, m with
  | [], [] => true
  | a :: l', b :: m' => bt_eqb a b && bts_eqb l' m'
  | _, _ => false
  end.

Lemma bt_eqb_Sq l m : bt_eqb (Sq l) (Sq m) = bts_eqb l m.
Proof. revert m. induction l as [|a l IH]; intros [|b m]; simpl; auto; try (f_equal; apply IH). Qed.
Lemma bt_eqb_Al l m : bt_eqb (Al l) (Al m) = bts_eqb l m.
Proof. revert m. induction l as [|a l IH]; intros [|b m]; simpl; auto; try (f_equal; apply IH). Qed.

Lemma bt_eqb_eq x : forall y, bt_eqb x y = true -> x = y.
Proof.
  induction x as [s|l IH|l IH] using bt_ind'; intros y H.
  - destruct y; simpl in H; try discriminate. destruct (symbol_eqb_spec s s0); congruence.
  - destruct y as [|m|]; try discriminate. rewrite bt_eqb_Sq in H. f_equal.
    revert m H. induction IH as [|a l Ha _ IHl]; intros [|b m] H; simpl in H; try discriminate; auto.
    apply andb_prop in H. destruct H as [H1 H2]. f_equal; auto.
  - destruct y as [| |m]; try discriminate. rewrite bt_eqb_Al in H. f_equal.
    revert m H. induction IH as [|a l Ha _ IHl]; intros [|b m] H; simpl in H; try discriminate; auto.
    apply andb_prop in H. destruct H as [H1 H2]. f_equal; auto.
Qed.

Lemma bt_eqb_refl x : bt_eqb x x = true.
Proof.
  induction x as [s|l IH|l IH] using bt_ind'.
  - simpl. destruct (symbol_eqb_spec s s); congruence.
  - rewrite bt_eqb_Sq. induction IH; simpl; auto. rewrite H. auto.
  - rewrite bt_eqb_Al. induction IH; simpl; auto. rewrite H. auto.
Qed.

Lemma key_eqb_eq k k' : key_eqb k k' = true -> k = k'.
Proof.
  destruct k, k'; simpl; intros H; try discriminate.
  - f_equal. apply bt_eqb_eq; auto.
  - repeat (apply andb_prop in H; destruct H as [H ?]).
    apply Nat.eqb_eq in H. apply Nat.eqb_eq in H2. f_equal; auto using bt_eqb_eq.
  - repeat (apply andb_prop in H; destruct H as [H ?]).
    apply Nat.eqb_eq in H. apply Nat.eqb_eq in H2. f_equal; auto using bt_eqb_eq.
Qed.

Lemma key_eqb_refl k : key_eqb k k = true.
Proof. destruct k; simpl; rewrite ?Nat.eqb_refl, ?bt_eqb_refl; auto. Qed.

Lemma lookup_some k c h : lookup k c = Some h -> In (k, h) c.
Proof.
  induction c as [|[k' h'] c IH]; simpl; [discriminate|].
  destruct (key_eqb k k') eqn:E.
  - intros [= ->]. left. f_equal. symmetry. apply key_eqb_eq; auto.
  - auto.
Qed.

Lemma lookup_none k c : lookup k c = None -> forall h, ~ In (k, h) c.
Proof.
  induction c as [|[k' h'] c IH]; simpl; auto.
  destruct (key_eqb k k') eqn:E; [discriminate|].
  intros H h [Heq|Hin]; [|eapply IH; eauto].
  inversion Heq; subst. rewrite key_eqb_refl in E. discriminate.
Qed.

(* ---- the alternatives of a tree ------------------------------------------------------------------ *)
Lemma syms_eqb_eq x : forall y, syms_eqb x y = true <-> x = y.
Proof.
  induction x as [|a x IH]; intros [|b y]; simpl; split; intros H; try discriminate; auto.
  - apply andb_prop in H. destruct H as [H1 H2]. destruct (symbol_eqb_spec a b); try discriminate.
    f_equal; auto. apply IH; auto.
  - inversion H; subst. destruct (symbol_eqb_spec b b); try congruence. apply IH; auto.
Qed.

Lemma dedup_In a l : In a (dedup l) <-> In a l.
Proof.
  induction l as [|x l IH]; simpl; [tauto|]. rewrite filter_In, IH. split.
  - intros [H|[H _]]; auto.
  - intros [H|H]; auto. destruct (syms_eqb x a) eqn:E.
    + left. apply syms_eqb_eq; auto.
    + right. split; auto.
Qed.

Definition seq_alts (l : list bt) : list (list symbol) := fold_right (fun x acc => cross (alts x) acc) [[]] l.
Definition alt_alts (l : list bt) : list (list symbol) := flat_map alts l.

Lemma alts_Sq l : alts (Sq l) = seq_alts l.
Proof. induction l as [|x l IH]; simpl; auto; try (simpl in IH; rewrite IH; auto). Qed.
Lemma alts_Al l : alts (Al l) = dedup (alt_alts l).
Proof. reflexivity. Qed.

Lemma cross_In xs ys a : In a (cross xs ys) <-> exists x y, In x xs /\ In y ys /\ a = x ++ y.
Proof.
  unfold cross. rewrite in_flat_map. split.
  - intros (x & Hx & Hin). apply in_map_iff in Hin. destruct Hin as (y & <- & Hy). eauto.
  - intros (x & y & Hx & Hy & ->). exists x. split; auto. apply in_map_iff. eauto.
Qed.

(* ---- language of a tree in a grammar ------------------------------------------------------------- *)
Section Lang.
  Variable G : grammar.
  Notation der := (derives G nat Nat.eqb).

  Definition lang (t : bt) (w : list nat) : Prop := exists a, In a (alts t) /\ der a w.

  Lemma der_nil_inv w : der [] w -> w = [].
  Proof. intros H; inversion H; auto. Qed.

  Lemma lang_T s w : lang (Sy (T s)) w <-> w = [s].
  Proof.
    split.
    - intros (a & [<-|[]] & H). inversion H as [|t k ss w' Hm Hd|]; subst.
      apply der_nil_inv in Hd. subst. apply Nat.eqb_eq in Hm. subst. auto.
    - intros ->. exists [T s]. split; [left; auto|]. constructor; [apply Nat.eqb_refl | constructor].
  Qed.

  Lemma lang_Sy s w : lang (Sy s) w <-> der [s] w.
  Proof.
    split.
    - intros (a & [<-|[]] & H). auto.
    - intros H. exists [s]. split; [left; auto | auto].
  Qed.

  Lemma lang_Sq_nil w : lang (Sq []) w <-> w = [].
  Proof.
    split.
    - intros (a & [<-|[]] & H). apply der_nil_inv; auto.
    - intros ->. exists []. split; [left; auto | constructor].
  Qed.

  Lemma lang_Sq_cons x r w :
    lang (Sq (x :: r)) w <-> exists u v, w = u ++ v /\ lang x u /\ lang (Sq r) v.
  Proof.
    unfold lang. rewrite !alts_Sq. simpl. split.
    - intros (a & Hin & Hd). apply cross_In in Hin. destruct Hin as (p & q & Hp & Hq & ->).
      apply derives_split in Hd. destruct Hd as (u & v & -> & Hu & Hv).
      exists u, v. split; auto. split; [exists p | exists q]; auto.
    - intros (u & v & -> & (p & Hp & Hu) & (q & Hq & Hv)).
      exists (p ++ q). split; [apply cross_In; eauto | apply derives_app; auto].
  Qed.

  Lemma lang_Al l w : lang (Al l) w <-> exists x, In x l /\ lang x w.
  Proof.
    unfold lang. change (alts (Al l)) with (dedup (alt_alts l)). split.
    - intros (a & Hin & Hd). apply (proj1 (dedup_In _ _)) in Hin. unfold alt_alts in Hin. apply in_flat_map in Hin.
      destruct Hin as (x & Hx & Ha). eauto.
    - intros (x & Hx & a & Ha & Hd). exists a. split; auto. apply (proj2 (dedup_In _ _)). apply in_flat_map. eauto.
  Qed.

  Lemma lang_Al_cons x r w : lang (Al (x :: r)) w <-> lang x w \/ lang (Al r) w.
  Proof.
    rewrite !lang_Al. split.
    - intros (y & [<-|Hy] & H); eauto.
    - intros [H|(y & Hy & H)]; [exists x | exists y]; simpl; auto.
  Qed.

  Lemma lang_Al_nil w : ~ lang (Al []) w.
  Proof. rewrite lang_Al. intros (x & [] & _). Qed.

  (* ---- the grammar consists of the helper definitions D (plus rules for NT 0) ---- *)
  Variable D : list (nat * bt).
  Hypothesis HG1 : forall r h, In r G -> lhs r = S h -> exists t, In (h, t) D /\ In (rhs r) (alts t).
  Hypothesis HG2 : forall h t a, In (h, t) D -> In a (alts t) -> In (mkRule (S h) a) G.
  Hypothesis HD : forall h t t', In (h, t) D -> In (h, t') D -> t = t'.

  Lemma nt_unfold h t w : In (h, t) D -> (der [NT (S h)] w <-> lang t w).
  Proof.
    intros Hin. split.
    - intros H. inversion H as [| |a r ss w1 w2 Hr Hl Hd1 Hd2]; subst.
      apply der_nil_inv in Hd2. subst. rewrite app_nil_r.
      destruct (HG1 r h Hr Hl) as (t' & Hin' & Ha). rewrite (HD _ _ _ Hin Hin'). exists (rhs r). auto.
    - intros (a & Ha & Hd). rewrite <- (app_nil_r w).
      apply (d_nt G nat Nat.eqb (S h) (mkRule (S h) a) [] w []); auto; [eapply HG2; eauto | constructor].
  Qed.
End Lang.

(* ---- helper symbols read as the trees of Ebnf/Repeat.v (helpers inlined) ---------------------- *)
Lemma alts_Sq1 x a : In a (alts (Sq [x])) <-> In a (alts x).
Proof.
  rewrite alts_Sq. simpl. rewrite cross_In. split.
  - intros (p & q & Hp & [<-|[]] & ->). rewrite app_nil_r. auto.
  - intros H. exists a, []. rewrite app_nil_r. simpl; auto.
Qed.

Lemma alts_Sq2 s x a : In a (alts (Sq [Sy s; x])) <-> exists p, In p (alts x) /\ a = s :: p.
Proof.
  rewrite alts_Sq. unfold seq_alts. cbn [fold_right]. change (alts (Sy s)) with [[s]]. rewrite cross_In. split.
  - intros (p & q & [<-|[]] & Hq & ->). apply cross_In in Hq. destruct Hq as (p' & q' & Hp' & [<-|[]] & ->).
    exists p'. rewrite app_nil_r. auto.
  - intros (p & Hp & ->). exists [s], p. split; [left; auto|]. split; auto.
    apply cross_In. exists p, []. rewrite app_nil_r. simpl; auto.
Qed.

Lemma rec_body_alts x h a :
  In a (alts (rec_body x h)) <-> In a (alts x) \/ exists p, In p (alts x) /\ a = NT (S h) :: p.
Proof.
  unfold rec_body. change (alts (Al [Sq [x]; Sq [Sy (NT (S h)); x]]))
    with (dedup (alts (Sq [x]) ++ alts (Sq [Sy (NT (S h)); x]) ++ [])).
  rewrite dedup_In, app_nil_r, in_app_iff, alts_Sq1, alts_Sq2. tauto.
Qed.

Section Sem.
  Variable G : grammar.
  Variable D : list (nat * bt).
  Hypothesis HG1 : forall r h, In r G -> lhs r = S h -> exists t, In (h, t) D /\ In (rhs r) (alts t).
  Hypothesis HG2 : forall h t a, In (h, t) D -> In a (alts t) -> In (mkRule (S h) a) G.
  Hypothesis HD : forall h t t', In (h, t) D -> In (h, t') D -> t = t'.
  Notation der := (derives G nat Nat.eqb).
  Notation lng := (lang G).

  Variable atom : bt.
  Variable A : list nat -> Prop.
  Hypothesis Hatom : forall w, lng atom w <-> A w.

  Inductive inl : bt -> rexp -> Prop :=
  | inl_atom : inl atom Atom
  | inl_sq_nil : inl (Sq []) Eps
  | inl_sq_cons x r xr rr : inl x xr -> inl (Sq r) rr -> inl (Sq (x :: r)) (Cat xr rr)
  | inl_al_nil : inl (Al []) Void
  | inl_al_cons x r xr rr : inl x xr -> inl (Al r) rr -> inl (Al (x :: r)) (Or xr rr)
  | inl_nt h t r : In (h, t) D -> inl t r -> inl (Sy (NT (S h))) r
  | inl_rec h x xr : In (h, rec_body x h) D -> inl x xr -> inl (Sy (NT (S h))) (Rec xr).

  Lemma inl_seq_of l lr : Forall2 inl l lr -> inl (Sq l) (seq_of lr).
  Proof. induction 1; simpl; constructor; auto. Qed.
  Lemma inl_alt_of l lr : Forall2 inl l lr -> inl (Al l) (alt_of lr).
  Proof. induction 1; simpl; constructor; auto. Qed.

  Lemma Forall2_repeat (x : bt) (r : rexp) n : inl x r -> Forall2 inl (repeat x n) (repeat r n).
  Proof. intros H. induction n; simpl; constructor; auto. Qed.

  Lemma rec_sound h x xr :
    In (h, rec_body x h) D -> (forall w, lng x w <-> den nat A xr w) ->
    forall w, der [NT (S h)] w <-> den nat A (Rec xr) w.
  Proof.
    intros Hin Hx. split.
    - intros Hd.
      assert (Hgen : forall ss w, der ss w -> forall rest, ss = NT (S h) :: rest ->
                exists u v, w = u ++ v /\ den nat A (Rec xr) u /\ der rest v).
      { clear w Hd. induction 1 as [|t k ss w Hm Hd IH|a r ss w1 w2 Hr Hl Hd1 IH1 Hd2 IH2];
          intros rest Heq; try discriminate.
        injection Heq as Hq1 Hs. subst ss. assert (Hl' : lhs r = S h) by congruence.
        exists w1, w2. split; auto. split; auto.
        destruct (HG1 r h Hr Hl') as (t' & Hin' & Ha). rewrite <- (HD _ _ _ Hin Hin') in Ha.
        apply rec_body_alts in Ha. destruct Ha as [Ha|(p & Hp & Ha)].
        - apply d_rec1. apply Hx. exists (rhs r). auto.
        - destruct (IH1 p Ha) as (u & v & -> & Hu & Hv). apply d_rec2; auto.
          apply Hx. exists p. auto. }
      destruct (Hgen _ _ Hd [] eq_refl) as (u & v & -> & Hu & Hv).
      apply der_nil_inv in Hv. subst. rewrite app_nil_r. auto.
    - intros Hd. remember (Rec xr) as rr eqn:Er. induction Hd; inversion Er; subst.
      + apply (nt_unfold G D HG1 HG2 HD h _ w Hin). apply Hx in Hd. destruct Hd as (a & Ha & Hd).
        exists a. split; auto. apply rec_body_alts. auto.
      + specialize (IHHd1 eq_refl). apply Hx in Hd2. destruct Hd2 as (p & Hp & Hd2).
        apply (nt_unfold G D HG1 HG2 HD h _ _ Hin). exists (NT (S h) :: p). split.
        * apply rec_body_alts. right. eauto.
        * change (NT (S h) :: p) with ([NT (S h)] ++ p). apply derives_app; auto.
  Qed.

  Theorem inl_sound x r : inl x r -> forall w, lng x w <-> den nat A r w.
  Proof.
    induction 1 as [| |x r xr rr Hx IHx Hr IHr| |x r xr rr Hx IHx Hr IHr|h t r Hin Ht IHt|h x xr Hin Hx IHx]; intros w.
    - rewrite Hatom. split; intros H; [constructor; auto | inversion H; auto].
    - rewrite lang_Sq_nil. split; intros H; [subst; constructor | inversion H; auto].
    - rewrite lang_Sq_cons. split.
      + intros (u & v & -> & Hu & Hv). constructor; [apply IHx | apply IHr]; auto.
      + intros H. inversion H; subst. exists u, v. split; auto. split; [apply IHx | apply IHr]; auto.
    - split; intros H; [exfalso; eapply lang_Al_nil; eauto | inversion H].
    - rewrite lang_Al_cons. split.
      + intros [H|H]; [apply d_or_l; apply IHx | apply d_or_r; apply IHr]; auto.
      + intros H. inversion H; subst; [left; apply IHx | right; apply IHr]; auto.
    - rewrite lang_Sy, (nt_unfold G D HG1 HG2 HD h t w Hin). apply IHt.
    - rewrite lang_Sy. apply (rec_sound h x xr Hin IHx).
  Qed.
End Sem.
