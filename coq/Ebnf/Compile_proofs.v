(* The EBNF-to-BNF compilation preserves the language with the stated repetition counts (C09).
   CFG notion: Cfg/Grammar.v (symbol, rule, derives) with tokens = numbers of the user's symbols and
   tmatch = Nat.eqb, i.e. the language over the symbols of the original rule body. *)
From Coq Require Import ZArith List Bool Arith Lia.
From LV Require Import Base.Prelude Gen.Consts Gen.SmallFactors Cfg.Grammar Ebnf.Repeat
  Ebnf.SmallFactors_proofs Ebnf.Repeat_proofs Ebnf.Compile.
Import ListNotations.

(* ---- induction principles for the nested types ------------------------------------------------- *)
Section BtInd.
  Variable P : bt -> Prop.
  Hypothesis HSy : forall s, P (Sy s).
  Hypothesis HSq : forall l, Forall P l -> P (Sq l).
  Hypothesis HAl : forall l, Forall P l -> P (Al l).
  Fixpoint bt_ind' (t : bt) : P t :=
    match t with
    | Sy s => HSy s
    | Sq l => HSq l ((fix go (l : list bt) : Forall P l :=
                        match l with [] => Forall_nil P | x :: r => Forall_cons x (bt_ind' x) (go r) end) l)
    | Al l => HAl l ((fix go (l : list bt) : Forall P l :=
                        match l with [] => Forall_nil P | x :: r => Forall_cons x (bt_ind' x) (go r) end) l)
    end.
End BtInd.

Section ExprInd.
  Variable P : expr -> Prop.
  Hypothesis HSym : forall s, P (Sym s).
  Hypothesis HSeq : forall l, Forall P l -> P (Seq l).
  Hypothesis HAlt : forall l, Forall P l -> P (Alt l).
  Hypothesis HOpt : forall e, P e -> P (Opt e).
  Hypothesis HStar : forall e, P e -> P (Star e).
  Hypothesis HPlus : forall e, P e -> P (Plus e).
  Hypothesis HRep : forall e mn mx, P e -> P (Rep e mn mx).
  Fixpoint expr_ind' (e : expr) : P e :=
    match e with
    | Sym s => HSym s
    | Seq l => HSeq l ((fix go (l : list expr) : Forall P l :=
                          match l with [] => Forall_nil P | x :: r => Forall_cons x (expr_ind' x) (go r) end) l)
    | Alt l => HAlt l ((fix go (l : list expr) : Forall P l :=
                          match l with [] => Forall_nil P | x :: r => Forall_cons x (expr_ind' x) (go r) end) l)
    | Opt e => HOpt e (expr_ind' e)
    | Star e => HStar e (expr_ind' e)
    | Plus e => HPlus e (expr_ind' e)
    | Rep e mn mx => HRep e mn mx (expr_ind' e)
    end.
End ExprInd.

(* ---- decidable equality of trees and keys ------------------------------------------------------- *)
Fixpoint bts_eqb (l m : list bt) : bool :=
  match l, m with
  | [], [] => true
  | a :: l', b :: m' => bt_eqb a b && bts_eqb l' m'
  | _, _ => false
  end.

Lemma bt_eqb_Sq l m : bt_eqb (Sq l) (Sq m) = bts_eqb l m.
Proof. revert m. induction l as [|a l IH]; intros [|b m]; simpl; auto; try (f_equal; apply IH). Qed.
Lemma bt_eqb_Al l m : bt_eqb (Al l) (Al m) = bts_eqb l m.
Proof. revert m. induction l as [|a l IH]; intros [|b m]; simpl; auto; try (f_equal; apply IH). Qed.

Lemma bt_eqb_eq x : forall y, bt_eqb x y = true -> x = y.
Proof.
  induction x as [s|l IH|l IH] using bt_ind'; intros y H.
  - destruct y; simpl in H; try discriminate. destruct (symbol_eqb_spec s s0); congruence.
  - destruct y as [|m|]; try discriminate. rewrite bt_eqb_Sq in H. f_equal.
    revert m H. induction IH as [|a l Ha _ IHl]; intros [|b m] H; simpl in H; try discriminate; auto.
    apply andb_prop in H. destruct H as [H1 H2]. f_equal; auto.
  - destruct y as [| |m]; try discriminate. rewrite bt_eqb_Al in H. f_equal.
    revert m H. induction IH as [|a l Ha _ IHl]; intros [|b m] H; simpl in H; try discriminate; auto.
    apply andb_prop in H. destruct H as [H1 H2]. f_equal; auto.
Qed.

Lemma bt_eqb_refl x : bt_eqb x x = true.
Proof.
  induction x as [s|l IH|l IH] using bt_ind'.
  - simpl. destruct (symbol_eqb_spec s s); congruence.
  - rewrite bt_eqb_Sq. induction IH; simpl; auto. rewrite H. auto.
  - rewrite bt_eqb_Al. induction IH; simpl; auto. rewrite H. auto.
Qed.

Lemma key_eqb_eq k k' : key_eqb k k' = true -> k = k'.
Proof.
  destruct k, k'; simpl; intros H; try discriminate.
  - f_equal. apply bt_eqb_eq; auto.
  - repeat (apply andb_prop in H; destruct H as [H ?]).
    apply Nat.eqb_eq in H. apply Nat.eqb_eq in H2. f_equal; auto using bt_eqb_eq.
  - repeat (apply andb_prop in H; destruct H as [H ?]).
    apply Nat.eqb_eq in H. apply Nat.eqb_eq in H2. f_equal; auto using bt_eqb_eq.
Qed.

Lemma key_eqb_refl k : key_eqb k k = true.
Proof. destruct k; simpl; rewrite ?Nat.eqb_refl, ?bt_eqb_refl; auto. Qed.

Lemma lookup_some k c h : lookup k c = Some h -> In (k, h) c.
Proof.
  induction c as [|[k' h'] c IH]; simpl; [discriminate|].
  destruct (key_eqb k k') eqn:E.
  - intros [= ->]. left. f_equal. symmetry. apply key_eqb_eq; auto.
  - auto.
Qed.

Lemma lookup_none k c : lookup k c = None -> forall h, ~ In (k, h) c.
Proof.
  induction c as [|[k' h'] c IH]; simpl; auto.
  destruct (key_eqb k k') eqn:E; [discriminate|].
  intros H h [Heq|Hin]; [|eapply IH; eauto].
  inversion Heq; subst. rewrite key_eqb_refl in E. discriminate.
Qed.

(* ---- the alternatives of a tree ------------------------------------------------------------------ *)
Lemma syms_eqb_eq x : forall y, syms_eqb x y = true <-> x = y.
Proof.
  induction x as [|a x IH]; intros [|b y]; simpl; split; intros H; try discriminate; auto.
  - apply andb_prop in H. destruct H as [H1 H2]. destruct (symbol_eqb_spec a b); try discriminate.
    f_equal; auto. apply IH; auto.
  - inversion H; subst. destruct (symbol_eqb_spec b b); try congruence. apply IH; auto.
Qed.

Lemma dedup_In a l : In a (dedup l) <-> In a l.
Proof.
  induction l as [|x l IH]; simpl; [tauto|]. rewrite filter_In, IH. split.
  - intros [H|[H _]]; auto.
  - intros [H|H]; auto. destruct (syms_eqb x a) eqn:E.
    + left. apply syms_eqb_eq; auto.
    + right. split; auto.
Qed.

Definition seq_alts (l : list bt) : list (list symbol) := fold_right (fun x acc => cross (alts x) acc) [[]] l.
Definition alt_alts (l : list bt) : list (list symbol) := flat_map alts l.

Lemma alts_Sq l : alts (Sq l) = seq_alts l.
Proof. induction l as [|x l IH]; simpl; auto; try (simpl in IH; rewrite IH; auto). Qed.
Lemma alts_Al l : alts (Al l) = dedup (alt_alts l).
Proof. reflexivity. Qed.

Lemma cross_In xs ys a : In a (cross xs ys) <-> exists x y, In x xs /\ In y ys /\ a = x ++ y.
Proof.
  unfold cross. rewrite in_flat_map. split.
  - intros (x & Hx & Hin). apply in_map_iff in Hin. destruct Hin as (y & <- & Hy). eauto.
  - intros (x & y & Hx & Hy & ->). exists x. split; auto. apply in_map_iff. eauto.
Qed.

(* ---- language of a tree in a grammar ------------------------------------------------------------- *)
Section Lang.
  Variable G : grammar.
  Notation der := (derives G nat Nat.eqb).

  Definition lang (t : bt) (w : list nat) : Prop := exists a, In a (alts t) /\ der a w.

  Lemma der_nil_inv w : der [] w -> w = [].
  Proof. intros H; inversion H; auto. Qed.

  Lemma lang_T s w : lang (Sy (T s)) w <-> w = [s].
  Proof.
    split.
    - intros (a & [<-|[]] & H). inversion H as [|t k ss w' Hm Hd|]; subst.
      apply der_nil_inv in Hd. subst. apply Nat.eqb_eq in Hm. subst. auto.
    - intros ->. exists [T s]. split; [left; auto|]. constructor; [apply Nat.eqb_refl | constructor].
  Qed.

  Lemma lang_Sy s w : lang (Sy s) w <-> der [s] w.
  Proof.
    split.
    - intros (a & [<-|[]] & H). auto.
    - intros H. exists [s]. split; [left; auto | auto].
  Qed.

  Lemma lang_Sq_nil w : lang (Sq []) w <-> w = [].
  Proof.
    split.
    - intros (a & [<-|[]] & H). apply der_nil_inv; auto.
    - intros ->. exists []. split; [left; auto | constructor].
  Qed.

  Lemma lang_Sq_cons x r w :
    lang (Sq (x :: r)) w <-> exists u v, w = u ++ v /\ lang x u /\ lang (Sq r) v.
  Proof.
    unfold lang. rewrite !alts_Sq. simpl. split.
    - intros (a & Hin & Hd). apply cross_In in Hin. destruct Hin as (p & q & Hp & Hq & ->).
      apply derives_split in Hd. destruct Hd as (u & v & -> & Hu & Hv).
      exists u, v. split; auto. split; [exists p | exists q]; auto.
    - intros (u & v & -> & (p & Hp & Hu) & (q & Hq & Hv)).
      exists (p ++ q). split; [apply cross_In; eauto | apply derives_app; auto].
  Qed.

  Lemma lang_Al l w : lang (Al l) w <-> exists x, In x l /\ lang x w.
  Proof.
    unfold lang. change (alts (Al l)) with (dedup (alt_alts l)). split.
    - intros (a & Hin & Hd). apply (proj1 (dedup_In _ _)) in Hin. unfold alt_alts in Hin. apply in_flat_map in Hin.
      destruct Hin as (x & Hx & Ha). eauto.
    - intros (x & Hx & a & Ha & Hd). exists a. split; auto. apply (proj2 (dedup_In _ _)). apply in_flat_map. eauto.
  Qed.

  Lemma lang_Al_cons x r w : lang (Al (x :: r)) w <-> lang x w \/ lang (Al r) w.
  Proof.
    rewrite !lang_Al. split.
    - intros (y & [<-|Hy] & H); eauto.
    - intros [H|(y & Hy & H)]; [exists x | exists y]; simpl; auto.
  Qed.

  Lemma lang_Al_nil w : ~ lang (Al []) w.
  Proof. rewrite lang_Al. intros (x & [] & _). Qed.

  (* ---- the grammar consists of the helper definitions D (plus rules for NT 0) ---- *)
  Variable D : list (nat * bt).
  Hypothesis HG1 : forall r h, In r G -> lhs r = S h -> exists t, In (h, t) D /\ In (rhs r) (alts t).
  Hypothesis HG2 : forall h t a, In (h, t) D -> In a (alts t) -> In (mkRule (S h) a) G.
  Hypothesis HD : forall h t t', In (h, t) D -> In (h, t') D -> t = t'.

  Lemma nt_unfold h t w : In (h, t) D -> (der [NT (S h)] w <-> lang t w).
  Proof.
    intros Hin. split.
    - intros H. inversion H as [| |a r ss w1 w2 Hr Hl Hd1 Hd2]; subst.
      apply der_nil_inv in Hd2. subst. rewrite app_nil_r.
      destruct (HG1 r h Hr Hl) as (t' & Hin' & Ha). rewrite (HD _ _ _ Hin Hin'). exists (rhs r). auto.
    - intros (a & Ha & Hd). rewrite <- (app_nil_r w).
      apply (d_nt G nat Nat.eqb (S h) (mkRule (S h) a) [] w []); auto; [eapply HG2; eauto | constructor].
  Qed.
End Lang.

(* ---- helper symbols read as the trees of Ebnf/Repeat.v (helpers inlined) ---------------------- *)
Lemma alts_Sq1 x a : In a (alts (Sq [x])) <-> In a (alts x).
Proof.
  rewrite alts_Sq. simpl. rewrite cross_In. split.
  - intros (p & q & Hp & [<-|[]] & ->). rewrite app_nil_r. auto.
  - intros H. exists a, []. rewrite app_nil_r. simpl; auto.
Qed.

Lemma alts_Sq2 s x a : In a (alts (Sq [Sy s; x])) <-> exists p, In p (alts x) /\ a = s :: p.
Proof.
  rewrite alts_Sq. unfold seq_alts. cbn [fold_right]. change (alts (Sy s)) with [[s]]. rewrite cross_In. split.
  - intros (p & q & [<-|[]] & Hq & ->). apply cross_In in Hq. destruct Hq as (p' & q' & Hp' & [<-|[]] & ->).
    exists p'. rewrite app_nil_r. auto.
  - intros (p & Hp & ->). exists [s], p. split; [left; auto|]. split; auto.
    apply cross_In. exists p, []. rewrite app_nil_r. simpl; auto.
Qed.

Lemma rec_body_alts x h a :
  In a (alts (rec_body x h)) <-> In a (alts x) \/ exists p, In p (alts x) /\ a = NT (S h) :: p.
Proof.
  unfold rec_body. change (alts (Al [Sq [x]; Sq [Sy (NT (S h)); x]]))
    with (dedup (alts (Sq [x]) ++ alts (Sq [Sy (NT (S h)); x]) ++ [])).
  rewrite dedup_In, app_nil_r, in_app_iff, alts_Sq1, alts_Sq2. tauto.
Qed.

Section Sem.
  Variable G : grammar.
  Variable D : list (nat * bt).
  Hypothesis HG1 : forall r h, In r G -> lhs r = S h -> exists t, In (h, t) D /\ In (rhs r) (alts t).
  Hypothesis HG2 : forall h t a, In (h, t) D -> In a (alts t) -> In (mkRule (S h) a) G.
  Hypothesis HD : forall h t t', In (h, t) D -> In (h, t') D -> t = t'.
  Notation der := (derives G nat Nat.eqb).
  Notation lng := (lang G).

  Variable atom : bt.
  Variable A : list nat -> Prop.
  Hypothesis Hatom : forall w, lng atom w <-> A w.

  Inductive inl : bt -> rexp -> Prop :=
  | inl_atom : inl atom Atom
  | inl_sq_nil : inl (Sq []) Eps
  | inl_sq_cons x r xr rr : inl x xr -> inl (Sq r) rr -> inl (Sq (x :: r)) (Cat xr rr)
  | inl_al_nil : inl (Al []) Void
  | inl_al_cons x r xr rr : inl x xr -> inl (Al r) rr -> inl (Al (x :: r)) (Or xr rr)
  | inl_nt h t r : In (h, t) D -> inl t r -> inl (Sy (NT (S h))) r
  | inl_rec h x xr : In (h, rec_body x h) D -> inl x xr -> inl (Sy (NT (S h))) (Rec xr).

  Lemma inl_seq_of l lr : Forall2 inl l lr -> inl (Sq l) (seq_of lr).
  Proof. induction 1; simpl; constructor; auto. Qed.
  Lemma inl_alt_of l lr : Forall2 inl l lr -> inl (Al l) (alt_of lr).
  Proof. induction 1; simpl; constructor; auto. Qed.

  Lemma Forall2_repeat (x : bt) (r : rexp) n : inl x r -> Forall2 inl (repeat x n) (repeat r n).
  Proof. intros H. induction n; simpl; constructor; auto. Qed.

  Lemma rec_sound h x xr :
    In (h, rec_body x h) D -> (forall w, lng x w <-> den nat A xr w) ->
    forall w, der [NT (S h)] w <-> den nat A (Rec xr) w.
  Proof.
    intros Hin Hx. split.
    - intros Hd.
      assert (Hgen : forall ss w, der ss w -> forall rest, ss = NT (S h) :: rest ->
                exists u v, w = u ++ v /\ den nat A (Rec xr) u /\ der rest v).
      { clear w Hd. induction 1 as [|t k ss w Hm Hd IH|a r ss w1 w2 Hr Hl Hd1 IH1 Hd2 IH2];
          intros rest Heq; try discriminate.
        injection Heq as Hq1 Hs. subst ss. assert (Hl' : lhs r = S h) by congruence.
        exists w1, w2. split; auto. split; auto.
        destruct (HG1 r h Hr Hl') as (t' & Hin' & Ha). rewrite <- (HD _ _ _ Hin Hin') in Ha.
        apply rec_body_alts in Ha. destruct Ha as [Ha|(p & Hp & Ha)].
        - apply d_rec1. apply Hx. exists (rhs r). auto.
        - destruct (IH1 p Ha) as (u & v & -> & Hu & Hv). apply d_rec2; auto.
          apply Hx. exists p. auto. }
      destruct (Hgen _ _ Hd [] eq_refl) as (u & v & -> & Hu & Hv).
      apply der_nil_inv in Hv. subst. rewrite app_nil_r. auto.
    - intros Hd. remember (Rec xr) as rr eqn:Er. induction Hd; inversion Er; subst.
      + apply (nt_unfold G D HG1 HG2 HD h _ w Hin). apply Hx in Hd. destruct Hd as (a & Ha & Hd).
        exists a. split; auto. apply rec_body_alts. auto.
      + specialize (IHHd1 eq_refl). apply Hx in Hd2. destruct Hd2 as (p & Hp & Hd2).
        apply (nt_unfold G D HG1 HG2 HD h _ _ Hin). exists (NT (S h) :: p). split.
        * apply rec_body_alts. right. eauto.
        * change (NT (S h) :: p) with ([NT (S h)] ++ p). apply derives_app; auto.
  Qed.

  Theorem inl_sound x r : inl x r -> forall w, lng x w <-> den nat A r w.
  Proof.
    induction 1 as [| |x r xr rr Hx IHx Hr IHr| |x r xr rr Hx IHx Hr IHr|h t r Hin Ht IHt|h x xr Hin Hx IHx]; intros w.
    - rewrite Hatom. split; intros H; [constructor; auto | inversion H; auto].
    - rewrite lang_Sq_nil. split; intros H; [subst; constructor | inversion H; auto].
    - rewrite lang_Sq_cons. split.
      + intros (u & v & -> & Hu & Hv). constructor; [apply IHx | apply IHr]; auto.
      + intros H. inversion H; subst. exists u, v. split; auto. split; [apply IHx | apply IHr]; auto.
    - split; intros H; [exfalso; eapply lang_Al_nil; eauto | inversion H].
    - rewrite lang_Al_cons. split.
      + intros [H|H]; [apply d_or_l; apply IHx | apply d_or_r; apply IHr]; auto.
      + intros H. inversion H; subst; [left; apply IHx | right; apply IHr]; auto.
    - rewrite lang_Sy, (nt_unfold G D HG1 HG2 HD h t w Hin). apply IHt.
    - rewrite lang_Sy. apply (rec_sound h x xr Hin IHx).
  Qed.
End Sem.

Lemma inl_mono D D' atom x r : incl D D' -> inl D atom x r -> inl D' atom x r.
Proof.
  intros Hi H. induction H; try (constructor; auto; fail).
  - eapply inl_nt; eauto.
  - eapply inl_rec; eauto.
Qed.

(* ---- invariants of the compiler state ---------------------------------------------------------- *)
(* the pair (diff_target, diff_opt_target) of _generate_repeats: either the initial one or the two
   helpers made from the same (a, b, previous target) *)
Definition pair_ok (c : list (key * nat)) (atom dt dopt : bt) : Prop :=
  (dt = atom /\ dopt = Sq []) \/
  (exists a b t h ho, dt = Sy (NT (S h)) /\ dopt = Sy (NT (S ho)) /\
                      In (KRep a b t atom, h) c /\ In (KOpt a b t atom, ho) c).

Definition entry_ok (st : state) (k : key) (h : nat) : Prop :=
  match k with
  | KRec x => In (h, rec_body x h) (new_rules st)
  | KRep a b tg atom => In (h, rep_body a b tg atom) (new_rules st) /\ Sy (NT (S h)) <> atom
  | KOpt a b tg atom =>
      exists topt, In (h, opt_body a b tg topt atom) (new_rules st) /\ pair_ok (cache st) atom tg topt
  end.

Record wf (st : state) : Prop := {
  wf_rules : forall h t, In (h, t) (new_rules st) -> h < ctr st;
  wf_cache : forall k h, In (k, h) (cache st) -> h < ctr st;
  wf_keyfun : forall k h h', In (k, h) (cache st) -> In (k, h') (cache st) -> h = h';
  wf_valfun : forall k k' h, In (k, h) (cache st) -> In (k', h) (cache st) -> k = k';
  wf_entry : forall k h, In (k, h) (cache st) -> entry_ok st k h;
  wf_defs : forall h t t', In (h, t) (new_rules st) -> In (h, t') (new_rules st) -> t = t' }.

Definition ext (st st' : state) : Prop :=
  incl (new_rules st) (new_rules st') /\ incl (cache st) (cache st') /\ ctr st <= ctr st'.

Lemma ext_refl st : ext st st.
Proof. repeat split; auto using incl_refl. Qed.
Lemma ext_trans a b c : ext a b -> ext b c -> ext a c.
Proof. intros (H1 & H2 & H3) (H4 & H5 & H6). repeat split; eauto using incl_tran. lia. Qed.

Definition top_bound (t : bt) (n : nat) : Prop := forall h, t = Sy (NT (S h)) -> h < n.

Lemma top_bound_mono t n m : top_bound t n -> n <= m -> top_bound t m.
Proof. intros H Hl h Ht. specialize (H h Ht). lia. Qed.

Lemma wf_st0 : wf st0.
Proof. constructor; simpl; intros; contradiction. Qed.

Lemma pair_ok_mono c c' atom dt dopt : incl c c' -> pair_ok c atom dt dopt -> pair_ok c' atom dt dopt.
Proof.
  intros Hi [H|(a & b & t & h & ho & H1 & H2 & H3 & H4)]; [left; auto|].
  right. exists a, b, t, h, ho. auto.
Qed.

Lemma entry_ok_mono st st' k h : ext st st' -> entry_ok st k h -> entry_ok st' k h.
Proof.
  intros (H1 & H2 & H3). destruct k; simpl.
  - auto.
  - intros [Ha Hb]. split; auto.
  - intros (topt & Ha & Hb). exists topt. split; auto. eapply pair_ok_mono; eauto.
Qed.

Lemma pair_ok_unique st atom dt dopt dopt' :
  wf st -> pair_ok (cache st) atom dt dopt -> pair_ok (cache st) atom dt dopt' -> dopt = dopt'.
Proof.
  intros W [[H1 H2]|(a & b & t & h & ho & H1 & H2 & H3 & H4)]
           [[H1' H2']|(a' & b' & t' & h' & ho' & H1' & H2' & H3' & H4')].
  - congruence.
  - exfalso. apply (wf_entry st W) in H3'. simpl in H3'. destruct H3' as [_ Hne]. congruence.
  - exfalso. apply (wf_entry st W) in H3. simpl in H3. destruct H3 as [_ Hne]. congruence.
  - assert (h = h') by congruence. subst h'.
    pose proof (wf_valfun st W _ _ _ H3 H3') as Hk. inversion Hk; subst.
    rewrite (wf_keyfun st W _ _ _ H4 H4'). auto.
Qed.

Lemma add_rule_wf k body st :
  wf st -> lookup k (cache st) = None ->
  entry_ok (snd (add_rule k body st)) k (ctr st) ->
  wf (snd (add_rule k body st)) /\ ext st (snd (add_rule k body st)).
Proof.
  intros W Hl He.
  assert (Hext : ext st (snd (add_rule k body st))).
  { unfold add_rule, ext. simpl. repeat split; auto using incl_appl, incl_refl, incl_tl. }
  split; auto. unfold add_rule in *. simpl in *. constructor; simpl.
  - intros h t Hin. apply in_app_or in Hin. destruct Hin as [Hin|[Heq|[]]].
    + apply (wf_rules st W) in Hin. lia.
    + inversion Heq. lia.
  - intros k' h [Heq|Hin].
    + inversion Heq. lia.
    + apply (wf_cache st W) in Hin. lia.
  - intros k' h h' [Heq|Hin] [Heq'|Hin'].
    + congruence.
    + inversion Heq; subst. exfalso. eapply lookup_none; eauto.
    + inversion Heq'; subst. exfalso. eapply lookup_none; eauto.
    + eapply (wf_keyfun st W); eauto.
  - intros k1 k2 h [Heq|Hin] [Heq'|Hin'].
    + congruence.
    + inversion Heq; subst. apply (wf_cache st W) in Hin'. lia.
    + inversion Heq'; subst. apply (wf_cache st W) in Hin. lia.
    + eapply (wf_valfun st W); eauto.
  - intros k' h [Heq|Hin].
    + inversion Heq; subst. exact He.
    + eapply entry_ok_mono; [exact Hext|]. apply (wf_entry st W); auto.
  - intros h t t' Hin Hin'. apply in_app_or in Hin. apply in_app_or in Hin'.
    destruct Hin as [Hin|[Heq|[]]]; destruct Hin' as [Hin'|[Heq'|[]]].
    + eapply (wf_defs st W); eauto.
    + inversion Heq'; subst. apply (wf_rules st W) in Hin. lia.
    + inversion Heq; subst. apply (wf_rules st W) in Hin'. lia.
    + congruence.
Qed.

Lemma cached_spec k body st t st' :
  wf st -> cached k body st = (t, st') ->
  (lookup k (cache st) = None -> entry_ok (snd (add_rule k body st)) k (ctr st)) ->
  exists h, t = Sy (NT (S h)) /\ In (k, h) (cache st') /\ wf st' /\ ext st st' /\ h < ctr st' /\
            (lookup k (cache st) = None -> h = ctr st /\ st' = snd (add_rule k body st)).
Proof.
  intros W Hc He. unfold cached in Hc. destruct (lookup k (cache st)) as [h|] eqn:El.
  - inversion Hc; subst. exists h. apply lookup_some in El. split; auto. split; auto. split; auto.
    split; [apply ext_refl|]. split; [eapply wf_cache; eauto | discriminate].
  - destruct (add_rule_wf k body st W El (He eq_refl)) as [W' Hext].
    exists (ctr st). unfold add_rule in *. inversion Hc; subst. simpl in *.
    split; [reflexivity|]. split; [left; reflexivity|]. split; [exact W'|]. split; [exact Hext|].
    split; [lia|]. intros _; split; reflexivity.
Qed.

Lemma add_recurse_spec x st t st' :
  wf st -> add_recurse x st = (t, st') ->
  exists h, t = Sy (NT (S h)) /\ In (h, rec_body x h) (new_rules st') /\ wf st' /\ ext st st' /\ h < ctr st'.
Proof.
  intros W Hc. unfold add_recurse in Hc.
  destruct (cached_spec _ _ _ _ _ W Hc) as (h & -> & Hin & W' & Hext & Hlt & _).
  - intros _. simpl. apply in_or_app. right. left. auto.
  - exists h. split; auto. split; auto. apply (wf_entry st' W') in Hin. exact Hin.
Qed.

Lemma add_repeat_rule_spec a b tg atom st t st' :
  wf st -> top_bound atom (ctr st) -> add_repeat_rule' a b tg atom st = (t, st') ->
  exists h, t = Sy (NT (S h)) /\ In (h, rep_body a b tg atom) (new_rules st') /\
            In (KRep a b tg atom, h) (cache st') /\ wf st' /\ ext st st' /\ h < ctr st'.
Proof.
  intros W Hb Hc. unfold add_repeat_rule' in Hc.
  destruct (cached_spec _ _ _ _ _ W Hc) as (h & -> & Hin & W' & Hext & Hlt & _).
  - intros _. simpl. split; [apply in_or_app; right; left; auto|].
    intros Heq. symmetry in Heq. apply Hb in Heq. lia.
  - exists h. split; auto. pose proof (wf_entry st' W' _ _ Hin) as He. simpl in He. destruct He. auto 6.
Qed.

Lemma add_repeat_opt_rule_spec a b tg topt atom st t st' :
  wf st -> pair_ok (cache st) atom tg topt -> add_repeat_opt_rule' a b tg topt atom st = (t, st') ->
  exists h, t = Sy (NT (S h)) /\ In (h, opt_body a b tg topt atom) (new_rules st') /\
            In (KOpt a b tg atom, h) (cache st') /\ wf st' /\ ext st st' /\ h < ctr st'.
Proof.
  intros W Hp Hc. unfold add_repeat_opt_rule' in Hc.
  destruct (cached_spec _ _ _ _ _ W Hc) as (h & -> & Hin & W' & Hext & Hlt & _).
  - intros _. simpl. exists topt. split; [apply in_or_app; right; left; auto|].
    eapply pair_ok_mono; [|exact Hp]. apply incl_tl, incl_refl.
  - exists h. split; auto. pose proof (wf_entry st' W' _ _ Hin) as He. simpl in He.
    destruct He as (topt' & Hb & Hp').
    assert (topt' = topt).
    { eapply pair_ok_unique; [exact W' | exact Hp' |]. eapply pair_ok_mono; [|exact Hp]. apply Hext. }
    subst. auto 6.
Qed.

(* ---- _generate_repeats with named, cached helpers reads as Ebnf/Repeat.generate_repeats -------- *)
Lemma Forall2_map_same {X Y Z} (R : Y -> Z -> Prop) (f : X -> Y) (g : X -> Z) l :
  (forall i, R (f i) (g i)) -> Forall2 R (map f l) (map g l).
Proof. intros H. induction l; simpl; constructor; auto. Qed.

Section Chain.
  Variable rule : bt.

  Lemma inl_rule D : inl D rule rule Atom.
  Proof. constructor. Qed.

  Lemma inl_rep_body D a b tg tr :
    inl D rule tg tr -> inl D rule (rep_body a b tg rule) (add_repeat_rule a b tr Atom).
  Proof.
    intros H. unfold rep_body, add_repeat_rule. apply inl_alt_of. constructor; [|constructor].
    apply inl_seq_of. apply Forall2_app; apply Forall2_repeat; auto. apply inl_rule.
  Qed.

  Lemma inl_opt_body D a b tg tr topt or :
    inl D rule tg tr -> inl D rule topt or ->
    inl D rule (opt_body a b tg topt rule) (add_repeat_opt_rule a b tr or Atom).
  Proof.
    intros H1 H2. unfold opt_body, add_repeat_opt_rule. apply inl_alt_of. apply Forall2_app.
    - apply Forall2_map_same. intros i. apply inl_seq_of. apply Forall2_app.
      + apply Forall2_repeat; auto.
      + constructor; auto.
    - apply Forall2_map_same. intros i. apply inl_seq_of. apply Forall2_app; apply Forall2_repeat; auto.
      apply inl_rule.
  Qed.

  Lemma mn_fold_spec fs : forall tg tr st,
    wf st -> top_bound rule (ctr st) -> top_bound tg (ctr st) -> inl (new_rules st) rule tg tr ->
    let s := fold_left (mn_step' rule) fs (tg, st) in
    wf (snd s) /\ ext st (snd s) /\ top_bound (fst s) (ctr (snd s)) /\
    inl (new_rules (snd s)) rule (fst s) (fold_left (mn_step Atom) fs tr).
  Proof.
    induction fs as [|[a b] fs IH]; intros tg tr st W Hb Ht Hi; simpl.
    - split; [exact W|]. split; [apply ext_refl|]. split; auto.
    - change (mn_step' rule (tg, st) (a, b)) with (add_repeat_rule' a b tg rule st).
      destruct (add_repeat_rule' a b tg rule st) as [t1 st1] eqn:E.
      destruct (add_repeat_rule_spec _ _ _ _ _ _ _ W Hb E) as (h & -> & Hin & Hc & W1 & Hext & Hlt).
      assert (Hb1 : top_bound rule (ctr st1)) by (eapply top_bound_mono; [exact Hb | apply Hext]).
      assert (Ht1 : top_bound (Sy (NT (S h))) (ctr st1)) by (intros h' Heq; inversion Heq; subst; auto).
      assert (Hi1 : inl (new_rules st1) rule (Sy (NT (S h))) (mn_step Atom tr (a, b))).
      { eapply inl_nt; [exact Hin|]. apply inl_rep_body. eapply inl_mono; [apply Hext | exact Hi]. }
      destruct (IH _ _ _ W1 Hb1 Ht1 Hi1) as (W2 & Hext2 & Ht2 & Hi2).
      split; auto. split; [eapply ext_trans; eauto|]. split; auto.
  Qed.

  Lemma diff_fold_spec fs : forall dt dopt tr or st,
    wf st -> top_bound rule (ctr st) -> pair_ok (cache st) rule dt dopt ->
    inl (new_rules st) rule dt tr -> inl (new_rules st) rule dopt or ->
    let s := fold_left (diff_step' rule) fs (dt, dopt, st) in
    let s' := fold_left (diff_step Atom) fs (tr, or) in
    wf (snd s) /\ ext st (snd s) /\ pair_ok (cache (snd s)) rule (fst (fst s)) (snd (fst s)) /\
    inl (new_rules (snd s)) rule (fst (fst s)) (fst s') /\
    inl (new_rules (snd s)) rule (snd (fst s)) (snd s').
  Proof.
    induction fs as [|[a b] fs IH]; intros dt dopt tr or st W Hb Hp Hi Ho; simpl.
    - split; [exact W|]. split; [apply ext_refl|]. split; auto.
    - destruct (add_repeat_opt_rule' a b dt dopt rule st) as [o1 st1] eqn:E1.
      destruct (add_repeat_rule' a b dt rule st1) as [t2 st2] eqn:E2.
      destruct (add_repeat_opt_rule_spec _ _ _ _ _ _ _ _ W Hp E1) as (ho & -> & Hino & Hco & W1 & Hext1 & _).
      assert (Hb1 : top_bound rule (ctr st1)) by (eapply top_bound_mono; [exact Hb | apply Hext1]).
      destruct (add_repeat_rule_spec _ _ _ _ _ _ _ W1 Hb1 E2) as (h & -> & Hin & Hc & W2 & Hext2 & _).
      assert (Hext : ext st st2) by (eapply ext_trans; eauto).
      assert (Hb2 : top_bound rule (ctr st2)) by (eapply top_bound_mono; [exact Hb | apply Hext]).
      assert (Hp2 : pair_ok (cache st2) rule (Sy (NT (S h))) (Sy (NT (S ho)))).
      { right. exists a, b, dt, h, ho. split; auto. split; auto. split; auto. apply Hext2. auto. }
      assert (Hi' : inl (new_rules st2) rule dt tr) by (eapply inl_mono; [apply Hext | exact Hi]).
      assert (Ho' : inl (new_rules st2) rule dopt or) by (eapply inl_mono; [apply Hext | exact Ho]).
      assert (Hi2 : inl (new_rules st2) rule (Sy (NT (S h))) (add_repeat_rule a b tr Atom)).
      { eapply inl_nt; [exact Hin|]. apply inl_rep_body; auto. }
      assert (Ho2 : inl (new_rules st2) rule (Sy (NT (S ho))) (add_repeat_opt_rule a b tr or Atom)).
      { eapply inl_nt; [apply Hext2; exact Hino|]. apply inl_opt_body; auto. }
      destruct (IH _ _ _ _ _ W2 Hb2 Hp2 Hi2 Ho2) as (W3 & Hext3 & Hp3 & Hi3 & Ho3).
      split; auto. split; [eapply ext_trans; eauto|]. auto.
  Qed.

  Lemma gen_repeats_spec mn mx st t st' r :
    wf st -> top_bound rule (ctr st) ->
    gen_repeats rule mn mx st = Ok (t, st') -> generate_repeats Atom mn mx = Ok r ->
    wf st' /\ ext st st' /\ top_bound t (ctr st') /\ inl (new_rules st') rule t r.
  Proof.
    intros W Hb Hg Hr. unfold gen_repeats in Hg. unfold generate_repeats in Hr.
    destruct (mx <? REPEAT_BREAK_THRESHOLD)%Z.
    - inversion Hg; subst. inversion Hr; subst. split; auto. split; [apply ext_refl|].
      split; [intros h Heq; discriminate|]. apply inl_alt_of. apply Forall2_map_same. intros n.
      apply inl_seq_of. apply Forall2_repeat. apply inl_rule.
    - destruct (small_factors (sf_fuel mn) mn SMALL_FACTOR_THRESHOLD) as [fs| |]; try discriminate.
      cbn [rbind] in Hg, Hr.
      destruct (mn_fold_spec (map natpair fs) rule Atom st W Hb Hb (inl_rule _)) as (W1 & Hext1 & Ht1 & Hi1).
      set (s1 := fold_left (mn_step' rule) (map natpair fs) (rule, st)) in *.
      destruct (mx =? mn)%Z.
      + inversion Hr; subst. destruct s1 as [t1 st1]. inversion Hg; subst. auto.
      + destruct (small_factors (sf_fuel (mx - mn + 1)) (mx - mn + 1) SMALL_FACTOR_THRESHOLD) as [dfs| |]; try discriminate.
        cbn [rbind] in Hg, Hr.
        assert (Hb1 : top_bound rule (ctr (snd s1))) by (eapply top_bound_mono; [exact Hb | apply Hext1]).
        assert (Hp0 : pair_ok (cache (snd s1)) rule rule (Sq [])) by (left; auto).
        assert (Ho0 : inl (new_rules (snd s1)) rule (Sq []) (seq_of [])) by constructor.
        destruct (diff_fold_spec (removelast (map natpair dfs)) rule (Sq []) Atom (seq_of []) (snd s1)
                    W1 Hb1 Hp0 (inl_rule _) Ho0) as (W2 & Hext2 & Hp2 & Hi2 & Ho2).
        destruct (fold_left (diff_step' rule) (removelast (map natpair dfs)) (rule, Sq [], snd s1))
          as [[dt dopt] st2]. simpl in W2, Hext2, Hp2, Hi2, Ho2.
        set (p := last (map natpair dfs) (0, 0)) in *.
        destruct (add_repeat_opt_rule' (fst p) (snd p) dt dopt rule st2) as [o3 st3] eqn:E3.
        destruct (add_repeat_opt_rule_spec _ _ _ _ _ _ _ _ W2 Hp2 E3) as (ho & -> & Hino & Hco & W3 & Hext3 & _).
        inversion Hg; subst. inversion Hr; subst.
        assert (Hext : ext st st') by (eapply ext_trans; [exact Hext1 | eapply ext_trans; eauto]).
        split; auto. split; auto. split; [intros h Heq; discriminate|].
        apply inl_al_cons; [|apply inl_al_nil].
        apply inl_sq_cons; [|apply inl_sq_cons; [|apply inl_sq_nil]].
        * eapply inl_mono; [|exact Hi1]. apply (ext_trans _ _ _ Hext2 Hext3).
        * eapply inl_nt; [exact Hino|]. apply inl_opt_body; eapply inl_mono; try apply Hext3; auto.
  Qed.
End Chain.

(* ---- the stated meaning of an expression: language over the user's symbols ----------------------- *)
Fixpoint eden (e : expr) : list nat -> Prop :=
  match e with
  | Sym s => fun w => w = [s]
  | Seq es => (fix go (l : list expr) : list nat -> Prop :=
                 match l with
                 | [] => fun w => w = []
                 | x :: r => fun w => exists u v, w = u ++ v /\ eden x u /\ go r v
                 end) es
  | Alt es => (fix go (l : list expr) : list nat -> Prop :=
                 match l with
                 | [] => fun _ => False
                 | x :: r => fun w => eden x w \/ go r w
                 end) es
  | Opt e => fun w => exists k, k <= 1 /\ pow nat (eden e) k w
  | Star e => fun w => exists k, pow nat (eden e) k w
  | Plus e => fun w => exists k, 1 <= k /\ pow nat (eden e) k w
  | Rep e mn mx => fun w => exists k, Z.to_nat mn <= k <= Z.to_nat mx /\ pow nat (eden e) k w
  end.

Lemma eden_Seq_cons x r w : eden (Seq (x :: r)) w <-> exists u v, w = u ++ v /\ eden x u /\ eden (Seq r) v.
Proof. reflexivity. Qed.
Lemma eden_Alt_cons x r w : eden (Alt (x :: r)) w <-> eden x w \/ eden (Alt r) w.
Proof. reflexivity. Qed.

Fixpoint ebnf_list (l : list expr) (st : state) : res (list bt * state) :=
  match l with
  | [] => Ok ([], st)
  | x :: r => rbind (ebnf x st) (fun p => rbind (ebnf_list r (snd p)) (fun q => Ok (fst p :: fst q, snd q)))
  end.

Lemma ebnf_Seq es st : ebnf (Seq es) st = rbind (ebnf_list es st) (fun q => Ok (Sq (fst q), snd q)).
Proof. reflexivity. Qed.
Lemma ebnf_Alt es st : ebnf (Alt es) st = rbind (ebnf_list es st) (fun q => Ok (Al (fst q), snd q)).
Proof. reflexivity. Qed.

Lemma rbind_ok {X Y} (r : res X) (f : X -> res Y) y : rbind r f = Ok y -> exists x, r = Ok x /\ f x = Ok y.
Proof. destruct r; simpl; try discriminate. eauto. Qed.

Definition Gok (G : grammar) (D : list (nat * bt)) : Prop :=
  (forall r h, In r G -> lhs r = S h -> exists t, In (h, t) D /\ In (rhs r) (alts t)) /\
  (forall h t a, In (h, t) D -> In a (alts t) -> In (mkRule (S h) a) G) /\
  (forall h t t', In (h, t) D -> In (h, t') D -> t = t').

(* what holds for a compiled sub-expression *)
Definition good (e : expr) (st : state) (t : bt) (st' : state) : Prop :=
  wf st' /\ ext st st' /\ top_bound t (ctr st') /\
  forall G D, Gok G D -> incl (new_rules st') D -> forall w, lang G t w <-> eden e w.

Lemma pow_le1 (A : list nat -> Prop) w : (exists k, k <= 1 /\ pow nat A k w) <-> w = [] \/ A w.
Proof.
  split.
  - intros (k & Hk & Hp). destruct k as [|[|k]]; [| |lia].
    + inversion Hp; auto.
    + inversion Hp as [|k0 u v Hu Hv]; subst. inversion Hv; subst. rewrite app_nil_r. auto.
  - intros [->|H]; [exists 0; split; [lia|constructor] | exists 1; split; [lia|apply pow_1; auto]].
Qed.

Lemma den_Atom (A : list nat -> Prop) w : den nat A Atom w <-> A w.
Proof. split; intros H; [inversion H; auto | constructor; auto]. Qed.

Lemma ebnf_good e : forall st t st', wf st -> ebnf e st = Ok (t, st') -> good e st t st'.
Proof.
  induction e as [s|l IH|l IH|e IH|e IH|e IH|e mn mx IH] using expr_ind'; intros st t st' W He.
  - (* Sym *)
    simpl in He. inversion He; subst. split; auto. split; [apply ext_refl|].
    split; [intros h Heq; discriminate|]. intros G D _ _ w. apply lang_T.
  - (* Seq *)
    rewrite ebnf_Seq in He. apply rbind_ok in He. destruct He as ([ts st1] & Hl & He). simpl in He.
    inversion He; subst. clear He.
    assert (Hgen : wf st' /\ ext st st' /\
              forall G D, Gok G D -> incl (new_rules st') D -> forall w, lang G (Sq ts) w <-> eden (Seq l) w).
    { revert st ts st' W Hl. induction IH as [|x r Hx _ IHr]; intros st ts st' W Hl.
      - simpl in Hl. inversion Hl; subst. split; auto. split; [apply ext_refl|].
        intros G D _ _ w. apply lang_Sq_nil.
      - simpl in Hl. apply rbind_ok in Hl. destruct Hl as ([t1 st1] & H1 & Hl).
        apply rbind_ok in Hl. destruct Hl as ([ts2 st2] & H2 & Hl). simpl in Hl. inversion Hl; subst.
        destruct (Hx _ _ _ W H1) as (W1 & E1 & _ & S1).
        destruct (IHr _ _ _ W1 H2) as (W2 & E2 & S2).
        split; auto. split; [eapply ext_trans; eauto|]. intros G D HG Hi w.
        rewrite lang_Sq_cons, eden_Seq_cons. split.
        + intros (u & v & -> & Hu & Hv). exists u, v. split; auto. split.
          * apply (S1 G D HG); auto. eapply incl_tran; [apply E2 | exact Hi].
          * apply (S2 G D HG); auto.
        + intros (u & v & -> & Hu & Hv). exists u, v. split; auto. split.
          * apply (S1 G D HG); auto. eapply incl_tran; [apply E2 | exact Hi].
          * apply (S2 G D HG); auto. }
    destruct Hgen as (W' & E' & S'). split; auto. split; auto. split; auto. intros h Heq; discriminate.
  - (* Alt *)
    rewrite ebnf_Alt in He. apply rbind_ok in He. destruct He as ([ts st1] & Hl & He). simpl in He.
    inversion He; subst. clear He.
    assert (Hgen : wf st' /\ ext st st' /\
              forall G D, Gok G D -> incl (new_rules st') D -> forall w, lang G (Al ts) w <-> eden (Alt l) w).
    { revert st ts st' W Hl. induction IH as [|x r Hx _ IHr]; intros st ts st' W Hl.
      - simpl in Hl. inversion Hl; subst. split; auto. split; [apply ext_refl|].
        intros G D _ _ w. split; [intros H; exfalso; eapply lang_Al_nil; eauto | intros []].
      - simpl in Hl. apply rbind_ok in Hl. destruct Hl as ([t1 st1] & H1 & Hl).
        apply rbind_ok in Hl. destruct Hl as ([ts2 st2] & H2 & Hl). simpl in Hl. inversion Hl; subst.
        destruct (Hx _ _ _ W H1) as (W1 & E1 & _ & S1).
        destruct (IHr _ _ _ W1 H2) as (W2 & E2 & S2).
        split; auto. split; [eapply ext_trans; eauto|]. intros G D HG Hi w.
        rewrite lang_Al_cons, eden_Alt_cons.
        assert (Hi1 : incl (new_rules st1) D) by (eapply incl_tran; [apply E2 | exact Hi]).
        rewrite (S1 G D HG Hi1 w), (S2 G D HG Hi w). tauto. }
    destruct Hgen as (W' & E' & S'). split; auto. split; auto. split; auto. intros h Heq; discriminate.
  - (* Opt *)
    simpl in He. apply rbind_ok in He. destruct He as ([x st1] & H1 & He). simpl in He. inversion He; subst.
    destruct (IH _ _ _ W H1) as (W1 & E1 & _ & S1). split; auto. split; auto.
    split; [intros h Heq; discriminate|]. intros G D HG Hi w.
    rewrite lang_Al_cons, lang_Al_cons, lang_Sq_nil. cbn [eden]. rewrite pow_le1, (S1 G D HG Hi w).
    split; [intros [H|[H|H]]; auto; exfalso; eapply lang_Al_nil; eauto | intros [H|H]; auto].
  - (* Star *)
    simpl in He. apply rbind_ok in He. destruct He as ([x st1] & H1 & He). simpl in He.
    destruct (add_recurse x st1) as [t2 st2] eqn:E2. simpl in He. inversion He; subst.
    destruct (IH _ _ _ W H1) as (W1 & E1 & _ & S1).
    destruct (add_recurse_spec _ _ _ _ W1 E2) as (h & -> & Hin & W2 & Ex2 & Hlt).
    split; auto. split; [eapply ext_trans; eauto|]. split; [intros h' Heq; discriminate|].
    intros G D (HG1 & HG2 & HD) Hi w.
    assert (Hx : forall w, lang G x w <-> den nat (eden e) Atom w).
    { intros w'. rewrite den_Atom. apply (S1 G D (conj HG1 (conj HG2 HD))). eapply incl_tran; [apply Ex2 | exact Hi]. }
    rewrite lang_Al_cons, lang_Al_cons, lang_Sq_nil, lang_Sy.
    rewrite (rec_sound G D HG1 HG2 HD (eden e) h x Atom (Hi _ Hin) Hx w).
    rewrite den_cnt. cbn [eden]. split.
    + intros [(k & Hk & Hp)|[->|H]]; [eauto | exists 0; constructor | exfalso; eapply lang_Al_nil; eauto].
    + intros (k & Hp). destruct k as [|k]; [inversion Hp; auto|].
      left. exists (S k). split; auto. apply (rec_count Atom exact_atom). lia.
  - (* Plus *)
    simpl in He. apply rbind_ok in He. destruct He as ([x st1] & H1 & He). simpl in He.
    destruct (add_recurse x st1) as [t2 st2] eqn:E2. inversion He; subst.
    destruct (IH _ _ _ W H1) as (W1 & E1 & _ & S1).
    destruct (add_recurse_spec _ _ _ _ W1 E2) as (h & -> & Hin & W2 & Ex2 & Hlt).
    split; auto. split; [eapply ext_trans; eauto|]. split; [intros h' Heq; inversion Heq; subst; auto|].
    intros G D (HG1 & HG2 & HD) Hi w.
    assert (Hx : forall w, lang G x w <-> den nat (eden e) Atom w).
    { intros w'. rewrite den_Atom. apply (S1 G D (conj HG1 (conj HG2 HD))). eapply incl_tran; [apply Ex2 | exact Hi]. }
    rewrite lang_Sy, (rec_sound G D HG1 HG2 HD (eden e) h x Atom (Hi _ Hin) Hx w), den_cnt. cbn [eden].
    split; intros (k & Hk & Hp); exists k; split; auto; apply (rec_count Atom exact_atom); auto.
  - (* Rep *)
    simpl in He. destruct ((mx <? mn) || (mn <? 0))%Z eqn:Erange; [discriminate|].
    apply orb_false_elim in Erange. destruct Erange as [R1 R2]. apply Z.ltb_ge in R1, R2.
    apply rbind_ok in He. destruct He as ([x st1] & H1 & He). simpl in He.
    destruct (IH _ _ _ W H1) as (W1 & E1 & B1 & S1).
    destruct (generate_repeats_language nat (eden e) mn mx (conj R2 R1)) as (r & Hr & Hlang).
    destruct (gen_repeats_spec x mn mx st1 t st' r W1 B1 He Hr) as (W2 & E2 & B2 & Hinl).
    split; auto. split; [eapply ext_trans; eauto|]. split; auto.
    intros G D (HG1 & HG2 & HD) Hi w. cbn [eden]. rewrite <- Hlang.
    apply (inl_sound G D HG1 HG2 HD x (eden e)).
    + intros w'. apply (S1 G D (conj HG1 (conj HG2 HD))). eapply incl_tran; [apply E2 | exact Hi].
    + eapply inl_mono; [exact Hi | exact Hinl].
Qed.

(* ---- the compiled grammar ------------------------------------------------------------------------ *)
Lemma in_rules_of a t r : In r (rules_of a t) <-> lhs r = a /\ In (rhs r) (alts t).
Proof.
  unfold rules_of. rewrite in_map_iff. split.
  - intros (x & <- & Hx). simpl. auto.
  - intros [<- H]. exists (rhs r). split; auto. destruct r; auto.
Qed.

Lemma grammar_of_ok t0 D :
  (forall h t t', In (h, t) D -> In (h, t') D -> t = t') -> Gok (grammar_of t0 D) D.
Proof.
  intros HD. unfold Gok, grammar_of. split; [|split]; auto.
  - intros r h Hr Hl. apply in_app_or in Hr. destruct Hr as [Hr|Hr].
    + apply in_rules_of in Hr. destruct Hr as [H0 _]. congruence.
    + apply in_flat_map in Hr. destruct Hr as ([h' t] & Hd & Hr). apply in_rules_of in Hr. simpl in Hr.
      destruct Hr as [H1 H2]. assert (h' = h) by congruence. subst. eauto.
  - intros h t a Hd Ha. apply in_or_app. right. apply in_flat_map. exists (h, t). split; auto.
    apply in_rules_of. simpl. auto.
Qed.

Lemma start_unfold t0 D w :
  derives (grammar_of t0 D) nat Nat.eqb [NT 0] w <-> lang (grammar_of t0 D) t0 w.
Proof.
  split.
  - intros H. inversion H as [| |a r ss w1 w2 Hr Hl Hd1 Hd2]; subst.
    apply der_nil_inv in Hd2. subst. rewrite app_nil_r. exists (rhs r). split; auto.
    unfold grammar_of in Hr. apply in_app_or in Hr. destruct Hr as [Hr|Hr].
    + apply in_rules_of in Hr. tauto.
    + apply in_flat_map in Hr. destruct Hr as (d & _ & Hr). apply in_rules_of in Hr. destruct Hr; congruence.
  - intros (a & Ha & Hd). rewrite <- (app_nil_r w).
    apply (d_nt _ nat Nat.eqb 0 (mkRule 0 a) [] w []); auto; [|constructor].
    unfold grammar_of. apply in_or_app. left. apply in_rules_of. simpl. auto.
Qed.

(* the compiled rule (all its alternatives, with all helper rules) derives exactly the words the
   expression denotes, with the stated repetition counts *)
Theorem compile_preserves_language e G :
  compile e = Ok G -> forall w, derives G nat Nat.eqb [NT 0] w <-> eden e w.
Proof.
  unfold compile. intros H. apply rbind_ok in H. destruct H as ([t st] & He & H). simpl in H.
  inversion H; subst. clear H. intros w.
  destruct (ebnf_good e st0 t st wf_st0 He) as (W & _ & _ & S).
  rewrite start_unfold. apply (S _ (new_rules st)); [|apply incl_refl].
  apply grammar_of_ok. apply (wf_defs st W).
Qed.

(* ---- the compiler succeeds on every expression whose ranges are well formed ---------------------- *)
Fixpoint ranges_ok (e : expr) : Prop :=
  match e with
  | Sym _ => True
  | Seq es => (fix go (l : list expr) : Prop := match l with [] => True | x :: r => ranges_ok x /\ go r end) es
  | Alt es => (fix go (l : list expr) : Prop := match l with [] => True | x :: r => ranges_ok x /\ go r end) es
  | Opt e | Star e | Plus e => ranges_ok e
  | Rep e mn mx => (0 <= mn <= mx)%Z /\ ranges_ok e
  end.

Lemma gen_repeats_total rule mn mx st : (0 <= mn <= mx)%Z -> exists r, gen_repeats rule mn mx st = Ok r.
Proof.
  intros Hb. unfold gen_repeats. destruct (mx <? REPEAT_BREAK_THRESHOLD)%Z; [eauto|].
  destruct (small_factors_spec mn SMALL_FACTOR_THRESHOLD ltac:(lia) SFT_ok) as (fs & Hfs & _).
  unfold sf_fuel. rewrite Hfs. cbn [rbind]. destruct (mx =? mn)%Z eqn:E; [eauto|]. apply Z.eqb_neq in E.
  destruct (small_factors_spec (mx - mn + 1) SMALL_FACTOR_THRESHOLD ltac:(lia) SFT_ok) as (dfs & Hdfs & _).
  rewrite Hdfs. cbn [rbind].
  destruct (fold_left _ _ _) as [[dt dopt] st2]. destruct (add_repeat_opt_rule' _ _ _ _ _ _). eauto.
Qed.

Theorem compile_total e : ranges_ok e -> exists G, compile e = Ok G.
Proof.
  intros Hr. assert (H : forall st, exists r, ebnf e st = Ok r).
  { induction e as [s|l IH|l IH|e IH|e IH|e IH|e mn mx IH] using expr_ind'; intros st.
    - simpl. eauto.
    - rewrite ebnf_Seq. assert (Hl : exists q, ebnf_list l st = Ok q).
      { revert st. induction IH as [|x r Hx _ IHr]; intros st; simpl; [eauto|].
        destruct Hr as [Hr1 Hr2]. destruct (Hx Hr1 st) as (p & ->). simpl.
        destruct (IHr Hr2 (snd p)) as (q & ->). simpl. eauto. }
      destruct Hl as (q & ->). simpl. eauto.
    - rewrite ebnf_Alt. assert (Hl : exists q, ebnf_list l st = Ok q).
      { revert st. induction IH as [|x r Hx _ IHr]; intros st; simpl; [eauto|].
        destruct Hr as [Hr1 Hr2]. destruct (Hx Hr1 st) as (p & ->). simpl.
        destruct (IHr Hr2 (snd p)) as (q & ->). simpl. eauto. }
      destruct Hl as (q & ->). simpl. eauto.
    - simpl. destruct (IH Hr st) as (p & ->). simpl. eauto.
    - simpl. destruct (IH Hr st) as (p & ->). simpl. eauto.
    - simpl. destruct (IH Hr st) as (p & ->). simpl. eauto.
    - simpl. destruct Hr as [Hb Hr]. destruct (IH Hr st) as (p & ->). simpl.
      replace ((mx <? mn) || (mn <? 0))%Z with false.
      + apply gen_repeats_total; auto.
      + symmetry. apply orb_false_intro; apply Z.ltb_ge; lia. }
  unfold compile. destruct (H st0) as (p & ->). simpl. eauto.
Qed.

(* ---- "Filter out unused rules" keeps the language of the start rule ------------------------------- *)
Section Prune.
  Variable G : grammar.
  Let keep (a : nat) := used_in G a.
  Let G' := filter (fun r => used_in G (lhs r)) G.

  Lemma prune_step_derives ss w :
    derives G nat Nat.eqb ss w -> (forall a, In (NT a) ss -> keep a = true) -> derives G' nat Nat.eqb ss w.
  Proof.
    induction 1 as [|t k ss w Hm Hd IH|a r ss w1 w2 Hr Hl Hd1 IH1 Hd2 IH2]; intros Hk.
    - constructor.
    - constructor; auto. apply IH. intros a Ha. apply Hk. right; auto.
    - assert (Ka : keep a = true) by (apply Hk; left; auto).
      apply (d_nt G' nat Nat.eqb a r); auto.
      + unfold G'. apply filter_In. split; auto. rewrite Hl. exact Ka.
      + apply IH1. intros b Hb. destruct (Nat.eq_dec b a) as [->|Hne]; auto.
        unfold keep, used_in. apply orb_true_intro. right. apply existsb_exists. exists r. split; auto.
        apply andb_true_intro. split.
        * rewrite Hl. apply negb_true_iff. apply Nat.eqb_neq. auto.
        * apply existsb_exists. exists (NT b). split; auto. simpl. apply Nat.eqb_refl.
      + apply IH2. intros b Hb. apply Hk. right; auto.
  Qed.

  Lemma filter_derives (f : rule -> bool) ss w :
    derives (filter f G) nat Nat.eqb ss w -> derives G nat Nat.eqb ss w.
  Proof.
    induction 1; try (constructor; auto; fail).
    apply (d_nt G nat Nat.eqb a r); auto. apply filter_In in H. tauto.
  Qed.

  Lemma prune_step w : derives G nat Nat.eqb [NT 0] w <-> derives G' nat Nat.eqb [NT 0] w.
  Proof.
    split.
    - intros H. apply prune_step_derives; auto. intros a [Ha|[]]. inversion Ha; subst. reflexivity.
    - apply filter_derives.
  Qed.
End Prune.

Lemma prune_language fuel : forall G w,
  derives (prune fuel G) nat Nat.eqb [NT 0] w <-> derives G nat Nat.eqb [NT 0] w.
Proof.
  induction fuel as [|f IH]; intros G w; simpl; [tauto|].
  destruct (Nat.eqb _ _); [tauto|]. rewrite IH. symmetry. apply prune_step.
Qed.

Theorem compile_pruned_preserves_language e G :
  compile_pruned e = Ok G -> forall w, derives G nat Nat.eqb [NT 0] w <-> eden e w.
Proof.
  unfold compile_pruned. intros H. apply rbind_ok in H. destruct H as (G0 & H0 & H). inversion H; subst.
  intros w. rewrite prune_language. apply compile_preserves_language; auto.
Qed.
