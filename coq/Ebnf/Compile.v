(* Executable model of the EBNF-to-BNF compilation of one rule body (lark/load_grammar.py):
     EBNF_to_BNF            expr for ? * + ~n ~n..m, _add_rule, _add_recurse_rule, _add_repeat_rule,
                            _add_repeat_opt_rule, _generate_repeats, rules_cache, counter i
     SimplifyRule_Visitor   flattening of nested expansion / expansions, distribution of alternatives
                            over sequences (first alternation varies slowest), dedup at every expansions
     Grammar.compile        one Rule per alternative, "Filter out unused rules"
   acting on arbitrary nested expressions.  Symbols: T n = a symbol of the user's grammar (terminal or
   rule name: opaque to the compiler), NT 0 = the rule being compiled, NT (S i) = the helper rule whose
   name carries counter value i.
   Not modelled: the order in which Transformer_InPlace reaches the operators (level by level, deepest
   first) - the model numbers helpers in depth-first order, so its output equals lark's up to a renaming
   of helper rules (checked as such); aliases; maybe_placeholders; keep_all_tokens / filter_out in the
   cache key (constant for the grammars considered). *)
From Coq Require Import ZArith List Bool Arith.
From LV Require Import Base.Prelude Gen.Consts Gen.SmallFactors Cfg.Grammar Ebnf.Repeat.
Import ListNotations.

(* ---- source expressions: the tree of one rule body after parsing ------------------------------- *)
Inductive expr :=
| Sym (s : nat)                      (* value: terminal / rule name *)
| Seq (es : list expr)               (* expansion *)
| Alt (es : list expr)               (* expansions (rule body, or a parenthesised group) *)
| Opt (e : expr)                     (* expr: e ? *)
| Star (e : expr)                    (* expr: e * *)
| Plus (e : expr)                    (* expr: e + *)
| Rep (e : expr) (mn mx : Z).        (* expr: e ~ mn  /  e ~ mn..mx *)

(* ---- operator-free trees: what EBNF_to_BNF leaves behind ----------------------------------------- *)
Inductive bt :=
| Sy (s : symbol)
| Sq (l : list bt)                   (* ST('expansion', l) *)
| Al (l : list bt).                  (* ST('expansions', l) *)

Fixpoint bt_eqb (x y : bt) : bool :=
  match x, y with
  | Sy a, Sy b => symbol_eqb a b
  | Sq l, Sq m =>
      (fix go (l m : list bt) : bool :=
         match l, m with
         | [], [] => true
         | a :: l', b :: m' => bt_eqb a b && go l' m'
         | _, _ => false
         end) l m
  | Al l, Al m =>
      (fix go (l m : list bt) : bool :=
         match l, m with
         | [], [] => true
         | a :: l', b :: m' => bt_eqb a b && go l' m'
         | _, _ => false
         end) l m
  | _, _ => false
  end.

(* rules_cache keys: the operand tree for + and * (shared), (a, b, target, atom) and (a, b, target, atom, "opt") *)
Inductive key :=
| KRec (x : bt)
| KRep (a b : nat) (tg atom : bt)
| KOpt (a b : nat) (tg atom : bt).

Definition key_eqb (k1 k2 : key) : bool :=
  match k1, k2 with
  | KRec x, KRec y => bt_eqb x y
  | KRep a b t u, KRep a' b' t' u' => Nat.eqb a a' && Nat.eqb b b' && bt_eqb t t' && bt_eqb u u'
  | KOpt a b t u, KOpt a' b' t' u' => Nat.eqb a a' && Nat.eqb b b' && bt_eqb t t' && bt_eqb u u'
  | _, _ => false
  end.

Record state := mkSt {
  new_rules : list (nat * bt);       (* self.new_rules: (counter value in the name, tree) in creation order *)
  cache : list (key * nat);          (* self.rules_cache *)
  ctr : nat }.                       (* self.i *)

Definition st0 : state := mkSt [] [] 0.

Fixpoint lookup (k : key) (c : list (key * nat)) : option nat :=
  match c with
  | [] => None
  | (k', h) :: c' => if key_eqb k k' then Some h else lookup k c'
  end.

(* _name_rule + _add_rule *)
Definition add_rule (k : key) (body : nat -> bt) (st : state) : bt * state :=
  let h := ctr st in
  (Sy (NT (S h)), mkSt (new_rules st ++ [(h, body h)]) ((k, h) :: cache st) (S h)).

Definition cached (k : key) (body : nat -> bt) (st : state) : bt * state :=
  match lookup k (cache st) with
  | Some h => (Sy (NT (S h)), st)
  | None => add_rule k body st
  end.

Definition rec_body (x : bt) (h : nat) : bt := Al [Sq [x]; Sq [Sy (NT (S h)); x]].
Definition rep_body (a b : nat) (tg atom : bt) : bt := Al [Sq (repeat tg a ++ repeat atom b)].
Definition opt_body (a b : nat) (tg topt atom : bt) : bt :=
  Al (map (fun i => Sq (repeat tg i ++ [topt])) (seq 0 a)
      ++ map (fun i => Sq (repeat tg a ++ repeat atom i)) (seq 0 b)).

Definition add_recurse (x : bt) (st : state) : bt * state :=
  cached (KRec x) (rec_body x) st.
Definition add_repeat_rule' (a b : nat) (tg atom : bt) (st : state) : bt * state :=
  cached (KRep a b tg atom) (fun _ => rep_body a b tg atom) st.
Definition add_repeat_opt_rule' (a b : nat) (tg topt atom : bt) (st : state) : bt * state :=
  cached (KOpt a b tg atom) (fun _ => opt_body a b tg topt atom) st.

Definition mn_step' (rule : bt) (s : bt * state) (p : nat * nat) : bt * state :=
  add_repeat_rule' (fst p) (snd p) (fst s) rule (snd s).

(* for a, b in diff_factors[:-1]: opt rule first, then the repeat rule *)
Definition diff_step' (rule : bt) (s : bt * bt * state) (p : nat * nat) : bt * bt * state :=
  let '(dt, dopt, st) := s in
  let (dopt', st1) := add_repeat_opt_rule' (fst p) (snd p) dt dopt rule st in
  let (dt', st2) := add_repeat_rule' (fst p) (snd p) dt rule st1 in
  (dt', dopt', st2).

Definition gen_repeats (rule : bt) (mn mx : Z) (st : state) : res (bt * state) :=
  if (mx <? REPEAT_BREAK_THRESHOLD)%Z then
    Ok (Al (map (fun n => Sq (repeat rule n)) (seq (Z.to_nat mn) (Z.to_nat (mx + 1 - mn)))), st)
  else
    rbind (small_factors (sf_fuel mn) mn SMALL_FACTOR_THRESHOLD) (fun fs =>
    let s1 := fold_left (mn_step' rule) (map natpair fs) (rule, st) in
    if (mx =? mn)%Z then Ok s1 else
    let diff := (mx - mn + 1)%Z in
    rbind (small_factors (sf_fuel diff) diff SMALL_FACTOR_THRESHOLD) (fun dfs =>
    let dfs' := map natpair dfs in
    let '(dt, dopt, st2) := fold_left (diff_step' rule) (removelast dfs') (rule, Sq [], snd s1) in
    let p := last dfs' (0%nat, 0%nat) in
    let (dopt', st3) := add_repeat_opt_rule' (fst p) (snd p) dt dopt rule st2 in
    Ok (Al [Sq [fst s1; dopt']], st3))).

(* the transformer: children first, then the node's callback; expr raises GrammarError on a bad range *)
Fixpoint ebnf (e : expr) (st : state) : res (bt * state) :=
  match e with
  | Sym s => Ok (Sy (T s), st)
  | Seq es =>
      rbind ((fix go (l : list expr) (st : state) : res (list bt * state) :=
                match l with
                | [] => Ok ([], st)
                | x :: r => rbind (ebnf x st) (fun p => rbind (go r (snd p)) (fun q => Ok (fst p :: fst q, snd q)))
                end) es st)
            (fun q => Ok (Sq (fst q), snd q))
  | Alt es =>
      rbind ((fix go (l : list expr) (st : state) : res (list bt * state) :=
                match l with
                | [] => Ok ([], st)
                | x :: r => rbind (ebnf x st) (fun p => rbind (go r (snd p)) (fun q => Ok (fst p :: fst q, snd q)))
                end) es st)
            (fun q => Ok (Al (fst q), snd q))
  | Opt e => rbind (ebnf e st) (fun p => Ok (Al [fst p; Sq []], snd p))
  | Plus e => rbind (ebnf e st) (fun p => Ok (add_recurse (fst p) (snd p)))
  | Star e => rbind (ebnf e st) (fun p => let q := add_recurse (fst p) (snd p) in Ok (Al [fst q; Sq []], snd q))
  | Rep e mn mx =>
      if ((mx <? mn) || (mn <? 0))%Z then AssertFail
      else rbind (ebnf e st) (fun p => gen_repeats (fst p) mn mx (snd p))
  end.

(* ---- SimplifyRule_Visitor + RuleTreeToText: the alternatives of a tree, each a flat symbol list ---- *)
Fixpoint syms_eqb (x y : list symbol) : bool :=
  match x, y with
  | [], [] => true
  | a :: x', b :: y' => symbol_eqb a b && syms_eqb x' y'
  | _, _ => false
  end.

(* dedup_list: keeps the first occurrence *)
Fixpoint dedup (l : list (list symbol)) : list (list symbol) :=
  match l with
  | [] => []
  | x :: r => x :: filter (fun y => negb (syms_eqb x y)) (dedup r)
  end.

(* expansion(b, expansions(c, d), e) --> expansions(expansion(b, c, e), expansion(b, d, e)), leftmost first *)
Definition cross (xs ys : list (list symbol)) : list (list symbol) :=
  flat_map (fun a => map (app a) ys) xs.

Fixpoint alts (t : bt) : list (list symbol) :=
  match t with
  | Sy s => [[s]]
  | Sq l => (fix go (l : list bt) := match l with [] => [[]] | x :: r => cross (alts x) (go r) end) l
  | Al l => dedup ((fix go (l : list bt) := match l with [] => [] | x :: r => alts x ++ go r end) l)
  end.

(* ---- Grammar.compile for the one rule: Rule objects ---------------------------------------------- *)
Definition rules_of (a : nat) (t : bt) : list rule := map (mkRule a) (alts t).

Definition grammar_of (t0 : bt) (defs : list (nat * bt)) : grammar :=
  rules_of 0 t0 ++ flat_map (fun d => rules_of (S (fst d)) (snd d)) defs.

Definition compile (e : expr) : res grammar :=
  rbind (ebnf e st0) (fun p => Ok (grammar_of (fst p) (new_rules (snd p)))).

(* "Filter out unused rules": repeat until the number of rules is stable *)
Definition used_in (rules : grammar) (a : nat) : bool :=
  Nat.eqb a 0 ||
  existsb (fun r => negb (Nat.eqb (lhs r) a) && existsb (symbol_eqb (NT a)) (rhs r)) rules.

Fixpoint prune (fuel : nat) (rules : grammar) : grammar :=
  match fuel with
  | O => rules
  | S f =>
      let rules' := filter (fun r => used_in rules (lhs r)) rules in
      if Nat.eqb (length rules') (length rules) then rules else prune f rules'
  end.

Definition compile_pruned (e : expr) : res grammar :=
  rbind (compile e) (fun g => Ok (prune (length g) g)).
