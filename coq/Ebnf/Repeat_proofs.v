(* Count semantics of the compiled repetition operators (C09). *)
From Coq Require Import ZArith List Bool Lia Arith.
From LV Require Import Base.Prelude Gen.Consts Gen.SmallFactors Ebnf.Repeat Ebnf.SmallFactors_proofs.
Import ListNotations.

(* cnt e k : the fragment e derives exactly k consecutive occurrences of the item *)
Inductive cnt : rexp -> nat -> Prop :=
| c_atom : cnt Atom 1
| c_eps : cnt Eps 0
| c_cat a b i j : cnt a i -> cnt b j -> cnt (Cat a b) (i + j)
| c_or_l a b k : cnt a k -> cnt (Or a b) k
| c_or_r a b k : cnt b k -> cnt (Or a b) k
| c_rec1 e k : cnt e k -> cnt (Rec e) k
| c_rec2 e i j : cnt (Rec e) i -> cnt e j -> cnt (Rec e) (i + j).

Lemma cnt_atom_iff k : cnt Atom k <-> k = 1.
Proof. split; intros H; [inversion H; auto | subst; constructor]. Qed.
Lemma cnt_eps_iff k : cnt Eps k <-> k = 0.
Proof. split; intros H; [inversion H; auto | subst; constructor]. Qed.
Lemma cnt_void k : ~ cnt Void k.
Proof. intros H; inversion H. Qed.
Lemma cnt_cat_iff a b k : cnt (Cat a b) k <-> exists i j, k = i + j /\ cnt a i /\ cnt b j.
Proof.
  split.
  - intros H; inversion H; subst. eauto.
  - intros (i & j & -> & Ha & Hb). constructor; auto.
Qed.
Lemma cnt_or_iff a b k : cnt (Or a b) k <-> cnt a k \/ cnt b k.
Proof.
  split.
  - intros H; inversion H; subst; auto.
  - intros [H|H]; [apply c_or_l | apply c_or_r]; auto.
Qed.

Definition exact (e : rexp) (c : nat) : Prop := forall k, cnt e k <-> k = c.
Definition below (e : rexp) (c : nat) : Prop := forall k, cnt e k <-> k < c.

Lemma exact_atom : exact Atom 1.
Proof. exact cnt_atom_iff. Qed.

Lemma cnt_alt_of l k : cnt (alt_of l) k <-> exists e, In e l /\ cnt e k.
Proof.
  induction l as [|x l IH]; simpl.
  - split; [intros H; exfalso; eapply cnt_void; eauto | intros (e & [] & _)].
  - rewrite cnt_or_iff. split.
    + intros [H|H]; [exists x; auto|]. apply IH in H. destruct H as (e & Hin & He). exists e; auto.
    + intros (e & [->|Hin] & He); auto. right. apply IH. exists e; auto.
Qed.

Lemma cnt_seq_repeat t c l : exact t c ->
  forall a k, cnt (seq_of (repeat t a ++ l)) k <-> exists j, cnt (seq_of l) j /\ k = a * c + j.
Proof.
  intros Ht. induction a as [|a IH]; intros k; simpl.
  - split; [intros H; exists k; auto | intros (j & H & ->); auto].
  - rewrite cnt_cat_iff. split.
    + intros (i & j & -> & Hi & Hj). apply Ht in Hi. subst i. apply IH in Hj.
      destruct Hj as (j' & Hj' & ->). exists j'. split; auto. lia.
    + intros (j & Hj & ->). exists c, (a * c + j). split; [lia|]. split; [apply Ht; auto|].
      apply IH. exists j; auto.
Qed.

Lemma cnt_seq_nil k : cnt (seq_of []) k <-> k = 0.
Proof. simpl. apply cnt_eps_iff. Qed.

Lemma cnt_seq_single e k : cnt (seq_of [e]) k <-> cnt e k.
Proof.
  simpl. rewrite cnt_cat_iff. split.
  - intros (i & j & -> & Hi & Hj). apply cnt_eps_iff in Hj. subst. rewrite Nat.add_0_r. auto.
  - intros H. exists k, 0. split; [lia|]. split; auto. constructor.
Qed.

Lemma cnt_seq_atoms atom b k : exact atom 1 -> cnt (seq_of (repeat atom b)) k <-> k = b.
Proof.
  intros Ha. rewrite <- (app_nil_r (repeat atom b)). rewrite (cnt_seq_repeat atom 1 [] Ha).
  split.
  - intros (j & Hj & ->). apply cnt_seq_nil in Hj. lia.
  - intros ->. exists 0. split; [apply cnt_seq_nil; auto | lia].
Qed.

Lemma repeat_rule_exact a b t atom c :
  exact t c -> exact atom 1 -> exact (add_repeat_rule a b t atom) (a * c + b).
Proof.
  intros Ht Ha k. unfold add_repeat_rule. rewrite cnt_alt_of. split.
  - intros (e & [<-|[]] & He). apply (cnt_seq_repeat t c _ Ht) in He.
    destruct He as (j & Hj & ->). apply (cnt_seq_atoms atom b j Ha) in Hj. lia.
  - intros ->. eexists. split; [left; reflexivity|].
    apply (cnt_seq_repeat t c _ Ht). exists b. split; auto. apply (cnt_seq_atoms atom b b Ha). auto.
Qed.

Lemma repeat_opt_below a b t topt atom c :
  exact t c -> below topt c -> exact atom 1 -> 1 <= c ->
  below (add_repeat_opt_rule a b t topt atom) (a * c + b).
Proof.
  intros Ht Ho Ha Hc k. unfold add_repeat_opt_rule. rewrite cnt_alt_of. split.
  - intros (e & Hin & He). apply in_app_or in Hin. destruct Hin as [Hin|Hin];
      apply in_map_iff in Hin; destruct Hin as (i & <- & Hi); apply in_seq in Hi.
    + apply (cnt_seq_repeat t c _ Ht) in He. destruct He as (j & Hj & ->).
      apply cnt_seq_single, Ho in Hj. nia.
    + apply (cnt_seq_repeat t c _ Ht) in He. destruct He as (j & Hj & ->).
      apply (cnt_seq_atoms atom i j Ha) in Hj. nia.
  - intros Hk. destruct (lt_dec k (a * c)) as [Hlt|Hge].
    + exists (seq_of (repeat t (k / c) ++ [topt])). split.
      * apply in_or_app. left. apply in_map_iff. exists (k / c). split; auto.
        apply in_seq. split; [lia|]. simpl. apply Nat.div_lt_upper_bound; lia.
      * apply (cnt_seq_repeat t c _ Ht). exists (k mod c). split.
        -- apply cnt_seq_single, Ho. apply Nat.mod_upper_bound. lia.
        -- rewrite (Nat.div_mod k c) at 1 by lia. lia.
    + exists (seq_of (repeat t a ++ repeat atom (k - a * c))). split.
      * apply in_or_app. right. apply in_map_iff. exists (k - a * c). split; auto.
        apply in_seq. lia.
      * apply (cnt_seq_repeat t c _ Ht). exists (k - a * c). split; [|lia].
        apply (cnt_seq_atoms atom _ _ Ha). auto.
Qed.

(* ---- the two loops of _generate_repeats ------------------------------------------------ *)
Definition nvalue (l : list (nat * nat)) (c : nat) : nat := fold_left (fun n p => n * fst p + snd p) l c.

Lemma mn_fold fs : forall t c, exact t c -> exact (fold_left (mn_step Atom) fs t) (nvalue fs c).
Proof.
  induction fs as [|[a b] fs IH]; intros t c Ht; simpl; auto.
  apply IH. unfold mn_step. simpl. rewrite (Nat.mul_comm c a).
  apply repeat_rule_exact; auto. apply exact_atom.
Qed.

Lemma diff_fold fs : forall s c,
  exact (fst s) c -> below (snd s) c -> 1 <= c -> Forall (fun p => 1 <= fst p) fs ->
  exact (fst (fold_left (diff_step Atom) fs s)) (nvalue fs c) /\
  below (snd (fold_left (diff_step Atom) fs s)) (nvalue fs c) /\ 1 <= nvalue fs c.
Proof.
  induction fs as [|[a b] fs IH]; intros s c He Hb Hc Hall; simpl; auto.
  inversion Hall as [|? ? Ha Hall']; subst. simpl in Ha.
  apply IH; auto; unfold diff_step; simpl; rewrite (Nat.mul_comm c a).
  - apply repeat_rule_exact; auto. apply exact_atom.
  - apply repeat_opt_below; auto. apply exact_atom.
  - nia.
Qed.

Lemma nvalue_app l p c : nvalue (l ++ [p]) c = nvalue l c * fst p + snd p.
Proof. unfold nvalue. rewrite fold_left_app. reflexivity. Qed.

Lemma nvalue_Z fs : forall c,
  Forall (fun p => (0 <= fst p /\ 0 <= snd p)%Z) fs ->
  Z.of_nat (nvalue (map natpair fs) c) = fold_left (fun n p => (n * fst p + snd p)%Z) fs (Z.of_nat c).
Proof.
  induction fs as [|[a b] fs IH]; intros c Hall; simpl; auto.
  inversion Hall as [|? ? [Ha Hb] Hall']; subst. simpl in Ha, Hb.
  unfold nvalue in *. simpl. rewrite IH by auto. f_equal. lia.
Qed.

Lemma sf_wf_nonneg mf n l : sf_wf mf n l -> Forall (fun p => (0 <= fst p /\ 0 <= snd p)%Z) l.
Proof.
  intros (a0 & rest & -> & Ha0 & _ & Ht). constructor; [simpl; lia|].
  eapply Forall_impl; [|exact Ht]. simpl. intros; lia.
Qed.

Lemma sf_wf_pos mf n l : (1 <= n)%Z -> sf_wf mf n l -> Forall (fun p => 1 <= fst p) (map natpair l).
Proof.
  intros Hn (a0 & rest & -> & Ha0 & H1 & Ht). simpl. constructor; [simpl; lia|].
  apply Forall_map. eapply Forall_impl; [|exact Ht]. simpl. intros; lia.
Qed.

Lemma sf_value_nat mf n l : (0 <= n)%Z -> sf_wf mf n l -> sf_value l = n ->
  nvalue (map natpair l) 1 = Z.to_nat n.
Proof.
  intros Hn Hwf Hv. apply Nat2Z.inj. rewrite (nvalue_Z l 1 (sf_wf_nonneg _ _ _ Hwf)).
  unfold sf_value in Hv. simpl Z.of_nat. rewrite Hv. lia.
Qed.

Lemma SFT_ok : (2 < SMALL_FACTOR_THRESHOLD)%Z.
Proof. unfold SMALL_FACTOR_THRESHOLD. lia. Qed.

Lemma below_eps_1 : below (seq_of []) 1.
Proof. intros k. rewrite cnt_seq_nil. lia. Qed.

(* x~mn..mx matches exactly mn..mx occurrences, through either compilation scheme *)
Theorem generate_repeats_count mn mx :
  (0 <= mn <= mx)%Z ->
  exists e, generate_repeats Atom mn mx = Ok e /\
            forall k, cnt e k <-> Z.to_nat mn <= k <= Z.to_nat mx.
Proof.
  intros Hb. unfold generate_repeats.
  destruct (mx <? REPEAT_BREAK_THRESHOLD)%Z.
  - eexists. split; [reflexivity|]. intros k. rewrite cnt_alt_of. split.
    + intros (e & Hin & He). apply in_map_iff in Hin. destruct Hin as (n & <- & Hn).
      apply in_seq in Hn. apply (cnt_seq_atoms Atom n k exact_atom) in He. lia.
    + intros Hk. exists (seq_of (repeat Atom k)). split.
      * apply in_map_iff. exists k. split; auto. apply in_seq. lia.
      * apply (cnt_seq_atoms Atom k k exact_atom). auto.
  - destruct (small_factors_spec mn SMALL_FACTOR_THRESHOLD ltac:(lia) SFT_ok) as (fs & Hfs & Hv & Hwf).
    unfold sf_fuel. rewrite Hfs. cbn [rbind].
    pose proof (mn_fold (map natpair fs) Atom 1 exact_atom) as Hmn.
    rewrite (sf_value_nat SMALL_FACTOR_THRESHOLD mn fs ltac:(lia) Hwf Hv) in Hmn.
    destruct (mx =? mn)%Z eqn:Heq.
    + apply Z.eqb_eq in Heq. subst mx. eexists. split; [reflexivity|]. intros k. rewrite (Hmn k). lia.
    + apply Z.eqb_neq in Heq.
      destruct (small_factors_spec (mx - mn + 1) SMALL_FACTOR_THRESHOLD ltac:(lia) SFT_ok) as (dfs & Hdfs & Hdv & Hdwf).
      rewrite Hdfs. cbn [rbind]. eexists. split; [reflexivity|].
      set (dfs' := map natpair dfs).
      assert (Hne : dfs' <> []).
      { destruct Hdwf as (a0 & rest & -> & _). discriminate. }
      pose proof (sf_wf_pos SMALL_FACTOR_THRESHOLD (mx - mn + 1)%Z dfs ltac:(lia) Hdwf) as Hpos. fold dfs' in Hpos.
      pose proof (sf_value_nat SMALL_FACTOR_THRESHOLD (mx - mn + 1)%Z dfs ltac:(lia) Hdwf Hdv) as Hval. fold dfs' in Hval.
      rewrite (app_removelast_last (0, 0) Hne) in Hpos, Hval.
      apply Forall_app in Hpos. destruct Hpos as [Hpos1 Hpos2]. assert (Hlast : 1 <= fst (last dfs' (0, 0))) by (inversion Hpos2; auto).
      rewrite nvalue_app in Hval.
      destruct (diff_fold (removelast dfs') (Atom, seq_of []) 1 exact_atom below_eps_1 (le_n 1) Hpos1)
        as (He & Hbl & Hc1).
      set (s := fold_left (diff_step Atom) (removelast dfs') (Atom, seq_of [])) in *.
      set (c1 := nvalue (removelast dfs') 1) in *.
      set (p := last dfs' (0, 0)) in *.
      pose proof (repeat_opt_below (fst p) (snd p) (fst s) (snd s) Atom c1 He Hbl exact_atom Hc1) as Hopt.
      intros k. rewrite cnt_alt_of. split.
      * intros (e & [<-|[]] & Hk). simpl in Hk. apply cnt_cat_iff in Hk.
        destruct Hk as (i & j & -> & Hi & Hj). apply Hmn in Hi. apply cnt_seq_single, Hopt in Hj.
        rewrite (Nat.mul_comm (fst p) c1) in Hj. lia.
      * intros Hk. eexists. split; [left; reflexivity|]. simpl. apply cnt_cat_iff.
        exists (Z.to_nat mn), (k - Z.to_nat mn). split; [lia|]. split; [apply Hmn; auto|].
        apply cnt_seq_single, Hopt. rewrite (Nat.mul_comm (fst p) c1). lia.
Qed.

(* ? * + *)
Lemma rec_count e : exact e 1 -> forall k, cnt (Rec e) k <-> 1 <= k.
Proof.
  intros He k. split.
  - intros H. remember (Rec e) as r eqn:Er. induction H; inversion Er; subst.
    + apply He in H. lia.
    + apply He in H0. specialize (IHcnt1 eq_refl). lia.
  - intros Hk. induction k as [|k IH]; [lia|].
    destruct k as [|k'].
    + apply c_rec1. apply He. auto.
    + replace (S (S k')) with (S k' + 1) by lia. apply c_rec2; [apply IH; lia | apply He; auto].
Qed.

Theorem op_opt_count k : cnt (op_opt Atom) k <-> k <= 1.
Proof.
  unfold op_opt. rewrite cnt_alt_of. split.
  - intros (e & [<-|[<-|[]]] & H); [apply cnt_atom_iff in H | apply cnt_seq_nil in H]; lia.
  - intros Hk. destruct k as [|[|k]]; [| |lia].
    + exists (seq_of []). split; [right; left; auto | apply cnt_seq_nil; auto].
    + exists Atom. split; [left; auto | constructor].
Qed.

Theorem op_plus_count k : cnt (op_plus Atom) k <-> 1 <= k.
Proof. apply rec_count. apply exact_atom. Qed.

Theorem op_star_count k : cnt (op_star Atom) k <-> True.
Proof.
  unfold op_star. rewrite cnt_alt_of. split; auto. intros _.
  destruct k as [|k].
  - exists (seq_of []). split; [right; left; auto | apply cnt_seq_nil; auto].
  - exists (Rec Atom). split; [left; auto | apply (rec_count Atom exact_atom); lia].
Qed.

(* ---- from counts to languages: x may be any language A (terminal, rule, group, template
   argument): the fragment derives w iff w is a concatenation of k words of A with cnt k. *)
Section Lang.
  Variable tok : Type.
  Variable A : list tok -> Prop.

  Inductive pow : nat -> list tok -> Prop :=
  | pow0 : pow 0 []
  | powS k u v : A u -> pow k v -> pow (S k) (u ++ v).

  Inductive den : rexp -> list tok -> Prop :=
  | d_atom w : A w -> den Atom w
  | d_eps : den Eps []
  | d_cat a b u v : den a u -> den b v -> den (Cat a b) (u ++ v)
  | d_or_l a b w : den a w -> den (Or a b) w
  | d_or_r a b w : den b w -> den (Or a b) w
  | d_rec1 e w : den e w -> den (Rec e) w
  | d_rec2 e u v : den (Rec e) u -> den e v -> den (Rec e) (u ++ v).

  Lemma pow_app i j u v : pow i u -> pow j v -> pow (i + j) (u ++ v).
  Proof.
    induction 1; intros Hv; simpl; auto. rewrite <- app_assoc. constructor; auto.
  Qed.

  Lemma pow_split i j w : pow (i + j) w -> exists u v, w = u ++ v /\ pow i u /\ pow j v.
  Proof.
    revert w. induction i as [|i IH]; simpl; intros w H.
    - exists [], w. repeat split; auto. constructor.
    - inversion H as [|k0 u v0 Hu0 Hp0]; subst.
      destruct (IH _ Hp0) as (u' & v' & -> & Hu & Hv).
      exists (u ++ u'), v'. rewrite app_assoc. repeat split; auto. constructor; auto.
  Qed.

  Lemma pow_1 w : A w -> pow 1 w.
  Proof. intros. rewrite <- (app_nil_r w). constructor; auto. constructor. Qed.

  Theorem den_cnt e w : den e w <-> exists k, cnt e k /\ pow k w.
  Proof.
    split.
    - induction 1.
      + exists 1. split; [constructor | apply pow_1; auto].
      + exists 0. split; constructor.
      + destruct IHden1 as (i & Hi & Pi). destruct IHden2 as (j & Hj & Pj).
        exists (i + j). split; [constructor; auto | apply pow_app; auto].
      + destruct IHden as (k & Hk & Pk). exists k. split; auto. apply c_or_l; auto.
      + destruct IHden as (k & Hk & Pk). exists k. split; auto. apply c_or_r; auto.
      + destruct IHden as (k & Hk & Pk). exists k. split; auto. apply c_rec1; auto.
      + destruct IHden1 as (i & Hi & Pi). destruct IHden2 as (j & Hj & Pj).
        exists (i + j). split; [apply c_rec2; auto | apply pow_app; auto].
    - intros (k & Hk & Pk). revert w Pk. induction Hk; intros w Pk.
      + inversion Pk as [|k0 u v0 Hu0 Hp0]; subst. inversion Hp0; subst. rewrite app_nil_r. constructor; auto.
      + inversion Pk; subst. constructor.
      + apply pow_split in Pk. destruct Pk as (u & v & -> & Pu & Pv). constructor; auto.
      + apply d_or_l; auto.
      + apply d_or_r; auto.
      + apply d_rec1; auto.
      + apply pow_split in Pk. destruct Pk as (u & v & -> & Pu & Pv). apply d_rec2; auto.
  Qed.
End Lang.

Theorem generate_repeats_language (tok : Type) (A : list tok -> Prop) mn mx :
  (0 <= mn <= mx)%Z ->
  exists e, generate_repeats Atom mn mx = Ok e /\
    forall w, den tok A e w <-> exists k, Z.to_nat mn <= k <= Z.to_nat mx /\ pow tok A k w.
Proof.
  intros Hb. destruct (generate_repeats_count mn mx Hb) as (e & He & Hc).
  exists e. split; auto. intros w. rewrite den_cnt. split.
  - intros (k & Hk & Pk). exists k. split; auto. apply Hc; auto.
  - intros (k & Hk & Pk). exists k. split; auto. apply Hc; auto.
Qed.
