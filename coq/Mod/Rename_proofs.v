(* C17 - an injective renaming of the non-terminals changes neither the language nor the
   derivation trees (up to the renaming of their labels). *)
From Coq Require Import List Arith Bool Lia.
From LV Require Import Cfg.Grammar Mod.Rename.
Import ListNotations.

Definition inj_on (D : nat -> Prop) (rho : nat -> nat) : Prop :=
  forall a b, D a -> D b -> rho a = rho b -> a = b.

Lemma nts_app a b : nts (a ++ b) = nts a ++ nts b.
Proof. induction a as [|[t|x] a IH]; simpl; auto. now rewrite IH. Qed.

Lemma in_grammar_nts_lhs G r : In r G -> In (lhs r) (grammar_nts G).
Proof. intros H. unfold grammar_nts. apply in_flat_map. exists r; split; auto. now left. Qed.

Lemma in_grammar_nts_rhs G r a : In r G -> In a (nts (rhs r)) -> In a (grammar_nts G).
Proof. intros H Ha. unfold grammar_nts. apply in_flat_map. exists r; split; auto. now right. Qed.

Lemma rename_sym_T rho s t : rename_sym rho s = T t -> s = T t.
Proof. destruct s; simpl; congruence. Qed.

Lemma rename_sym_NT rho s a : rename_sym rho s = NT a -> exists a0, s = NT a0 /\ rho a0 = a.
Proof. destruct s; simpl; try congruence. intros H; inversion H; eauto. Qed.

Section Rename.
  Variable G : grammar.
  Variable tok : Type.
  Variable tmatch : nat -> tok -> bool.
  Variable rho : nat -> nat.

  Let G' := rename_grammar rho G.

  Lemma derives_rename_fwd ss w :
    derives G tok tmatch ss w -> derives G' tok tmatch (map (rename_sym rho) ss) w.
  Proof.
    induction 1; simpl.
    - constructor.
    - constructor; auto.
    - apply d_nt with (r := rename_rule rho r); auto.
      + unfold G', rename_grammar. now apply in_map.
      + simpl. now subst.
  Qed.

  Variable D : nat -> Prop.
  Hypothesis Hinj : inj_on D rho.
  Hypothesis HG : forall a, In a (grammar_nts G) -> D a.

  Lemma derives_rename_bwd ss' w :
    derives G' tok tmatch ss' w ->
    forall ss, ss' = map (rename_sym rho) ss -> (forall a, In a (nts ss) -> D a) ->
    derives G tok tmatch ss w.
  Proof.
    induction 1 as [|t k ss' w Hm Hd IH|a r' ss' w1 w2 Hin Hl Hd1 IH1 Hd2 IH2]; intros ss Heq HD.
    - destruct ss; simpl in Heq; try discriminate. constructor.
    - destruct ss as [|s0 ss0]; simpl in Heq; try discriminate.
      inversion Heq as [[Hs Hr]]. symmetry in Hs. apply rename_sym_T in Hs. subst s0.
      constructor; auto; apply IH; auto.
    - destruct ss as [|s0 ss0]; simpl in Heq; try discriminate.
      inversion Heq as [[Hs Hr]]. symmetry in Hs. apply rename_sym_NT in Hs.
      destruct Hs as (a0 & -> & Ha0).
      unfold G', rename_grammar in Hin. apply in_map_iff in Hin. destruct Hin as (r & <- & Hr0).
      simpl in Hl.
      assert (lhs r = a0).
      { apply Hinj.
        - apply HG. now apply in_grammar_nts_lhs.
        - apply HD. simpl. now left.
        - congruence. }
      apply d_nt with (r := r); auto.
      + apply IH1; auto. intros b Hb. apply HG. eapply in_grammar_nts_rhs; eauto.
      + apply IH2; auto. intros b Hb. apply HD. simpl. now right.
  Qed.

  (* same language *)
  Theorem derives_rename ss w :
    (forall a, In a (nts ss) -> D a) ->
    (derives G' tok tmatch (map (rename_sym rho) ss) w <-> derives G tok tmatch ss w).
  Proof.
    intros HD; split.
    - intros H. eapply derives_rename_bwd; eauto.
    - apply derives_rename_fwd.
  Qed.

  Corollary sentence_rename X w :
    D X -> (sentence G' tok tmatch (rho X) w <-> sentence G tok tmatch X w).
  Proof.
    intros HX. unfold sentence. apply (derives_rename [NT X] w).
    simpl. intros a [<-|[]]. exact HX.
  Qed.

  (* same trees, labels renamed *)
  Scheme tree_of_mind := Induction for tree_of Sort Prop
    with forest_of_mind := Induction for forest_of Sort Prop.

  Lemma tree_rename_fwd :
    (forall s t, tree_of G tok tmatch s t -> tree_of G' tok tmatch (rename_sym rho s) (rename_dtree rho t)).
  Proof.
    intros s t H.
    induction H using tree_of_mind with
      (P0 := fun ss ts _ => forest_of G' tok tmatch (map (rename_sym rho) ss) (map (rename_dtree rho) ts));
      simpl.
    - now constructor.
    - apply to_node; auto.
      + unfold G', rename_grammar. now apply in_map.
      + simpl. now subst.
    - constructor.
    - constructor; auto.
  Qed.

  Lemma yield_rename (t : dtree tok) : yield (rename_dtree rho t) = yield t.
  Proof.
    revert t. fix IH 1. intros [t k|a r ch]; simpl; auto.
    induction ch as [|c ch IHch]; simpl; auto.
    now rewrite IH, IHch.
  Qed.

  Lemma tree_rename_bwd :
    forall s' t', tree_of G' tok tmatch s' t' ->
    forall s, s' = rename_sym rho s -> (forall a, In a (nts [s]) -> D a) ->
    exists t, tree_of G tok tmatch s t /\ t' = rename_dtree rho t.
  Proof.
    intros s' t' H.
    induction H using tree_of_mind with
      (P0 := fun ss' ts' _ => forall ss, ss' = map (rename_sym rho) ss -> (forall a, In a (nts ss) -> D a) ->
                exists ts, forest_of G tok tmatch ss ts /\ ts' = map (rename_dtree rho) ts).
    - intros s Hs HD. symmetry in Hs. apply rename_sym_T in Hs. subst s.
      exists (Leaf t k). split; auto. now constructor.
    - intros s Hs HD. symmetry in Hs. apply rename_sym_NT in Hs. destruct Hs as (a0 & -> & Ha0).
      unfold G', rename_grammar in i. apply in_map_iff in i. destruct i as (r0 & <- & Hr0).
      simpl in e.
      assert (lhs r0 = a0).
      { apply Hinj.
        - apply HG. now apply in_grammar_nts_lhs.
        - apply HD. simpl. now left.
        - congruence. }
      destruct (IHtree_of (rhs r0) eq_refl) as (ts & Hts & ->).
      { intros b Hb. apply HG. eapply in_grammar_nts_rhs; eauto. }
      exists (Node a0 r0 ts). split.
      + apply to_node; auto.
      + simpl. now subst.
    - intros ss Hs _. destruct ss; try discriminate. exists []. split; auto. constructor.
    - intros ss0 Hs HD. destruct ss0 as [|s0 ss0]; try discriminate. simpl in Hs.
      inversion Hs as [[Hs0 Hss0]].
      destruct (IHtree_of s0 Hs0) as (t0 & Ht0 & ->).
      { intros b Hb. apply HD. simpl in Hb. destruct s0; simpl in *; tauto. }
      destruct (IHtree_of0 ss0 Hss0) as (ts0 & Hts0 & ->).
      { intros b Hb. apply HD. destruct s0; simpl; auto. }
      exists (t0 :: ts0). split; auto. now constructor.
  Qed.

  Theorem trees_rename X :
    D X ->
    (forall t, tree_of G tok tmatch (NT X) t ->
               tree_of G' tok tmatch (NT (rho X)) (rename_dtree rho t) /\ yield (rename_dtree rho t) = yield t) /\
    (forall t', tree_of G' tok tmatch (NT (rho X)) t' ->
                exists t, tree_of G tok tmatch (NT X) t /\ t' = rename_dtree rho t /\ yield t' = yield t).
  Proof.
    intros HX. split.
    - intros t Ht. split. apply (tree_rename_fwd (NT X) t Ht). apply yield_rename.
    - intros t' Ht'. destruct (tree_rename_bwd _ _ Ht' (NT X) eq_refl) as (t & Ht & ->).
      { simpl. intros a [<-|[]]. exact HX. }
      exists t. repeat split; auto. apply yield_rename.
  Qed.
End Rename.

(* derivation trees are exactly the witnesses of `derives` *)
Section TreesDerive.
  Variable G : grammar.
  Variable tok : Type.
  Variable tmatch : nat -> tok -> bool.

  Scheme tree_of_mind' := Induction for tree_of Sort Prop
    with forest_of_mind' := Induction for forest_of Sort Prop.

  Lemma forest_derives ss ts :
    forest_of G tok tmatch ss ts -> derives G tok tmatch ss (flat_map yield ts).
  Proof.
    intros H.
    induction H using forest_of_mind' with
      (P := fun s t _ => derives G tok tmatch [s] (yield t)); simpl.
    - constructor; auto. constructor.
    - rewrite <- (app_nil_r (flat_map yield ch)). apply d_nt with (r := r); auto. constructor.
    - constructor.
    - change (s :: ss) with ([s] ++ ss). apply derives_app; auto.
  Qed.

  Lemma derives_forest ss w :
    derives G tok tmatch ss w -> exists ts, forest_of G tok tmatch ss ts /\ flat_map yield ts = w.
  Proof.
    induction 1 as [|t k ss w Hm Hd (ts & Hts & Hy)|a r ss w1 w2 Hin Hl Hd1 (ts1 & Hts1 & Hy1) Hd2 (ts2 & Hts2 & Hy2)].
    - exists []. split; constructor.
    - exists (Leaf t k :: ts). split. constructor; auto. now constructor. simpl. now rewrite Hy.
    - exists (Node a r ts1 :: ts2). split.
      + constructor; auto. now apply to_node.
      + simpl. now rewrite Hy1, Hy2.
  Qed.

  Theorem derives_iff_tree X w :
    sentence G tok tmatch X w <-> exists t, tree_of G tok tmatch (NT X) t /\ yield t = w.
  Proof.
    unfold sentence. split.
    - intros H. apply derives_forest in H. destruct H as (ts & Hts & Hy).
      inversion Hts as [|s ss t ts' Ht Hrest]; subst. inversion Hrest; subst.
      exists t. split; auto. simpl. now rewrite app_nil_r.
    - intros (t & Ht & <-).
      assert (F : forest_of G tok tmatch [NT X] [t]) by (constructor; auto; constructor).
      apply forest_derives in F. simpl in F. now rewrite app_nil_r in F.
  Qed.
End TreesDerive.
