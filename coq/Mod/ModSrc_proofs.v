(* C17 - the conditions and constants of the model (Mod/Modules.v, Mod/Front.v, Mod/Search.v) are those of
   the current source: coq/Gen/ModSrc.v is regenerated from lark/load_grammar.py on every run
   (translator/gen_modules.py, every mirrored function pinned by a template) and the model functions are
   proved equal to the generated ones here. *)
From Coq Require Import List String Ascii Bool ZArith Arith.
From LV Require Import Mod.Modules Mod.Modules_proofs Mod.Unpack Mod.Front Mod.Search Gen.ModSrc.
Import ListNotations.
Local Open Scope string_scope.

Lemma has_chr_is_source c s : has_chr c s = has_chr_src c s.
Proof. induction s; simpl; congruence. Qed.

Lemma list_eqb_is_source a : forall b, list_eqb a b = str_list_eqb a b.
Proof. induction a; destruct b; simpl; auto; now rewrite IHa. Qed.

(* ---- constants ---------------------------------------------------------------------------------- *)
Theorem constants_are_source :
  TOKEN_DEFAULT_PRIORITY = TOKEN_DEFAULT_PRIORITY_SRC /\ EXT = EXT_SRC /\
  STDLIB = SrcPkg STDLIB_PKG_SRC IMPORT_PATHS_SRC /\
  (forall name args, instance_name name args = INSTANCE_NAME_SRC name (join INSTANCE_ARG_SEP_SRC (map arg_name args))) /\
  (forall m n ps p e, def_data (RawRule m n ps p e) = KIND_RULE_SRC) /\
  (forall g ls n b b', apply_stmt g ls (SDeclare [(true, n)]) b = Ok b' ->
      exists d, find_def (mangle ls n) (b_defs b') = Some d /\ d_opts d = OTerm DECLARED_OPTIONS_SRC).
Proof.
  split; [reflexivity|]. split; [reflexivity|]. split; [reflexivity|]. split; [reflexivity|].
  split; [reflexivity|].
  intros g ls n b b'. simpl.
  destruct (define g false (mkDef (mangle ls n) true None [] (OTerm 1)) (b_defs b)) as [l|] eqn:E; simpl; [|discriminate].
  intros H; inversion H; subst; clear H. apply define_ok in E. destruct E as (-> & _ & _). cbn [b_defs with_defs].
  eexists. split. { rewrite find_set_def. cbn [d_name]. now rewrite String.eqb_refl. } reflexivity.
Qed.

(* ---- _define ------------------------------------------------------------------------------------ *)
Theorem define_is_source g o d l :
  define g o d l =
  match define_raise_src (defined (d_name d) l) o (d_name d) with
  | Some 0 => Err EDup
  | Some 1 => Err ENoOverride
  | Some _ => Err EReserved
  | None => Ok (set_def (mkDef (d_name d) (d_term d) (d_tree d) (d_params d) (check_options g (d_opts d))) l)
  end.
Proof.
  unfold define, define_raise_src.
  destruct (defined (d_name d) l), o, (String.prefix "__" (d_name d)); reflexivity.
Qed.

(* ---- _extend ------------------------------------------------------------------------------------ *)
Definition is_none {A} (o : option A) : bool := match o with None => true | Some _ => false end.

Theorem extend_is_source d l :
  extend d l =
  match find_def (d_name d) l with
  | None =>
      match extend_raise_src false (d_term d) false (d_params d) [] false with
      | Some 0 => Err EExtUndefined
      | _ => Err EFuel
      end
  | Some old =>
      match extend_raise_src true (d_term d) (d_term old) (d_params d) (d_params old) (is_none (d_tree old)) with
      | Some 0 => Err EExtUndefined
      | Some 1 => Err EExtKind
      | Some 2 => Err EExtParams
      | Some _ => Err EExtAbstract
      | None =>
          match d_tree old, d_tree d with
          | Some base, Some exp =>
              Ok (set_def (mkDef (d_name old) (d_term old) (Some (add_alternative exp base)) (d_params old) (d_opts old)) l)
          | _, _ => Ok l
          end
      end
  end.
Proof.
  unfold extend, extend_raise_src. destruct (find_def (d_name d) l) as [old|]; [|reflexivity].
  rewrite <- (list_eqb_is_source (d_params d) (d_params old)). cbn [negb].
  destruct (Bool.eqb (d_term d) (d_term old)); cbn [negb]; [|reflexivity].
  destruct (list_eqb (d_params d) (d_params old)); cbn [negb]; [|reflexivity].
  destruct (d_tree old); cbn [is_none]; [|reflexivity]. destruct (d_tree d); reflexivity.
Qed.

(* ---- validate ----------------------------------------------------------------------------------- *)
(* one template_usage node *)
Definition template_check (l : list defn) (ps : list string) (tu : tree) : result unit :=
  match tu with
  | Nd _ (Sy _ s :: args) =>
      match validate_template_src (mem s ps) (defined s l) (List.length args)
                                  (match find_def s l with Some td => List.length (d_params td) | None => 0 end) with
      | Some 0 => Err ETemplateUndefined
      | Some _ => Err ETemplateArity
      | None => Ok tt
      end
  | _ => Ok tt
  end.

Lemma bind_ext' {A B} (r r' : result A) (k k' : A -> result B) :
  r = r' -> (forall a, k a = k' a) -> bind r k = bind r' k'.
Proof. intros -> H. destruct r'; simpl; auto. Qed.

Lemma forallb_ext' {A} (f g : A -> bool) l : (forall x, f x = g x) -> forallb f l = forallb g l.
Proof. intros H. induction l; simpl; auto. now rewrite H, IHl. Qed.

Lemma fold_left_ext {A B} (f g : A -> B -> A) l : (forall a b, f a b = g a b) -> forall a, fold_left f l a = fold_left g l a.
Proof. intros H. induction l; simpl; intros; auto. rewrite H. auto. Qed.

Fixpoint scan_params (l : list defn) (seen ps : list string) : option nat :=
  match ps with
  | [] => None
  | p :: r =>
      match validate_param_src (defined p l) (mem p seen) with
      | Some k => Some k
      | None => scan_params l (seen ++ [p]) r
      end
  end.

Lemma mem_app x a b : mem x (a ++ b) = mem x a || mem x b.
Proof. induction a; simpl; auto. rewrite IHa. now rewrite orb_assoc. Qed.

Lemma scan_params_none l : forall ps seen,
  scan_params l seen ps = None <->
  existsb (fun p => defined p l) ps = false /\ dup_before ps = false /\ (forall p, In p ps -> mem p seen = false).
Proof.
  induction ps as [|p r IH]; intros seen; simpl.
  - split; auto. intros _. repeat split; auto. intros p [].
  - unfold validate_param_src. destruct (defined p l); simpl.
    + split; [discriminate|]. intros (H & _); discriminate.
    + destruct (mem p seen) eqn:Es.
      * split; [discriminate|]. intros (_ & _ & H). specialize (H p (or_introl eq_refl)). congruence.
      * rewrite IH. split.
        -- intros (H1 & H2 & H3). split; auto. split.
           ++ apply orb_false_iff. split; auto.
              destruct (mem p r) eqn:Er; auto. apply mem_In in Er. specialize (H3 _ Er).
              rewrite mem_app in H3. simpl in H3. rewrite String.eqb_refl in H3. rewrite orb_true_r in H3. discriminate.
           ++ intros q [<-|Hq]; auto. specialize (H3 _ Hq). rewrite mem_app in H3. apply orb_false_iff in H3. tauto.
        -- intros (H1 & H2 & H3). apply orb_false_iff in H2. destruct H2 as [H2a H2b]. split; auto. split; auto.
           intros q Hq. rewrite mem_app. simpl. rewrite orb_false_r. apply orb_false_iff. split.
           ++ apply H3. now right.
           ++ destruct (String.eqb q p) eqn:Eq; auto. apply String.eqb_eq in Eq. subst q.
              apply mem_In in Hq. congruence.
Qed.

Theorem validate_def_is_source l d :
  validate_def l d =
  match scan_params l [] (d_params d) with
  | Some _ => if existsb (fun p => defined p l) (d_params d) then Err EParamConflict else Err EParamDup
  | None =>
      match d_tree d with
      | None => Ok tt
      | Some t =>
          _ <- fold_left (fun acc tu => _ <- acc ;; template_check l (d_params d) tu) (find_data "template_usage" t) (Ok tt) ;;
          if forallb (fun s => negb (validate_sym_src (defined s l) (mem s (d_params d)))) (used_symbols t)
          then Ok tt else Err ESymUndefined
      end
  end.
Proof.
  unfold validate_def.
  destruct (scan_params l [] (d_params d)) eqn:E.
  - destruct (existsb (fun p => defined p l) (d_params d)) eqn:E1; [reflexivity|].
    destruct (dup_before (d_params d)) eqn:E2; [reflexivity|].
    assert (scan_params l [] (d_params d) = None) by (apply scan_params_none; auto). congruence.
  - apply scan_params_none in E. destruct E as (-> & -> & _).
    destruct (d_tree d) as [t|]; [|reflexivity].
    apply bind_ext'.
    + apply fold_left_ext. intros acc tu. destruct acc as [[]|e]; [|reflexivity]. cbn [bind].
      destruct tu as [dd ch| | |]; try reflexivity. destruct ch as [|[| b s | |] args]; try reflexivity.
      cbn [template_check]. unfold validate_template_src, defined.
      destruct (mem s (d_params d)); cbn [negb]; [reflexivity|].
      destruct (find_def s l) as [td|]; cbn [negb]; [|reflexivity].
      destruct (Nat.eqb (List.length args) (List.length (d_params td))); reflexivity.
    + intros _. rewrite (forallb_ext' _ (fun s => negb (validate_sym_src (defined s l) (mem s (d_params d))))); [reflexivity|].
      intros s. unfold validate_sym_src. destruct (defined s l), (mem s (d_params d)); reflexivity.
Qed.

Theorem validate_ignore_is_source b :
  validate b =
  (_ <- fold_left (fun acc d => _ <- acc ;; validate_def (export b) d) (export b) (Ok tt) ;;
   if validate_ignore_src (forallb (fun n => defined n (b_defs b)) (b_ignore b)) then Err EIgnoreUndefined else Ok tt).
Proof. unfold validate, validate_ignore_src. destruct (fold_left _ _ _); simpl; auto. destruct (forallb _ _); reflexivity. Qed.

(* ---- the statement dispatch of load_grammar ------------------------------------------------------ *)
Definition is_nil {A} (l : list A) : bool := match l with [] => true | _ => false end.

(* what the model does with a statement (apply_raw dispatches on the constructor) *)
Definition action_of (r : raw_stmt) (ls : list layer) : nat :=
  match r with
  | RDefine _ => 0 | ROverride _ => 1 | RExtend _ => 2
  | RIgnore _ => if is_nil ls then 3 else 4
  | RDeclare _ => 5 | RImport _ _ _ => 6
  end.

Theorem dispatch_is_source g ls r b :
  (stmt_action_src (stmt_data r) (is_nil ls) = action_of r ls) /\
  (forall t, r = RIgnore t -> apply_raw g ls r b = (if is_nil ls then Ok (ignore t b) else Ok b)) /\
  (forall rel p a, r = RImport rel p a -> apply_raw g ls r b = Ok b) /\
  (forall n rest, r = RDeclare ((false, n) :: rest) -> declare_rejects_src false = true /\ apply_raw g ls r b = Err EDeclareRule).
Proof.
  split.
  { destruct r as [d|d|d|t|sy|rel path arg]; cbn [stmt_data action_of]; try reflexivity;
      try (destruct d; reflexivity); destruct ls; reflexivity. }
  split. { intros t ->. destruct ls; reflexivity. }
  split. { intros rel p a ->. reflexivity. }
  intros n rest ->. split; [reflexivity|]. simpl. induction rest; simpl; auto.
Qed.

(* ---- do_import: to_try -------------------------------------------------------------------------- *)
Theorem to_try_is_source e b :
  to_try e b = to_try_src CSrc CBase (e_paths e) (match b with BNone => None | _ => Some b end) (e_std e).
Proof. unfold to_try, to_try_src. destruct b; reflexivity. Qed.

(* ---- _make_rule_tuple --------------------------------------------------------------------------- *)
Theorem make_rule_tuple_is_source m name params prio exp :
  make_rule_tuple (Some m) name params prio exp =
  if mrt_reject_src (mrt_expand1_src m) name then Err EInlineExpand1
  else Ok (mkDef name false (Some exp) params
                 (ORule (mrt_keep_src m) (mrt_expand1_src m) prio (match params with [] => None | _ => Some name end))).
Proof. unfold make_rule_tuple, mrt_reject_src, mrt_expand1_src, mrt_keep_src. now rewrite !has_chr_is_source. Qed.

Theorem string_grammar_name_is_source e s rel :
  base_of e (GName s) rel =
  if negb rel then BNone
  else if String.eqb s STRING_GRAMMAR_NAME_SRC
       then match e_main e with Some f => BDir (dirname f) | None => BDir (e_cwd e) end
       else BDir (dirname s).
Proof. reflexivity. Qed.
