(* C17 - comparison helper for _unpack_import (harness/props/C17.py). *)
From Coq Require Import List String Bool.
From LV Require Import Mod.Modules Mod.Unpack.
Import ListNotations.
Local Open Scope string_scope.

Fixpoint pairs_eqb (a b : list (string * string)) : bool :=
  match a, b with
  | [], [] => true
  | (k, v) :: r, (k', v') :: r' => String.eqb k k' && String.eqb v v' && pairs_eqb r r'
  | _, _ => false
  end.

(* (children of the path node, argument, observed: None = GrammarError, Some (dotted_path, aliases in dict order)) *)
Definition unpack_case := (list string * import_arg * option (list string * list (string * string)))%type.

Definition check_unpack (c : unpack_case) : bool :=
  let '(ch, arg, obs) := c in
  match unpack_import ch arg, obs with
  | None, None => true
  | Some (p, al), Some (p', al') => list_eqb p p' && pairs_eqb al al'
  | _, _ => false
  end.
