(* C17 - proofs about the file search (Mod/Search.v) and the statement front (Mod/Front.v):
   which file a dotted path denotes, the search model against the by-dotted-path model, %declare,
   %ignore in imported modules. *)
From Coq Require Import List String Ascii Bool ZArith Arith Lia.
From LV Require Import Mod.Modules Mod.Modules_proofs Mod.Unpack Mod.Front Mod.Search.
Import ListNotations.
Local Open Scope string_scope.

(* ------------------------------------------------------------------ the search order *)
Definition skips (e : env) (b : base) (gp : string) (c : candidate) : Prop := try_candidate e b gp c = Skip.

Lemma first_found_app e b gp l1 l2 :
  Forall (skips e b gp) l1 -> first_found e b gp (l1 ++ l2) = first_found e b gp l2.
Proof.
  induction l1 as [|x l1 IH]; simpl; intros H; auto.
  inversion H; subst. unfold skips in H2. rewrite H2. auto.
Qed.

Lemma first_found_skip e b gp cs : first_found e b gp cs = Skip <-> Forall (skips e b gp) cs.
Proof.
  induction cs as [|x cs IH]; simpl.
  - split; auto.
  - destruct (try_candidate e b gp x) eqn:E.
    + split; [discriminate|]. intros H; inversion H; subst. unfold skips in H2. congruence.
    + rewrite IH. split; intros H. constructor; auto. now inversion H.
    + split; [discriminate|]. intros H; inversion H; subst. unfold skips in H2. congruence.
Qed.

(* the attempt that decides: everything before it raised IOError *)
Lemma first_found_decides e b gp cs a :
  a <> Skip ->
  (first_found e b gp cs = a <->
   exists l1 x l2, cs = (l1 ++ x :: l2)%list /\ Forall (skips e b gp) l1 /\ try_candidate e b gp x = a).
Proof.
  intros Ha. induction cs as [|x cs IH]; simpl.
  - split.
    + intros H. congruence.
    + intros (l1 & y & l2 & H & _). destruct l1; discriminate.
  - destruct (try_candidate e b gp x) eqn:E.
    + split.
      * intros <-. exists [], x, cs. repeat split; auto.
      * intros (l1 & y & l2 & H & Hs & Ht). destruct l1 as [|z l1]; simpl in H; inversion H; subst.
        -- congruence.
        -- inversion Hs; subst. unfold skips in H2. congruence.
    + rewrite IH. split.
      * intros (l1 & y & l2 & -> & Hs & Ht). exists (x :: l1), y, l2. repeat split; auto.
      * intros (l1 & y & l2 & H & Hs & Ht). destruct l1 as [|z l1]; simpl in H; inversion H; subst.
        -- congruence.
        -- inversion Hs; subst. exists l1, y, l2. repeat split; auto.
    + split.
      * intros <-. exists [], x, cs. repeat split; auto.
      * intros (l1 & y & l2 & H & Hs & Ht). destruct l1 as [|z l1]; simpl in H; inversion H; subst.
        -- congruence.
        -- inversion Hs; subst. unfold skips in H2. congruence.
Qed.

(* which file a dotted path denotes: the first element of
   import_paths + [base_path] + [stdlib_loader] that has it *)
Theorem resolve_order e b p n c :
  resolve e b p = Ok (n, c) <->
  exists l1 x l2, to_try e b = (l1 ++ x :: l2)%list /\
    Forall (skips e b (grammar_path p)) l1 /\ try_candidate e b (grammar_path p) x = Found n c.
Proof.
  unfold resolve. cbv zeta. rewrite <- first_found_decides by discriminate.
  destruct (first_found e b (grammar_path p) (to_try e b)) eqn:E.
  - split; intros H; inversion H; subst; auto.
  - destruct (read_file e (grammar_path p)); split; discriminate.
  - split; discriminate.
Qed.

(* the module is not found (FileNotFoundError from open(grammar_path)) iff every attempt raised IOError
   and the file is not in the current directory either *)
Theorem resolve_not_found e b p :
  resolve e b p = Err ENoModule <->
  Forall (skips e b (grammar_path p)) (to_try e b) /\ read_file e (grammar_path p) = None.
Proof.
  unfold resolve. cbv zeta. rewrite <- first_found_skip.
  destruct (first_found e b (grammar_path p) (to_try e b)) eqn:E.
  - split; [discriminate|]. intros [H _]; discriminate.
  - destruct (read_file e (grammar_path p)); split; try discriminate; auto.
    intros [_ H]; discriminate.
  - split; [discriminate|]. intros [H _]; discriminate.
Qed.

(* a library import (%import a.b.c: base_path = None) never looks into the directory of the importing
   grammar: only import_paths, in order, then lark's bundled grammars *)
Theorem lib_import_candidates e : to_try e BNone = (map CSrc (e_paths e) ++ [CSrc (e_std e)])%list.
Proof. reflexivity. Qed.

(* a relative import (%import .a.b.c) looks into import_paths first as well, then into the directory of
   the importing grammar, then into the bundled grammars *)
Theorem rel_import_candidates e d :
  to_try e (BDir d) = (map CSrc (e_paths e) ++ [CBase (BDir d)] ++ [CSrc (e_std e)])%list.
Proof. reflexivity. Qed.

(* an import_paths directory that has the file shadows everything after it: later import paths, the
   directory of the importing grammar, the bundled grammars *)
Theorem import_path_shadows e b p l1 d l2 c :
  e_paths e = (l1 ++ SrcDir d :: l2)%list ->
  Forall (fun s => try_candidate e b (grammar_path p) (CSrc s) = Skip) l1 ->
  read_file e (path_join d (grammar_path p)) = Some c ->
  resolve e b p = Ok (GName (path_join d (grammar_path p)), c).
Proof.
  intros Hp Hs Hr. apply resolve_order.
  exists (map CSrc l1), (CSrc (SrcDir d)), (map CSrc l2 ++ (match b with BNone => [] | _ => [CBase b] end) ++ [CSrc (e_std e)])%list.
  split.
  - unfold to_try. rewrite Hp, map_app. simpl. now rewrite <- app_assoc.
  - split.
    + rewrite Forall_forall in *. intros x Hx. apply in_map_iff in Hx. destruct Hx as (s & <- & Hs'). now apply Hs.
    + simpl. unfold try_dir. now rewrite Hr.
Qed.

(* the bundled grammars are used only when nothing else has the module *)
Theorem stdlib_is_last e b p n c :
  Forall (skips e b (grammar_path p)) (map CSrc (e_paths e) ++ (match b with BNone => [] | _ => [CBase b] end))%list ->
  try_candidate e b (grammar_path p) (CSrc (e_std e)) = Found n c ->
  resolve e b p = Ok (n, c).
Proof.
  intros Hs Ht. apply resolve_order.
  exists (map CSrc (e_paths e) ++ (match b with BNone => [] | _ => [CBase b] end))%list, (CSrc (e_std e)), [].
  split; [|split; auto]. unfold to_try. now rewrite app_assoc.
Qed.

(* ------------------------------------------------------------------ the search model is the table model *)
Lemma map_result_cons {A B} (f : A -> result B) x r l :
  map_result f (x :: r) = Ok l -> exists y l', f x = Ok y /\ map_result f r = Ok l' /\ l = y :: l'.
Proof.
  simpl. destruct (f x) as [y|]; simpl; [|discriminate]. destruct (map_result f r) as [l'|]; simpl; [|discriminate].
  intros H; inversion H; subst. eauto.
Qed.

Definition proj_imp {B} (i : import_entry B) : list string * list (string * string) := (fst i, snd (snd i)).

Lemma add_import_b_proj {B} (beq : B -> B -> bool) p bs al : forall imps imps',
  add_import_b beq p bs al imps = Ok imps' ->
  map proj_imp imps' = add_import p al (map proj_imp imps).
Proof.
  induction imps as [|[q [b' al']] r IH]; simpl; intros imps' H.
  - inversion H; subst. reflexivity.
  - destruct (list_eqb p q).
    + destruct (beq bs b'); inversion H; subst. reflexivity.
    + destruct (add_import_b beq p bs al r) as [r'|] eqn:E; simpl in H; [|discriminate].
      inversion H; subst. simpl. unfold proj_imp at 1. simpl. f_equal. now apply IH.
Qed.

Lemma collect_b_err {B} (beq : B -> B -> bool) bo rs e :
  fold_left (fun acc r =>
               imps <- acc ;;
               match r with
               | RImport rel path arg =>
                   match unpack_import path arg with
                   | None => Err ENothingImported
                   | Some (p, al) => add_import_b beq p (bo rel) al imps
                   end
               | _ => Ok imps
               end) rs (Err e) = Err e.
Proof. induction rs; simpl; auto. Qed.

Lemma collect_imports_b_proj {B} (beq : B -> B -> bool) bo : forall rs ss acc imps,
  unpack_stmts rs = Ok ss ->
  fold_left (fun acc r =>
               imps <- acc ;;
               match r with
               | RImport rel path arg =>
                   match unpack_import path arg with
                   | None => Err ENothingImported
                   | Some (p, al) => add_import_b beq p (bo rel) al imps
                   end
               | _ => Ok imps
               end) rs (Ok acc) = Ok imps ->
  map proj_imp imps =
  fold_left (fun acc s => match s with SImport p al => add_import p al acc | _ => acc end) ss (map proj_imp acc).
Proof.
  induction rs as [|r rs IH]; intros ss acc imps Hu H.
  - inversion Hu; subst. simpl in *. now inversion H.
  - apply map_result_cons in Hu. destruct Hu as (s & ss' & Hs & Hss & ->).
    simpl in H. simpl.
    destruct r as [d|d|d|t|sy|rel path arg]; simpl in Hs;
      try (destruct (unpack_def d) as [d'|]; simpl in Hs; [|discriminate]);
      try (inversion Hs; subst s; simpl; eapply IH; eauto; fail).
    destruct (unpack_import path arg) as [[p al]|]; [|discriminate]. inversion Hs; subst s.
    destruct (add_import_b beq p (bo rel) al acc) as [acc'|e] eqn:E.
    + simpl. rewrite <- (add_import_b_proj _ _ _ _ _ _ E). eapply IH; eauto.
    + rewrite collect_b_err in H. discriminate.
Qed.

Lemma collect_imports_b_spec {B} (beq : B -> B -> bool) bo rs ss imps :
  unpack_stmts rs = Ok ss -> collect_imports_b beq bo rs = Ok imps ->
  map proj_imp imps = collect_imports ss.
Proof. intros Hu H. exact (collect_imports_b_proj beq bo rs ss [] imps Hu H). Qed.

Lemma apply_raws_err g ls rs e :
  fold_left (fun acc r => b' <- acc ;; apply_raw g ls r b') rs (Err e) = Err e.
Proof. induction rs; simpl; auto. Qed.

Lemma apply_raw_unpacked g ls r s b : unpack_stmt r = Ok s -> apply_raw g ls r b = apply_stmt g ls s b.
Proof.
  destruct r as [d|d|d|t|sy|rel path arg]; simpl;
    try (destruct (unpack_def d) as [d'|]; simpl; [|discriminate]);
    try (intros H; inversion H; subst; reflexivity).
  destruct (unpack_import path arg) as [[p al]|]; [|discriminate]. intros H; inversion H; subst. reflexivity.
Qed.

Lemma apply_raws_unpacked g ls : forall rs ss acc,
  unpack_stmts rs = Ok ss ->
  fold_left (fun acc r => b' <- acc ;; apply_raw g ls r b') rs acc =
  fold_left (fun acc s => b' <- acc ;; apply_stmt g ls s b') ss acc.
Proof.
  induction rs as [|r rs IH]; intros ss acc Hu.
  - inversion Hu; subst. reflexivity.
  - apply map_result_cons in Hu. destruct Hu as (s & ss' & Hs & Hss & ->). simpl.
    destruct acc as [b|e]; simpl.
    + rewrite (apply_raw_unpacked g ls r s b Hs). now apply IH.
    + rewrite apply_raws_err, apply_stmts_err. reflexivity.
Qed.

Lemma bind_ext {A B} (r r' : result A) (k k' : A -> result B) :
  r = r' -> (forall a, k a = k' a) -> bind r k = bind r' k'.
Proof. intros -> H. destruct r'; simpl; auto. Qed.

Lemma fold_err_import {A} (F : builder -> A -> result builder) l e :
  fold_left (fun acc x => b' <- acc ;; F b' x) l (Err e) = Err e.
Proof. induction l; simpl; auto. Qed.

(* loading through the search = loading from the table keyed by dotted path, whenever the table describes
   the file system along the imports (coherent): all theorems about Modules.load / do_import hold for the
   grammar the search finds *)
Theorem load_fs_is_load e fs g : forall fuel ls name rs ss b,
  coherent fuel e fs name rs -> unpack_stmts rs = Ok ss ->
  load_fs fuel e g ls name rs b = load fuel fs g ls ss b.
Proof.
  induction fuel as [|f IH]; intros ls name rs ss b Hc Hu; [reflexivity|].
  simpl in Hc. destruct Hc as (imps & ss0 & Hci & Hu0 & Hall).
  assert (ss0 = ss) by congruence. subst ss0.
  rewrite load_S. cbn [load_fs]. rewrite Hci. cbn [bind].
  rewrite <- (collect_imports_b_spec base_eqb (base_of e name) rs ss imps Hu Hci).
  apply bind_ext.
  2:{ intros b1. unfold apply_raws, apply_stmts. now rewrite (apply_raws_unpacked g ls rs ss _ Hu). }
  clear Hci. generalize (Ok b) as acc. induction imps as [|[p [bs al]] imps IHi]; intros acc; [reflexivity|].
  inversion Hall as [|x l Hx Hl]; subst. simpl.
  destruct acc as [b0|e0].
  - simpl in Hx. destruct Hx as (n & c & ss' & Hr & Huc & Hlk & Hco).
    cbn [bind]. rewrite Hr. cbn [bind fst snd].
    assert (Heq : do_import (fun next ls' _ => load_fs f e g ls' n c (fresh_builder next)) [(p, [])] ls b0 (p, al) =
                  do_import (fun next ls' ms => load f fs g ls' ms (fresh_builder next)) fs ls b0 (proj_imp (p, (bs, al)))).
    { unfold do_import, proj_imp. cbn [fst snd lookup_module]. rewrite list_eqb_refl, Hlk.
      rewrite (IH _ n c ss' _ Hco Huc). reflexivity. }
    rewrite Heq. apply IHi. exact Hl.
  - cbn [bind]. rewrite !fold_err_import. reflexivity.
Qed.

Theorem load_fs_and_validate_is_load e fs g fuel name rs ss :
  coherent fuel e fs name rs -> unpack_stmts rs = Ok ss ->
  load_fs_and_validate fuel e g name rs = load_and_validate fuel fs g ss.
Proof.
  intros Hc Hu. unfold load_fs_and_validate, load_and_validate. now rewrite (load_fs_is_load e fs g fuel [] name rs ss _ Hc Hu).
Qed.

(* ------------------------------------------------------------------ %declare *)
(* %declare NAME defines a terminal without a body (tree None, options 1 from _check_options), allocates no
   tree object and touches nothing else; a rule name after %declare is an error *)
Theorem declare_is_bodyless_terminal g ls n b :
  defined (mangle ls n) (b_defs b) = false -> String.prefix "__" (mangle ls n) = false ->
  apply_stmt g ls (SDeclare [(true, n)]) b =
    Ok (mkB (b_defs b ++ [mkDef (mangle ls n) true None [] (OTerm 1)]) (b_ignore b) (b_heap b) (b_next b)).
Proof.
  intros Hd Hr. simpl. unfold define. cbn [d_name d_term d_tree d_params d_opts check_options].
  rewrite Hd, Hr. simpl. unfold with_defs. f_equal. f_equal.
  apply (set_def_undefined (mkDef (mangle ls n) true None [] (OTerm 1))). exact Hd.
Qed.

Theorem declare_rule_is_error g ls n rest b : apply_stmt g ls (SDeclare ((false, n) :: rest)) b = Err EDeclareRule.
Proof. simpl. induction rest as [|x r IH]; simpl; auto. Qed.

(* a declared terminal cannot be extended, and a terminal built from it is an error (assert in
   resolve_term_references) *)
Theorem declared_cannot_be_extended d l old :
  find_def (d_name d) l = Some old -> d_tree old = None ->
  d_term d = d_term old -> d_params d = d_params old ->
  extend d l = Err EExtAbstract.
Proof.
  intros Hf Ht Hk Hp. unfold extend. rewrite Hf, Hk, Hp, Ht.
  rewrite Bool.eqb_reflx, list_eqb_refl. reflexivity.
Qed.

(* ------------------------------------------------------------------ %ignore *)
(* %ignore of a terminal NAME (imported or local) adds its final name to the ignore list and no definition *)
Theorem ignore_named_terminal n b :
  ignore (Nd "expansions" [Nd "expansion" [Nd "value" [Sy true n]]]) b =
    mkB (b_defs b) (b_ignore b ++ [n]) (b_heap b) (b_next b).
Proof. reflexivity. Qed.

(* inside an imported module nothing is ignored: the statement is skipped ... *)
Theorem ignore_in_imported_module_is_skipped g l ls t b : apply_stmt g (l :: ls) (SIgnore t) b = Ok b.
Proof. reflexivity. Qed.

Lemma define_stmt_ignore g o d b b' : define_stmt g o d b = Ok b' -> b_ignore b' = b_ignore b.
Proof.
  unfold define_stmt, alloc. destruct (d_term d), (d_tree d); simpl;
    match goal with |- context [define ?g ?o ?d ?l] => destruct (define g o d l) end; simpl;
    intros H; inversion H; subst; reflexivity.
Qed.

Lemma extend_stmt_ignore d b b' : extend_stmt d b = Ok b' -> b_ignore b' = b_ignore b.
Proof.
  unfold extend_stmt. destruct (extend d (b_defs b)) as [l|]; simpl; [|discriminate].
  destruct (find_def (d_name d) (b_defs b)) as [old|]; [|intros H; inversion H; subst; reflexivity].
  destruct (d_tree d); [|intros H; inversion H; subst; reflexivity].
  destruct (d_tree old) as [[ | | |o]|]; try (intros H; inversion H; subst; reflexivity).
  destruct (hget o (b_heap b)); intros H; inversion H; subst; reflexivity.
Qed.

Lemma fold_ok_ignore {A} (step : result builder -> A -> result builder) :
  (forall e a, step (Err e) a = Err e) ->
  (forall b a b1, step (Ok b) a = Ok b1 -> b_ignore b1 = b_ignore b) ->
  forall l b b', fold_left step l (Ok b) = Ok b' -> b_ignore b' = b_ignore b.
Proof.
  intros Herr Hstep. induction l as [|a l IH]; simpl; intros b b' H.
  - now inversion H.
  - destruct (step (Ok b) a) as [b1|e] eqn:E.
    + rewrite (IH _ _ H). eauto.
    + assert (Hfold : forall l0, fold_left step l0 (Err e) = Err e).
      { induction l0; simpl; auto. now rewrite Herr. }
      rewrite Hfold in H. discriminate.
Qed.

Lemma apply_stmt_ignore g ls s b b' : ls <> [] -> apply_stmt g ls s b = Ok b' -> b_ignore b' = b_ignore b.
Proof.
  intros Hls. destruct s as [k d|t|sy|p al]; simpl.
  - destruct k. apply define_stmt_ignore. apply define_stmt_ignore. apply extend_stmt_ignore.
  - destruct ls; [contradiction|]. intros H; now inversion H.
  - apply fold_ok_ignore.
    + intros e a. reflexivity.
    + intros b0 a b1. simpl. destruct (negb (fst a)); [discriminate|].
      destruct (define g false _ (b_defs b0)) as [l|]; simpl; [|discriminate].
      intros H; inversion H; subst. reflexivity.
  - intros H; now inversion H.
Qed.

Lemma do_import_ignore loader fs ls b imp b' : do_import loader fs ls b imp = Ok b' -> b_ignore b' = b_ignore b.
Proof. intros H. apply do_import_spec in H. destruct H as (_ & _ & _ & _ & _ & _ & _ & _ & H & _). exact H. Qed.

(* ... so loading a module under an import (non-empty chain), its own %ignore statements and those of
   everything it imports included, leaves the ignore list as it was: %ignore is never imported *)
Theorem imported_module_ignores_nothing fs g : forall fuel ls ms b b',
  ls <> [] -> load fuel fs g ls ms b = Ok b' -> b_ignore b' = b_ignore b.
Proof.
  intros fuel ls ms b b' Hls. destruct fuel as [|f]; [discriminate|].
  rewrite load_S.
  destruct (fold_left _ (collect_imports ms) (Ok b)) as [b1|] eqn:E1; cbn [bind]; [|discriminate].
  destruct (apply_stmts g ls ms b1) as [b2|] eqn:E2; cbn [bind]; [|discriminate].
  destruct (resolve_heap (b_defs b2) (b_heap b2)) as [h|]; cbn [bind]; [|discriminate].
  intros H; inversion H; subst. cbn [b_ignore].
  assert (H1 : b_ignore b1 = b_ignore b).
  { revert E1. apply fold_ok_ignore.
    - intros e a. reflexivity.
    - intros b0 a b3. simpl. apply do_import_ignore. }
  rewrite <- H1. revert E2. unfold apply_stmts. apply fold_ok_ignore.
  - intros e a. reflexivity.
  - intros b0 a b3. simpl. now apply apply_stmt_ignore.
Qed.

(* and what the top-level grammar ignores is decided by its own statements alone (imports change nothing) *)
Theorem top_level_ignore_is_local fs g fuel ms b b' :
  load fuel fs g [] ms b = Ok b' ->
  exists b1, b_ignore b1 = b_ignore b /\ exists b2, apply_stmts g [] ms b1 = Ok b2 /\ b_ignore b' = b_ignore b2.
Proof.
  destruct fuel as [|f]; [discriminate|]. rewrite load_S.
  destruct (fold_left _ (collect_imports ms) (Ok b)) as [b1|] eqn:E1; cbn [bind]; [|discriminate].
  destruct (apply_stmts g [] ms b1) as [b2|] eqn:E2; cbn [bind]; [|discriminate].
  destruct (resolve_heap (b_defs b2) (b_heap b2)) as [h|]; cbn [bind]; [|discriminate].
  intros H; inversion H; subst. exists b1. split.
  - revert E1. apply fold_ok_ignore.
    + intros e a. reflexivity.
    + intros b0 a b3. simpl. apply do_import_ignore.
  - exists b2. split; auto.
Qed.

(* ------------------------------------------------------------------ _make_rule_tuple / _unpack_definition *)
Theorem make_rule_tuple_spec mods name params prio exp d :
  make_rule_tuple mods name params prio exp = Ok d ->
  d_name d = name /\ d_term d = false /\ d_tree d = Some exp /\ d_params d = params /\
  exists keep expand1,
    d_opts d = ORule keep expand1 prio (match params with [] => None | _ => Some name end) /\
    (keep = true <-> exists m, mods = Some m /\ has_chr "!" m = true) /\
    (expand1 = true <-> exists m, mods = Some m /\ has_chr "?" m = true) /\
    (expand1 = true -> String.prefix "_" name = false).
Proof.
  unfold make_rule_tuple. cbv zeta.
  destruct ((match mods with Some m => has_chr "?" m | None => false end) && String.prefix "_" name) eqn:E; [discriminate|].
  intros H; inversion H; subst; clear H. cbn [d_name d_term d_tree d_params d_opts]. repeat split; auto.
  eexists. eexists. split; [reflexivity|]. split; [|split].
  - destruct mods as [m|]; split.
    + intros Hk. eauto.
    + intros (m' & Hm & Hc). inversion Hm; subst. auto.
    + discriminate.
    + intros (m' & Hm & _). discriminate.
  - destruct mods as [m|]; split.
    + intros Hk. eauto.
    + intros (m' & Hm & Hc). inversion Hm; subst. auto.
    + discriminate.
    + intros (m' & Hm & _). discriminate.
  - intros He. rewrite He in E. simpl in E. exact E.
Qed.

Theorem inlined_rule_cannot_be_expand1 m name params prio exp :
  has_chr "?" m = true -> String.prefix "_" name = true ->
  make_rule_tuple (Some m) name params prio exp = Err EInlineExpand1.
Proof. intros H1 H2. unfold make_rule_tuple. cbv zeta. now rewrite H1, H2. Qed.
