(* C17 - interpretation of the BNF-like fragment of definition trees (expansions of expansions of
   symbols: no EBNF operators, templates, aliases, literals) as a grammar of Cfg/Grammar.v.
   Definitions only. *)
From Coq Require Import List String Bool.
From LV Require Import Cfg.Grammar Mod.Modules.
Import ListNotations.
Local Open Scope string_scope.

Fixpoint mapM {A B} (f : A -> option B) (l : list A) : option (list B) :=
  match l with
  | [] => Some []
  | x :: r => match f x, mapM f r with Some y, Some ys => Some (y :: ys) | _, _ => None end
  end.

Section Compile.
  Variable num : string -> nat.     (* numbering of rule names *)
  Variable tnum : string -> nat.    (* token class of a terminal name (what the lexer emits for it) *)

  Definition sym_of (t : tree) : option symbol :=
    match t with
    | Nd d [Sy b n] => if String.eqb d "value" then Some (if b then T (tnum n) else NT (num n)) else None
    | _ => None
    end.

  Definition alt_of (t : tree) : option (list symbol) :=
    match t with
    | Nd d ch => if String.eqb d "expansion" then mapM sym_of ch else None
    | _ => None
    end.

  (* the rules of one definition; terminals contribute none *)
  Definition rules_of (d : defn) : option (list rule) :=
    if d_term d then Some []
    else match d_params d, d_tree d with
         | [], Some (Nd dd alts) =>
             if String.eqb dd "expansions"
             then option_map (map (mkRule (num (d_name d)))) (mapM alt_of alts)
             else None
         | _, _ => None
         end.

  Definition compile (l : list defn) : option grammar := option_map (@List.concat rule) (mapM rules_of l).
End Compile.

(* a concrete numbering of names (never evaluated: it only shows that numberings exist) *)
Fixpoint num_of (s : string) : nat :=
  match s with
  | EmptyString => 0
  | String c r => S (Ascii.nat_of_ascii c + num_of r * 256)
  end.

Fixpoint unnum_fuel (fuel n : nat) : string :=
  match fuel with
  | O => EmptyString
  | S f => match n with
           | O => EmptyString
           | S m => String (Ascii.ascii_of_nat (Nat.modulo m 256)) (unnum_fuel f (Nat.div m 256))
           end
  end.

Definition unnum_of (n : nat) : string := unnum_fuel n n.
